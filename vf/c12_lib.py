"""C12 explorer: primality / factoring / modular helpers on 64-bit inputs (bounded exhaustive).

All C++ lives in harness/c12_*.hh (oracle: c12_oracle.hh, no Au code).  This module builds the
harness binaries against the current tree (no PCH needed: only au/utility/*.hh is included), fans the
enumerations out over processes, collects `S` (stats) / `V` (violation) / `C` (wrap collision) /
`D` (replica divergence) lines and turns them into evidence, violations and replay artefacts.
"""
import functools
import json
import math
import os
import re
import signal
import subprocess
from fractions import Fraction as Fr

from . import core, psx, sweep34

SAN = ["-fsanitize=unsigned-integer-overflow", "-fsanitize-recover=all", "-DC12_SANITIZED=1"]
# is_prime / find_prime_factor under clang's UB sanitizer (signed overflow, shifts, bounds, ...), recover mode
UBF = ["-fsanitize=undefined", "-fno-sanitize=vptr,function", "-fsanitize-recover=all", "-DC12_UBCHECK=1"]
UBENV = {"UBSAN_OPTIONS": "halt_on_error=0:print_stacktrace=0"}
STUBS = {
    "sieve": ("c12_sieve.hh", "c12::sieve_main"),
    "families": ("c12_families.hh", "c12::families_main"),
    "modcube": ("c12_modcube.hh", "c12::modcube_main"),
    "replica": ("c12_replica.hh", "c12r::replica_main"),
    "wrapsq": ("c12_wrapsq.hh", "c12::wrapsq_main"),
    "single": ("c12_single.hh", "c12::single_main"),
}
MR12_BASES = (2, 3, 5, 7, 11, 13, 17, 19, 23, 29, 31, 37)


# ------------------------------------------------------------------------------------------------
# Python-side oracle pieces (big ints; independent of both Au and the C++ oracle)


def py_is_prime(n):
    """Deterministic 12-base Miller-Rabin (valid for n < 3.3e24)."""
    if n < 2:
        return False
    for p in MR12_BASES:
        if n % p == 0:
            return n == p
    d, s = n - 1, 0
    while d % 2 == 0:
        d //= 2
        s += 1
    for a in MR12_BASES:
        x = pow(a, d, n)
        if x in (1, n - 1):
            continue
        for _ in range(s - 1):
            x = x * x % n
            if x == n - 1:
                break
        else:
            return False
    return True


BIG_PRIMES = [541, 547, 65521, 65537, 2147483647, 4294967291, 4294967311, 2 ** 61 - 1,
              2 ** 63 - 25, 2 ** 64 - 59]


@functools.lru_cache(maxsize=None)
def py_factor(n):
    """Canonical factorisation {p: e} by trial division below 2^17; the cofactor must be prime.
    (memoised: callers treat the returned dict as read-only)"""
    f, d = {}, 2
    for p in BIG_PRIMES[2:]:       # grid construction primes (each verified by py_is_prime)
        while n % p == 0:
            f[p] = f.get(p, 0) + 1
            n //= p
    while d * d <= n and d < (1 << 17):
        while n % d == 0:
            f[d] = f.get(d, 0) + 1
            n //= d
        d += 1 if d == 2 else 2
    if n > 1:
        if not py_is_prime(n):
            raise core.InfraError("grid number has an unfactored composite cofactor %d" % n)
        f[n] = f.get(n, 0) + 1
    return f


# ------------------------------------------------------------------------------------------------
# building / running


def build(wd, name, cfg=core.GXX14, flags=(), tag=""):
    hh, fn = STUBS[name]
    src = os.path.join(wd, "%s%s.cc" % (name, tag))
    exe = src[:-3]
    with open(src, "w") as f:
        f.write('#include "%s"\nint main(int c, char **v) { return %s(c, v); }\n' % (hh, fn))
    cmd = core.cc_cmd(cfg, ["-O2"] + list(flags), use_pch=False) + [src, "-o", exe]
    rc, out, err = core.sh(cmd, timeout=900)
    if rc != 0:
        return None, err
    return exe, ""


def must_build(wd, name, cfg=core.GXX14, flags=(), tag=""):
    exe, err = build(wd, name, cfg, flags, tag)
    if exe is None:
        raise core.InfraError("C12 harness %s does not build (%s):\n%s" % (name, cfg, err[-3000:]))
    return exe


def run_bin(exe, args, timeout=7200, env=None):
    e = dict(os.environ)
    e.update(env or {})
    try:
        rc, out, err = core.sh([exe] + [str(a) for a in args], timeout=timeout, env=e)
    except subprocess.TimeoutExpired:
        raise core.InfraError("C12 harness timed out (possible non-termination in the code under "
                              "test): %s %s" % (exe, args))
    # 86: a trap or a non-returning call inside the code under test, reported by the harness as a V line
    if rc != 0 and not (rc == 86 and ("trap-signal" in out or '-hang"' in out or '-trap"' in out)):
        raise core.InfraError("C12 harness %s %s failed rc=%d: %s" % (exe, args, rc, err[-1500:]))
    res = {}
    if rc == 86:
        res["ABORTED"] = [{"args": [str(a) for a in args]}]
    for line in out.split("\n"):
        if len(line) > 2 and line[1] == " " and line[2] == "{":
            try:
                res.setdefault(line[0], []).append(json.loads(line[2:]))
            except ValueError:
                raise core.InfraError("bad harness line from %s: %s" % (exe, line[:200]))
    if "E" in res:
        raise core.InfraError("C12 harness self-check failed: %s" % res["E"][:3])
    return res


def merge(results):
    out = {}
    for r in results:
        for k, v in r.items():
            out.setdefault(k, []).extend(v)
    return out


# ------------------------------------------------------------------------------------------------
# violations


HANG_KINDS = ("is_prime-hang", "factor-hang", "is_prime-trap", "factor-trap")


def vkey(v):
    k = v["kind"]
    if k in HANG_KINDS:
        return "C12:%s:n=%s" % (k, v["n"])
    if k == "ub-report":
        return "C12:ub-report:fn=%s:n=%s" % (v["fn"], v["n"])
    if k == "mod-hang":
        return "C12:mod-hang:op=%s:a=%s:b=%s:n=%s" % (v["op"], v["a"], v["b"], v["n"])
    if k.startswith("is_prime"):
        return "C12:%s:cause=%s:n=%s" % (k, v.get("cause", "other"), v["n"])
    if k == "factor":
        return "C12:factor:n=%s:got=%s" % (v["n"], v["got"])
    if k in ("mod-value", "mod-wrap"):
        return "C12:%s:op=%s:a=%s:b=%s:n=%s" % (k, v["op"], v["a"], v["b"], v["n"])
    return "C12:%s:%s" % (k, json.dumps(v, sort_keys=True))


def vwhat(v):
    k = v["kind"]
    if k in HANG_KINDS:
        fn = "is_prime (or one of its halves miller_rabin / strong_lucas / is_perfect_square)" \
            if k.startswith("is_prime") else "find_prime_factor"
        if k.endswith("-hang"):
            return ("au::detail::%s did not return for n = %s within %s s of CPU time in that single call "
                    "(non-termination; the slowest correct call takes milliseconds)" % (fn, v["n"], v.get("cpu_s")))
        return "au::detail::%s trapped (signal %s) for n = %s" % (fn, v.get("signal"), v["n"])
    if k == "ub-report":
        return ("au::detail::%s(%s): clang's undefined-behaviour sanitizer reported %s time(s) during this "
                "call (-fsanitize=undefined, recover mode, per-call attribution)" % (v["fn"], v["n"], v.get("reports")))
    if k == "mod-hang":
        return ("au::detail::%s(%s, %s, %s) did not return within %s s of CPU time (non-termination)" % (
            v["op"], v["a"], v["b"], v["n"], v.get("cpu_s")))
    if k.startswith("is_prime"):
        s = ("au::detail::is_prime(%s) returned %s but n is %s (%s oracle)" % (
            v["n"], "true" if v["got"] else "false", "prime" if v["want"] else "composite",
            v.get("oracle", "")))
        if v.get("cause") == "sqwrap":
            s += ("; cause: Newton iterate #%s = %s of is_perfect_square has iterate*iterate == n only "
                  "modulo 2^64, so strong_lucas answers COMPOSITE; find_prime_factor(n) not called "
                  "(Pollard rho on a prime does not terminate in practice)" % (
                      v.get("newton_iterate"), v.get("iterate")))
        return s
    if k == "factor":
        return ("au::detail::find_prime_factor(%s) returned %s which is not a prime divisor "
                "(n is %s)" % (v["n"], v["got"], "prime" if v.get("n_is_prime") else "composite"))
    if k == "mod-value":
        return "au::detail::%s(%s, %s, %s) returned %s, exact residue is %s (unsigned __int128)" % (
            v["op"], v["a"], v["b"], v["n"], v["got"], v["want"])
    if k == "mod-wrap":
        return ("au::detail::%s(%s, %s, %s): an intermediate unsigned operation wrapped around "
                "(clang -fsanitize=unsigned-integer-overflow report during this call)" % (
                    v["op"], v["a"], v["b"], v["n"]))
    return json.dumps(v)


class Collector:
    def __init__(self, run):
        self.run = run
        self.seen = {}
        self.single = None
        self.cube = None
        self.cube_san = None
        self.single_ub = None
        self.slow_reproduced = 0

    def _single(self):
        if self.single is None:
            self.single = must_build(self.run.wd, "single")
        return self.single

    def reproduce(self, v):
        """Re-run the one case stand-alone (soundness rule 5)."""
        k = v["kind"]
        if k == "ub-report" or (v.get("build") == "ub" and (k.startswith("is_prime") or k.startswith("factor"))):
            # found by the clang -fsanitize=undefined build: reproduce with the same build (behaviour that
            # rests on undefined behaviour differs between compilers)
            if self.single_ub is None:
                self.single_ub = must_build(self.run.wd, "single", core.CLANG14, UBF, tag="_ub")
            r = run_bin(self.single_ub, ["prime", v["n"]], timeout=600, env=UBENV)
            return [x for x in r.get("V", []) if x["kind"] == k and x.get("fn") == v.get("fn")]
        if k.startswith("is_prime") or k.startswith("factor"):
            # (the single binary carries the same watchdog, so a hang reproduces as a V line)
            r = run_bin(self._single(), ["prime", v["n"]], timeout=600)
            return [x for x in r.get("V", []) if x["kind"] == k]
        if k in ("mod-value", "mod-wrap", "mod-hang"):
            hits = []
            if self.cube is None:
                self.cube = must_build(self.run.wd, "modcube", tag="_rp")
                self.cube_san = must_build(self.run.wd, "modcube", core.CLANG14, SAN, tag="_rpsan")
            for exe in (self.cube, self.cube_san):
                r = run_bin(exe, ["single", v["op"], v["a"], v["b"], v["n"]], env=UBENV)
                hits += [x for x in r.get("V", []) if x["kind"] == k]
            return hits
        return [v]

    def add(self, v, source):
        key = vkey(v)
        if key in self.seen:
            return
        self.seen[key] = v
        what = vwhat(v) + " [found by: %s]" % source
        slow = v["kind"].endswith("-hang")      # each stand-alone reproduction burns the watchdog interval
        if slow:
            self.slow_reproduced += 1
        if len(self.seen) <= 25 and (not slow or self.slow_reproduced <= 3) and not self.reproduce(v):
            raise core.InfraError("violation did not reproduce stand-alone: %s" % key)
        rp = self.run.write_replay(key, {"kind": v["kind"], "case": v, "what": what,
                                         "source": source})
        self.run.violation(key, what + " [replay: %s]" % rp, rp)

    def add_all(self, vs, source):
        for v in sorted(vs, key=lambda x: json.dumps(x, sort_keys=True)):
            self.add(v, source)


# ------------------------------------------------------------------------------------------------
# (1) exhaustive range against the segmented sieve


class SieveSweep:
    """MODE bits of the sieve worker: 1 is_prime, 2 find_prime_factor, 4 pseudoprime search.
    Tasks are (mode, lo, hi, est_seconds); a task is skipped when less than est is left."""

    def __init__(self, run, col, exe, limit_log2):
        self.run, self.col, self.exe, self.limit_log2 = run, col, exe, limit_log2
        self.done = {1: [], 2: [], 4: []}
        self.res = []
        self.planned = 0

    def sweep(self, order, budget_s, timeout):
        run = self.run
        t_end = run.elapsed() + budget_s
        self.planned += len(order)

        def job(task):
            mode, lo, h, est = task
            if min(run.time_left(), t_end - run.elapsed()) < est:
                return None
            return task, run_bin(self.exe, [lo, h, mode], timeout=timeout)

        new = []
        for item in core.pmap(job, order):
            if item is None:
                continue
            (mode, lo, h, est), r = item
            for m in (1, 2, 4):
                if mode & m and "ABORTED" not in r:     # (a worker stopped by its watchdog did not finish)
                    self.done[m].append((lo, h))
            self.res.append(r)
            new.append(r)
        self.col.add_all(merge(new).get("V", []), "sieve sweep")

    def coverage(self):
        m = merge(self.res)
        done = self.done

        def prefix(lst):
            """largest H such that [0, H) is completely covered"""
            H = 0
            for lo, h in sorted(lst):
                if lo != H:
                    break
                H = h
            return H

        st = m.get("S", [])
        tot = lambda k: sum(s[k] for s in st)
        spsp2 = sorted(int(x) for p in m.get("P", []) for x in p["spsp2"])
        slpsp = sorted(int(x) for p in m.get("P", []) for x in p["slpsp"])
        cov = {
            "sieve_limit_log2": self.limit_log2,
            "sieve_is_prime_exhaustive_below": prefix(done[1]),
            "sieve_find_prime_factor_exhaustive_below": prefix(done[2]),
            "sieve_pseudoprime_search_exhaustive_below": prefix(done[4]),
            "sieve_tasks_done": len(self.res), "sieve_tasks_planned": self.planned,
            "sieve_is_prime_evals": tot("evals_prime"),
            "sieve_factor_evals": tot("evals_factor"),
            "sieve_primes_seen": sum(s["primes"] for s in st if s["fmode"] & 1),
            "sieve_factor_pollard_or_big": tot("factor_big"),
            "strong_base2_pseudoprimes_found": len(spsp2),
            "strong_lucas_pseudoprimes_found": len(slpsp),
            "pseudoprimes_to_both_tests": tot("both_psp"),
            "au_miller_rabin2_agrees_on_pseudoprimes": tot("au_mr2_agree"),
            "au_strong_lucas_agrees_on_pseudoprimes": tot("au_lucas_agree"),
            "component_divergence_on_pseudoprimes": tot("component_div"),
            "pseudoprime_samples": {"spsp2": spsp2[:5] + spsp2[-3:], "slpsp": slpsp[:5] + slpsp[-3:]},
        }
        nontriv = sum(1 for s in st if (s["fmode"] & 1) and s["primes"] > 0 and s["composites"] > 0)
        return cov, cov["sieve_is_prime_evals"] + cov["sieve_factor_evals"], nontriv


def sieve_plan(limit_log2):
    """-> (is_prime tasks, factor tasks) in priority order."""
    hi = 1 << limit_log2
    mid = min(hi, 1 << 28)
    s1, s2 = 1 << 22, 1 << 24
    first = [(5, lo, min(lo + s1, mid), 20) for lo in range(0, mid, s1)]
    first += [(1, lo, min(lo + s2, hi), 40) for lo in range(mid, hi, s2)]
    second = [(2, lo, min(lo + s1, mid), 25) for lo in range(0, mid, s1)]
    second += [(2, lo, min(lo + s2, hi), 120) for lo in range(mid, hi, s2)]
    return first, second


# ------------------------------------------------------------------------------------------------
# (2) structured 64-bit families


FAMILY_ARGS = {"quick": [60, 16, 4, 8192], "thorough": [300, 64, 64, 65536]}
FAMILY_P0 = {"quick": 100, "thorough": 20}


def explore_families(run, col, exe, tier, do_factor, timeout):
    args = FAMILY_ARGS[tier]
    np_ = core.NCPU * 2
    m = merge(core.pmap(lambda p: run_bin(exe, [p, np_] + args + [int(do_factor), FAMILY_P0[tier]],
                                          timeout=timeout), range(np_)))
    col.add_all(m.get("V", []), "structured 64-bit families")
    fam = {}
    for s in m.get("S", []):
        d = fam.setdefault(s["family"], {})
        for k, v in s.items():
            if k == "family":
                continue
            if k in ("family_size", "window_primes", "candidates_scanned"):
                d[k] = max(d.get(k, 0), v)
            else:
                d[k] = d.get(k, 0) + v
    evals = sum(d["evals_prime"] + d["evals_factor"] for d in fam.values())
    both = (sum(d["primes"] for d in fam.values()) > 0) + (sum(d["composites"] for d in fam.values()) > 0)
    nontriv = len([1 for d in fam.values() if d["evals_prime"] > 0]) if both == 2 else 0
    return {"families": fam, "families_with_find_prime_factor": bool(do_factor),
            "family_params": dict(zip(["W", "NEAR", "HARD", "PSPWIN", "P0"], args + [FAMILY_P0[tier]])),
            "family_samples": m.get("X", [])[:24]}, evals, nontriv


def explore_ub(run, col, exe_fam_ub, exe_sieve_ub, tier, timeout):
    """is_prime / find_prime_factor under clang -fsanitize=undefined (recover mode, report hook): the
    structured families once more and two exhaustive windows [0, 2^a) and [2^32 - 2^b, 2^32).  Any
    report attributed to a call of the code under test is a violation (kind ub-report)."""
    quick = tier == "quick"
    args, p0 = ([24, 4, 1, 1024], 400) if quick else (FAMILY_ARGS["quick"], FAMILY_P0["quick"])
    np_ = core.NCPU * 2
    jobs = [(exe_fam_ub, [p, np_] + args + [1, p0]) for p in range(np_)]
    lo_top, hi_low, step = ((1 << 32) - (1 << 20), 1 << 22, 1 << 20) if quick else \
                           ((1 << 32) - (1 << 24), 1 << 26, 1 << 22)
    ranges = [(lo, lo + step) for lo in range(0, hi_low, step)] + \
             [(lo, lo + step) for lo in range(lo_top, 1 << 32, step)]
    jobs += [(exe_sieve_ub, [lo, h, 3]) for lo, h in ranges]
    rs = core.pmap(lambda j: run_bin(j[0], j[1], timeout=timeout, env=UBENV), jobs)
    m = merge(rs)
    if len(m.get("H", [])) != len(jobs) or not all(h["hook_ok"] for h in m["H"]):
        raise core.InfraError("UBSan report hook is not live in the sanitized families/sieve build")
    for v in m.get("V", []):
        v["build"] = "ub"
    col.add_all(m.get("V", []), "families + sieve windows under clang -fsanitize=undefined")
    st = m.get("S", [])
    evals = sum(s.get("evals_prime", 0) + s.get("evals_factor", 0) for s in st)
    cov = {"ub_sanitized_evals": evals, "ub_reports_attributed": sum(s.get("ub_reports", 0) for s in st),
           "ub_sanitized_sieve_windows": [[lo, h] for lo, h in ranges][:2] + [[ranges[-1][0], ranges[-1][1]]],
           "ub_sanitized_sieve_window_count": len(ranges), "ub_flags": UBF[:3],
           "ub_family_params": dict(zip(["W", "NEAR", "HARD", "PSPWIN", "P0"], args + [p0]))}
    return {"ub_sanitizer": cov}, evals, 0


# ------------------------------------------------------------------------------------------------
# (3) modular-helper cube, plain and under the unsigned-overflow sanitizer


def explore_modcube(run, col, exe, exe_san, tier):
    K = 8 if tier == "quick" else 64
    np_ = core.NCPU
    jobs = [(exe, p, {}) for p in range(np_)] + [(exe_san, p, UBENV) for p in range(np_)]
    rs = core.pmap(lambda j: (j[0], run_bin(j[0], [j[1], np_, K], timeout=3600, env=j[2])), jobs)
    plain = merge(r for e, r in rs if e == exe)
    san = merge(r for e, r in rs if e == exe_san)
    if not san.get("H") or not all(h["hook_ok"] for h in san["H"]):
        raise core.InfraError("UBSan report hook is not live in the sanitized modcube build")
    col.add_all(plain.get("V", []), "modular cube (g++ -O2)")
    col.add_all(san.get("V", []), "modular cube (clang++ -O2 unsigned-integer-overflow sanitizer)")
    sp, ss = plain.get("S", []), san.get("S", [])
    tot = lambda st, k: sum(s[k] for s in st)
    cov = {"modcube_K": K, "modcube_moduli": tot(sp, "moduli"),
           "modcube_evals_plain": tot(sp, "evals"), "modcube_evals_sanitized": tot(ss, "evals"),
           "modcube_mul_overflow_path": tot(sp, "mul_overflow_path"),
           "modcube_mul_fit_path": tot(sp, "mul_fit_path"),
           "modcube_pow_evals": tot(sp, "pow_evals"),
           "modcube_lattice_evals": tot(sp, "lattice_evals"),
           "modcube_lattice_overflow_path": tot(sp, "lattice_overflow_path"),
           "modcube_lattice_overflow_path_rem_ge8": tot(sp, "lattice_overflow_rem_ge8"),
           "modcube_lattice_overflow_path_n_above_2_63": tot(sp, "lattice_n_above_2_63"),
           "modcube_lattice_alphabet": (
               "per modulus n: a in cube operands + floor(n*i/32)+{-1,0,1} (i=1..31) + k*2^j (k=3,5,7; "
               "j=0,4..60); per a: b = q*floor(n/a) + r, q in {1,2,3,4,7,8,15,16,17,2^8,2^16,..,2^48,"
               "qmax/3,qmax/2,qmax-1,qmax}, r in {0..16, cs/2, cs-2, cs-1}, plus floor(n*i/32)+{-1,0,1}; "
               "add_mod, sub_mod, mul_mod on every pair vs unsigned __int128"),
           "modcube_wrap_reports": tot(ss, "wraps")}
    nontriv = sum(1 for s in sp if s["mul_overflow_path"] > 0 and s["mul_fit_path"] > 0)
    return cov, cov["modcube_evals_plain"] + cov["modcube_evals_sanitized"], nontriv


# ------------------------------------------------------------------------------------------------
# (4) small-word replica of mod.hh.  A replica divergence itself is MODEL-DIVERGENCE only; but each one is
# scaled to 64 bits and re-run through the real helper as an ordinary cube case (a violation if it fails).


def scaled_cases(d, W):
    """64-bit images of a W-bit divergence (op, a, b, n).  mul_mod's slow path is homogeneous under
    (a, b, n) -> (a*2^s, b, n*2^s), s = 64 - W (same chunk size, same chunk count, scaled residues);
    add/sub are homogeneous under scaling all three; the other enumerated shapes are tried as well."""
    s_ = 64 - W
    a, b, n, op = d["a"], d["b"], d["n"], d["op"]
    fill = (1 << s_) - 1
    shapes = [(a << s_, b, n << s_), (a << s_, b << s_, n << s_), (a, b << s_, n << s_),
              ((a << s_) | fill, (b << s_) | fill, (n << s_) | fill), (a, b, n << s_), (a, b, n)]
    out = []
    for (x, y, m) in shapes:
        if op == "pow_mod":
            ok = m >= 2 and x < (1 << 64) and y < (1 << 64)
        elif op == "half_mod_odd":
            m |= 1
            y = 0
            ok = x < m
        else:
            ok = x < m and y < m
        if ok and m < (1 << 64) and (op, x, y, m) not in out:
            out.append((op, x, y, m))
    return out


def explore_replica(run, tier, col=None, cube=None, cube_san=None):
    cov = {}
    evals = 0
    for W in ([8] if tier == "quick" else [8, 10]):
        exe, err = build(run.wd, "replica", core.GXX14, ["-DC12_W=%d" % W], tag="_w%d" % W)
        if exe is None:
            # e.g. a repaired mod.hh that no longer compiles over a class type: replica-only effect
            cov["replica_W%d" % W] = {"MODEL-DIVERGENCE": "replica does not build against this tree",
                                      "diag": core._first_error(err)}
            continue
        np_ = core.NCPU
        m = merge(core.pmap(lambda p: run_bin(exe, [p, np_], timeout=3600), range(np_)))
        st = m.get("S", [])
        d = {"triples_and_pow_evals": sum(s["evals"] for s in st),
             "mul_overflow_path": sum(s["mul_overflow_path"] for s in st),
             "trapped_wraps": sum(s["trapped"] for s in st),
             "value_divergences": sum(s["divergences"] for s in st),
             "exhaustive": True}
        if m.get("D"):
            d["MODEL-DIVERGENCE"] = m["D"][:10]
            if col is not None and cube is not None:
                cases = []
                for dv in sorted(m["D"], key=lambda x: json.dumps(x, sort_keys=True))[:24]:
                    for c in scaled_cases(dv, W):
                        if c not in cases:
                            cases.append(c)
                jobs = [(e, c) for c in cases for e in (cube, cube_san)]
                rs = core.pmap(lambda j: run_bin(j[0], ["single"] + list(j[1]), timeout=120, env=UBENV), jobs)
                vs = merge(rs).get("V", [])
                col.add_all(vs, "W=%d replica divergence scaled to 64 bits" % W)
                d["scaled_to_64_bit_cases"] = len(cases)
                d["scaled_to_64_bit_violations"] = len(vs)
                evals += len(jobs)
        cov["replica_W%d" % W] = d
        evals += d["triples_and_pow_evals"]
    return {"small_word_replica": cov}, evals


# ------------------------------------------------------------------------------------------------
# (6) wrap-collision family for is_perfect_square


def newton_A(n, J):
    """Actual A_j = 2^(j+1) c_j - n of the real iteration (Python big ints)."""
    c, out = n // 2, {}
    for j in range(1, J + 1):
        c2 = (c + n // c) // 2
        out[j] = (1 << (j + 1)) * c2 - n
        if c2 >= c:
            break
        c = c2
    return out


def wrap_windows(k):
    """Interval arithmetic (exact rationals, rounded outward each step) for A_j over the octave
    2^k <= n < 2^(k+1), j = 1 .. k-33 (iterates below 2^32 cannot wrap).
    A_j in ( f(A_{j-1}, n) - 2^(j+1), f(A_{j-1}, n) ],  f(A, n) = A + 4^j - 4^j A / (n + A)."""
    nmin, nmax = 1 << k, (1 << (k + 1)) - 1
    lo, hi = -1, 0
    out = {}
    for j in range(1, k - 33 + 1):
        vals = [A + 4 ** j - Fr(4 ** j * A, n + A) for A in (lo, hi) for n in (nmin, nmax)]
        lo, hi = math.floor(min(vals)) - 2 ** (j + 1), math.ceil(max(vals))
        out[j] = (lo, hi)
    return out


def wrap_plan(budget):
    cells = []
    for k in range(34, 64):
        w = wrap_windows(k)
        # empirical validation of the interval arithmetic on a deterministic grid of the octave
        for i in range(96):
            for n in ((1 << k) + i * ((1 << k) // 96) + (i % 5), (1 << (k + 1)) - 1 - i * i * i):
                for j, A in newton_A(n, k - 33).items():
                    if j in w and not (w[j][0] <= A <= w[j][1]):
                        raise core.InfraError("wrap window too narrow: k=%d j=%d n=%d A=%d window=%s"
                                              % (k, j, n, A, w[j]))
        for j, (lo, hi) in w.items():
            half = (hi - lo + 1) // 2          # widen x2
            cells.append((hi - lo + 1 + 2 * half, j, k, lo - half, hi + half))
    cells.sort()
    chosen, skipped, used = [], [], 0
    for c in cells:
        if used + c[0] <= budget:
            chosen.append(c)
            used += c[0]
        else:
            skipped.append(c)
    return chosen, skipped, used


def explore_wrapsq(run, col, exe, budget, tag):
    chosen, skipped, used = wrap_plan(budget)
    PIECE = 1 << 21
    pieces = []
    for size, j, k, lo, hi in chosen:
        a = lo
        while a <= hi:
            b = min(a + PIECE - 1, hi)
            pieces.append((j, k, a, b))
            a = b + 1
    nfiles = max(1, min(len(pieces), core.NCPU * 4))
    files = []
    for i in range(nfiles):
        p = os.path.join(run.wd, "wrap_%s_%d.txt" % (tag, i))
        with open(p, "w") as f:
            for (j, k, a, b) in pieces[i::nfiles]:
                f.write("%d %d %d %d\n" % (j, k, a, b))
        files.append(p)
    m = merge(core.pmap(lambda p: run_bin(exe, [p, 0], timeout=3000), files))
    if not m.get("T") or not all(t["solver_selftest_ok"] for t in m["T"]):
        raise core.InfraError("2-adic square-root solver failed its brute-force self-test")
    # a direct call of the internal helper is_perfect_square that hangs / traps is not judged by itself (the
    # statement names is_prime / find_prime_factor): the same n goes through those, stand-alone
    direct = [v for v in m.get("V", []) if v["kind"].startswith("is_perfect_square-")]
    m["V"] = [v for v in m.get("V", []) if not v["kind"].startswith("is_perfect_square-")]
    if direct:
        r = run_bin(col._single(), ["prime"] + sorted(set(v["n"] for v in direct)), timeout=600)
        m["V"] += r.get("V", [])
    col.add_all(m.get("V", []), "is_perfect_square wrap-collision search (Hensel lifting)")
    st = m.get("S", [])
    tot = lambda k: sum(s[k] for s in st)
    colls = {}
    for c in m.get("C", []):
        colls[c["n"]] = c
    colls = [colls[n] for n in sorted(colls, key=int)]
    for c in colls:
        # second route: the collision must also be one for Python's big-int replay of the iteration
        n, j = int(c["n"]), c["actual_iterate_index"]
        if j > 0:
            it = (newton_A(n, j)[j] + n) >> (j + 1)
            if it != int(c["actual_iterate"]) or (it * it) % (1 << 64) != n or it * it == n:
                raise core.InfraError("collision routes disagree for n=%d" % n)
    cov = {
        "wrap_cells_completed": len(chosen), "wrap_cells_skipped": len(skipped),
        "wrap_max_j_complete_for_k63": max([c[1] for c in chosen if c[2] == 63] or [0]),
        "wrap_skipped_cells_smallest": [{"j": c[1], "k": c[2], "A_values": c[0]} for c in skipped[:4]],
        "wrap_A_values": tot("a_values"), "wrap_roots_lifted": tot("solutions"),
        "wrap_candidates_n": tot("candidates"), "wrap_degenerate_even_residues": tot("degenerate"),
        "wrap_collisions": len(colls),
        "wrap_collisions_where_au_is_perfect_square_is_wrong":
            sum(1 for c in colls if c["au_is_perfect_square"] >= 0 and
                bool(c["au_is_perfect_square"]) != bool(c["exact_square"])),
        "wrap_collisions_prime": [c["n"] for c in colls if c["prime"]],
        "wrap_collision_list": [{"n": c["n"], "iterate_index": c["actual_iterate_index"],
                                 "iterate": c["actual_iterate"], "prime": c["prime"],
                                 "au_is_perfect_square": c["au_is_perfect_square"]} for c in colls],
        "wrap_solver_selftest_cases": m["T"][0]["cases"],
        "wrap_workers_stopped_by_direct_is_perfect_square_hang": len(direct),
    }
    evals = tot("evals_prime") + tot("evals_factor") + tot("a_values")
    nontriv = (1 if tot("primes") and tot("composites") else 0) + len(colls)
    return cov, evals, nontriv


# ------------------------------------------------------------------------------------------------
# (5) compile time: mag<a>() * mag<b>() == mag<a*b>(), canonical form, type identity

def ct_pool(tier):
    """number -> 'light' | 'heavy' (heavy: Pollard rho with ~2^31 factors at compile time)."""
    pool = {}
    for p in BIG_PRIMES:
        if not py_is_prime(p):
            raise core.InfraError("grid prime %d is not prime" % p)
    small = list(range(1, 37)) if tier == "thorough" else [1, 2, 3, 6, 10, 12, 36]
    pp = [2 ** 16, 2 ** 32, 2 ** 63, 3 ** 20, 3 ** 40, 5 ** 27, 10 ** 9, 10 ** 19, 1000, 3600]
    fact = [479001600, 614889782588491410]
    near = [2 ** 16 + 1, 2 ** 32 - 1, 2 ** 32 + 1, 2 ** 64 - 1]
    semi = [541 * 547, 65521 * 65537, 65537 ** 2, 65537 * 2147483647, 547 * 563 * 677]
    if tier == "thorough":
        pp += [2 ** 8, 2 ** 31, 2 ** 33, 2 ** 48, 2 ** 62, 5 ** 13, 7 ** 11, 7 ** 22, 11 ** 18, 13 ** 17,
               10 ** 6, 10 ** 12, 10 ** 18, 1024, 86400, 1852, 5280, 25400, 1609344, 45359237]
        fact += [2432902008176640000]
        near += [2 ** 16 - 1, 2 ** 31 - 1, 2 ** 31 + 1]
        semi += [547 ** 2, 547 ** 3]
    for n in small + pp + fact + near + semi + BIG_PRIMES:
        pool[n] = "light"
    if tier == "thorough":
        for n in [2147483647 ** 2, 2147483647 * 4294967291, 4294967291 ** 2]:
            pool[n] = "heavy"
    return pool


def meta_factor(m):
    """Factorisation of a record's number; a pair's product is the merge of its operands' factors."""
    if m["kind"] == "single":
        return py_factor(m["n"])
    f = dict(py_factor(m["a"]))
    for p, e in py_factor(m["b"]).items():
        f[p] = f.get(p, 0) + e
    n = 1
    for p, e in f.items():
        n *= p ** e
    assert n == m["n"]
    return f


def magjson_expected(m):
    return [[str(p), e, 1] for p, e in sorted(meta_factor(m).items())]


def spelled(f):
    """The canonical type spelled by hand from a factorisation {p: e}: ascending primes, a bare
    au::Prime<p> for exponent 1 (what SimplifyBasePowersT leaves), au::Pow<au::Prime<p>, e> otherwise."""
    return "au::Magnitude<%s>" % ", ".join(
        "au::Prime<%dULL>" % q if e == 1 else "au::Pow<au::Prime<%dULL>, %d>" % (q, e)
        for q, e in sorted(f.items()))


def py_sprp(n, a):
    d, s_ = n - 1, 0
    while d % 2 == 0:
        d //= 2
        s_ += 1
    x = pow(a, d, n)
    if x in (1, n - 1):
        return True
    for _ in range(s_ - 1):
        x = x * x % n
        if x == n - 1:
            return True
    return False


def _prime_near(n, step):
    n += step
    while not py_is_prime(n):
        n += step
    return n


def ct_prime_numbers(extra=()):
    """Adversarial inputs for is_prime / find_prime_factor *in constant evaluation*, all constructed here by
    big-int searches (nothing is taken on trust; every verdict comes from py_is_prime at judging time)."""
    T32, T63, T64 = 2 ** 32, 2 ** 63, 2 ** 64
    out = [0, 1, 2, 3, 4, 9, 25, 541, 547, 541 * 541, 541 * 547, 547 * 547, 547 * 563 * 677,
           561, 1729, 2 ** 31 - 1, 2 ** 61 - 1, T32 + 1, T64 - 1, T63, 3215031751, 3825123056546413051]
    p64a = _prime_near(T64, -1)
    out += [p64a, _prime_near(p64a, -1), _prime_near(T63, -1), _prime_near(T63, 1),
            _prime_near(T32, -1), _prime_near(T32, 1)]
    q32, q31 = _prime_near(T32, -1), _prime_near(2 ** 31, 1)
    out += [q32 * q32, q31 * q31, 65537 ** 2, q32 * _prime_near(q32, -1), q32 * q31]
    k = int(round((T64 / 1296.0) ** (1.0 / 3))) + 2          # largest Carmichael (6k+1)(12k+1)(18k+1) < 2^64
    while True:
        n = (6 * k + 1) * (12 * k + 1) * (18 * k + 1)
        if n < T64 and all(py_is_prime(x) for x in (6 * k + 1, 12 * k + 1, 18 * k + 1)):
            out.append(n)
            break
        k -= 1
    got = 0                                                   # smallest base-2 strong pseudoprimes
    n = 9
    while got < 3:
        if py_sprp(n, 2) and not py_is_prime(n):
            out.append(n)
            got += 1
        n += 2
    out += [w * w for w in (1093, 3511) if py_sprp(w * w, 2)]  # Wieferich squares: spsp(2) and perfect squares
    got, q = 0, 2 ** 31                                       # 64-bit base-2 strong pseudoprimes p*(2p-1)
    while got < 2:
        q = _prime_near(q, 1)
        if py_is_prime(2 * q - 1) and py_sprp(q * (2 * q - 1), 2):
            out.append(q * (2 * q - 1))
            got += 1
    out += [int(x) for x in extra]
    res = []
    for n in out:
        if 0 <= n < T64 and n not in res:
            res.append(n)
    return res


def _cheap_to_factor(n):
    """find_prime_factor(n) stays light in constant evaluation: prime, a factor <= 541, or n < 2^40."""
    return n > 1 and (n < 2 ** 40 or py_is_prime(n) or any(n % q == 0 for q in range(2, 542)))


def ct_records(tier, extra=()):
    pool = ct_pool(tier)
    nums = sorted(pool)
    recs, meta = [], {}
    rid = 0
    M = lambda n: "au::mag<%dULL>()" % n
    T = lambda n: "decltype(au::mag<%dULL>())" % n
    for n in nums:
        st = ['vf_kv("mag", vf::MagJson<%s>::get());' % T(n),
              'vf_b("ne_next", %s == %s);' % (M(n), M(n + 1 if n + 1 < 2 ** 64 else n - 1)),
              'vf_b("spelled", std::is_same<%s, %s>::value);' % (T(n), spelled(py_factor(n)))]
        if n * n < 2 ** 64:
            st.append('vf_b("sq", au::pow<2>(%s) == %s);' % (M(n), M(n * n)))
        recs.append((rid, st))
        meta[rid] = {"kind": "single", "n": n, "heavy": pool[n] == "heavy"}
        rid += 1
    core_nums = set(ct_pool("quick"))
    for i, a in enumerate(nums):
        for b in nums[i:]:
            if a == 1 or a * b >= 2 ** 64:
                continue
            if a not in core_nums and b not in core_nums:
                continue        # thorough: every grid number is paired with every core number
            ab = a * b
            meta[rid] = {"kind": "pair", "a": a, "b": b, "n": ab,
                         "heavy": "heavy" in (pool[a], pool[b])}
            f = meta_factor(meta[rid])
            st = ['vf_b("prod", %s * %s == %s);' % (M(a), M(b), M(ab)),
                  'vf_b("same", std::is_same<decltype(%s * %s), %s>::value);' % (M(a), M(b), T(ab)),
                  'vf_b("comm", std::is_same<decltype(%s * %s), %s>::value);' % (M(b), M(a), T(ab)),
                  'vf_b("spelled", std::is_same<decltype(%s * %s), %s>::value);' % (M(a), M(b), spelled(f)),
                  'vf_b("quot", %s / %s == %s);' % (M(ab), M(b), M(a)),
                  'vf_kv("mag", vf::MagJson<%s>::get());' % T(ab)]
            recs.append((rid, st))
            if sum(e for p, e in f.items() if p > 2 ** 20) >= 2:
                meta[rid]["heavy"] = True
            rid += 1
    # is_prime / find_prime_factor forced into constant evaluation (template arguments)
    for n in ct_prime_numbers(extra):
        st = ['vf_b("ct_prime", std::integral_constant<bool, au::detail::is_prime(%dULL)>::value);' % n]
        fac = _cheap_to_factor(n)
        if fac:
            st.append('vf_s("ct_factor", std::to_string(std::integral_constant<std::uintmax_t, '
                      'au::detail::find_prime_factor(%dULL)>::value));' % n)
        recs.append((rid, st))
        meta[rid] = {"kind": "ctp", "n": n, "factor": fac, "heavy": False}
        rid += 1
    return recs, meta


def ct_judge(meta, o):
    """-> list of (what-failed) for one observed record."""
    bad = []
    if meta["kind"] == "ctp":
        n = meta["n"]
        if o.get("ct_prime") is not py_is_prime(n):
            bad.append("au::detail::is_prime(%d) in constant evaluation gave %s, n is %s (12-base Miller-Rabin)"
                       % (n, o.get("ct_prime"), "prime" if py_is_prime(n) else "composite"))
        if meta["factor"]:
            try:
                f = int(o.get("ct_factor"))
            except (TypeError, ValueError):
                f = 0
            if not (f > 1 and n % f == 0 and py_is_prime(f)):
                bad.append("au::detail::find_prime_factor(%d) in constant evaluation gave %s, not a prime "
                           "divisor" % (n, o.get("ct_factor")))
        return bad
    if o.get("mag") != magjson_expected(meta):
        bad.append("mag<%d>() read out as %s, canonical factorisation is %s" % (
            meta["n"], json.dumps(o.get("mag")), json.dumps(magjson_expected(meta))))
    if o.get("spelled") is not True:
        bad.append("the type of %s is not the hand-spelled canonical type %s" % (
            "mag<%d>()" % meta["n"] if meta["kind"] == "single" else
            "mag<%d>()*mag<%d>()" % (meta["a"], meta["b"]), spelled(meta_factor(meta))))
    if meta["kind"] == "single":
        if o.get("ne_next") is not False:
            bad.append("mag<%d>() compares equal to the magnitude of a neighbouring integer" % meta["n"])
        if "sq" in o and o["sq"] is not True:
            bad.append("pow<2>(mag<%d>()) != mag<%d>()" % (meta["n"], meta["n"] ** 2))
    else:
        for k, txt in (("prod", "mag<a>()*mag<b>() == mag<a*b>() is false"),
                       ("same", "decltype(mag<a>()*mag<b>()) is not the type of mag<a*b>()"),
                       ("comm", "decltype(mag<b>()*mag<a>()) is not the type of mag<a*b>()"),
                       ("quot", "mag<a*b>()/mag<b>() == mag<a>() is false")):
            if o.get(k) is not True:
                bad.append("%s for a=%d b=%d" % (txt, meta["a"], meta["b"]))
    return bad


# Diagnostics of a record that does not compile.  Only exhausted constexpr / template budgets are outside
# the statement ("whenever it compiles" cannot excuse a static_assert of the library firing on a number
# below 2^64); everything else is a hard error = lost domain = violation.
BUDGET_RE = re.compile(r"-fconstexpr-(ops-limit|loop-limit|depth)|-ftemplate-depth|hit maximum step limit|"
                       r"exceeded maximum depth")
# (the static_assert *failed*; the bare message text also shows up in g++'s source-line echo when the
# condition merely is non-constant because a budget ran out, which must stay don't-care)
HARD_RE = re.compile(r"(static assertion failed|static_assert failed)[^\n]*"
                     r"(Prime<N> requires that N is prime|Ill-formed Magnitude|Bases must be listed in "
                     r"ascending order|All powers must be nonzero|Can only factor positive integers)")


def ct_classify(err):
    """-> ('ok'|'budget'|'hard', one-line diagnostic)"""
    first = core._first_error(err)
    if not first:
        return "ok", ""
    h = HARD_RE.search(err)
    if h:
        return "hard", "%s  [%s]" % (h.group(2), first[:200])
    if BUDGET_RE.search(err):
        return "budget", first[:200]
    return "hard", first[:260]


CT_TIMEOUT = 150       # s; one compile of the compile-time grid (a chunk of 40 takes 5-10 s on an idle box)


def sh_group(cmd, timeout):
    """core.sh in its own process group, the whole group (driver + cc1) killed on timeout.
    -> (rc, stdout, stderr); rc = None on timeout."""
    p = subprocess.Popen(cmd, stdout=subprocess.PIPE, stderr=subprocess.PIPE, start_new_session=True)
    try:
        out, err = p.communicate(timeout=timeout)
    except subprocess.TimeoutExpired:
        try:
            os.killpg(p.pid, signal.SIGKILL)
        except OSError:
            pass
        p.communicate()
        return None, "", ""
    return p.returncode, out.decode("utf-8", "replace"), err.decode("utf-8", "replace")


def errlim(cfg):
    # g++ gives the reason of a non-constant condition (e.g. the exhausted budget) as a second error
    return "-ferror-limit=1" if cfg.is_clang else "-fmax-errors=3"


def ct_diagnose(cfg, src, pch=True):
    """Why does this TU not compile?  First under the compilers' *default* constexpr budgets, first error
    only (after a hard error, error recovery can send constant evaluation into a runaway loop that only the
    2e9-step raised budget ends, minutes later): a hard diagnostic there is final.  Only if the default
    budgets are what stops it, once more under the raised budgets with a time limit.
    -> ('ok'|'budget'|'hard', one-line diagnostic)"""
    inc = ["-I" + core.AU_INC, "-I" + core.HARNESS]
    if pch:     # the all-headers prefix as text (the PCH itself is tied to the raised-budget flags)
        inc += ["-I" + core.pch_dir(cfg, sweep34.cflags(cfg)), "-include", "all.hh"]
    base = [cfg.cxx, "-std=" + cfg.std, "-w"] + inc
    rc, out, err = sh_group(base + ["-fsyntax-only", errlim(cfg), src], CT_TIMEOUT)
    if rc is None:
        return "budget", "no verdict within %d s under the default constexpr budgets" % CT_TIMEOUT
    c, diag = ct_classify(err if rc != 0 else "")
    if c != "budget":
        return c, diag
    cmd = (core.cc_cmd(cfg, sweep34.cflags(cfg)) if pch else base + sweep34.cflags(cfg))
    rc, out, err = sh_group(cmd + ["-fsyntax-only", errlim(cfg), src], CT_TIMEOUT)
    if rc is None:
        return "budget", "no verdict within %d s under the raised constexpr budgets" % CT_TIMEOUT
    return ct_classify(err if rc != 0 else "")


def ct_compile_alone(cfg, rec, wd, tag):
    src = os.path.join(wd, "%s_%s_%d.cc" % (tag, cfg.name, rec[0]))
    psx.emit_dump(src, [rec], "")
    return ct_diagnose(cfg, src)


def ct_key(m, cfg, hard=False):
    if m["kind"] == "ctp":
        return "C12:%s:n=%d:cfg=%s" % ("ct-hard-error" if hard else "ct-eval", m["n"], cfg.name)
    return "C12:%s:n=%d:a=%s:b=%s:cfg=%s" % ("mag-hard-error" if hard else "mag:" + m["kind"], m["n"],
                                              m.get("a", ""), m.get("b", ""), cfg.name)


def ct_dump(cfg, records, wd, tag, chunk=40):
    """Like psx.run_dump, but a chunk that does not compile is not bisected: each of its records is
    compiled alone once (syntax only, full diagnostics, classified), the ones that compile are then
    observed together.  Bounded work even when most records fail.  -> (results, {rid: (class, diag)})"""
    os.makedirs(wd, exist_ok=True)
    flags = sweep34.cflags(cfg)
    core.pch_dir(cfg, flags)
    src0 = os.path.join(wd, "%s_%s_preamble.cc" % (tag, cfg.name))
    psx.emit_dump(src0, [], "")
    rc0, err0 = core.syntax_check(cfg, src0, list(flags))
    if rc0 != 0:
        raise core.InfraError("dump preamble does not compile under %s:\n%s" % (cfg, err0[:3000]))

    def attempt(recs, name):
        src = os.path.join(wd, "%s_%s_%s.cc" % (tag, cfg.name, name))
        exe = src[:-3]
        psx.emit_dump(src, recs, "")
        rc, out, err = sh_group(core.cc_cmd(cfg, flags) + [errlim(cfg), src, "-o", exe],
                                CT_TIMEOUT * (1 if len(recs) > 1 else 4))
        if rc != 0:         # (None: no verdict in time -> decided record by record below)
            return None
        rc, out, err2 = core.sh([exe], timeout=600)
        if rc != 0:
            raise core.InfraError("dump binary failed rc=%d: %s\n%s" % (rc, exe, err2[-2000:]))
        res = {}
        for line in out.split("\n"):
            if line.startswith("{"):
                o = json.loads(line)
                res[o["id"]] = o
        try:
            os.remove(exe)
        except OSError:
            pass
        return res

    def solve(kc):
        k, recs = kc
        res = attempt(recs, "c%d" % k)
        if res is not None:
            return res, {}
        good, failed = [], {}
        for rec in recs:
            c, diag = ct_compile_alone(cfg, rec, wd, tag + "1")
            if c == "ok":
                good.append(rec)
            else:
                failed[rec[0]] = (c, diag)
        res = attempt(good, "c%dg" % k) if good else {}
        if res is None and len(recs) == 1:      # (a heavy record: no verdict in time under the raised budgets)
            return {}, {recs[0][0]: ("budget", "no verdict within %d s" % (4 * CT_TIMEOUT))}
        if res is None:     # every record compiles alone but not together: resources, not the library
            raise core.InfraError("compile-time chunk %s/%d compiles record by record but not as a whole on %s"
                                  % (tag, k, cfg))
        return res, failed

    chunks = [records[i:i + chunk] for i in range(0, len(records), chunk)]
    results, failed = {}, {}
    for r, f in core.pmap(solve, list(enumerate(chunks))):
        results.update(r)
        failed.update(f)
    return results, failed


def explore_ct(run, tier, extra=()):
    recs, meta = ct_records(tier, extra)
    cfgs = core.CORNERS if tier == "quick" else core.CFG6
    qrecs = set(r[0] for r in recs) if tier == "quick" else None
    if qrecs is None:
        # the four middle configurations get the core sub-grid only
        corenums = set(ct_pool("quick"))
        qrecs = set(rid for rid, m in meta.items()
                    if (m["kind"] == "single" and m["n"] in corenums) or m["kind"] == "ctp" or
                    (m["kind"] == "pair" and m["a"] in corenums and m["b"] in corenums))
    cov = {"ct_records": len(recs), "ct_configs": [c.name for c in cfgs], "ct_not_compiling": {},
           "ct_constant_evaluation_inputs": sum(1 for m in meta.values() if m["kind"] == "ctp"),
           "ct_hard_errors": 0, "ct_budget_dont_care": 0}
    evals = nontriv = 0
    sample = []
    byrid = dict(recs)
    ctwd = os.path.join(run.wd, "ct")

    def one(cfg):
        if run.time_left() < 240 and cfg is not cfgs[0]:
            return cfg, None, None, None
        mine = recs if cfg in core.CORNERS else [r for r in recs if r[0] in qrecs]
        light = [r for r in mine if not meta[r[0]]["heavy"]]
        heavy = [r for r in mine if meta[r[0]]["heavy"]]
        # two stages, so that a number that is lost (its single record does not compile) is diagnosed once
        # instead of dragging every pair record that mentions it through the bisection
        stage1 = [r for r in light if meta[r[0]]["kind"] != "pair"]
        res, cls = ct_dump(cfg, stage1, ctwd, "ct")
        lost = set(meta[rid]["n"] for rid in cls if meta[rid]["kind"] == "single")
        stage2 = [r for r in light if meta[r[0]]["kind"] == "pair" and
                  not lost & {meta[r[0]]["a"], meta[r[0]]["b"], meta[r[0]]["n"]}]
        r1, c1 = ct_dump(cfg, stage2, ctwd, "ctq")
        res.update(r1)
        cls.update(c1)
        nskip = len(light) - len(stage1) - len(stage2)
        nlight = len(res) + nskip
        if heavy and tier == "thorough" and cfg in (core.GXX14, core.CLANG20):
            r2, c2 = ct_dump(cfg, heavy, ctwd, "cth", chunk=1)
            res.update(r2)
            cls.update(c2)
        failed = dict((rid, c[1]) for rid, c in cls.items())
        if nlight < 0.9 * len(light) and not any(c[0] == "hard" for c in cls.values()):
            raise core.InfraError("vacuity guard: only %d of %d compile-time records compiled on %s; %s"
                                  % (nlight, len(light), cfg, list(failed.items())[:2]))
        return cfg, res, failed, (cls, nskip)

    for cfg, res, failed, cls in core.pmap(one, cfgs, workers=3):
        if res is not None:
            cls, nskip = cls
            cov["ct_pair_records_skipped_operand_lost"] = cov.get("ct_pair_records_skipped_operand_lost", 0) + nskip
        if res is None:
            cov.setdefault("ct_configs_skipped_for_deadline", []).append(cfg.name)
            continue
        cov["ct_not_compiling"][cfg.name] = [
            {"n": str(meta[r]["n"]), "kind": meta[r]["kind"], "class": cls.get(r, ("unclassified", ""))[0],
             "diag": cls.get(r, ("", d))[1][:160]} for r, d in sorted(failed.items()) if r not in res][:12]
        for rid, (c, diag) in sorted(cls.items()):
            m = meta[rid]
            if c == "budget":
                cov["ct_budget_dont_care"] += 1
            if c != "hard":
                continue
            cov["ct_hard_errors"] += 1
            key = ct_key(m, cfg, hard=True)
            what = ("%s does not compile although n = %d < 2^64 (not a constexpr budget limit): %s [%s]" % (
                "mag<%d>()" % m["n"] if m["kind"] == "single" else
                "is_prime/find_prime_factor(%d) in constant evaluation" % m["n"] if m["kind"] == "ctp" else
                "mag<%d>()*mag<%d>() / mag<%d>()" % (m["a"], m["b"], m["n"]), m["n"], diag, cfg.name))
            rp = run.write_replay(key, {"kind": "ct", "hard": True, "cfg": [cfg.cxx, cfg.std], "meta": m,
                                        "record": byrid[rid], "what": what})
            run.violation(key, what, rp)
        for rid, o in sorted(res.items()):
            evals += len(o) - 1
            for what in ct_judge(meta[rid], o):
                m = meta[rid]
                key = ct_key(m, cfg)
                rp = run.write_replay(key, {"kind": "ct", "cfg": [cfg.cxx, cfg.std], "meta": m,
                                            "record": byrid[rid], "what": what})
                run.violation(key, what + " [%s]" % cfg.name, rp)
        nontriv += sum(1 for rid, o in res.items() if meta[rid]["kind"] == "single")
        ctp = [o["ct_prime"] for rid, o in res.items() if meta[rid]["kind"] == "ctp"]
        nontriv += 1 if (True in ctp and False in ctp) else 0
        if not sample:
            sample = [{"n": str(meta[r]["n"]), "observed": res[r]} for r in sorted(res)[40:44]]
            sample += [{"n": str(meta[r]["n"]), "observed": res[r]} for r in sorted(res)
                       if meta[r]["kind"] == "ctp"][-3:]
    cov["ct_samples"] = sample
    cov["ct_evaluated_static_facts"] = evals
    # F11 observation at compile time (evidence only: "whenever it compiles" puts it outside the text)
    try:
        pr = [core.Probe("f11", "au::Prime<10785637507345693793ULL> p; (void)p;", "accept")]
        r, _ = core.run_probes(cfgs[-1], pr, os.path.join(run.wd, "ctf11"), "f11",
                               flags=sweep34.cflags(cfgs[-1]))
        cov["ct_Prime_of_F11_witness"] = {"verdict": r["f11"][0], "diag": r["f11"][1][:200]}
    except core.InfraError as e:
        cov["ct_Prime_of_F11_witness"] = {"verdict": "infra", "diag": str(e)[:200]}
    return cov, evals, nontriv


NOPCH_TU = ('#include "au/magnitude.hh"\n#include <type_traits>\n'
            'static_assert(std::is_same<decltype(au::mag<%dULL>()), %s>::value, "C12-SPELLED-MISMATCH");\n'
            'int main() { return 0; }\n')


def nopch_compile(cfg, text, path):
    """-> (class, diag, stderr-ish) of a TU on au/magnitude.hh alone (see ct_diagnose)."""
    with open(path, "w") as f:
        f.write(text)
    return ct_diagnose(cfg, path, pch=False)


def explore_ct_nopch(run, tier, reason):
    """Fallback when the all-headers PCH / dump preamble no longer builds (e.g. a unit header's own
    mag<N>() trips Prime<N>'s static_assert): mag<n>() of every core grid number as its own TU on
    au/magnitude.hh alone, diagnostics classified as in explore_ct.  Returns None when even the control TU
    (au::Magnitude<> without any factorisation) does not compile: then it is an infrastructure problem."""
    wd = os.path.join(run.wd, "ctn")
    os.makedirs(wd, exist_ok=True)
    cfgs = core.CORNERS
    for cfg in cfgs:
        c, diag = nopch_compile(cfg, '#include "au/magnitude.hh"\nusing C12Control = au::Magnitude<>;\n'
                                     'int main() { return 0; }\n', os.path.join(wd, "control_%s.cc" % cfg.name))
        if c != "ok":
            return None
    nums = sorted(n for n, w in ct_pool("quick").items() if w == "light")
    jobs = [(cfg, n) for cfg in cfgs for n in nums]

    def one(j):
        cfg, n = j
        text = NOPCH_TU % (n, spelled(py_factor(n)))
        c, diag = nopch_compile(cfg, text, os.path.join(wd, "n_%s_%d.cc" % (cfg.name, n)))
        if c == "hard" and "C12-SPELLED-MISMATCH" in diag and not HARD_RE.search(diag):
            return cfg, n, text, "spelled", "decltype(mag<%d>()) is not %s" % (n, spelled(py_factor(n)))
        return cfg, n, text, c, diag

    cov = {"ct_fallback_without_pch": reason[-300:], "ct_fallback_numbers": len(nums),
           "ct_hard_errors": 0, "ct_budget_dont_care": 0}
    for cfg, n, text, c, diag in core.pmap(one, jobs):
        if c == "budget":
            cov["ct_budget_dont_care"] += 1
        if c not in ("hard", "spelled"):
            continue
        cov["ct_hard_errors"] += c == "hard"
        key = "C12:%s:n=%d:a=:b=:cfg=%s" % ("mag-hard-error" if c == "hard" else "mag:single", n, cfg.name)
        what = ("mag<%d>() does not compile although n < 2^64 (not a constexpr budget limit): %s [%s]" % (
            n, diag, cfg.name)) if c == "hard" else diag + " [%s]" % cfg.name
        rp = run.write_replay(key, {"kind": "ct", "nopch": True, "cfg": [cfg.cxx, cfg.std], "src": text,
                                    "n": n, "what": what})
        run.violation(key, what, rp)
    return cov, len(jobs), 0


def replay_ct(r):
    cfg = core.Cfg(r["cfg"][0], r["cfg"][1])
    wd = os.path.join(core.BUILD, "C12", "replay")
    os.makedirs(wd, exist_ok=True)
    if r.get("nopch"):
        c, diag = nopch_compile(cfg, r["src"], os.path.join(wd, "rp_nopch.cc"))
        return [diag] if c == "hard" else []
    if r.get("hard"):
        c, diag = ct_compile_alone(cfg, (0, r["record"]), wd, "rph")
        return [diag] if c == "hard" else []
    res, failed = psx.run_dump(cfg, [(0, r["record"])], wd, "rp", flags=sweep34.cflags(cfg), chunk=1)
    if 0 not in res:
        print("record does not compile on the current tree (outside the statement): %s" % failed)
        return []
    meta = dict(r["meta"])
    return ct_judge(meta, res[0])
