"""Setup-time self validation of the reference oracles (no Au code involved)."""
import sys
from fractions import Fraction

from . import core


def main():
    # promotion / common type table sanity
    assert core.promoted("int8_t") == "int32_t" and core.promoted("uint16_t") == "int32_t"
    assert core.common_int("int32_t", "uint32_t") == "uint32_t"
    assert core.common_int("int64_t", "uint32_t") == "int64_t"
    assert core.common_int("int16_t", "uint16_t") == "int32_t"
    assert core.common_rep("float", "int64_t") == "float"
    assert core.common_rep("double", "long double") == "long double"
    print("selftest ok")
    return 0


if __name__ == "__main__":
    sys.exit(main())
