"""C15 (c): trig, arc*, hypot, fmod, remainder, abs, copysign, min, max, clamp, isnan.

Every instance is a generated struct with a `call` (the Au function) and an `expect` (the std function on operands the
harness converted exactly to the model's common unit); harness/c15_math.hh runs the value grids.  The result unit is read
out as a prime factorisation and compared here with the model (common unit = base-wise gcd of the magnitudes; common
point unit = gcd of magnitudes and origin difference, lowest origin).  Operand pairs with an irrational ratio get long
double factors and a tolerance judge (run_two_irr).  A call that no conversion policy can refuse (Inst.strict) and that
does not compile is a violation; CONSTEXPR lists the static_assert uses.
"""
import math
import os
import struct
from fractions import Fraction as Fr

from . import core, model
from . import c15_common as C
from .core import BITS, tmax, tmin

FLAGS = C.SWEEP_FLAGS
FP = ("float", "double", "long double")
FMAX = {"float": (2 - 2.0 ** -23) * 2.0 ** 127, "double": 1.7976931348623157e308, "long double": 1.7976931348623157e308}
FMIN = {"float": 2.0 ** -126, "double": 2.2250738585072014e-308, "long double": 2.2250738585072014e-308}
FDEN = {"float": 2.0 ** -149, "double": 5e-324, "long double": 5e-324}


def f32(x):
    return struct.unpack("f", struct.pack("f", x))[0]


def cmath_rep(*reps):
    """Argument/result type of a <cmath> function called with these arithmetic types."""
    if "long double" in reps:
        return "long double"
    if all(r == "float" for r in reps):
        return "float"
    return "double"


def common_rep(*reps):
    c = reps[0]
    for r in reps[1:]:
        c = core.common_rep(c, r)
    return c


def lit(v):
    if isinstance(v, Fr):
        return C.ld_lit(v)          # a value that need not be a double (long double reps)
    if isinstance(v, float):
        if math.isnan(v):
            return "-(c15::ld)NAN" if math.copysign(1, v) < 0 else "(c15::ld)NAN"
        if math.isinf(v):
            return "-(c15::ld)INFINITY" if v < 0 else "(c15::ld)INFINITY"
        if v == 0:
            return "-0.0L" if math.copysign(1, v) < 0 else "0.0L"
        return C.ld_lit(Fr(v))
    return "%d.0L" % v


def arr(name, vals):
    vals = list(vals)
    body = ", ".join(lit(v) for v in vals) if vals else "0.0L"
    return ("static const c15::ld *%s() { static const c15::ld a[] = {%s}; return a; } static constexpr int N%s = %d;"
            % (name, body, name[0], len(vals)))


# ---------------------------------------------------------------------------------------------- value alphabets
def int_vals(rep, n=1, c=None, small=False):
    lo, hi = tmin(rep), tmax(rep)
    base = {0, 1, 2, 3, 5, 7, 12, 100, 1000, 2730, 2731, 3000, 32767, 65535, hi, hi - 1}
    if small:
        base = {0, 1, 2, 7, 100, 3000, hi}
    lims = {hi}
    if c in BITS:
        lims.add(tmax(c))
    lims.add(2 ** 53)
    if not small:
        for lim in lims:
            q = lim // max(1, n)
            base |= {q - 1, q, q + 1}
    out = set()
    for v in base:
        for s in (v, -v, -v - 1):
            if lo <= s <= hi:
                out.add(s)
    out.add(lo)
    return sorted(out)


def fp_vals(rep, small=False):
    pos = [0.0, 0.5, 1.0, 1.5, 2.5, 3.0, 7.0, 0.1, 1e-3, 100.25, 65536.5, 1e6, 3000.0, 1e30, FDEN[rep], FMIN[rep],
           FMAX[rep], FMAX[rep] / 4096, 16777217.0 if rep == "double" else 16777216.0, 9007199254740993.0 if rep == "double" else 33554434.0]
    if small:
        pos = [0.0, 0.5, 1.0, 2.5, 0.1, 3000.0, 1e30, FMAX[rep]]
    out = []
    for v in pos:
        v = f32(v) if rep == "float" else v
        out += [v, -v]
    out += [float("inf"), float("-inf"), float("nan")]
    if not small:
        out.append(-float("nan"))
    seen, res = set(), []
    for v in out:
        k = struct.pack("d", v)
        if k not in seen:
            seen.add(k)
            res.append(v)
    return res


# values only a long double holds (not doubles): a slip that routes a long double rep through double changes them
LD_ONLY = [Fr(1, 10) + Fr(1, 2 ** 66), Fr(1, 3), -Fr(2, 3), Fr(2 ** 64 + 1, 2 ** 63), Fr(3 * 2 ** 62 + 1, 2 ** 64), Fr(10 ** 18 + 1, 1),
           -Fr(2 ** 63 + 1, 2)]


def vals(rep, n=1, c=None, small=False):
    if rep == "long double":
        return fp_vals(rep, small) + LD_ONLY
    return fp_vals(rep, small) if rep in FP else int_vals(rep, n, c, small)


# ---------------------------------------------------------------------------------------------- model: common units
POINT_UNIT = {}      # tuple of unit names -> magnitude of the implementation's common point unit (read out, then validated)


def common_of(units, point=False):
    """-> (common magnitude, [integer factor per unit], [integer offset per unit]) or None when a factor is not an integer.

    Quantities: the common unit is the base-wise gcd of the magnitudes (model).  Points: the statement does not fix which
    common subdivision is chosen (see C10), so the magnitude is the one read out from the implementation; it is accepted
    only if every input's scale factor and origin offset (lowest origin as zero) are integers in it."""
    mags = [u.mag for u in units]
    if point:
        origins = [u.origin for u in units]
        lowest = min(origins)
        cm = POINT_UNIT.get(tuple(sorted(set(u.name for u in units))))
        if cm is None:
            return None
    else:
        cm = model.mag_gcd(mags)
    ns, offs = [], []
    for u in units:
        f = model.vdiv(u.mag, cm)
        if not model.mag_is_integer(f) and f:
            return None
        ns.append(int(model.mag_fraction(f)) if f else 1)
        if point:
            o = (u.origin - lowest) / model.mag_fraction(cm) if model.mag_is_rational(cm) else None
            if o is None or o.denominator != 1:
                return None
            offs.append(int(o))
        else:
            offs.append(0)
    return cm, ns, offs


def mk(u, point=False):
    return "au::make_quantity%s<%s>" % ("_point" if point else "", u.cpp)


# ---------------------------------------------------------------------------------------------- instance generators
class Inst:
    def __init__(self, kind, fn, desc, body, runner, probe, unit=None, reps=(), meta=None, predict=True, strict=True):
        """strict: nothing in the statement lets this call be refused, so a compile-time rejection is a violation
        (False only where the documented implicit-conversion policy may refuse an integral rep)."""
        self.kind, self.fn, self.desc, self.body, self.runner, self.probe = kind, fn, desc, body, runner, probe
        self.unit, self.reps, self.meta, self.predict, self.strict = unit, reps, meta or {}, predict, strict


def policy_ok(rep, n, off=0):
    """Documented implicit-conversion policy for an integer factor n (prediction only: it decides how the domain probes
    are batched, the observed compiler verdict decides the domain)."""
    if rep in FP:
        return True
    return (n == 1 or 2147 * n <= tmax(rep)) and off <= tmax(rep)


def u_(stem, prefix=None):
    return C.unit(stem, prefix)


QPAIRS = [("feet", None, "inches", None), ("inches", None, "feet", None), ("meters", None, "meters", None),
          ("meters", "kilo", "meters", None), ("feet", None, "meters", None), ("hours", None, "minutes", None),
          ("degrees", None, "revolutions", None), ("seconds", None, "seconds", "milli"), ("bytes", None, "bits", None),
          ("yards", None, "feet", None)]
# the first pair has identical units: with identical reps it reaches the same-type QuantityPoint overloads of min / max
PPAIRS = [("kelvins", None, "kelvins", None), ("celsius", None, "kelvins", None), ("kelvins", None, "kelvins", "milli"),
          ("celsius", None, "fahrenheit", None), ("kelvins", None, "celsius", None)]
NPP_QUICK = 3
# operand pairs with an irrational ratio (the common unit makes one factor a multiple of pi): floating reps, tolerance judge
IRR_PAIRS = [("radians", None, "degrees", None), ("degrees", None, "radians", None), ("revolutions", None, "radians", None)]
IRR_REPS = [("double", "double"), ("float", "float"), ("float", "double"), ("double", "float")]
IRR_REPS_CMATH = [("int32_t", "double"), ("double", "int32_t"), ("int32_t", "int32_t")]
RP_EQ = ["int32_t", "double", "float", "int16_t", "int64_t", "uint32_t", "uint8_t"]
# (integral, float) is the one mixed pair whose <cmath> type (double) is neither operand's type nor their std::common_type
# (float): it is in the quick tier too
RP_MIX = [("int16_t", "int32_t"), ("int32_t", "int64_t"), ("float", "double"), ("int32_t", "double"), ("uint16_t", "uint32_t"),
          ("int32_t", "float"), ("int16_t", "int64_t"), ("uint32_t", "uint64_t"), ("uint8_t", "int32_t"), ("int64_t", "double"),
          ("int64_t", "float")]


def rep_pairs(quick):
    eq = RP_EQ[:4] if quick else RP_EQ
    mix = RP_MIX[:6] if quick else RP_MIX
    out = [(r, r) for r in eq]
    for a, b in mix:
        out += [(a, b), (b, a)]
    return out


TWO = '''struct I%(id)d { typedef %(r1)s R1; typedef %(r2)s R2; typedef %(ca)s CA; typedef %(cb)s CB; typedef %(xa)s XA; typedef %(xb)s XB;
  typedef %(exp)s ExpRep; static constexpr long long N1 = %(n1)dLL, N2 = %(n2)dLL, O1 = %(o1)dLL, O2 = %(o2)dLL;
  static constexpr bool PICKS = %(picks)s;
  static auto call(R1 a, R2 b) { return %(call)s; }
  static ExpRep expect(XA a, XB b) { return %(expect)s; }
  static bool pre(XA a, XB b) { return %(pre)s; }
  %(A)s
  %(B)s };'''

STD2 = {"hypot": "std::hypot(a, b)", "fmod": "std::fmod(a, b)", "remainder": "std::remainder(a, b)",
        "arctan2": "std::atan2(a, b)", "min": "std::min(a, b)", "max": "std::max(a, b)"}


def two_arg(fn, ua, ub, r1, r2, point=False, only=None):
    cu = common_of([ua, ub], point)
    if cu is None:
        return None
    cm, (n1, n2), (o1, o2) = cu
    c = common_rep(r1, r2)
    x = c if fn in ("min", "max") else cmath_rep(r1, r2)
    exp = x
    # min / max work in the common rep; hypot / fmod / remainder / arctan2 convert in the type the std function computes
    # in, so representability of the converted operands is decided in that type alone (not in the common integral rep)
    cc = c if fn in ("min", "max") else x
    # min / max / clamp are called unqualified (argument-dependent lookup), the way the hidden friends for identical types
    # are meant to be reached; a qualified au::min(q, q) of identical Quantity types is ambiguous with std::min
    ns_ = "" if fn in ("min", "max") else "au::"
    call = "%s%s(%s(a), %s(b))" % (ns_, fn, mk(ua, point), mk(ub, point))
    va, vb = (only[0], only[1]) if only else (vals(r1, n1, c), vals(r2, n2, c))
    body = TWO % {"id": 0, "r1": r1, "r2": r2, "ca": cc, "cb": cc, "xa": x, "xb": x, "exp": exp, "n1": n1, "n2": n2, "o1": o1,
                  "o2": o2, "picks": "true" if fn in ("min", "max") else "false", "call": call, "expect": STD2[fn],
                  # std::min / std::max require a strict weak ordering of the values: NaN operands are outside their contract
                  "pre": "a == a && b == b" if fn in ("min", "max") else "true", "A": arr("A", va), "B": arr("B", vb)}
    probe = "(void)%s%s(%s(static_cast<%s>(1)), %s(static_cast<%s>(1)));" % (ns_, fn, mk(ua, point), r1, mk(ub, point), r2)
    if fn == "arctan2":
        unit = (model.LIB_BY_STEM["radians"].mag, model.LIB_BY_STEM["radians"].dim)
    else:
        unit = (cm, ua.mu.dim)
    desc = "%s:%su=%s,%s:r=%s,%s" % (fn, "point:" if point else "", ua.name, ub.name, r1, r2)
    if fn in ("min", "max"):
        pred = policy_ok(c, n1, o1) and policy_ok(c, n2, o2)
        # only an integral rep with an actual conversion can be refused by the implicit-conversion policy
        strict = c in FP or (n1 == n2 == 1 and o1 == o2 == 0)
    else:
        pred = strict = True        # explicit-rep conversion in the std function's type: total for same-dimension operands
    return Inst("two", fn, desc, body, "run_two", probe, unit, (r1, r2),
                {"gen": ["two_arg", fn, [ua.name, ub.name], r1, r2, point]}, pred, strict)


IRR = '''struct I%(id)d { typedef %(r1)s R1; typedef %(r2)s R2; typedef %(x)s X; static constexpr int FN = %(fnid)d;
  static c15::ld f1() { return %(f1)s; } static c15::ld f2() { return %(f2)s; }
  static auto call(R1 a, R2 b) { return %(call)s; }
  %(A)s
  %(B)s };'''
IRR_FNS = ("hypot", "fmod", "remainder", "arctan2", "min", "max")
ANGLES = [1.0, 57.29577951308232, 90.0, 180.0, 360.0, 3.141592653589793, 1.5707963267948966, 6.283185307179586, 0.25, 45.0]


def irr_vals(rep, small):
    if rep not in FP:
        return [v for v in (0, 1, 2, 3, 45, 57, 90, 180, 360, 1000, 65536, tmax(rep), -1, -3, -90, -180, tmin(rep))
                if tmin(rep) <= v <= tmax(rep)]
    out = fp_vals(rep, small)
    for v in ANGLES[: 6 if small else len(ANGLES)]:
        v = f32(v) if rep == "float" else v
        out += [v, -v]
    return out


def two_irr(fn, ua, ub, r1, r2, only=None):
    """Operands whose common unit (model: base-wise gcd, pi is a base) needs a factor that is a multiple of pi."""
    cm = model.mag_gcd([ua.mag, ub.mag])
    f1, f2 = (C.mag_value(model.vdiv(u.mag, cm)) for u in (ua, ub))
    c = common_rep(r1, r2)
    x = c if fn in ("min", "max") else cmath_rep(r1, r2)
    ns_ = "" if fn in ("min", "max") else "au::"
    va, vb = (only[0], only[1]) if only else (irr_vals(r1, False), irr_vals(r2, True))
    body = IRR % {"id": 0, "r1": r1, "r2": r2, "x": x, "fnid": IRR_FNS.index(fn), "f1": C.ld_lit(f1), "f2": C.ld_lit(f2),
                  "call": "%s%s(%s(a), %s(b))" % (ns_, fn, mk(ua), mk(ub)), "A": arr("A", va), "B": arr("B", vb)}
    probe = "(void)%s%s(%s(static_cast<%s>(1)), %s(static_cast<%s>(1)));" % (ns_, fn, mk(ua), r1, mk(ub), r2)
    rad = model.LIB_BY_STEM["radians"]
    unit = (rad.mag, rad.dim) if fn == "arctan2" else (cm, ua.mu.dim)
    return Inst("irr", fn, "%s:irr:u=%s,%s:r=%s,%s" % (fn, ua.name, ub.name, r1, r2), body, "run_two_irr", probe, unit, (r1, r2),
                {"gen": ["two_irr", fn, [ua.name, ub.name], r1, r2]}, True, True)


THREE = '''struct I%(id)d { typedef %(r1)s R1; typedef %(r2)s R2; typedef %(r3)s R3; typedef %(c)s CA; typedef %(c12)s C12; typedef %(c13)s C13;
  static constexpr long long N1 = %(n1)dLL, N2 = %(n2)dLL, N3 = %(n3)dLL, O1 = %(o1)dLL, O2 = %(o2)dLL, O3 = %(o3)dLL;
  static auto call(R1 a, R2 b, R3 c) { return %(call)s; }
  %(A)s
  %(B)s
  %(C)s };'''


def three_arg(us, rs, point=False, only=None):
    cu = common_of(us, point)
    if cu is None:
        return None
    cm, ns, offs = cu
    c = common_rep(*rs)
    call = "clamp(%s(a), %s(b), %s(c))" % tuple(mk(u, point) for u in us)
    vs = only if only else [vals(r, n, c, small=True) for r, n in zip(rs, ns)]
    body = THREE % {"id": 0, "r1": rs[0], "r2": rs[1], "r3": rs[2], "c": c, "c12": common_rep(rs[0], rs[1]), "c13": common_rep(rs[0], rs[2]), "n1": ns[0], "n2": ns[1], "n3": ns[2],
                    "o1": offs[0], "o2": offs[1], "o3": offs[2], "call": call, "A": arr("A", vs[0]), "B": arr("B", vs[1]),
                    "C": arr("C3", vs[2])}
    probe = "(void)clamp(%s);" % ", ".join("%s(static_cast<%s>(1))" % (mk(u, point), r) for u, r in zip(us, rs))
    desc = "clamp:%su=%s:r=%s" % ("point:" if point else "", ",".join(u.name for u in us), ",".join(rs))
    pred = all(policy_ok(common_rep(rs[0], r), n, o) and policy_ok(c, n, o) for r, n, o in zip(rs, ns, offs))
    strict = c in FP or (all(n == 1 for n in ns) and not any(offs))
    return Inst("three", "clamp", desc, body, "run_three", probe, (cm, us[0].mu.dim), tuple(rs),
                {"gen": ["three_arg", [u.name for u in us], list(rs), point]}, pred, strict)


ONE = '''struct I%(id)d { typedef %(r)s R; typedef %(exp)s ExpRep; static constexpr long long LO = %(lo)dLL, HI = %(hi)dLL;
  static auto call(R x) { return %(call)s; }
  static ExpRep expect(R x) { return %(expect)s; }
  static bool pre(R x) { return %(pre)s; }
  %(A)s };'''


def one_arg(fn, r, call, expect, exp, extra, lo=1, hi=0, pre="true", unit=None, desc=None, gen=None):
    body = ONE % {"id": 0, "r": r, "exp": exp, "lo": lo, "hi": hi, "call": call, "expect": expect, "pre": pre,
                  "A": arr("A", extra)}
    probe = "auto x = static_cast<%s>(1); (void)(%s);" % (r, call)
    return Inst("one", fn, desc or "%s:r=%s" % (fn, r), body, "run_one", probe, unit, (r,), {"gen": gen})


TRIG = '''struct I%(id)d { typedef %(r)s R; static constexpr int FN = %(fnid)d; static constexpr bool EXACT = %(exact)s;
  static constexpr long long LO = %(lo)dLL, HI = %(hi)dLL;
  static c15::ld ratio() { return %(ratio)s; }
  static auto call(R x) { return au::%(fn)s(au::make_quantity<%(u)s>(x)); }
  template <typename P> static P expect(P x) { return std::%(fn)s(x); }
  %(A)s };'''


def trig(fn, u, r, only=None):
    ratio = C.mag_value(u.mag)
    exact = not u.mag
    lo, hi = (-65536, 65536) if r in FP else (max(-65536, tmin(r)), min(65536, tmax(r)))
    if r in FP:
        extra = [0.5, 0.1, 1e-3, 1e-30, FDEN[r], FMIN[r], 1e6 + 0.5, 1e10, 1e15, 1e22, FMAX[r], FMAX[r] / 1024, 57.29577951308232,
                 114.59155902616465, 3.141592653589793, 1.5707963267948966, 0.7853981633974483]
        extra = [f32(v) if r == "float" else v for v in extra]
        extra = extra + [-v for v in extra] + [-0.0, float("inf"), float("-inf"), float("nan")]
    else:
        extra = [v for v in (10 ** 6, -10 ** 6, 2 ** 31 - 1, -2 ** 31, 10 ** 9, 2 ** 53, -2 ** 53, 2 ** 40 + 1) if tmin(r) <= v <= tmax(r)]
    if only is not None:
        extra = only
    body = TRIG % {"id": 0, "r": r, "fnid": ("sin", "cos", "tan").index(fn), "exact": "true" if exact else "false", "lo": lo,
                   "hi": hi, "ratio": C.ld_lit(ratio), "fn": fn, "u": u.cpp, "A": arr("A", extra)}
    probe = "(void)au::%s(au::make_quantity<%s>(static_cast<%s>(1)));" % (fn, u.cpp, r)
    return Inst("trig", fn, "%s:u=%s:r=%s" % (fn, u.name, r), body, "run_trig", probe, None, (r,),
                {"gen": ["trig", fn, u.name, r]})


RAW2 = '''struct I%(id)d { typedef %(r1)s R1; typedef %(r2)s R2; typedef %(exp)s ExpRep;
  static auto call(R1 a, R2 b) { return %(call)s; }
  static ExpRep expect(R1 a, R2 b) { return %(expect)s; }
  %(A)s
  %(B)s };'''


def raw2(fn, form, r1, r2, call, expect, exp, unit, only=None):
    va, vb = only if only else (vals(r1, small=False), vals(r2, small=True) + ([-0.0, 0.25] if r2 in FP else []))
    body = RAW2 % {"id": 0, "r1": r1, "r2": r2, "exp": exp, "call": call, "expect": expect, "A": arr("A", va), "B": arr("B", vb)}
    probe = "auto a = static_cast<%s>(1); auto b = static_cast<%s>(1); (void)(%s);" % (r1, r2, call)
    return Inst("raw2", fn, "%s:%s:r=%s,%s" % (fn, form, r1, r2), body, "run_raw2", probe, unit, (r1, r2),
                {"gen": ["raw2", fn, form, r1, r2]})


UNITS_BY_NAME = {}


def _reg(u):
    UNITS_BY_NAME[u.name] = u
    return u


def raw2_inst(fn, form, r1, r2, only=None):
    feet, secs = _reg(u_("feet")), _reg(u_("seconds"))
    rad = model.LIB_BY_STEM["radians"]
    if fn == "arctan2":
        return raw2(fn, form, r1, r2, "au::arctan2(a, b)", "std::atan2(a, b)", "decltype(std::atan2(R1{}, R2{}))",
                    (rad.mag, rad.dim), only)
    exp = "decltype(std::copysign(R1{}, R2{}))"
    if form == "QR":
        return raw2(fn, form, r1, r2, "au::copysign(au::make_quantity<au::Feet>(a), b)", "std::copysign(a, b)", exp,
                    (feet.mag, feet.mu.dim), only)
    if form == "RQ":
        return raw2(fn, form, r1, r2, "au::copysign(a, au::make_quantity<au::Feet>(b))", "std::copysign(a, b)", exp, None, only)
    return raw2(fn, form, r1, r2, "au::copysign(au::make_quantity<au::Feet>(a), au::make_quantity<au::Seconds>(b))",
                "std::copysign(a, b)", exp, (feet.mag, feet.mu.dim), only)


def arc_vals(r):
    if r not in FP:
        return [-3, -2, -1, 0, 1, 2, 3]
    out = []
    for k in range(-80, 81):
        v = k / 64.0
        out += [v, v * (1 + 2.0 ** -20), v * (1 - 2.0 ** -20)]
    out += [-0.0, 1e-30, -1e-30, FDEN[r], 1e6, -1e6, FMAX[r], float("inf"), float("-inf"), float("nan")]
    if r == "long double":
        out += LD_ONLY[:5]
    return [f32(v) if r == "float" else v for v in out]


def one_inst(fn, r, variant="q", only=None):
    feet = _reg(u_("feet"))
    rad = model.LIB_BY_STEM["radians"]
    if fn in ("arcsin", "arccos", "arctan"):
        std = {"arcsin": "asin", "arccos": "acos", "arctan": "atan"}[fn]
        return one_arg(fn, r, "au::%s(x)" % fn, "std::%s(x)" % std, "decltype(std::%s(R{}))" % std,
                       only if only is not None else arc_vals(r), unit=(rad.mag, rad.dim), gen=["one", fn, r, variant])
    if fn == "abs":
        lo, hi = (max(-65536, tmin(r)), min(65536, tmax(r))) if r in BITS else (-65536, 65536)
        extra = vals(r)
        pre = "true" if r in FP or BITS[r] < 32 else "x != std::numeric_limits<R>::min()"   # std::abs(INT_MIN) is undefined
        return one_arg(fn, r, "au::abs(au::make_quantity<au::Feet>(x))", "std::abs(x)", "decltype(std::abs(R{}))",
                       only if only is not None else extra, lo if only is None else 1, hi if only is None else 0, pre,
                       (feet.mag, feet.mu.dim), gen=["one", fn, r, variant])
    if fn == "isnan":
        m = "au::make_quantity<au::Feet>" if variant == "q" else "au::make_quantity_point<au::Celsius>"
        lo, hi = (-256, 256)
        return one_arg(fn, r, "au::isnan(%s(x))" % m, "std::isnan(x)", "bool", only if only is not None else vals(r),
                       lo if only is None else 1, hi if only is None else 0, desc="isnan:%s:r=%s" % (variant, r),
                       gen=["one", fn, r, variant])
    raise ValueError(fn)


def instances(quick):
    out = []
    rps = rep_pairs(quick)
    qp = [(_reg(u_(a, pa)), _reg(u_(b, pb))) for a, pa, b, pb in (QPAIRS[:5] if quick else QPAIRS)]
    pp = [(_reg(u_(a, pa)), _reg(u_(b, pb))) for a, pa, b, pb in (PPAIRS[:NPP_QUICK] if quick else PPAIRS)]
    for fn in ("hypot", "fmod", "remainder", "arctan2", "min", "max"):
        for ua, ub in qp:
            for r1, r2 in rps:
                out.append(two_arg(fn, ua, ub, r1, r2))
    for fn in ("min", "max"):
        for ua, ub in pp:
            for r1, r2 in rps:
                out.append(two_arg(fn, ua, ub, r1, r2, point=True))
    trips = [("int32_t", "int32_t", "int32_t"), ("double", "double", "double"), ("int16_t", "int32_t", "int64_t"),
             ("int64_t", "int32_t", "int16_t"), ("float", "double", "float"), ("int32_t", "double", "int32_t"),
             ("int32_t", "int16_t", "int32_t"), ("uint16_t", "uint32_t", "uint32_t")]
    # (feet, feet, feet) with identical reps is the only way to the hidden-friend clamp(Quantity, Quantity, Quantity)
    utr = [(qp[0][0], qp[0][1], qp[0][0]), (qp[0][1], qp[0][0], qp[0][0]), (qp[0][0], qp[0][0], qp[0][0]), (qp[2][0], qp[3][0], qp[2][0])]
    for k, us in enumerate(utr[:3] if quick else utr):
        for rs in ((trips[:3] if k == 2 else trips[:5]) if quick else trips):
            out.append(three_arg(us, rs))
    for ua, ub in pp[:3]:
        for rs in (trips[:3] if quick else trips[:6]):
            out.append(three_arg((ua, ub, ua), rs, point=True))
    ip = [(_reg(u_(a, pa)), _reg(u_(b, pb))) for a, pa, b, pb in (IRR_PAIRS[:2] if quick else IRR_PAIRS)]
    for fn in IRR_FNS:
        for ua, ub in ip:
            for r1, r2 in (IRR_REPS[:3] if quick else IRR_REPS):
                out.append(two_irr(fn, ua, ub, r1, r2))
            if fn not in ("min", "max"):      # integral reps: only the std-function wrappers convert with an explicit rep
                for r1, r2 in (IRR_REPS_CMATH[:2] if quick else IRR_REPS_CMATH):
                    out.append(two_irr(fn, ua, ub, r1, r2))
    tu = [_reg(u_("radians")), _reg(u_("degrees")), _reg(u_("revolutions")), _reg(u_("arcminutes")), _reg(u_("radians", "milli"))]
    for fn in ("sin", "cos", "tan"):
        for u in tu:
            for r in (("float", "double", "int32_t") if quick else ("float", "double", "int32_t", "int16_t", "int64_t", "uint8_t")):
                out.append(trig(fn, u, r))
    # long double reps: only the exact case (argument already in radians: the result must be std::sin etc. of exactly
    # that long double, bit for bit); other units would need a reference beyond long double
    for fn in ("sin", "cos", "tan"):
        out.append(trig(fn, tu[0], "long double"))
    for fn in ("arcsin", "arccos", "arctan"):
        for r in ("float", "double", "int32_t", "long double", "int8_t", "uint16_t") + (() if quick else ("int64_t", "uint8_t")):
            out.append(one_inst(fn, r))
    for r1, r2 in (("float", "float"), ("double", "double"), ("float", "double"), ("double", "float"), ("int32_t", "int32_t"),
                   ("int32_t", "double"), ("long double", "long double"), ("float", "int32_t"), ("double", "long double"),
                   ("long double", "int32_t")):
        out.append(raw2_inst("arctan2", "RR", r1, r2))
    for form in ("QR", "RQ", "QQ"):
        for r1, r2 in (("double", "double"), ("float", "double"), ("double", "float"), ("int32_t", "double"), ("double", "int32_t"),
                       ("float", "float"), ("int32_t", "int32_t"), ("long double", "long double"), ("float", "int32_t"),
                       ("long double", "float")):
            out.append(raw2_inst("copysign", form, r1, r2))
    for r in ("int8_t", "int16_t", "int32_t", "int64_t", "float", "double", "long double"):
        out.append(one_inst("abs", r))
    for r in ("float", "double", "int32_t", "long double"):
        out.append(one_inst("isnan", r, "q"))
        out.append(one_inst("isnan", r, "p"))
    return [i for i in out if i is not None]


def regen(gen, only):
    """Rebuild one instance from its replay description with the value lists replaced by single values."""
    k = gen[0]
    if k == "two_arg":
        _, fn, (ua, ub), r1, r2, point = gen
        return two_arg(fn, UNITS_BY_NAME[ua], UNITS_BY_NAME[ub], r1, r2, point, only=only)
    if k == "two_irr":
        _, fn, (ua, ub), r1, r2 = gen
        return two_irr(fn, UNITS_BY_NAME[ua], UNITS_BY_NAME[ub], r1, r2, only=only)
    if k == "three_arg":
        _, us, rs, point = gen
        return three_arg([UNITS_BY_NAME[u] for u in us], rs, point, only=only)
    if k == "trig":
        return trig(gen[1], UNITS_BY_NAME[gen[2]], gen[3], only=only[0])
    if k == "raw2":
        return raw2_inst(gen[1], gen[2], gen[3], gen[4], only=only)
    if k == "one":
        return one_inst(gen[1], gen[2], gen[3], only=only[0])
    raise ValueError(k)


def tu_text(group, single=False):
    out = ['#include "c15_math.hh"', "namespace {"]
    for iid, inst in group:
        out.append(inst.body.replace("struct I0 ", "struct I%d " % iid, 1))
    out.append("}\nint main() {")
    for iid, inst in group:
        if inst.runner in ("run_one", "run_trig"):
            out.append("  c15::%s<I%d>(%d, %s);" % (inst.runner, iid, iid, "true" if single else "false"))
        else:
            out.append("  c15::%s<I%d>(%d);" % (inst.runner, iid, iid))
    out.append("  return 0; }")
    return "\n".join(out) + "\n"


def num_to_py(s):
    """Harness number -> Python value usable as a replay value (int or float)."""
    if s in ("nan", "-nan"):
        return -float("nan") if s[0] == "-" else float("nan")
    if s in ("inf", "-inf"):
        return float(s)
    f = C.parse_num(s)
    if "x" not in s.lower():
        return int(f)
    return float(f) if Fr(float(f)) == f else f       # a value only a long double holds stays an exact Fraction


def describe(inst, v):
    args = ", ".join("%s{%s}" % (r, v[k]) for r, k in zip(inst.reps, ("a", "b", "c")) if k in v)
    return "%s on (%s) [%s] gives %s; the std function on the operands in the required unit gives %s%s" % (
        inst.fn, args, inst.desc, v["got"], v["exp"], (" (tolerance %s)" % v["tol"]) if v.get("tol") not in (None, "0") else "")


def read_point_units(run, cfg, quick):
    """One dump TU: the unit of au::min / au::clamp results for every point-unit list used below."""
    from . import psx
    pp = [(u_(a, pa), u_(b, pb)) for a, pa, b, pb in (PPAIRS[:NPP_QUICK] if quick else PPAIRS)]
    recs, names = [], []
    for ua, ub in pp:
        names.append((ua, ub))
        recs.append((len(recs), ['vf_kv("u", "{" + vf::unit_json<typename decltype(au::min(%s(0.0), %s(0.0)))::Unit>() + "}");'
                                 % (mk(ua, True), mk(ub, True)),
                                 'vf_kv("c", "{" + vf::unit_json<typename decltype(au::clamp(%s(0.0), %s(0.0), %s(0.0)))::Unit>() + "}");'
                                 % (mk(ua, True), mk(ub, True), mk(ua, True))]))
    res, failed = psx.run_dump(cfg, recs, os.path.join(run.wd, "ptunits"), "pu", "")
    bad = []
    for k, (ua, ub) in enumerate(names):
        if k in failed:
            C.guard(failed[k])
            bad.append("min/clamp of points in %s and %s does not compile: %s" % (ua.name, ub.name, failed[k]))
            continue
        m1, m2 = (model.mag_from_readout(res[k][f]["mag"]) for f in ("u", "c"))
        if model.mag_key(m1) != model.mag_key(m2):
            bad.append("min and clamp of points in %s, %s yield different units" % (ua.name, ub.name))
        POINT_UNIT[tuple(sorted({ua.name, ub.name}))] = m1
        if common_of([ua, ub], True) is None:
            bad.append("the common point unit of %s and %s (magnitude %s) does not make both scales and origins integral"
                       % (ua.name, ub.name, model.mag_key(m1)))
    return bad


# Constant-expression uses of the functions the library declares constexpr and whose std counterpart is constexpr in
# C++14 (inverse_*, min, max, clamp): (name, expression).  Expected values are literals worked out by hand
# (10^9/4, 10^9/5, 1/4, trunc(10^6/3), 12 in per ft, 0 degC = 273.15 K).
CONSTEXPR = [
    ("inverse_in", "au::inverse_in(au::Nano<au::Seconds>{}, au::hertz(4)) == 250000000"),
    ("inverse_as", "au::inverse_as(au::nano(au::seconds), au::hertz(4)).in(au::nano(au::seconds)) == 250000000"),
    ("inverse_in<int64_t>(int16_t)", "au::inverse_in<int64_t>(au::Nano<au::Seconds>{}, au::hertz(int16_t{5})) == 200000000LL"),
    ("inverse_as<int64_t>(int16_t)", "au::inverse_as<int64_t>(au::nano(au::seconds), au::hertz(int16_t{5})).in(au::nano(au::seconds)) == 200000000LL"),
    ("inverse_in<double>(int32_t)", "au::inverse_in<double>(au::Seconds{}, au::hertz(int32_t{4})) == 0.25"),
    ("inverse_in(uint64_t)", "au::inverse_in(au::Micro<au::Seconds>{}, au::hertz(uint64_t{3})) == 333333u"),
    ("inverse_in(double)", "au::inverse_in(au::milli(au::seconds), au::kilo(au::hertz)(2.0)) == 0.5"),
    ("inverse_roundtrip", "au::inverse_as(au::hertz, au::inverse_as(au::micro(au::seconds), au::hertz(1000))).in(au::hertz) == 1000"),
    ("clamp:friend:hi", "clamp(au::feet(5), au::feet(1), au::feet(3)).in(au::feet) == 3"),
    ("clamp:friend:lo", "clamp(au::feet(-5), au::feet(1), au::feet(3)).in(au::feet) == 1"),
    ("clamp:friend:mid", "clamp(au::feet(2), au::feet(1), au::feet(3)).in(au::feet) == 2"),
    ("clamp:mixed:lo", "au::clamp(au::feet(1), au::inches(24), au::inches(30)).in(au::inches) == 24"),
    ("clamp:mixed:hi", "au::clamp(au::feet(3), au::inches(24), au::inches(30)).in(au::inches) == 30"),
    ("clamp:mixed:mid", "au::clamp(au::feet(2), au::inches(12), au::inches(30)).in(au::inches) == 24"),
    ("min:friend", "min(au::feet(1), au::feet(2)).in(au::feet) == 1"),
    ("max:friend", "max(au::feet(1), au::feet(2)).in(au::feet) == 2"),
    ("min:mixed", "au::min(au::feet(1), au::inches(13)).in(au::inches) == 12"),
    ("max:mixed", "au::max(au::feet(1), au::inches(13)).in(au::inches) == 13"),
    ("min:point:same", "au::min(au::kelvins_pt(3), au::kelvins_pt(5)).in(au::kelvins_pt) == 3"),
    ("max:point:same", "au::max(au::kelvins_pt(3), au::kelvins_pt(5)).in(au::kelvins_pt) == 5"),
    ("max:point:mixed", "au::max(au::celsius_pt(0), au::kelvins_pt(273)) == au::celsius_pt(0)"),
    ("min:point:mixed", "au::min(au::celsius_pt(0), au::kelvins_pt(273)) == au::kelvins_pt(273)"),
    ("clamp:point:hi", "au::clamp(au::celsius_pt(50), au::kelvins_pt(273), au::kelvins_pt(300)) == au::kelvins_pt(300)"),
    ("clamp:point:same", "au::clamp(au::kelvins_pt(1), au::kelvins_pt(2), au::kelvins_pt(4)).in(au::kelvins_pt) == 2"),
]
_SA_FAILED = ("static assertion failed", "static_assert failed")


class Explorer:
    """Stages: prepare(cfg) (point-unit read-out + domain probes), sweep(cfg) any number of times, summary()."""

    def __init__(self, run, viol):
        self.run, self.viol, self.quick = run, viol, run.tier == "quick"
        self.S, self.builds, self.dom, self.rejected, self.mism = [], [], [], [], 0
        self.insts, self.byid, self.strict_rejected, self.cexpr = [], {}, 0, {}

    def prepare(self, cfg):
        run, viol = self.run, self.viol
        for msg in read_point_units(run, cfg, self.quick):
            viol("C15:cmath-type:point-unit:%s" % msg[:60], "%s: %s" % (cfg, msg),
                 {"kind": "math", "gen": None, "values": None, "config": [cfg.cxx, cfg.std]})
        self.insts = list(enumerate(instances(self.quick)))
        self.byid = dict(self.insts)
        ps = [core.Probe(iid, i.probe, "accept" if i.predict else "reject") for iid, i in self.insts]
        res, _ = core.run_probes(cfg, ps, os.path.join(run.wd, "mathp"), "m", '#include "c15_common.hh"\n', batch=16)
        for iid, i in self.insts:
            if res[iid][0] == "accept":
                self.dom.append((iid, i))
            else:
                C.guard(res[iid][1])
                self.rejected.append(i.desc)
                if i.strict:
                    # loss of domain: the statement makes this call available (no implicit-conversion policy involved)
                    self.strict_rejected += 1
                    viol("C15:cmath-rejected:%s" % i.desc,
                         "%s: `%s` does not compile although nothing in the statement lets it be refused: %s"
                         % (cfg, i.probe, res[iid][1][:300]),
                         {"kind": "probe", "code": i.probe, "expected": "accept", "config": [cfg.cxx, cfg.std],
                          "preamble": '#include "c15_common.hh"\n'})
            self.mism += (res[iid][0] == "accept") != i.predict
        if len(self.dom) < 0.6 * len(self.insts) and not self.strict_rejected:
            raise core.InfraError("vacuity guard: only %d of %d cmath instances compile, e.g. %s"
                                  % (len(self.dom), len(self.insts), self.rejected[:3]))

    def constexpr_stage(self, cfg):
        """static_assert(expr) next to the same expression evaluated at run time (`(void)(expr)`).  A failing assertion
        or an expression that no longer compiles at all is a violation; an expression that merely is not a constant
        expression is only counted (the statement says nothing about constant evaluation)."""
        pre = '#include "c15_common.hh"\n'
        ps = []
        for k, (name, expr) in enumerate(CONSTEXPR):
            ps.append(core.Probe(("sa", k), 'static_assert(%s, "");' % expr, "accept"))
            ps.append(core.Probe(("rt", k), "(void)(%s);" % expr, "accept"))
        res, _ = core.run_probes(cfg, ps, os.path.join(self.run.wd, "cexpr_" + cfg.name), "ce", pre, batch=8)
        st = self.cexpr.setdefault(cfg.name, {"static_asserts": 0, "hold": 0, "not_a_constant_expression(not judged)": []})
        for k, (name, expr) in enumerate(CONSTEXPR):
            st["static_asserts"] += 1
            (sv, sd), (rv, rd) = res[("sa", k)], res[("rt", k)]
            if sv == "accept" and rv == "accept":
                st["hold"] += 1
                continue
            C.guard(sd if sv != "accept" else rd)
            if rv != "accept":
                self.viol("C15:constexpr-rejected:%s" % name, "%s: `%s` does not compile: %s" % (cfg, expr, rd[:300]),
                          {"kind": "probe", "code": "(void)(%s);" % expr, "expected": "accept", "config": [cfg.cxx, cfg.std],
                           "preamble": pre})
            elif any(m in sd for m in _SA_FAILED):
                self.viol("C15:constexpr-value:%s" % name,
                          "%s: static_assert(%s) fails: the constant-evaluated result is not the required value" % (cfg, expr),
                          {"kind": "probe", "code": 'static_assert(%s, "");' % expr, "expected": "accept",
                           "config": [cfg.cxx, cfg.std], "preamble": pre})
            else:
                st["not_a_constant_expression(not judged)"].append("%s: %s" % (name, sd[:120]))

    def sweep(self, cfg):
        dom, byid, viol = self.dom, self.byid, self.viol
        r = C.build_run(self.run.wd, cfg, "math", [tu_text(g) for g in C.split(dom, max(core.NCPU * 3, (len(dom) + 99) // 100))], FLAGS)
        self.builds.append(str(cfg))
        if len(r["S"]) != len(dom):
            raise core.InfraError("cmath sweep: %d of %d instances reported" % (len(r["S"]), len(dom)))
        for s in r["S"]:
            i = byid[s["inst"]]
            s["build"] = cfg.name
            self.S.append(s)
            bad = []
            if not s["rep_ok"]:
                bad.append("the result rep is not the std function's / the common type")
            if i.unit is not None:
                if "mag" not in s:
                    bad.append("the result is not a quantity")
                else:
                    gm, gd = model.mag_key(model.mag_from_readout(s["mag"])), model.dim_key(model.dim_from_readout(s["dim"]))
                    if gm != model.mag_key(i.unit[0]) or gd != model.dim_key(i.unit[1]):
                        bad.append("result unit has magnitude %s dim %s, the model says %s" % (gm, gd, model.mag_key(i.unit[0])))
            elif "mag" in s:
                bad.append("the result carries a unit but should be a raw number")
            if bad:
                viol("C15:cmath-type:%s" % i.desc, "%s: %s: %s" % (cfg, i.desc, "; ".join(bad)),
                     {"kind": "math", "gen": i.meta["gen"], "values": None, "config": [cfg.cxx, cfg.std]})
        for v in r["V"]:
            i = byid[v["inst"]]
            ks = [k for k in ("a", "b", "c") if k in v]
            key = "C15:cmath:%s%s:%s" % (i.desc, (":own=%s" % v["own"]) if "own" in v else "",
                                         ":".join("%s=%s" % (k, v[k]) for k in ks))
            viol(key, "%s: %s" % (cfg, describe(i, v)),
                 {"kind": "math", "gen": i.meta["gen"], "values": [v[k] for k in ks], "config": [cfg.cxx, cfg.std], "observed": v})

    def summary(self):
        S, byid = self.S, self.byid
        g = [s for s in S if s["build"] == S[0]["build"]]
        vac = [byid[s["inst"]].desc for s in g if s["evals"] == 0]
        if len(vac) > 0.1 * len(g):
            raise core.InfraError("vacuous cmath instances: %s" % vac[:5])
        fams = {}
        for s in g:
            f = fams.setdefault(byid[s["inst"]].fn, {"instances": 0, "evaluations": 0, "skipped_outside_precondition": 0})
            f["instances"] += 1
            f["evaluations"] += s["evals"]
            f["skipped_outside_precondition"] += s["skipped"]
        return {
            "instances": len(self.insts), "instances_in_domain": len(self.dom),
            "instances_rejected_at_compile_time": len(self.rejected), "rejected_examples": self.rejected[:6],
            "rejected_although_no_policy_applies(violations)": self.strict_rejected,
            "instances_where_the_conversion_policy_may_refuse": sum(1 for _, i in self.insts if not i.strict),
            "compile_time_prediction_mismatches": self.mism, "sweep_builds": self.builds,
            "constant_expression_probes": self.cexpr,
            "evaluations": sum(s["evals"] for s in S), "skipped_outside_precondition": sum(s["skipped"] for s in S),
            "trig_pole_band": sum(s["band"] for s in S if byid[s["inst"]].kind == "trig"),
            "irrational_pair_dont_care_band": sum(s["band"] for s in S if byid[s["inst"]].kind == "irr"),
            "irrational_pair_instances": sum(1 for s in g if byid[s["inst"]].kind == "irr"), "bit_exact_trig_checks": sum(s["exact"] for s in S),
            "vacuous_instances": vac[:10],
            "instances_with_both_outcomes": sum(1 for s in g if bin(s["branches"]).count("1") >= 2),
            "per_function": fams, "raw_violations": sum(s["viol"] for s in S),
            "samples": [{"instance": byid[s["inst"]].desc, "evaluations": s["evals"], "skipped": s["skipped"]}
                        for s in g[:: max(1, len(g) // 4)]][:4],
        }


def replay_math(r, cfg, wd):
    class _R:
        pass
    rr = _R()
    rr.wd = wd
    msgs = read_point_units(rr, cfg, False)
    if r.get("gen") is None:
        return msgs
    instances(False)      # registers the unit names
    if r["values"] is None:
        inst = [i for i in instances(False) + instances(True) if i.meta["gen"] == r["gen"]][0]
        only = None
    else:
        vs = [[num_to_py(v)] for v in r["values"]]
        inst = regen(r["gen"], vs)
    rec = C.build_run(wd, cfg, "rpm", [tu_text([(0, inst)], single=r["values"] is not None)], FLAGS)
    hits = [str(v) for v in rec["V"]]
    if r["values"] is None:
        for s in rec["S"]:
            ok = s["rep_ok"]
            if inst.unit is not None:
                ok = ok and "mag" in s and model.mag_key(model.mag_from_readout(s["mag"])) == model.mag_key(inst.unit[0])
            if not ok:
                hits.append("result type/unit wrong: %s" % s)
    return hits
