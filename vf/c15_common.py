"""C15 shared helpers: unit catalogue on top of vf/model.py, long-double literals, sweep build/run."""
import json
import os
import re
from decimal import Decimal, getcontext
from fractions import Fraction as Fr

from . import core, model

getcontext().prec = 90
# one flag set for every value-sweep TU (one PCH); -fwrapv: a library-side signed wrap is observed as a wrong value
SWEEP_FLAGS = ["-O1", "-fwrapv"]

_INFRA = re.compile(r"fatal error|No such file|cannot open|\.pch|\.gch|internal compiler error|Killed|"
                    r"out of memory|Bus error|Segmentation", re.I)


def guard(diag):
    """A compile failure caused by the environment (PCH wiped by a concurrent run, OOM) is no verdict."""
    if _INFRA.search(diag or ""):
        raise core.InfraError("compile failed for environmental reasons: %s" % diag[:400])


class U:
    """A unit as the checks use it: C++ type, C++ unit-slot expression (maker), model unit."""

    def __init__(self, name, cpp, maker, mu, pt_maker=None):
        self.name, self.cpp, self.maker, self.mu, self.pt_maker = name, cpp, maker, mu, pt_maker

    @property
    def mag(self):
        return self.mu.mag

    @property
    def origin(self):
        return self.mu.origin


_PFX = {p[1]: p for p in model.SI_PREFIXES}
_PT = {"celsius": "au::celsius_pt", "fahrenheit": "au::fahrenheit_pt", "kelvins": "au::kelvins_pt",
       "meters": "au::meters_pt"}


def unit(stem, prefix=None):
    mu = model.LIB_BY_STEM[stem]
    if prefix is None:
        return U(stem, mu.cpp, mu.maker, mu, _PT.get(stem))
    p = _PFX[prefix]
    pm = model.prefixed(p, mu)
    pt = "au::%s(%s)" % (p[1], _PT[stem]) if stem in _PT else None
    return U("%s(%s)" % (p[1], stem), pm.cpp, "au::%s(%s)" % (p[1], mu.maker), pm, pt)


def quotient(a, b):
    """a / b as an anonymous compound unit (e.g. meters / second)."""
    mu = model.Unit("%s/%s" % (a.name, b.name), "decltype(%s{} / %s{})" % (a.cpp, b.cpp),
                    model.vdiv(a.mu.dim, b.mu.dim), model.vdiv(a.mu.mag, b.mu.mag), named=False)
    return U(mu.name, mu.cpp, "(%s / %s)" % (a.maker, b.maker), mu)


def mag_value(m):
    """Exact Fraction for rational magnitudes, 90-digit Decimal otherwise."""
    if model.mag_is_rational(m):
        return model.mag_fraction(m) if m else Fr(1)
    return model.mag_decimal(m)


def to_decimal(v):
    if isinstance(v, Fr):
        return Decimal(v.numerator) / Decimal(v.denominator)
    return Decimal(v)


def ld_lit(v):
    """C++ long double literal (36 significant digits; the compiler rounds it correctly)."""
    d = to_decimal(v)
    return "%sL" % format(d, ".36e")


def parse_num(s):
    """Number printed by the harness: decimal integer or hexfloat (possibly long double precision)."""
    s = s.strip()
    if s in ("nan", "-nan", "inf", "-inf"):
        return None
    if "x" not in s.lower():
        return Fr(s)
    neg = s.startswith("-")
    t = s.lstrip("+-")[2:]
    mant, _, exp = t.lower().partition("p")
    ip, _, fp = mant.partition(".")
    v = Fr(int(ip + fp, 16), 16 ** len(fp)) * (Fr(2) ** int(exp or 0))
    return -v if neg else v


def build_run(run_wd, cfg, tag, sources, flags, timeout=3600, keep=False):
    """sources: list of C++ TU texts.  Build each, run each, parse 'S {json}' / 'V {json}' / 'T {json}' lines."""
    wd = os.path.join(run_wd, tag + "_" + cfg.name)
    os.makedirs(wd, exist_ok=True)
    fl = list(flags)
    core.pch_dir(cfg, fl)

    def build(k):
        src, exe = os.path.join(wd, "t%d.cc" % k), os.path.join(wd, "t%d" % k)
        with open(src, "w") as f:
            f.write(sources[k])
        rc, err = core.build_exe(cfg, src, exe, fl)
        if rc != 0:
            guard(err)
            return None, (src, core._first_error(err) or err[-600:])
        return exe, None

    built = core.pmap(build, range(len(sources)))
    bad = [e for x, e in built if x is None]
    if bad:
        raise core.InfraError("C15 sweep TU does not build although its instances were accepted alone (%s):\n%s"
                              % (bad[0][0], bad[0][1]))

    def go(exe):
        rc, out, err = core.sh([exe], timeout=timeout)
        if rc == 86 and "trap-signal" in out:
            return out          # the harness caught a trap inside the library and reported it as a V line
        if rc != 0:
            raise core.InfraError("sweep binary %s failed rc=%d: %s" % (exe, rc, err[-1500:]))
        return out

    recs = {"S": [], "V": [], "T": []}
    for out in core.pmap(go, [x for x, _ in built]):
        for line in out.split("\n"):
            if len(line) > 2 and line[0] in recs and line[1] == " ":
                try:
                    recs[line[0]].append(json.loads(line[2:]))
                except ValueError:
                    raise core.InfraError("bad harness line: %s" % line[:300])
    if not keep:
        for x, _ in built:
            try:
                os.remove(x)
            except OSError:
                pass
    return recs


def split(items, n):
    n = max(1, min(n, len(items)))
    return [g for g in (items[k::n] for k in range(n)) if g]
