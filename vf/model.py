"""Independent reference model of Au's unit algebra.  NO Au code, no parsing of Au headers.

Magnitude  = {base: Fraction exponent}, base = prime int or "pi"
Dimension  = {base-dimension index: Fraction exponent}   (indices as documented: Length -99 ...)
Unit       = (dim, mag, origin) + a C++ spelling; origin = Fraction in base units of the dimension

The unit table is written from SI / NIST / international-yard-and-pound definitions.
"""
from fractions import Fraction as Fr
from decimal import Decimal, getcontext
import math

getcontext().prec = 90
PI = Decimal("3.14159265358979323846264338327950288419716939937510582097494459230781640628620899862803482534211706798")

L, M, T, I, TH, ANG, INFO, N, J = -99, -98, -97, -96, -95, -94, -93, -92, -91
DIM_NAMES = {L: "Length", M: "Mass", T: "Time", I: "Current", TH: "Temperature", ANG: "Angle",
             INFO: "Information", N: "AmountOfSubstance", J: "LuminousIntensity"}


# ---------------------------------------------------------------- small primes / factorisation
def factorize(n):
    """Exact factorisation by trial division + Pollard rho (independent of Au)."""
    assert n >= 1
    f = {}

    def add(p):
        f[p] = f.get(p, 0) + 1

    def isprime(m):
        if m < 2:
            return False
        for p in (2, 3, 5, 7, 11, 13, 17, 19, 23, 29, 31, 37):
            if m % p == 0:
                return m == p
        d, s = m - 1, 0
        while d % 2 == 0:
            d //= 2
            s += 1
        for a in (2, 3, 5, 7, 11, 13, 17, 19, 23, 29, 31, 37):
            x = pow(a, d, m)
            if x in (1, m - 1):
                continue
            for _ in range(s - 1):
                x = x * x % m
                if x == m - 1:
                    break
            else:
                return False
        return True

    def rho(m):
        if m % 2 == 0:
            return 2
        c = 1
        while True:
            x = y = 2
            d = 1
            g = lambda v: (v * v + c) % m
            while d == 1:
                x = g(x)
                y = g(g(y))
                d = math.gcd(abs(x - y), m)
            if d != m:
                return d
            c += 1

    def rec(m):
        if m == 1:
            return
        if isprime(m):
            add(m)
            return
        for p in (2, 3, 5, 7, 11, 13, 17, 19, 23, 29, 31, 37, 41, 43, 47):
            if m % p == 0:
                add(p)
                rec(m // p)
                return
        d = rho(m)
        rec(d)
        rec(m // d)

    rec(n)
    return f


is_prime = lambda n: n >= 2 and factorize(n) == {n: 1}


# ---------------------------------------------------------------- exponent-vector algebra
def vmul(a, b):
    r = dict(a)
    for k, e in b.items():
        r[k] = r.get(k, 0) + e
        if r[k] == 0:
            del r[k]
    return r


def vpow(a, e):
    e = Fr(e)
    return {k: v * e for k, v in a.items()} if e != 0 else {}


def vinv(a):
    return vpow(a, -1)


def vdiv(a, b):
    return vmul(a, vinv(b))


def mag_int(n):
    return {p: Fr(e) for p, e in factorize(n).items()}


def mag_ratio(n, d=1):
    return vdiv(mag_int(n), mag_int(d))


MAG_PI = {"pi": Fr(1)}


def mag_of_fraction(fr):
    fr = Fr(fr)
    return mag_ratio(fr.numerator, fr.denominator)


def mag_is_rational(m):
    return all(k != "pi" and e.denominator == 1 for k, e in m.items())


def mag_is_integer(m):
    return mag_is_rational(m) and all(e > 0 for e in m.values())


def mag_fraction(m):
    assert mag_is_rational(m)
    r = Fr(1)
    for p, e in m.items():
        r *= Fr(p) ** int(e)
    return r


def mag_decimal(m):
    """High-precision real value (80+ digits)."""
    r = Decimal(1)
    for b, e in m.items():
        base = PI if b == "pi" else Decimal(b)
        if e.denominator == 1:
            r *= base ** int(e)
        else:
            r *= (base.ln() * Decimal(e.numerator) / Decimal(e.denominator)).exp()
    return r


def mag_key(m):
    return tuple(sorted(((str(k), e.numerator, e.denominator) for k, e in m.items()),
                        key=lambda x: (x[0] == "pi", int(x[0]) if x[0] != "pi" else 0)))


def dim_key(d):
    return tuple(sorted((k, e.numerator, e.denominator) for k, e in d.items()))


def mag_from_readout(lst):
    """[[base, num, den], ...] as printed by harness/readout.hh -> model magnitude."""
    m = {}
    for b, n, d in lst:
        m["pi" if b == "pi" else int(b)] = Fr(n, d)
    return m


def dim_from_readout(lst):
    return {int(b): Fr(n, d) for b, n, d in lst}


def mag_gcd(mags):
    """Common magnitude: base-wise minimum exponent, a missing base counting as exponent 0
    (so only negative minima survive for bases missing somewhere)."""
    bases = set()
    for m in mags:
        bases |= set(m)
    r = {}
    for b in bases:
        e = min(m.get(b, Fr(0)) for m in mags)
        if e != 0:
            r[b] = e
    return r


# ---------------------------------------------------------------- units
class Unit:
    def __init__(self, name, cpp, dim, mag, origin=Fr(0), label=None, maker=None, singular=None,
                 symbol=None, header=None, named=True):
        self.name, self.cpp, self.dim, self.mag, self.origin = name, cpp, dim, mag, Fr(origin)
        self.label, self.maker, self.singular, self.symbol, self.header = (label, maker, singular,
                                                                           symbol, header)
        self.named = named

    def key(self):
        return (dim_key(self.dim), mag_key(self.mag))

    def __repr__(self):
        return "Unit(%s)" % self.name


def d(**kw):
    names = {"L": L, "M": M, "T": T, "I": I, "TH": TH, "ANG": ANG, "INFO": INFO, "N": N, "J": J}
    return {names[k]: Fr(v) for k, v in kw.items() if v != 0}


FOOT = Fr(381, 1250)
INCH = Fr(127, 5000)
LB_G = Fr(45359237, 100000)       # grams per pound (mass base unit is the gram)
G0 = Fr(980665, 100000)


def _mk(stem, cpp, dim, mag, label, singular=None, symbol=None, origin=0, maker=None):
    if not isinstance(mag, dict):
        mag = mag_of_fraction(mag)
    return Unit(stem, "au::" + cpp, dim, mag, origin, label, "au::" + (maker or stem),
                ("au::" + singular) if singular else None,
                ("au::symbols::" + symbol) if symbol else None, stem)


DEG = vmul(MAG_PI, mag_ratio(1, 180))
FORCE = d(M=1, L=1, T=-2)
ENERGY = d(M=1, L=2, T=-2)
POWER = d(M=1, L=2, T=-3)
VOLT = d(M=1, L=2, T=-3, I=-1)

LIB = [
    _mk("amperes", "Amperes", d(I=1), 1, "A", "ampere", "A"),
    _mk("arcminutes", "Arcminutes", d(ANG=1), vmul(DEG, mag_ratio(1, 60)), "'", "arcminute", "am"),
    _mk("arcseconds", "Arcseconds", d(ANG=1), vmul(DEG, mag_ratio(1, 3600)), "\"", "arcsecond", "as"),
    _mk("bars", "Bars", d(M=1, L=-1, T=-2), 10 ** 8, "bar", "bar", "bar"),
    _mk("becquerel", "Becquerel", d(T=-1), 1, "Bq", None, "Bq"),
    _mk("bits", "Bits", d(INFO=1), 1, "b", "bit", "b"),
    _mk("bytes", "Bytes", d(INFO=1), 8, "B", "byte", "B"),
    _mk("candelas", "Candelas", d(J=1), 1, "cd", "candela", "cd"),
    _mk("celsius", "Celsius", d(TH=1), 1, "degC", None, "degC_qty", origin=Fr(27315, 100),
        maker="celsius_qty"),
    _mk("coulombs", "Coulombs", d(I=1, T=1), 1, "C", "coulomb", "C"),
    _mk("days", "Days", d(T=1), 86400, "d", "day", "d"),
    _mk("degrees", "Degrees", d(ANG=1), DEG, "deg", "degree", "deg"),
    _mk("fahrenheit", "Fahrenheit", d(TH=1), Fr(5, 9), "degF", None, "degF_qty",
        origin=Fr(27315, 100) - 32 * Fr(5, 9), maker="fahrenheit_qty"),
    _mk("farads", "Farads", d(M=-1, L=-2, T=4, I=2), Fr(1, 1000), "F", "farad", "F"),
    _mk("fathoms", "Fathoms", d(L=1), 6 * FOOT, "ftm", "fathom", "ftm"),
    _mk("feet", "Feet", d(L=1), FOOT, "ft", "foot", "ft"),
    _mk("furlongs", "Furlongs", d(L=1), 660 * FOOT, "fur", "furlong", "fur"),
    _mk("grams", "Grams", d(M=1), 1, "g", "gram", "g"),
    _mk("grays", "Grays", d(L=2, T=-2), 1, "Gy", "gray", "Gy"),
    _mk("henries", "Henries", d(M=1, L=2, T=-2, I=-2), 1000, "H", "henry", "H"),
    _mk("hertz", "Hertz", d(T=-1), 1, "Hz", None, "Hz"),
    _mk("hours", "Hours", d(T=1), 3600, "h", "hour", "h"),
    _mk("inches", "Inches", d(L=1), INCH, "in", "inch", "in"),
    _mk("joules", "Joules", ENERGY, 1000, "J", "joule", "J"),
    _mk("katals", "Katals", d(N=1, T=-1), 1, "kat", "katal", "kat"),
    _mk("kelvins", "Kelvins", d(TH=1), 1, "K", "kelvin", "K"),
    _mk("knots", "Knots", d(L=1, T=-1), Fr(1852, 3600), "kn", "knot", "kn"),
    _mk("liters", "Liters", d(L=3), Fr(1, 1000), "L", "liter", "L"),
    _mk("lumens", "Lumens", d(J=1, ANG=2), 1, "lm", "lumen", "lm"),
    _mk("lux", "Lux", d(J=1, ANG=2, L=-2), 1, "lx", None, "lx"),
    _mk("meters", "Meters", d(L=1), 1, "m", "meter", "m"),
    _mk("miles", "Miles", d(L=1), 5280 * FOOT, "mi", "mile", "mi"),
    _mk("minutes", "Minutes", d(T=1), 60, "min", "minute", "min"),
    _mk("moles", "Moles", d(N=1), 1, "mol", "mole", "mol"),
    _mk("nautical_miles", "NauticalMiles", d(L=1), 1852, "nmi", "nautical_mile", "nmi"),
    _mk("newtons", "Newtons", FORCE, 1000, "N", "newton", "N"),
    _mk("ohms", "Ohms", d(M=1, L=2, T=-3, I=-2), 1000, "ohm", "ohm", "ohm"),
    _mk("pascals", "Pascals", d(M=1, L=-1, T=-2), 1000, "Pa", "pascal", "Pa"),
    _mk("percent", "Percent", {}, Fr(1, 100), "%", None, "pct"),
    _mk("pounds_force", "PoundsForce", FORCE, LB_G * G0, "lbf", "pound_force", "lbf"),
    _mk("pounds_mass", "PoundsMass", d(M=1), LB_G, "lb", "pound_mass", "lb"),
    _mk("radians", "Radians", d(ANG=1), 1, "rad", "radian", "rad"),
    _mk("revolutions", "Revolutions", d(ANG=1), vmul(MAG_PI, mag_int(2)), "rev", "revolution", "rev"),
    _mk("seconds", "Seconds", d(T=1), 1, "s", "second", "s"),
    _mk("siemens", "Siemens", d(M=-1, L=-2, T=3, I=2), Fr(1, 1000), "S", "siemen", "S"),
    _mk("slugs", "Slugs", d(M=1), LB_G * G0 / FOOT, "slug", "slug", "slug"),
    _mk("standard_gravity", "StandardGravity", d(L=1, T=-2), G0, "g_0", None, "g_0"),
    _mk("steradians", "Steradians", d(ANG=2), 1, "sr", "steradian", "sr"),
    _mk("tesla", "Tesla", d(M=1, T=-2, I=-1), 1000, "T", None, "T"),
    _mk("unos", "Unos", {}, 1, "U", None, None),
    _mk("us_gallons", "USGallons", d(L=3), 231 * INCH ** 3, "US_gal", "us_gallon", "US_gal"),
    _mk("us_pints", "USPints", d(L=3), 231 * INCH ** 3 / 8, "US_pt", "us_pint", "US_pt"),
    _mk("us_quarts", "USQuarts", d(L=3), 231 * INCH ** 3 / 4, "US_qt", "us_quart", "US_qt"),
    _mk("volts", "Volts", VOLT, 1000, "V", "volt", "V"),
    _mk("watts", "Watts", POWER, 1000, "W", "watt", "W"),
    _mk("webers", "Webers", d(M=1, L=2, T=-2, I=-1), 1000, "Wb", "weber", "Wb"),
    _mk("yards", "Yards", d(L=1), 3 * FOOT, "yd", "yard", "yd"),
]
LIB_BY_STEM = {u.name: u for u in LIB}

# (C++ template, applier, symbol, factor)
SI_PREFIXES = [("Quetta", "quetta", "Q", 30), ("Ronna", "ronna", "R", 27), ("Yotta", "yotta", "Y", 24),
               ("Zetta", "zetta", "Z", 21), ("Exa", "exa", "E", 18), ("Peta", "peta", "P", 15),
               ("Tera", "tera", "T", 12), ("Giga", "giga", "G", 9), ("Mega", "mega", "M", 6),
               ("Kilo", "kilo", "k", 3), ("Hecto", "hecto", "h", 2), ("Deka", "deka", "da", 1),
               ("Deci", "deci", "d", -1), ("Centi", "centi", "c", -2), ("Milli", "milli", "m", -3),
               ("Micro", "micro", "u", -6), ("Nano", "nano", "n", -9), ("Pico", "pico", "p", -12),
               ("Femto", "femto", "f", -15), ("Atto", "atto", "a", -18), ("Zepto", "zepto", "z", -21),
               ("Yocto", "yocto", "y", -24), ("Ronto", "ronto", "r", -27),
               ("Quecto", "quecto", "q", -30)]
BIN_PREFIXES = [("Kibi", "kibi", "Ki", 1), ("Mebi", "mebi", "Mi", 2), ("Gibi", "gibi", "Gi", 3),
                ("Tebi", "tebi", "Ti", 4), ("Pebi", "pebi", "Pi", 5), ("Exbi", "exbi", "Ei", 6),
                ("Zebi", "zebi", "Zi", 7), ("Yobi", "yobi", "Yi", 8)]


def prefix_mag(p):
    if p in SI_PREFIXES:
        return vpow(mag_int(10), p[3])
    return vpow(mag_int(2), 10 * p[3])


ALL_PREFIXES = SI_PREFIXES + BIN_PREFIXES


def prefixed(p, u):
    return Unit("%s<%s>" % (p[0], u.name), "au::%s<%s>" % (p[0], u.cpp), u.dim,
                vmul(u.mag, prefix_mag(p)), u.origin,
                (p[2] + u.label) if u.label is not None else None, named=True)


def scaled(u, n, dd=1, pi_pow=0):
    """Anonymous scaled unit u * mag<n>() / mag<d>() * pi^k."""
    e = u.cpp + "{}"
    m = dict(u.mag)
    if n != 1:
        e += " * au::mag<%du>()" % n
        m = vmul(m, mag_int(n))
    if dd != 1:
        e += " / au::mag<%du>()" % dd
        m = vdiv(m, mag_int(dd))
    if pi_pow:
        e += " * au::pow<%d>(au::Magnitude<au::Pi>{})" % pi_pow
        m = vmul(m, vpow(MAG_PI, pi_pow))
    return Unit("%s*%d/%d*pi^%d" % (u.name, n, dd, pi_pow), "decltype(%s)" % e, u.dim, m, u.origin,
                None, named=False)


def same_quantity(u, v):
    return dim_key(u.dim) == dim_key(v.dim) and mag_key(u.mag) == mag_key(v.mag)


def ordering_conflict(units):
    """Documented exclusion: two distinct *named* units with identical dim, mag and origin."""
    named = [u for u in units if u.named]
    for i in range(len(named)):
        for j in range(i + 1, len(named)):
            a, b = named[i], named[j]
            if a.cpp != b.cpp and same_quantity(a, b) and a.origin == b.origin:
                return True
    return False
