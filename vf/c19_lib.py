"""C19 — generators and C++ harness text (ZERO is the exact zero of every unit).

Re-uses the value alphabets / bit-exact comparison helpers of vf/c13_cpp.py (namespace c13: vals_all,
vals_edge, each_fp, Same, Def, Str).  The expected result of every operation is what the raw built-in
operator yields on (x, 0); nothing here depends on Au's own notion of zero.
"""
import json

from . import model
from .c13_cpp import HARNESS as C13_HARNESS

UNITS_PREAMBLE = r'''
namespace g19 {
struct Zorks : au::UnitImpl<au::Length, decltype(au::mag<11>())> {};
struct Trifeet : decltype(au::Feet{} * au::mag<3>()) {};
struct Zelsius : decltype(au::Kelvins{} * au::mag<2>()) {
    static constexpr auto origin() { return (au::milli(au::kelvins))(10000); }
};
using MPS = decltype(au::Meters{} / au::Seconds{});
using NM = decltype(au::Newtons{} * au::Meters{});
using M3 = decltype(au::pow<3>(au::Meters{}));
using InvS = decltype(au::pow<-1>(au::Seconds{}));
using RootHz = decltype(au::root<2>(au::Hertz{}));
using Feet3 = decltype(au::Feet{} * au::mag<3>());
using In5_7 = decltype(au::Inches{} * au::mag<5>() / au::mag<7>());
using PiRad = decltype(au::Radians{} * au::Magnitude<au::Pi>{});
using KiloM = au::Kilo<au::Meters>;
using MilliS = au::Milli<au::Seconds>;
using GibiB = au::Gibi<au::Bytes>;
using MperM = decltype(au::Meters{} / au::Meters{});
}
'''
GEN = ["Zorks", "Trifeet", "Zelsius", "MPS", "NM", "M3", "InvS", "RootHz", "Feet3", "In5_7", "PiRad", "KiloM",
       "MilliS", "GibiB", "MperM"]
LIB_PT = {"kelvins": "au::kelvins_pt", "celsius": "au::celsius_pt", "fahrenheit": "au::fahrenheit_pt",
          "meters": "au::meters_pt"}
SWEEP_UNITS = ["meters", "celsius", "unos", "gen.MPS", "gen.Feet3", "gen.KiloM"]
SWEEP_UNITS_THOROUGH = ["fahrenheit", "gen.In5_7", "gen.Zelsius", "gen.MperM"]
POINT_UNITS = ["kelvins", "celsius", "fahrenheit", "meters", "gen.Zelsius", "gen.MPS"]


class U:
    __slots__ = ("name", "cpp", "maker", "ptmaker")

    def __init__(self, name, cpp, maker, ptmaker):
        self.name, self.cpp, self.maker, self.ptmaker = name, cpp, maker, ptmaker


def all_units():
    out = [U(u.name, u.cpp, u.maker, LIB_PT.get(u.name, "au::QuantityPointMaker<%s>{}" % u.cpp)) for u in model.LIB]
    for g in GEN:
        c = "g19::" + g
        out.append(U("gen." + g, c, "au::QuantityMaker<%s>{}" % c, "au::QuantityPointMaker<%s>{}" % c))
    return out


# item names, in the bit order used by c19::one / c19::forms below
CMP = ["eq", "ne", "lt", "le", "gt", "ge"]
ITEMS = [n + s for n in CMP for s in (":q_op_ZERO", ":ZERO_op_q")] + [
    "q+ZERO", "q-ZERO", "ZERO+q", "ZERO-q", "q+ZERO==q", "q-ZERO==q", "q+=ZERO", "q-=ZERO"]
FORMS = [("copy-init", "Q q = ZERO"), ("list-init", "Q q{ZERO}"), ("direct-init", "Q q(ZERO)"), ("copy-init-Zero", "Q q = Zero{}"),
         ("constexpr", "constexpr Q q = ZERO"), ("assign", "q = ZERO"), ("argument", "pass ZERO to f(Q)"),
         ("functional-cast", "Q(ZERO)"), ("static_cast", "static_cast<Q>(ZERO)"),
         ("array", "Q arr[2] = {ZERO, ZERO}"), ("member-init", "struct { Q m = ZERO; }"),
         ("rep_cast-int32", "rep_cast<int32_t>(Q(ZERO))"), ("rep_cast-double", "rep_cast<double>(Q(ZERO))"),
         ("in-maker", "Q(ZERO).in(maker)"), ("return", "return ZERO from a function returning Q"),
         ("conditional", "cond ? q : ZERO and cond ? ZERO : q"), ("const-ref", "const Q &r = ZERO"),
         ("new", "new Q(ZERO)")]
# `rep_cast<R>(ZERO)` is not in the statement: recorded (own records), never a violation
RC_FORMS = [("rep_cast-ZERO", "Q q = rep_cast<R>(ZERO)"), ("assign-rep_cast", "q = rep_cast<R>(ZERO)"),
            ("rep_cast-ZERO-all-reps", "Quantity<U,R2> = rep_cast<R2>(ZERO) for all 11 R2")]
# comparisons (on the stored values 0, 1, R(-1), R(-0), lowest (ints) / quiet NaN) and additions (on 0, 1, R(-1)) evaluated in
# constant expressions
CX_ITEMS = [n + s for n in CMP for s in (":q_op_ZERO", ":ZERO_op_q")] + ["q+ZERO", "q-ZERO", "ZERO+q", "ZERO-q", "(q+ZERO)==q"]
# ZERO seen from a scaled sibling unit: always exactly 0
XU_ITEMS = ["coerce_in(u*3)", "coerce_in(u/3)", "coerce_in(u*5/7)", "coerce_as(u/3).in(u/3)", "in<double>(u*3)",
            "in<long double>(u*5/7)", "as<R>(u/3).in(u/3)", "coerce_in<float>(u*5/7)",
            "fp:in(u*3)", "fp:as(u*5/7).in(u*5/7)", "fp:in(u*pi)", "fp:coerce_in(u*pi)", "fp:Quantity<u*3,R> = Q(ZERO)"]
FORM_IDS = [f[0] for f in FORMS]

HARNESS = C13_HARNESS + r'''
namespace c19 {
using c13::i128;
template <class Q> struct RetZero { static constexpr Q get() { return au::ZERO; } static Q id(Q q) { return q; } };
template <class U, class R2> bool zero_as() { au::Quantity<U, R2> q = au::rep_cast<R2>(au::ZERO); return q.in(U{}) == 0; }

// bitmask of construction / conversion / assignment forms whose result is not 0
template <class R, class Mk> unsigned long long forms(Mk mk) {
    using U = typename Mk::Unit; using Q = au::Quantity<U, R>;
    unsigned long long bad = 0; int i = 0;
#define C19_Z(EXPR) { if (!((EXPR) == 0)) bad |= 1ull << i; ++i; }
    Q q0 = au::ZERO; C19_Z(q0.in(U{}))
    Q q1{au::ZERO}; C19_Z(q1.in(U{}))
    Q q2(au::ZERO); C19_Z(q2.in(U{}))
    Q q3 = au::Zero{}; C19_Z(q3.in(U{}))
    constexpr Q q4 = au::ZERO; constexpr R v4 = q4.in(U{}); C19_Z(v4)
    Q q5 = mk(static_cast<R>(7)); q5 = au::ZERO; C19_Z(q5.in(U{}))
    Q q6 = RetZero<Q>::id(au::ZERO); C19_Z(q6.in(U{}))
    C19_Z(Q(au::ZERO).in(U{}))
    C19_Z(static_cast<Q>(au::ZERO).in(U{}))
    const Q arr[2] = {au::ZERO, au::ZERO}; C19_Z(arr[0].in(U{}) + arr[1].in(U{}))
    struct S { Q m = au::ZERO; } s; C19_Z(s.m.in(U{}))
    C19_Z(au::rep_cast<std::int32_t>(Q(au::ZERO)).in(U{}))
    C19_Z(au::rep_cast<double>(Q(au::ZERO)).in(U{}))
    C19_Z(Q(au::ZERO).in(mk))
    C19_Z(RetZero<Q>::get().in(U{}))
    { volatile bool f = false; const Q q7 = mk(static_cast<R>(7)); C19_Z((f ? q7 : au::ZERO).in(U{}) + (f ? au::ZERO : q7).in(U{}) - 7) }
    const Q &r16 = au::ZERO; C19_Z(r16.in(U{}))
    { Q *p = new Q(au::ZERO); const R v = p->in(U{}); delete p; C19_Z(v) }
    return bad;
}

// `rep_cast<R>(ZERO)` (not in the statement; recorded only)
template <class R, class Mk> unsigned long long rc(Mk mk) {
    using U = typename Mk::Unit; using Q = au::Quantity<U, R>;
    unsigned long long bad = 0; int i = 0;
    Q q7 = au::rep_cast<R>(au::ZERO); C19_Z(q7.in(U{}))
    Q q17 = mk(static_cast<R>(7)); q17 = au::rep_cast<R>(au::ZERO); C19_Z(q17.in(U{}))
    C19_Z((zero_as<U, std::int8_t>() && zero_as<U, std::uint8_t>() && zero_as<U, std::int16_t>() && zero_as<U, std::uint16_t>() &&
           zero_as<U, std::int32_t>() && zero_as<U, std::uint32_t>() && zero_as<U, std::int64_t>() && zero_as<U, std::uint64_t>() &&
           zero_as<U, float>() && zero_as<U, double>() && zero_as<U, long double>()) ? 0 : 1)
    return bad;
}

// comparisons with / additions of ZERO evaluated in constant expressions; expected = the raw operator on (x, 0) at run time
template <class R, bool I = std::is_integral<R>::value> struct CxSpecial { static constexpr R get() { return std::numeric_limits<R>::lowest(); } };
template <class R> struct CxSpecial<R, false> { static constexpr R get() { return std::numeric_limits<R>::quiet_NaN(); } };
// the 12 comparison verdicts as a bit set (bit order of CX_ITEMS): with ZERO through Au (usable in constant expressions) ...
template <class Q> constexpr unsigned cmp_bits_zero(Q a) {
    return (unsigned)(a == au::ZERO) | (unsigned)(au::ZERO == a) << 1 | (unsigned)(a != au::ZERO) << 2 | (unsigned)(au::ZERO != a) << 3 |
           (unsigned)(a < au::ZERO) << 4 | (unsigned)(au::ZERO < a) << 5 | (unsigned)(a <= au::ZERO) << 6 | (unsigned)(au::ZERO <= a) << 7 |
           (unsigned)(a > au::ZERO) << 8 | (unsigned)(au::ZERO > a) << 9 | (unsigned)(a >= au::ZERO) << 10 | (unsigned)(au::ZERO >= a) << 11;
}
// ... and with the literal 0 on the raw value (evaluated at run time)
template <class R> unsigned cmp_bits_raw(R x) {
    return (unsigned)(x == 0) | (unsigned)(0 == x) << 1 | (unsigned)(x != 0) << 2 | (unsigned)(0 != x) << 3 |
           (unsigned)(x < 0) << 4 | (unsigned)(0 < x) << 5 | (unsigned)(x <= 0) << 6 | (unsigned)(0 <= x) << 7 |
           (unsigned)(x > 0) << 8 | (unsigned)(0 > x) << 9 | (unsigned)(x >= 0) << 10 | (unsigned)(0 >= x) << 11;
}
template <class G, class W> bool same_val(G g, W w) { return c13::Same<G, W>::eq(g, w); }
template <class R, class Mk> unsigned long long cx(Mk) {
    using U = typename Mk::Unit; using Q = au::Quantity<U, R>;
    unsigned long long bad = 0;
    constexpr R x0 = R(0), x1 = R(1), x2 = R(-1), x3 = R(-R(0)), x4 = CxSpecial<R>::get();
    constexpr Q a0 = Mk{}(x0), a1 = Mk{}(x1), a2 = Mk{}(x2), a3 = Mk{}(x3), a4 = Mk{}(x4);
    volatile R y0 = x0, y1 = x1, y2 = x2, y3 = x3, y4 = x4;   // the oracle side is evaluated at run time, on the raw values
    const R w0 = y0, w1 = y1, w2 = y2, w3 = y3, w4 = y4, z = 0;
    constexpr unsigned m0 = cmp_bits_zero(a0), m1 = cmp_bits_zero(a1), m2 = cmp_bits_zero(a2), m3 = cmp_bits_zero(a3),
                       m4 = cmp_bits_zero(a4), mz = cmp_bits_zero(Q(au::ZERO));
    bad |= (m0 ^ cmp_bits_raw<R>(w0)) | (m1 ^ cmp_bits_raw<R>(w1)) | (m2 ^ cmp_bits_raw<R>(w2)) | (m3 ^ cmp_bits_raw<R>(w3)) |
           (m4 ^ cmp_bits_raw<R>(w4)) | (mz ^ cmp_bits_raw<R>(w0));
    int i = 12;
    { constexpr auto s1 = a1 + au::ZERO; constexpr auto s2 = a2 + au::ZERO;
      if (!same_val(s1.in(U{}), w1 + z) || !same_val(s2.in(U{}), w2 + z)) bad |= 1ull << i; ++i; }
    { constexpr auto s1 = a1 - au::ZERO; constexpr auto s2 = a2 - au::ZERO;
      if (!same_val(s1.in(U{}), w1 - z) || !same_val(s2.in(U{}), w2 - z)) bad |= 1ull << i; ++i; }
    { constexpr auto s1 = au::ZERO + a1; constexpr auto s2 = au::ZERO + a2;
      if (!same_val(s1.in(U{}), z + w1) || !same_val(s2.in(U{}), z + w2)) bad |= 1ull << i; ++i; }
    { constexpr auto s0 = au::ZERO - a0; constexpr auto s1 = au::ZERO - a1;     // 0 - 1 is defined for every rep (wraps for unsigned 32/64)
      if (!same_val(s0.in(U{}), z - w0) || !same_val(s1.in(U{}), z - w1)) bad |= 1ull << i; ++i; }
    { constexpr bool e = ((a0 + au::ZERO) == a0) && ((a1 + au::ZERO) == a1) && ((a2 - au::ZERO) == a2);
      if (!e) bad |= 1ull << i; ++i; }
    return bad;
}

// ZERO seen from scaled sibling units (forcing conversions for every rep; policy-checked ones for floating reps)
template <class R, class Mk, bool FP = std::is_floating_point<R>::value> struct XuFp { static unsigned long long go(int) { return 0; } };
template <class R, class Mk> struct XuFp<R, Mk, true> {
    static unsigned long long go(int i) {
        using U = typename Mk::Unit; using Q = au::Quantity<U, R>;
        using U3 = decltype(U{} * au::mag<3>()); using U57 = decltype(U{} * au::mag<5>() / au::mag<7>());
        using UPi = decltype(U{} * au::Magnitude<au::Pi>{});
        unsigned long long bad = 0;
        C19_Z(Q(au::ZERO).in(U3{}))
        C19_Z(Q(au::ZERO).as(U57{}).in(U57{}))
        C19_Z(Q(au::ZERO).in(UPi{}))
        C19_Z(Q(au::ZERO).coerce_in(UPi{}))
        { au::Quantity<U3, R> q = Q(au::ZERO); C19_Z(q.in(U3{})) }
        return bad;
    }
};
template <class R, class Mk> unsigned long long xu(Mk) {
    using U = typename Mk::Unit; using Q = au::Quantity<U, R>;
    using U3 = decltype(U{} * au::mag<3>()); using U_3 = decltype(U{} / au::mag<3>()); using U57 = decltype(U{} * au::mag<5>() / au::mag<7>());
    unsigned long long bad = 0; int i = 0;
    C19_Z(Q(au::ZERO).coerce_in(U3{}))
    C19_Z(Q(au::ZERO).coerce_in(U_3{}))
    C19_Z(Q(au::ZERO).coerce_in(U57{}))
    C19_Z(Q(au::ZERO).coerce_as(U_3{}).in(U_3{}))
    C19_Z(Q(au::ZERO).template in<double>(U3{}))
    C19_Z(Q(au::ZERO).template in<long double>(U57{}))
    C19_Z(Q(au::ZERO).template as<R>(U_3{}).in(U_3{}))
    C19_Z(Q(au::ZERO).template coerce_in<float>(U57{}))
    return bad | XuFp<R, Mk>::go(i);
}

// is this converted scalar / duration exactly zero?
template <class T> struct IsZ { static bool z(T x) { return x == T(0) && !(x != T(0)); } };
template <class R, class P> struct IsZ<std::chrono::duration<R, P>> {
    static bool z(std::chrono::duration<R, P> x) { return x.count() == 0 && x == std::chrono::duration<R, P>::zero(); } };
template <class T> bool isz(T x) { return IsZ<T>::z(x); }

// bitmask of items on which ZERO does not behave like the literal 0 for the stored value x
template <class R, class Mk> unsigned long long one(Mk mk, R x, unsigned long long *truth = nullptr) {
    const auto q = mk(x);
    const R z = 0;
    unsigned long long bad = 0, tr = 0; int i = 0;
#define C19_CMP(OP) { const bool l = (q OP au::ZERO), r = (au::ZERO OP q); \
        if (l != (x OP 0)) bad |= 1ull << i; if (l) tr |= 1ull << i; ++i; \
        if (r != (0 OP x)) bad |= 1ull << i; if (r) tr |= 1ull << i; ++i; }
    C19_CMP(==) C19_CMP(!=) C19_CMP(<) C19_CMP(<=) C19_CMP(>) C19_CMP(>=)
#define C19_SAME(AU, RAW) { const auto g_ = (AU); const auto w_ = (RAW); \
        if (!c13::Same<std::decay_t<decltype(g_)>, std::decay_t<decltype(w_)>>::eq(g_, w_)) bad |= 1ull << i; ++i; }
    C19_SAME((q + au::ZERO).in(mk), x + z)
    C19_SAME((q - au::ZERO).in(mk), x - z)
    C19_SAME((au::ZERO + q).in(mk), z + x)
    if (c13::Def<R, R>::ok(c13::K_SUB, z, x)) C19_SAME((au::ZERO - q).in(mk), z - x) else ++i;
    if (!c13::is_nan(x)) { if (!((q + au::ZERO) == q)) bad |= 1ull << i; ++i; if (!((q - au::ZERO) == q)) bad |= 1ull << i; ++i; } else i += 2;
    { auto t = q; t += au::ZERO; R r = x; r += z; C19_SAME(t.in(mk), r) }
    { auto t = q; t -= au::ZERO; R r = x; r -= z; C19_SAME(t.in(mk), r) }
    if (truth) *truth = tr;
    return bad;
}

template <class R, bool I = std::is_integral<R>::value> struct Mini {   // a few values for the all-units compile-side records
    static std::vector<R> get() { return {R(0), R(1), std::numeric_limits<R>::max(), std::numeric_limits<R>::lowest(), R(-1)}; } };
template <class R> struct Mini<R, false> {
    static std::vector<R> get() { return {R(0), -R(0), R(1), R(-1), std::numeric_limits<R>::max(), std::numeric_limits<R>::lowest(),
                                          std::numeric_limits<R>::denorm_min(), std::numeric_limits<R>::infinity(), -std::numeric_limits<R>::infinity(),
                                          std::numeric_limits<R>::quiet_NaN(), std::numeric_limits<R>::signaling_NaN()}; } };
template <class R, class Mk> unsigned long long mini(Mk mk) { unsigned long long b = 0; for (R x : Mini<R>::get()) b |= one<R>(mk, x); return b; }

// value sweep: all 8/16-bit values, +-W windows for 32/64-bit, every exponent x mantissa patterns for floating reps
template <class R, class Mk> struct Sweep {
    const char *unit; Mk mk; unsigned long long evals = 0, nbad = 0, seen_t = 0, seen_f = 0; int shown = 0;
    void at(R x) {
        unsigned long long tr = 0; const unsigned long long bad = one<R>(mk, x, &tr);
        ++evals; seen_t |= tr; seen_f |= ~tr;
        if (bad) { ++nbad; if (shown++ < 3) std::printf("V {\"unit\":\"%s\",\"rep\":\"%s\",\"x\":\"%s\",\"xh\":\"%s\",\"mask\":%llu}\n", unit,
                                                         c13::TN<R>::n().c_str(), c13::Str<R>::s(x).c_str(), c13::Str<R>::h(x).c_str(), bad); }
    }
    void done() { std::printf("S {\"unit\":\"%s\",\"rep\":\"%s\",\"evals\":%llu,\"bad\":%llu,\"both\":%llu}\n", unit, c13::TN<R>::n().c_str(),
                              evals, nbad, (seen_t & seen_f) & 0xfffull); }
};
template <class R, class Mk, bool I = std::is_integral<R>::value> struct Run {
    static void go(const char *unit, Mk mk, int) { Sweep<R, Mk> s{unit, mk}; c13::each_fp<R>(1, [&](R x) { s.at(x); }); s.done(); } };
template <class R, class Mk> struct Run<R, Mk, true> {
    static void go(const char *unit, Mk mk, int w) { Sweep<R, Mk> s{unit, mk}; for (R x : (sizeof(R) <= 2 ? c13::vals_all<R>() : c13::vals_edge<R>(w))) s.at(x); s.done(); } };
template <class R, class Mk> void sweep(const char *unit, Mk mk, int w) { Run<R, Mk>::go(unit, mk, w); }
}  // namespace c19
'''


def unit_record(rid, u, rep):
    """Compile-side record: traits + every construction form + every comparison/additive item on a few values."""
    return (rid, [
        "using U = %s; using R = %s; using Q = au::Quantity<U, R>; using P = au::QuantityPoint<U, R>;" % (u.cpp, rep),
        'vf_b("q_traits", std::is_convertible<au::Zero, Q>::value && std::is_constructible<Q, au::Zero>::value && '
        'std::is_assignable<Q &, au::Zero>::value && std::is_convertible<const au::Zero &, Q>::value);',
        'vf_b("p_constructible", std::is_constructible<P, au::Zero>::value); '
        'vf_b("p_convertible", std::is_convertible<au::Zero, P>::value); '
        'vf_b("p_assignable", std::is_assignable<P &, au::Zero>::value);',
        'vf_i("forms", (long long)c19::forms<R>(%s)); vf_i("items", (long long)c19::mini<R>(%s));' % (u.maker, u.maker)])


AUX_KINDS = {"cx": CX_ITEMS, "xu": XU_ITEMS, "rc": [f[0] for f in RC_FORMS]}


def aux_record(rid, u, kind, reps):
    """One record per (unit, kind): cx = constant-expression comparisons/additions, xu = cross-unit zero, rc = rep_cast<R>(ZERO).
    Kept apart from unit_record so that a failure to compile is attributed to exactly this family of forms."""
    return (rid, ['vf_i("m_%s", (long long)c19::%s<%s>(%s));' % (r.replace(" ", "_"), kind, r, u.maker) for r in reps])


ARITH = ["bool", "char", "signed char", "unsigned char", "wchar_t", "char16_t", "char32_t", "short", "unsigned short",
         "int", "unsigned int", "long", "unsigned long", "long long", "unsigned long long",
         "int8_t", "uint8_t", "int16_t", "uint16_t", "int32_t", "uint32_t", "int64_t", "uint64_t", "float", "double",
         "long double"]
ARITH20 = ["char8_t"]                                   # only exists from C++20 on
NON_ARITH_INFO = ["__int128", "unsigned __int128"]      # std::is_arithmetic is false for them under -std=c++NN: recorded only
CHRONO = ["std::chrono::nanoseconds", "std::chrono::microseconds", "std::chrono::milliseconds", "std::chrono::seconds",
          "std::chrono::minutes", "std::chrono::hours"]
CHRONO20 = ["std::chrono::days", "std::chrono::weeks", "std::chrono::months", "std::chrono::years"]
CHRONO_EXTRA = ["std::chrono::duration<int, std::nano>", "std::chrono::duration<unsigned, std::micro>",
                "std::chrono::duration<long long, std::ratio<60>>", "std::chrono::duration<short, std::ratio<1, 60>>"]
PERIODS = ["std::ratio<1>", "std::milli", "std::ratio<3600>", "std::ratio<1, 3>", "std::ratio<86400 * 7>"]

# (form id, statement(s) declaring x<i>, expression that must be exactly zero).  Every one is an implicit or explicit *conversion*
# of ZERO to T (copy-init, direct-init, list-init, casts, reference binding, return, argument, assignment, cv-qualified targets).
SC_FORMS = [
    ("copy-init", "T x0 = au::ZERO;", "x0"),
    ("constexpr", "constexpr T x1 = au::ZERO;", "x1"),
    ("argument", "const T x2 = c19::RetZero<T>::id(au::ZERO);", "x2"),
    ("assign", "T x3(static_cast<T>(1)); x3 = au::ZERO;", "x3"),
    ("list-init", "T x4{au::ZERO};", "x4"),
    ("direct-init", "T x5(au::ZERO);", "x5"),
    ("static_cast", "T x6 = static_cast<T>(au::ZERO);", "x6"),
    ("const-ref", "const T &x7 = au::ZERO;", "x7"),
    ("return", "T x8 = c19::RetZero<T>::get();", "x8"),
    ("const", "const T x9 = au::ZERO;", "x9"),
    ("functional-cast", "T x10 = T(au::ZERO);", "x10"),
    ("c-cast", "T x11 = (T)au::ZERO;", "x11"),
    ("array", "T x12[2] = {au::ZERO, au::ZERO};", "x12[0]) && c19::isz<T>(x12[1]"),
    ("member-init", "struct S13 { T m = au::ZERO; } x13;", "x13.m"),
    ("constexpr-list-init", "constexpr T x14{au::ZERO};", "x14"),
    ("constexpr-static_cast", "constexpr T x15 = static_cast<T>(au::ZERO);", "x15"),
    ("new", "T *p16 = new T(au::ZERO); const T x16 = *p16; delete p16;", "x16"),
]
SC_FORMS_ARITH_ONLY = [("volatile", "volatile T x17 = au::ZERO;", "x17")]    # duration's members are not volatile-qualified
SC_TRAITS = ("std::is_convertible<au::Zero, T>::value && std::is_convertible<const au::Zero &, T>::value && "
             "std::is_constructible<T, au::Zero>::value && std::is_assignable<T &, au::Zero>::value")


def sc_forms(t):
    return SC_FORMS + ([] if "chrono" in t else SC_FORMS_ARITH_ONLY)


def sc_form_ids(t):
    return [f[0] for f in sc_forms(t)] + ["traits"]


def scalar_record(rid, t, only=None):
    """All conversion contexts for target type t (or just the form `only`): mask bit i = form i did not give exactly zero."""
    fs = sc_forms(t)
    st = ["using T = %s; unsigned long long bad = 0;" % t]
    for i, (fid, decl, z) in enumerate(fs):
        if only is None or only == fid:
            st.append("{ %s if (!(c19::isz<T>(%s))) bad |= 1ull << %d; }" % (decl, z, i))
    if only is None or only == "traits":
        st.append("if (!(%s)) bad |= 1ull << %d;" % (SC_TRAITS, len(fs)))
    st.append('vf_i("mask", (long long)bad);')
    return (rid, st)


def scalar_targets(r11, std):
    ts = list(ARITH) + (ARITH20 if std == "c++20" else [])
    ts += list(CHRONO) + (CHRONO20 if std == "c++20" else []) + CHRONO_EXTRA
    ts += ["std::chrono::duration<%s, %s>" % (r, p) for r in r11 for p in PERIODS]
    return ts


def scalar_records(first_rid, r11, std="c++14"):
    recs, meta = [], {}
    rid = first_rid
    for t in scalar_targets(r11, std):
        recs.append(scalar_record(rid, t))
        meta[rid] = "T=%s" % t
        rid += 1
    return recs, meta


def info_record(rid):
    """Types that are integer-like but not std::is_arithmetic under the strict -std=c++NN configurations: recorded, not judged
    (the statement promises 'every arithmetic type'); should is_arithmetic be true, convertibility is demanded."""
    st = []
    for i, t in enumerate(NON_ARITH_INFO):
        st.append('vf_b("arith%d", std::is_arithmetic<%s>::value); vf_b("conv%d", std::is_convertible<au::Zero, %s>::value);' % (i, t, i, t))
    return (rid, st)


# negative side: contexts that require a *point*; each rejected form has an accepted twin with a Quantity.
# third field: True = the Quantity twin is one of the statement's own verbs (initialise / convert / compare), so a rejected twin is
# a violation; False = the twin (min/max/clamp with ZERO) is not promised by the statement, a rejected twin is only counted.
PROBE_PREAMBLE = UNITS_PREAMBLE + "\n#include <vector>\n#include <algorithm>\n"
_PT_FORMS = [("copy-init", "{T} x = au::ZERO; (void)x;", True),
             ("direct-init", "{T} x{{au::ZERO}}; (void)x;", True),
             ("assign", "auto x = {M}; x = au::ZERO; (void)x;", True),
             ("argument", "auto f = []({T}) {{}}; f(au::ZERO);", True),
             ("return", "auto f = []() -> {T} {{ return au::ZERO; }}; (void)f;", True),
             ("paren-init", "{T} x(au::ZERO); (void)x;", True),
             ("functional-cast", "(void){T}(au::ZERO);", True),
             ("static_cast", "(void)static_cast<{T}>(au::ZERO);", True),
             ("member-init", "struct S {{ {T} m = au::ZERO; }} s; (void)s;", True),
             ("array", "{T} arr[1] = {{au::ZERO}}; (void)arr;", True),
             ("conditional", "auto x = {M}; bool c = true; auto y = c ? x : au::ZERO; (void)y;", True),
             ("conditional-rev", "auto x = {M}; bool c = true; auto y = c ? au::ZERO : x; (void)y;", True),
             ("const-ref", "const {T} &r = au::ZERO; (void)r;", True),
             ("assign-braced", "auto x = {M}; x = {{au::ZERO}}; (void)x;", True),
             ("new", "auto *p = new {T}(au::ZERO); delete p;", True),
             # (`std::vector<P> v{ZERO}` is deliberately absent: it does not *require* a point — vector(size_type) with ZERO -> size_t
             # is a legitimate reading once the deleted QuantityPoint(Zero) is not in the overload set)
             ("vector-push_back", "std::vector<{T}> v; v.push_back(au::ZERO);", True),
             ("std-min", "auto x = {M}; (void)std::min<{T}>(x, au::ZERO);", True),
             ("min", "auto x = {M}; (void)min(x, au::ZERO);", False),
             ("min-rev", "auto x = {M}; (void)min(au::ZERO, x);", False),
             ("max", "auto x = {M}; (void)max(x, au::ZERO);", False),
             ("max-rev", "auto x = {M}; (void)max(au::ZERO, x);", False),
             ("clamp-lo", "auto x = {M}; (void)clamp(x, au::ZERO, x);", False),
             ("clamp-hi", "auto x = {M}; (void)clamp(x, x, au::ZERO);", False),
             ("clamp-v", "auto x = {M}; (void)clamp(au::ZERO, x, x);", False)]
for _n, _op in (("eq", "=="), ("ne", "!="), ("lt", "<"), ("le", "<="), ("gt", ">"), ("ge", ">=")):
    _PT_FORMS.append(("x%sZERO" % _op, "auto x = {M}; (void)(x %s au::ZERO);" % _op, True))
    _PT_FORMS.append(("ZERO%sx" % _op, "auto x = {M}; (void)(au::ZERO %s x);" % _op, True))
PT_DEMANDED_TWIN = {n: d for n, _, d in _PT_FORMS}
# ZERO as a *displacement* next to a point (outside the statement): verdicts are recorded so that a flip shows in the evidence.
PT_INFO_FORMS = [("p-ZERO", "auto x = {M}; (void)(x - au::ZERO);", "reject"), ("p+ZERO", "auto x = {M}; (void)(x + au::ZERO);", "accept"),
                 ("ZERO+p", "auto x = {M}; (void)(au::ZERO + x);", "accept"), ("ZERO-p", "auto x = {M}; (void)(au::ZERO - x);", "reject"),
                 ("p+=ZERO", "auto x = {M}; x += au::ZERO;", "accept"), ("p-=ZERO", "auto x = {M}; x -= au::ZERO;", "accept")]


def _pq(u, rep):
    P, Q = "au::QuantityPoint<%s, %s>" % (u.cpp, rep), "au::Quantity<%s, %s>" % (u.cpp, rep)
    pm, qm = "%s(static_cast<%s>(1))" % (u.ptmaker, rep), "%s(static_cast<%s>(1))" % (u.maker, rep)
    return P, Q, pm, qm


def point_probes(u, rep):
    P, Q, pm, qm = _pq(u, rep)
    return [(name, tpl.format(T=P, M=pm), tpl.format(T=Q, M=qm)) for name, tpl, _ in _PT_FORMS]


def point_info_probes(u, rep):
    """(name, code, verdict seen on the tree this check was written against) — never judged."""
    P, Q, pm, qm = _pq(u, rep)
    return [(name, tpl.format(T=P, M=pm), usual) for name, tpl, usual in PT_INFO_FORMS]


def sweep_tu(path, units, r11, w):
    out = [UNITS_PREAMBLE + HARNESS, "int main(int argc, char **argv) {",
           "  const int part = argc > 1 ? std::atoi(argv[1]) : 0, nparts = argc > 2 ? std::atoi(argv[2]) : 1; int k = 0;"]
    for u in units:
        for rep in r11:
            out.append('  if (k++ %% nparts == part) c19::sweep<%s>("%s", %s, %d);' % (rep, u.name, u.maker, w))
    out.append("  return 0; }")
    with open(path, "w") as f:
        f.write("\n".join(out) + "\n")


def parse_sv(out):
    stats, viols = [], []
    for line in out.split("\n"):
        if line.startswith("S "):
            stats.append(json.loads(line[2:]))
        elif line.startswith("V "):
            viols.append(json.loads(line[2:]))
    return stats, viols


def bits(mask, names):
    return [names[i] for i in range(len(names)) if mask >> i & 1]
