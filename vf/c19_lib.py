"""C19 — generators and C++ harness text (ZERO is the exact zero of every unit).

Re-uses the value alphabets / bit-exact comparison helpers of vf/c13_cpp.py (namespace c13: vals_all,
vals_edge, each_fp, Same, Def, Str).  The expected result of every operation is what the raw built-in
operator yields on (x, 0); nothing here depends on Au's own notion of zero.
"""
import json

from . import model
from .c13_cpp import HARNESS as C13_HARNESS

UNITS_PREAMBLE = r'''
namespace g19 {
struct Zorks : au::UnitImpl<au::Length, decltype(au::mag<11>())> {};
struct Trifeet : decltype(au::Feet{} * au::mag<3>()) {};
struct Zelsius : decltype(au::Kelvins{} * au::mag<2>()) {
    static constexpr auto origin() { return (au::milli(au::kelvins))(10000); }
};
using MPS = decltype(au::Meters{} / au::Seconds{});
using NM = decltype(au::Newtons{} * au::Meters{});
using M3 = decltype(au::pow<3>(au::Meters{}));
using InvS = decltype(au::pow<-1>(au::Seconds{}));
using RootHz = decltype(au::root<2>(au::Hertz{}));
using Feet3 = decltype(au::Feet{} * au::mag<3>());
using In5_7 = decltype(au::Inches{} * au::mag<5>() / au::mag<7>());
using PiRad = decltype(au::Radians{} * au::Magnitude<au::Pi>{});
using KiloM = au::Kilo<au::Meters>;
using MilliS = au::Milli<au::Seconds>;
using GibiB = au::Gibi<au::Bytes>;
using MperM = decltype(au::Meters{} / au::Meters{});
}
'''
GEN = ["Zorks", "Trifeet", "Zelsius", "MPS", "NM", "M3", "InvS", "RootHz", "Feet3", "In5_7", "PiRad", "KiloM",
       "MilliS", "GibiB", "MperM"]
LIB_PT = {"kelvins": "au::kelvins_pt", "celsius": "au::celsius_pt", "fahrenheit": "au::fahrenheit_pt",
          "meters": "au::meters_pt"}
SWEEP_UNITS = ["meters", "celsius", "unos", "gen.MPS", "gen.Feet3", "gen.KiloM"]
POINT_UNITS = ["kelvins", "celsius", "fahrenheit", "meters", "gen.Zelsius", "gen.MPS"]


class U:
    __slots__ = ("name", "cpp", "maker", "ptmaker")

    def __init__(self, name, cpp, maker, ptmaker):
        self.name, self.cpp, self.maker, self.ptmaker = name, cpp, maker, ptmaker


def all_units():
    out = [U(u.name, u.cpp, u.maker, LIB_PT.get(u.name, "au::QuantityPointMaker<%s>{}" % u.cpp)) for u in model.LIB]
    for g in GEN:
        c = "g19::" + g
        out.append(U("gen." + g, c, "au::QuantityMaker<%s>{}" % c, "au::QuantityPointMaker<%s>{}" % c))
    return out


# item names, in the bit order used by c19::one / c19::forms below
CMP = ["eq", "ne", "lt", "le", "gt", "ge"]
ITEMS = [n + s for n in CMP for s in (":q_op_ZERO", ":ZERO_op_q")] + [
    "q+ZERO", "q-ZERO", "ZERO+q", "ZERO-q", "q+ZERO==q", "q-ZERO==q", "q+=ZERO", "q-=ZERO"]
FORMS = [("copy-init", "Q q = ZERO"), ("list-init", "Q q{ZERO}"), ("direct-init", "Q q(ZERO)"), ("copy-init-Zero", "Q q = Zero{}"),
         ("constexpr", "constexpr Q q = ZERO"), ("assign", "q = ZERO"), ("argument", "pass ZERO to f(Q)"),
         ("rep_cast-ZERO", "Q q = rep_cast<R>(ZERO)"), ("functional-cast", "Q(ZERO)"), ("static_cast", "static_cast<Q>(ZERO)"),
         ("array", "Q arr[2] = {ZERO, ZERO}"), ("member-init", "struct { Q m = ZERO; }"),
         ("rep_cast-int32", "rep_cast<int32_t>(Q(ZERO))"), ("rep_cast-double", "rep_cast<double>(Q(ZERO))"),
         ("rep_cast-ZERO-all-reps", "Quantity<U,R2> = rep_cast<R2>(ZERO) for all 11 R2"), ("in-maker", "Q(ZERO).in(maker)"),
         ("return", "return ZERO from a function returning Q"), ("assign-rep_cast", "q = rep_cast<R>(ZERO)")]
FORM_IDS = [f[0] for f in FORMS]

HARNESS = C13_HARNESS + r'''
namespace c19 {
using c13::i128;
template <class Q> struct RetZero { static constexpr Q get() { return au::ZERO; } static Q id(Q q) { return q; } };
template <class U, class R2> bool zero_as() { au::Quantity<U, R2> q = au::rep_cast<R2>(au::ZERO); return q.in(U{}) == 0; }

// bitmask of construction / conversion / assignment forms whose result is not 0
template <class R, class Mk> unsigned long long forms(Mk mk) {
    using U = typename Mk::Unit; using Q = au::Quantity<U, R>;
    unsigned long long bad = 0; int i = 0;
#define C19_Z(EXPR) { if (!((EXPR) == 0)) bad |= 1ull << i; ++i; }
    Q q0 = au::ZERO; C19_Z(q0.in(U{}))
    Q q1{au::ZERO}; C19_Z(q1.in(U{}))
    Q q2(au::ZERO); C19_Z(q2.in(U{}))
    Q q3 = au::Zero{}; C19_Z(q3.in(U{}))
    constexpr Q q4 = au::ZERO; constexpr R v4 = q4.in(U{}); C19_Z(v4)
    Q q5 = mk(static_cast<R>(7)); q5 = au::ZERO; C19_Z(q5.in(U{}))
    Q q6 = RetZero<Q>::id(au::ZERO); C19_Z(q6.in(U{}))
    Q q7 = au::rep_cast<R>(au::ZERO); C19_Z(q7.in(U{}))
    C19_Z(Q(au::ZERO).in(U{}))
    C19_Z(static_cast<Q>(au::ZERO).in(U{}))
    const Q arr[2] = {au::ZERO, au::ZERO}; C19_Z(arr[0].in(U{}) + arr[1].in(U{}))
    struct S { Q m = au::ZERO; } s; C19_Z(s.m.in(U{}))
    C19_Z(au::rep_cast<std::int32_t>(Q(au::ZERO)).in(U{}))
    C19_Z(au::rep_cast<double>(Q(au::ZERO)).in(U{}))
    C19_Z((zero_as<U, std::int8_t>() && zero_as<U, std::uint8_t>() && zero_as<U, std::int16_t>() && zero_as<U, std::uint16_t>() &&
           zero_as<U, std::int32_t>() && zero_as<U, std::uint32_t>() && zero_as<U, std::int64_t>() && zero_as<U, std::uint64_t>() &&
           zero_as<U, float>() && zero_as<U, double>() && zero_as<U, long double>()) ? 0 : 1)
    C19_Z(Q(au::ZERO).in(mk))
    C19_Z(RetZero<Q>::get().in(U{}))
    Q q17 = mk(static_cast<R>(7)); q17 = au::rep_cast<R>(au::ZERO); C19_Z(q17.in(U{}))
    return bad;
}

// bitmask of items on which ZERO does not behave like the literal 0 for the stored value x
template <class R, class Mk> unsigned long long one(Mk mk, R x, unsigned long long *truth = nullptr) {
    const auto q = mk(x);
    const R z = 0;
    unsigned long long bad = 0, tr = 0; int i = 0;
#define C19_CMP(OP) { const bool l = (q OP au::ZERO), r = (au::ZERO OP q); \
        if (l != (x OP 0)) bad |= 1ull << i; if (l) tr |= 1ull << i; ++i; \
        if (r != (0 OP x)) bad |= 1ull << i; if (r) tr |= 1ull << i; ++i; }
    C19_CMP(==) C19_CMP(!=) C19_CMP(<) C19_CMP(<=) C19_CMP(>) C19_CMP(>=)
#define C19_SAME(AU, RAW) { const auto g_ = (AU); const auto w_ = (RAW); \
        if (!c13::Same<std::decay_t<decltype(g_)>, std::decay_t<decltype(w_)>>::eq(g_, w_)) bad |= 1ull << i; ++i; }
    C19_SAME((q + au::ZERO).in(mk), x + z)
    C19_SAME((q - au::ZERO).in(mk), x - z)
    C19_SAME((au::ZERO + q).in(mk), z + x)
    if (c13::Def<R, R>::ok(c13::K_SUB, z, x)) C19_SAME((au::ZERO - q).in(mk), z - x) else ++i;
    if (!c13::is_nan(x)) { if (!((q + au::ZERO) == q)) bad |= 1ull << i; ++i; if (!((q - au::ZERO) == q)) bad |= 1ull << i; ++i; } else i += 2;
    { auto t = q; t += au::ZERO; R r = x; r += z; C19_SAME(t.in(mk), r) }
    { auto t = q; t -= au::ZERO; R r = x; r -= z; C19_SAME(t.in(mk), r) }
    if (truth) *truth = tr;
    return bad;
}

template <class R, bool I = std::is_integral<R>::value> struct Mini {   // a few values for the all-units compile-side records
    static std::vector<R> get() { return {R(0), R(1), std::numeric_limits<R>::max(), std::numeric_limits<R>::lowest(), R(-1)}; } };
template <class R> struct Mini<R, false> {
    static std::vector<R> get() { return {R(0), -R(0), R(1), R(-1), std::numeric_limits<R>::max(), std::numeric_limits<R>::lowest(),
                                          std::numeric_limits<R>::denorm_min(), std::numeric_limits<R>::infinity(), -std::numeric_limits<R>::infinity(),
                                          std::numeric_limits<R>::quiet_NaN(), std::numeric_limits<R>::signaling_NaN()}; } };
template <class R, class Mk> unsigned long long mini(Mk mk) { unsigned long long b = 0; for (R x : Mini<R>::get()) b |= one<R>(mk, x); return b; }

// value sweep: all 8/16-bit values, +-W windows for 32/64-bit, every exponent x mantissa patterns for floating reps
template <class R, class Mk> struct Sweep {
    const char *unit; Mk mk; unsigned long long evals = 0, nbad = 0, seen_t = 0, seen_f = 0; int shown = 0;
    void at(R x) {
        unsigned long long tr = 0; const unsigned long long bad = one<R>(mk, x, &tr);
        ++evals; seen_t |= tr; seen_f |= ~tr;
        if (bad) { ++nbad; if (shown++ < 3) std::printf("V {\"unit\":\"%s\",\"rep\":\"%s\",\"x\":\"%s\",\"xh\":\"%s\",\"mask\":%llu}\n", unit,
                                                         c13::TN<R>::n().c_str(), c13::Str<R>::s(x).c_str(), c13::Str<R>::h(x).c_str(), bad); }
    }
    void done() { std::printf("S {\"unit\":\"%s\",\"rep\":\"%s\",\"evals\":%llu,\"bad\":%llu,\"both\":%llu}\n", unit, c13::TN<R>::n().c_str(),
                              evals, nbad, (seen_t & seen_f) & 0xfffull); }
};
template <class R, class Mk, bool I = std::is_integral<R>::value> struct Run {
    static void go(const char *unit, Mk mk, int) { Sweep<R, Mk> s{unit, mk}; c13::each_fp<R>(1, [&](R x) { s.at(x); }); s.done(); } };
template <class R, class Mk> struct Run<R, Mk, true> {
    static void go(const char *unit, Mk mk, int w) { Sweep<R, Mk> s{unit, mk}; for (R x : (sizeof(R) <= 2 ? c13::vals_all<R>() : c13::vals_edge<R>(w))) s.at(x); s.done(); } };
template <class R, class Mk> void sweep(const char *unit, Mk mk, int w) { Run<R, Mk>::go(unit, mk, w); }
}  // namespace c19
'''


def unit_record(rid, u, rep):
    """Compile-side record: traits + every construction form + every comparison/additive item on a few values."""
    return (rid, [
        "using U = %s; using R = %s; using Q = au::Quantity<U, R>; using P = au::QuantityPoint<U, R>;" % (u.cpp, rep),
        'vf_b("q_traits", std::is_convertible<au::Zero, Q>::value && std::is_constructible<Q, au::Zero>::value && '
        'std::is_assignable<Q &, au::Zero>::value && std::is_convertible<const au::Zero &, Q>::value);',
        'vf_b("p_constructible", std::is_constructible<P, au::Zero>::value); '
        'vf_b("p_convertible", std::is_convertible<au::Zero, P>::value); '
        'vf_b("p_assignable", std::is_assignable<P &, au::Zero>::value);',
        'vf_i("forms", (long long)c19::forms<R>(%s)); vf_i("items", (long long)c19::mini<R>(%s));' % (u.maker, u.maker)])


ARITH = ["bool", "char", "signed char", "unsigned char", "wchar_t", "char16_t", "char32_t", "short", "unsigned short",
         "int", "unsigned int", "long", "unsigned long", "long long", "unsigned long long",
         "int8_t", "uint8_t", "int16_t", "uint16_t", "int32_t", "uint32_t", "int64_t", "uint64_t", "float", "double",
         "long double"]
CHRONO = ["std::chrono::nanoseconds", "std::chrono::microseconds", "std::chrono::milliseconds", "std::chrono::seconds",
          "std::chrono::minutes", "std::chrono::hours"]
PERIODS = ["std::ratio<1>", "std::milli", "std::ratio<3600>", "std::ratio<1, 3>", "std::ratio<86400 * 7>"]


def scalar_records(first_rid, r11):
    recs, meta = [], {}
    rid = first_rid
    for t in ARITH:
        recs.append((rid, ["using T = %s; T x = au::ZERO; constexpr T c = au::ZERO; const T y = c19::RetZero<T>::id(au::ZERO); T w = static_cast<T>(1); w = au::ZERO;" % t,
                           'vf_b("zero", x == T(0) && c == T(0) && y == T(0) && w == T(0) && std::is_convertible<au::Zero, T>::value);']))
        meta[rid] = "T=%s" % t
        rid += 1
    durs = list(CHRONO) + ["std::chrono::duration<%s, %s>" % (r, p) for r in r11 for p in PERIODS]
    for t in durs:
        recs.append((rid, ["using T = %s; T x = au::ZERO; constexpr T c = au::ZERO; const T y = c19::RetZero<T>::id(au::ZERO); T w(1); w = au::ZERO;" % t,
                           'vf_b("zero", x.count() == 0 && x == T::zero() && c.count() == 0 && y.count() == 0 && w.count() == 0 && '
                           'std::is_convertible<au::Zero, T>::value);']))
        meta[rid] = "T=%s" % t
        rid += 1
    return recs, meta


# negative side: contexts that require a *point*; each rejected form has an accepted twin with a Quantity
def point_probes(u, rep):
    P, Q = "au::QuantityPoint<%s, %s>" % (u.cpp, rep), "au::Quantity<%s, %s>" % (u.cpp, rep)
    pm, qm = "%s(static_cast<%s>(1))" % (u.ptmaker, rep), "%s(static_cast<%s>(1))" % (u.maker, rep)
    forms = [("copy-init", "{T} x = au::ZERO; (void)x;"),
             ("direct-init", "{T} x{{au::ZERO}}; (void)x;"),
             ("assign", "auto x = {M}; x = au::ZERO; (void)x;"),
             ("argument", "auto f = []({T}) {{}}; f(au::ZERO);"),
             ("return", "auto f = []() -> {T} {{ return au::ZERO; }}; (void)f;")]
    for name, op in (("eq", "=="), ("ne", "!="), ("lt", "<"), ("le", "<="), ("gt", ">"), ("ge", ">=")):
        forms.append(("x%sZERO" % op, "auto x = {M}; (void)(x %s au::ZERO);" % op))
        forms.append(("ZERO%sx" % op, "auto x = {M}; (void)(au::ZERO %s x);" % op))
    out = []
    for name, tpl in forms:
        out.append((name, tpl.format(T=P, M=pm), tpl.format(T=Q, M=qm)))
    return out


def sweep_tu(path, units, r11, w):
    out = [UNITS_PREAMBLE + HARNESS, "int main(int argc, char **argv) {",
           "  const int part = argc > 1 ? std::atoi(argv[1]) : 0, nparts = argc > 2 ? std::atoi(argv[2]) : 1; int k = 0;"]
    for u in units:
        for rep in r11:
            out.append('  if (k++ %% nparts == part) c19::sweep<%s>("%s", %s, %d);' % (rep, u.name, u.maker, w))
    out.append("  return 0; }")
    with open(path, "w") as f:
        f.write("\n".join(out) + "\n")


def parse_sv(out):
    stats, viols = [], []
    for line in out.split("\n"):
        if line.startswith("S "):
            stats.append(json.loads(line[2:]))
        elif line.startswith("V "):
            viols.append(json.loads(line[2:]))
    return stats, viols


def bits(mask, names):
    return [names[i] for i in range(len(names)) if mask >> i & 1]
