"""bin/check Cxx --tier quick|thorough [--replay FILE] [--deadline SECONDS]"""
import argparse
import importlib
import os
import sys
import traceback

from . import core


def main(argv):
    ap = argparse.ArgumentParser()
    ap.add_argument("prop")
    ap.add_argument("--tier", default=os.environ.get("VERIF_TIER", "quick"),
                    choices=["quick", "thorough"])
    ap.add_argument("--replay")
    ap.add_argument("--deadline", type=float, default=None)
    ap.add_argument("--selftest", action="store_true")
    a = ap.parse_args(argv)
    prop = a.prop.upper()
    try:
        mod = importlib.import_module("vf.checks." + prop.lower())
    except ImportError:
        traceback.print_exc()
        print("no check for", prop)
        return 2
    try:
        if a.replay:
            return mod.replay(a.replay)
        run = core.Run(prop, a.tier, mod.LEVEL)
        run.deadline = a.deadline if a.deadline else (1500 if a.tier == "thorough" else None)
        run.selftest = a.selftest
        mod.check(run)
        return run.finish()
    except core.InfraError as e:
        print("INFRASTRUCTURE ERROR (no verdict):", e)
        return 2
