"""bin/check Cxx --tier quick|thorough [--replay FILE] [--deadline SECONDS]"""
import argparse
import importlib
import os
import sys
import traceback

from . import core


def main(argv):
    ap = argparse.ArgumentParser()
    ap.add_argument("prop")
    ap.add_argument("--tier", default=os.environ.get("VERIF_TIER", "quick"),
                    choices=["quick", "thorough"])
    ap.add_argument("--replay")
    ap.add_argument("--deadline", type=float, default=None)
    ap.add_argument("--selftest", action="store_true")
    a = ap.parse_args(argv)
    prop = a.prop.upper()
    try:
        mod = importlib.import_module("vf.checks." + prop.lower())
    except ImportError:
        traceback.print_exc()
        print("no check for", prop)
        return 2
    run = None
    try:
        if a.replay:
            return mod.replay(a.replay)
        run = core.Run(prop, a.tier, mod.LEVEL)
        run.deadline = a.deadline if a.deadline else (1500 if a.tier == "thorough" else None)
        run.selftest = a.selftest
        mod.check(run)
        return run.finish()
    except core.InfraError as e:
        if run is not None and run.violations:
            # Violations registered before a later self-check of the harness gave up (e.g. a vacuity guard
            # tripped *because of* the defect) have each been confirmed by the check's own rules already:
            # they are the verdict, and the guard's message becomes part of the evidence.
            run.cov["aborted_after_violations_by"] = str(e)[:2000]
            print("note: a harness self-check stopped the run after violations had been confirmed:", str(e)[:400])
            return run.finish()
        print("INFRASTRUCTURE ERROR (no verdict):", e)
        return 2
