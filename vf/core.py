"""Shared machinery: paths, compiler matrix, PCH cache, parallel compile/run, evidence, findings.

Everything is rebuilt from /repo's *current working tree*; build products live in /verif/build
(git-ignored) keyed by a content hash of /repo/au/code so an edited tree never reuses a stale PCH.
"""
import concurrent.futures as cf
import hashlib
import json
import os
import re
import shutil
import subprocess
import sys
import time

REPO = os.environ.get("VERIF_REPO", "/repo")
VERIF = os.path.dirname(os.path.dirname(os.path.abspath(__file__)))
BUILD = os.path.join(VERIF, "build")
HARNESS = os.path.join(VERIF, "harness")
AU_INC = os.path.join(REPO, "au", "code")
NCPU = int(os.environ.get("VERIF_JOBS", os.cpu_count() or 8))

R11 = ["int8_t", "uint8_t", "int16_t", "uint16_t", "int32_t", "uint32_t", "int64_t", "uint64_t",
       "float", "double", "long double"]
I8 = R11[:8]
F3 = R11[8:]
BITS = {"int8_t": 8, "uint8_t": 8, "int16_t": 16, "uint16_t": 16, "int32_t": 32, "uint32_t": 32,
        "int64_t": 64, "uint64_t": 64}


def is_signed(t):
    return not t.startswith("u")


def tmin(t):
    return -(1 << (BITS[t] - 1)) if is_signed(t) else 0


def tmax(t):
    return (1 << (BITS[t] - 1)) - 1 if is_signed(t) else (1 << BITS[t]) - 1


def promoted(t):
    """Independent promotion table (C++ integral promotion on LP64)."""
    return "int32_t" if BITS[t] < 32 else t


def common_int(a, b):
    """std::common_type of two integral types (usual arithmetic conversions, LP64)."""
    if a == b:
        return a          # std::common_type_t<T, T> is T itself (no promotion)
    a, b = promoted(a), promoted(b)
    if a == b:
        return a
    ba, bb = BITS[a], BITS[b]
    if is_signed(a) == is_signed(b):
        return a if ba >= bb else b
    u, s = (a, b) if not is_signed(a) else (b, a)
    if BITS[u] >= BITS[s]:
        return u
    return s


def common_rep(a, b):
    fl = {"float": 0, "double": 1, "long double": 2}
    if a in fl or b in fl:
        if a in fl and b in fl:
            return a if fl[a] >= fl[b] else b
        return a if a in fl else b
    return common_int(a, b)


class Cfg:
    def __init__(self, cxx, std):
        self.cxx, self.std = cxx, std

    @property
    def name(self):
        return "%s-%s" % (self.cxx.replace("+", "p"), self.std)

    @property
    def is_clang(self):
        return "clang" in self.cxx

    def __repr__(self):
        return "%s/%s" % (self.cxx, self.std)


CFG6 = [Cfg(c, s) for c in ("g++", "clang++") for s in ("c++14", "c++17", "c++20")]
GXX14 = CFG6[0]
GXX20 = CFG6[2]
CLANG14 = CFG6[3]
CLANG20 = CFG6[5]
CORNERS = [GXX14, CLANG20]


def tree_hash():
    """Content hash of everything a check can depend on in /repo."""
    h = hashlib.sha256()
    roots = [os.path.join(REPO, "au", "code"), os.path.join(REPO, "tools", "bin")]
    for root in roots:
        for d, dirs, files in os.walk(root):
            dirs.sort()
            for f in sorted(files):
                p = os.path.join(d, f)
                h.update(p.encode())
                try:
                    h.update(str(os.stat(p).st_mtime_ns).encode())   # clang rejects a PCH whose inputs changed mtime
                    with open(p, "rb") as fh:
                        h.update(fh.read())
                except OSError:
                    pass
    for f in ("readout.hh", "genunits.hh"):   # the harness headers that are part of the PCH
        h.update(open(os.path.join(HARNESS, f), "rb").read())
    return h.hexdigest()[:16]


_TREE_HASH = None


def th():
    global _TREE_HASH
    if _TREE_HASH is None:
        _TREE_HASH = tree_hash()
    return _TREE_HASH


def lib_headers():
    """(units, constants) header stems discovered by directory listing."""
    u = sorted(f[:-3] for f in os.listdir(os.path.join(AU_INC, "au", "units"))
               if f.endswith(".hh") and not f.endswith("_fwd.hh"))
    c = sorted(f[:-3] for f in os.listdir(os.path.join(AU_INC, "au", "constants"))
               if f.endswith(".hh") and not f.endswith("_fwd.hh"))
    return u, c


def sh(cmd, timeout=None, cwd=None, env=None, input=None):
    p = subprocess.run(cmd, stdout=subprocess.PIPE, stderr=subprocess.PIPE, cwd=cwd, env=env,
                       timeout=timeout, input=input)
    return p.returncode, p.stdout.decode("utf-8", "replace"), p.stderr.decode("utf-8", "replace")


def pmap(fn, items, workers=None):
    items = list(items)
    if not items:
        return []
    with cf.ThreadPoolExecutor(max_workers=workers or NCPU) as ex:
        return list(ex.map(fn, items))


def ffloat(x):
    """float(x) for messages: an exact value too large for a double becomes inf instead of raising."""
    try:
        return float(x)
    except OverflowError:
        return float("inf") if x > 0 else float("-inf")


class InfraError(Exception):
    pass


# --------------------------------------------------------------------------------------------
# PCH cache


def _all_hh_text():
    u, c = lib_headers()
    lines = ["#pragma once", "#include <cstdint>", "#include <cstdio>", "#include <cstring>",
             "#include <chrono>", "#include <cmath>", "#include <complex>", "#include <limits>",
             "#include <sstream>", "#include <string>", "#include <type_traits>",
             '#include "au/au.hh"', '#include "au/io.hh"', '#include "au/chrono_interop.hh"',
             '#include "au/constant.hh"', '#include "au/math.hh"', '#include "au/prefix.hh"',
             '#include "au/unit_symbol.hh"', '#include "au/utility/factoring.hh"',
             '#include "au/utility/probable_primes.hh"', '#include "au/utility/mod.hh"',
             '#include "au/static_cast_checkers.hh"']
    lines += ['#include "au/units/%s.hh"' % x for x in u]
    lines += ['#include "au/constants/%s.hh"' % x for x in c]
    lines += ['#include "readout.hh"', '#include "genunits.hh"']
    return "\n".join(lines) + "\n"


import threading
_pch_guard = threading.Lock()
_pch_locks = {}


def pch_dir(cfg, flags=()):
    key = (cfg.cxx, cfg.std, tuple(flags))
    with _pch_guard:
        lk = _pch_locks.setdefault(key, threading.Lock())
    with lk:
        return _pch_dir(cfg, flags)


def _pch_dir(cfg, flags=()):
    """Build (once) and return the directory holding all.hh + its PCH for (cfg, flags)."""
    key = hashlib.sha256(("%s|%s|%s|%s" % (cfg.cxx, cfg.std, " ".join(flags), th())).encode()
                         ).hexdigest()[:16]
    d = os.path.join(BUILD, "pch", key)
    ok = os.path.join(d, "ok")
    if os.path.exists(ok):
        return d
    # Safe against concurrent builders (threads and other processes): never delete the directory,
    # write every file under a private temporary name and rename it into place atomically.
    os.makedirs(d, exist_ok=True)
    uniq = "%d.%d" % (os.getpid(), threading.get_ident())
    hh = os.path.join(d, "all.hh")
    text = _all_hh_text()
    if not os.path.exists(hh) or open(hh).read() != text:
        with open(hh + ".tmp." + uniq, "w") as f:
            f.write(text)
        os.rename(hh + ".tmp." + uniq, hh)
    base = [cfg.cxx, "-std=" + cfg.std, "-w", "-I" + AU_INC, "-I" + HARNESS] + list(flags)
    final = hh + (".pch" if cfg.is_clang else ".gch")
    tmp = final + ".tmp." + uniq
    cmd = base + ["-x", "c++-header", hh, "-o", tmp]
    rc, out, err = sh(cmd)
    if rc != 0:
        raise InfraError("PCH build failed for %s %s:\n%s" % (cfg, flags, err[-3000:]))
    os.rename(tmp, final)
    open(os.path.join(d, "tree"), "w").write(th())
    open(ok, "w").write("ok")
    return d


def cc_cmd(cfg, flags=(), use_pch=True):
    base = [cfg.cxx, "-std=" + cfg.std, "-w", "-I" + AU_INC, "-I" + HARNESS] + list(flags)
    if use_pch:
        d = pch_dir(cfg, flags)
        if cfg.is_clang:
            base += ["-include-pch", os.path.join(d, "all.hh.pch")]
        else:
            base += ["-I" + d, "-include", "all.hh"]
    return base


def warm_pch(cfgs, flags=()):
    pmap(lambda c: pch_dir(c, flags), cfgs)


def syntax_check(cfg, src, flags=(), timeout=600):
    """Compile src with -fsyntax-only, unlimited errors. Returns (rc, stderr)."""
    cmd = cc_cmd(cfg, flags) + ["-fsyntax-only",
                                "-ferror-limit=0" if cfg.is_clang else "-fmax-errors=0", src]
    rc, out, err = sh(cmd, timeout=timeout)
    return rc, err


def build_exe(cfg, src, exe, flags=(), link=(), timeout=1800):
    cmd = cc_cmd(cfg, flags) + [src, "-o", exe] + list(link)
    rc, out, err = sh(cmd, timeout=timeout)
    if rc != 0:
        return rc, err
    return 0, err


def workdir(prop, tier):
    d = os.path.join(BUILD, prop, tier)
    shutil.rmtree(d, ignore_errors=True)
    os.makedirs(d, exist_ok=True)
    return d


def clean_old_pch(keep_hash=None):
    """Drop PCH dirs that belong to another tree hash and have not been touched for 45 minutes
    (disk hygiene; recent ones may belong to a concurrently running check on a scratch tree)."""
    d = os.path.join(BUILD, "pch")
    if not os.path.isdir(d):
        return
    cur = th()
    now = time.time()
    for x in os.listdir(d):
        p = os.path.join(d, x)
        if not os.path.isdir(p):
            continue
        tf = os.path.join(p, "tree")
        try:
            t = open(tf).read().strip()
            age = now - os.path.getmtime(tf)
        except OSError:
            t, age = None, now - os.path.getmtime(p)
        if t != cur and age > 2700:
            shutil.rmtree(p, ignore_errors=True)


# --------------------------------------------------------------------------------------------
# Probe engine: accept/reject verdicts for one-line programs


STATS = {"batches": 0, "singles": 0}


class Probe:
    __slots__ = ("pid", "code", "expect", "meta", "verdict", "diag")

    def __init__(self, pid, code, expect, meta=None):
        self.pid, self.code, self.expect, self.meta = pid, code, expect, meta or {}
        self.verdict, self.diag = None, ""


def _emit_batch(path, probes, preamble=""):
    lines = [preamble, "template <int K> void probe();"]
    first = len("\n".join(lines).split("\n")) + 1
    for i, p in enumerate(probes):
        assert "\n" not in p.code
        lines.append("template <> void probe<%d>() { %s }" % (i, p.code))
    with open(path, "w") as f:
        f.write("\n".join(lines) + "\n")
    return first


def _flagged_lines(err, src):
    b = re.escape(os.path.basename(src))
    return set(int(m.group(1)) for m in re.finditer(b + r":(\d+):", err))


def _first_error(err):
    for l in err.split("\n"):
        if "error:" in l or "error :" in l:
            return l.strip()[:300]
    return ""


def run_probes(cfg, probes, wd, tag, preamble="", flags=(), batch=48):
    """Decide accept/reject for every probe under cfg.

    Expected-accept and expected-reject probes go into separate batches.  A verdict is taken from a
    batch only when it agrees with the expectation in a way that de-duplicated diagnostics cannot
    fake (see DESIGN.md §4); every disagreement is re-decided by compiling that probe alone.
    """
    os.makedirs(wd, exist_ok=True)
    acc = [p for p in probes if p.expect == "accept"]
    rej = [p for p in probes if p.expect == "reject"]
    jobs = []
    for kind, lst in (("a", acc), ("r", rej)):
        # Probes carrying the same meta["dedup"] key share template instantiations whose diagnostics a
        # compiler reports only once per TU: never put two of them into one batch.
        batches, nxt = [], {}
        for p in lst:
            k = p.meta.get("dedup") if kind == "r" else None
            i = nxt.get(k, 0) if k is not None else (len(batches) - 1 if batches and len(batches[-1]) < batch else len(batches))
            while i < len(batches) and len(batches[i]) >= batch:
                i += 1
            if i == len(batches):
                batches.append([])
            batches[i].append(p)
            if k is not None:
                nxt[k] = i + 1
        for i, b in enumerate(batches):
            jobs.append((kind, i, b))
    singles = []

    def do(job):
        kind, idx, lst = job
        src = os.path.join(wd, "%s_%s_%s%d.cc" % (tag, cfg.name, kind, idx))
        first = _emit_batch(src, lst, preamble)
        rc, err = syntax_check(cfg, src, flags)
        fl = _flagged_lines(err, src)
        out = []
        if kind == "a":
            if rc == 0:
                for p in lst:
                    out.append((p, "accept", ""))
            else:
                for p in lst:
                    out.append((p, None, ""))
        else:
            unattributed = rc != 0 and not fl
            for i, p in enumerate(lst):
                if (first + i) in fl and not unattributed:
                    out.append((p, "reject", ""))
                else:
                    out.append((p, None, ""))
        return out

    res = {}
    for out in pmap(do, jobs):
        for p, v, d in out:
            if v is None:
                singles.append(p)
            else:
                res[p.pid] = (v, d)

    single_no = {id(p): i for i, p in enumerate(singles)}

    def single(p):
        src = os.path.join(wd, "%s_%s_s%d.cc" % (tag, cfg.name, single_no[id(p)]))
        _emit_batch(src, [p], preamble)
        rc, err = syntax_check(cfg, src, flags)
        return p, ("accept" if rc == 0 else "reject"), _first_error(err), src

    out = {}
    STATS["batches"] += len(jobs)
    STATS["singles"] += len(singles)
    for p, v, d, src in pmap(single, singles):
        res[p.pid] = (v, d)
        out[p.pid] = src
    return res, out


# --------------------------------------------------------------------------------------------
# Findings + evidence + reporting


def load_findings():
    out = []
    p = os.path.join(VERIF, "KNOWN_FINDINGS.json")
    if os.path.exists(p):
        out += json.load(open(p))["findings"]
    d = os.path.join(VERIF, "findings.d")   # staging area while checks are being written
    if os.path.isdir(d):
        for f in sorted(os.listdir(d)):
            if f.endswith(".json"):
                out += json.load(open(os.path.join(d, f)))["findings"]
    return out


class Run:
    def __init__(self, prop, tier, level):
        self.prop, self.tier, self.level = prop, tier, level
        self.seed = int(os.environ.get("VERIF_SEED", "0") or 0)
        self.t0 = time.time()
        self.cov = {}
        self.assumptions = []
        self.violations = []   # (key, what, replay_path)
        self.known_hits = {}   # finding key -> count
        self.findings = [f for f in load_findings() if f["property"] == prop]
        self.deadline = None
        self.wd = workdir(prop, tier)
        os.makedirs(os.path.join(VERIF, "replay"), exist_ok=True)
        os.makedirs(os.path.join(VERIF, "evidence"), exist_ok=True)
        clean_old_pch()

    def elapsed(self):
        return time.time() - self.t0

    def time_left(self):
        return 1e9 if self.deadline is None else self.deadline - self.elapsed()

    def match_known(self, key):
        for f in self.findings:
            if f.get("status") != "open":
                continue
            if re.fullmatch(f["key"], key):
                return f
        return None

    def violation(self, key, what, replay=None):
        """Record one violation; known (open) findings are diverted."""
        f = self.match_known(key)
        if f is not None:
            self.known_hits.setdefault(f["key"], [f, 0, what])
            self.known_hits[f["key"]][1] += 1
            return False
        self.violations.append((key, what, replay))
        return True

    def write_replay(self, key, obj):
        name = "%s-%s.json" % (self.prop, hashlib.sha256(key.encode()).hexdigest()[:12])
        p = os.path.join(VERIF, "replay", name)
        obj = dict(obj)
        obj.setdefault("property", self.prop)
        obj.setdefault("key", key)
        obj.setdefault("tier", self.tier)
        with open(p, "w") as f:
            json.dump(obj, f, indent=1, default=str)
        return p

    def finish(self):
        ev = {
            "property_id": self.prop, "tier": self.tier, "seed": self.seed, "level": self.level,
            "coverage": self.cov, "assumptions": self.assumptions,
            "wall_s": round(self.elapsed(), 2), "violations": len(self.violations),
        }
        self.cov["known_findings_hit"] = {k: v[1] for k, v in self.known_hits.items()}
        self.cov["tree_hash"] = th()
        # /verif/evidence describes runs against /repo only; a run against a scratch tree (VERIF_REPO, used to
        # try the checks on modified copies of the library) leaves it alone and writes under build/ instead
        evdir = os.path.join(VERIF, "evidence")
        if os.path.realpath(REPO) != os.path.realpath("/repo"):
            evdir = os.path.join(BUILD, "evidence_scratch")
            os.makedirs(evdir, exist_ok=True)
        with open(os.path.join(evdir, self.prop + ".json"), "w") as f:
            json.dump(ev, f, indent=1, default=str)
        for k, (fd, n, what) in sorted(self.known_hits.items()):
            print("KNOWN-FINDING: property=%s %s [%s] (%d hit%s; e.g. %s)" % (
                self.prop, fd["what"], fd.get("id", ""), n, "" if n == 1 else "s", what))
        with open(os.path.join(BUILD, "%s_%s_violations.txt" % (self.prop, self.tier)), "w") as f:
            for key, what, replay in self.violations:
                f.write("%s\t%s\n" % (key, what))
        seen = set()
        for key, what, replay in self.violations[:50]:
            if replay is None:
                replay = self.write_replay(key, {"what": what})
            if (key) in seen:
                continue
            seen.add(key)
            print("VIOLATION property=%s replay=%s" % (self.prop, replay))
            print("  key=%s" % key)
            print("  %s" % what)
        if len(self.violations) > 50:
            print("  ... %d more violations" % (len(self.violations) - 50))
        print("[%s %s] wall=%.1fs violations=%d known=%d  %s" % (
            self.prop, self.tier, self.elapsed(), len(self.violations), len(self.known_hits),
            json.dumps({k: v for k, v in self.cov.items()
                        if isinstance(v, (int, float, bool))})))
        sys.stdout.flush()
        return 1 if self.violations else 0
