"""C05 value-space sweep engine: generated TUs that call the real <T> checkers / conversions and the
stage oracle of harness/c05_oracle.hh, split over cores; 'S' (stats) / 'V' (violation) JSON lines."""
import json
import os

from . import core
from .sweep34 import cflags, lit128, target_expr

SAN = ["-fsanitize=undefined,float-cast-overflow,unsigned-integer-overflow",
       "-fno-sanitize=vptr,function", "-fsanitize-minimal-runtime", "-fsanitize-recover=all",
       "-fno-sanitize-link-runtime"]

KINDS = ["cleared-undefined", "cleared-wrong-value", "ovf-unjustified", "uncastable-not-lossy",
         "cleared-truncates", "ub-in-cleared-checker", "ub-in-conversion"]

RUN_TEMPLATE = r'''
#include "c05_ubsan.hh"
#include "c05_oracle.hh"
namespace {
using vf5::i128;
using vf5::u128;
template <bool B> using BoolC = std::integral_constant<bool, B>;
struct IntInt {}; struct IntFp {}; struct FpFp {}; struct FpInt {};
template <bool SI, bool TI> struct CatOf;
template <> struct CatOf<true, true> { typedef IntInt type; };
template <> struct CatOf<true, false> { typedef IntFp type; };
template <> struct CatOf<false, false> { typedef FpFp type; };
template <> struct CatOf<false, true> { typedef FpInt type; };

enum Kind { K_UNDEF, K_WRONG, K_OVF, K_UNCAST, K_TRUNC, K_UBCHK, K_UBCONV, NK };
const char *const KIND_NAME[NK] = {"cleared-undefined", "cleared-wrong-value", "ovf-unjustified",
                                   "uncastable-not-lossy", "cleared-truncates",
                                   "ub-in-cleared-checker", "ub-in-conversion"};

struct Stats {
    unsigned long long evals = 0, n_trunc = 0, n_ovf = 0, n_lossy = 0, n_cleared = 0, n_exec = 0,
                       n_band = 0, n_viol = 0, n_must = 0, ub_chk_lossy = 0, ub_chk_lossy_na = 0, ub_chk_cleared = 0,
                       ub_conv = 0, n_nonfinite = 0, band_ulp = 0, nk[NK] = {0, 0, 0, 0, 0, 0, 0};
    double max_ulp = 0;
};

template <typename I>
struct Ctx {
    int id, show;
    Stats st;
    int shown[NK];
    std::string first_cleared, first_lossy;
    Ctx(int i, int s) : id(i), show(s) { for (int k = 0; k < NK; ++k) shown[k] = 0; }
};

template <typename X, bool FP = std::is_floating_point<X>::value> struct Str;
template <typename X> struct Str<X, false> {
    static std::string val(X x) { return vf::int_str(x); }
    static std::string bits(X) { return ""; }
};
template <typename X> struct Str<X, true> {
    static std::string val(X x) { return vf5::fp_str(x); }
    static std::string bits(X x) { return vf5::bits_hex(x); }
};

inline std::string kv(const char *k, const std::string &v) {
    return std::string(",\"") + k + "\":\"" + v + "\"";
}
// details are rendered lazily (only when a violation line is actually printed)
template <typename F> struct YDet {
    F y;
    std::string str() const {
        return kv("y", vf5::fp_str(y)) + kv("ybits", vf5::bits_hex(y)) + kv("yint", vf5::int_of_fp_str(y));
    }
};
struct StagesDet {
    vf5::StagesInt s;
    std::string str() const {
        char buf[200];
        std::snprintf(buf, sizeof buf, ",\"stages\":{\"st1_in\":%d,\"prod_in_p\":%d,\"trunc\":%d,"
                      "\"st2_out\":%d,\"band\":%d,\"st3_in\":%d}", s.st1_in, s.prod_in_p, s.trunc, s.st2_out,
                      s.band, s.st3_in);
        return std::string(buf) + kv("exact", s.st1_in ? std::string(s.neg ? "-" : "") + vf::u128_str(s.q) : "");
    }
};
template <typename D> struct Plus {
    const D &d;
    std::string extra;
    std::string str() const { return d.str() + extra; }
};
template <typename D> Plus<D> plus(const D &d, const std::string &e) { return Plus<D>{d, e}; }

template <typename I, typename Det>
void emit(Ctx<I> &c, int kind, typename I::S x, bool lt, bool lo, bool ll, const Det &det) {
    ++c.st.n_viol;
    ++c.st.nk[kind];
    if (c.shown[kind]++ >= c.show) return;
    const std::string detail = det.str();
    std::printf("V {\"inst\":%d,\"S\":\"%s\",\"T\":\"%s\",\"C\":\"%s\",\"N\":\"%llu\",\"D\":\"%llu\","
                "\"x\":\"%s\",\"xbits\":\"%s\",\"kind\":\"%s\",\"lib\":{\"trunc\":%d,\"ovf\":%d,\"lossy\":%d}%s}\n",
                c.id, I::sname(), I::tname(), I::cname(), (unsigned long long)I::N,
                (unsigned long long)I::D, Str<typename I::S>::val(x).c_str(),
                Str<typename I::S>::bits(x).c_str(), KIND_NAME[kind], lt, lo, ll, detail.c_str());
}
// ---- the library under test ---------------------------------------------------------------------
template <typename I>
struct Results {
    typename I::T v[5];
    const char *form[5];
    int n;
};
template <typename I>
void exec_rc(BoolC<true>, au::Quantity<au::Meters, typename I::S> q, Results<I> &r) {
    r.form[r.n] = "rep_cast<T>";
    r.v[r.n++] = au::rep_cast<typename I::T>(q).in(au::Meters{});
}
template <typename I>
void exec_rc(BoolC<false>, au::Quantity<au::Meters, typename I::S>, Results<I> &) {}
template <typename I>
void exec_all(au::Quantity<au::Meters, typename I::S> q, Results<I> &r) {
    typedef typename I::T T;
    typename I::Target target{};
    r.n = 0;
    r.form[r.n] = "coerce_in<T>";
    r.v[r.n++] = q.template coerce_in<T>(target);
    r.form[r.n] = "coerce_as<T>";
    r.v[r.n++] = q.template coerce_as<T>(target).in(target);
    r.form[r.n] = "in<T>";
    r.v[r.n++] = q.template in<T>(target);
    r.form[r.n] = "as<T>";
    r.v[r.n++] = q.template as<T>(target).in(target);
    exec_rc<I>(BoolC<(I::N == 1 && I::D == 1)>{}, q, r);
}
// stage 2 for a floating common type: the library's own same-rep conversion, taken as given
template <typename I>
typename I::C lib_scale(typename I::S x) {
    return au::meters(static_cast<typename I::C>(x)).coerce_in(typename I::Target{});
}

// ---- judges ------------------------------------------------------------------------------------
template <typename I>
void judge(Ctx<I> &c, typename I::S x, bool lt, bool lo, bool ll, const vf5::UbSnap &ubc, IntInt) {
    typedef typename I::S S; typedef typename I::C C; typedef typename I::T T;
    const vf5::StagesInt s = vf5::stages_int<S, C, T>(x, I::N, I::D);
    const StagesDet det{s};
    if (lo && !s.some_stage_leaves_range()) emit(c, K_OVF, x, lt, lo, ll, det);
    if (s.st1_in && s.band) ++c.st.n_band;
    if (!s.all_defined_exact()) ++c.st.n_must;
    if (ll) { c.st.ub_chk_lossy += ubc.arith; c.st.ub_chk_lossy_na += ubc.fcast + ubc.other; return; }
    ++c.st.n_cleared;
    if (ubc.total()) { c.st.ub_chk_cleared += ubc.total(); emit(c, K_UBCHK, x, lt, lo, ll, det); }
    if (!s.all_defined_exact()) { emit(c, K_UNDEF, x, lt, lo, ll, det); return; }   // never executed
    const T expect = s.neg ? static_cast<T>(-(i128)s.q) : static_cast<T>(s.q);   // st3_in: fits T
    const vf5::UbSnap u0 = vf5::ub_now();
    Results<I> r;
    exec_all<I>(au::meters(x), r);
    const vf5::UbSnap u1 = vf5::ub_since(u0);
    ++c.st.n_exec;
    for (int i = 0; i < r.n; ++i)
        if (r.v[i] != expect) {
            emit(c, K_WRONG, x, lt, lo, ll, plus(det, kv("form", r.form[i]) + kv("got", vf::int_str(r.v[i]))));
            break;
        }
    if (u1.total()) { c.st.ub_conv += u1.total(); emit(c, K_UBCONV, x, lt, lo, ll, det); }
}

template <typename I>
void judge(Ctx<I> &c, typename I::S x, bool lt, bool lo, bool ll, const vf5::UbSnap &ubc, IntFp) {
    typedef typename I::C C; typedef typename I::T T;
    static_assert(std::is_same<C, T>::value, "integral source, floating target: C == T");
    const C y = lib_scale<I>(x);   // int -> floating cast and floating multiply: always defined
    const YDet<C> det{y};
    // |x*N/D| < 2^64 * 2^31 < FLT_MAX: no stage of an integral source can leave a floating range
    if (lo) emit(c, K_OVF, x, lt, lo, ll, det);
    if (ll) { c.st.ub_chk_lossy += ubc.arith; c.st.ub_chk_lossy_na += ubc.fcast + ubc.other; return; }
    ++c.st.n_cleared;
    if (ubc.total()) { c.st.ub_chk_cleared += ubc.total(); emit(c, K_UBCHK, x, lt, lo, ll, det); }
    if (!vf5::finite(y)) { emit(c, K_UNDEF, x, lt, lo, ll, det); return; }
    const vf5::UbSnap u0 = vf5::ub_now();
    Results<I> r;
    exec_all<I>(au::meters(x), r);
    const vf5::UbSnap u1 = vf5::ub_since(u0);
    ++c.st.n_exec;
    for (int i = 0; i < r.n; ++i)
        if (!(vf5::to_bits(r.v[i]) == vf5::to_bits(y))) {
            emit(c, K_WRONG, x, lt, lo, ll, plus(det, kv("form", r.form[i]) + kv("why", "stage-composition") +
                 kv("got", vf5::fp_str(r.v[i])) + kv("gotbits", vf5::bits_hex(r.v[i]))));
            break;
        }
    const double ue = vf5::ulp_error<T>(x, I::N, I::D, r.v[0]);
    if (ue > c.st.max_ulp) c.st.max_ulp = ue;
    if (ue > 3.0)
        emit(c, K_WRONG, x, lt, lo, ll, plus(det, kv("form", r.form[0]) + kv("why", "ulp") +
             kv("got", vf5::fp_str(r.v[0])) + kv("gotbits", vf5::bits_hex(r.v[0]))));
    else if (ue > 2.0) ++c.st.band_ulp;
    if (u1.total()) { c.st.ub_conv += u1.total(); emit(c, K_UBCONV, x, lt, lo, ll, det); }
}

template <typename I>
void judge(Ctx<I> &c, typename I::S x, bool lt, bool lo, bool ll, const vf5::UbSnap &ubc, FpFp) {
    typedef typename I::C C; typedef typename I::T T;
    const C y = lib_scale<I>(x);   // widening cast and floating multiply: always defined
    const YDet<C> det{y};
    const bool xfin = vf5::finite(x);
    if (!xfin) ++c.st.n_nonfinite;
    const C tmaxc = static_cast<C>(std::numeric_limits<T>::max());   // C contains T: exact
    const bool y_in_t = vf5::finite(y) && y <= tmaxc && y >= -tmaxc;
    if (xfin && !y_in_t) ++c.st.n_must;
    if (ll) { c.st.ub_chk_lossy += ubc.arith; c.st.ub_chk_lossy_na += ubc.fcast + ubc.other; return; }
    ++c.st.n_cleared;
    if (ubc.total()) { c.st.ub_chk_cleared += ubc.total(); emit(c, K_UBCHK, x, lt, lo, ll, det); }
    if (xfin && !vf5::finite(y)) {
        // finite input, scaling left the range of C.  Don't-care band: |x|*N/D <= max(C)*(1+8eps)
        const long double ax = std::fabs(static_cast<long double>(x));
        const long double a = std::ldexp(ax, -70) * (long double)I::N / (long double)I::D;
        const long double m = std::ldexp(static_cast<long double>(std::numeric_limits<C>::max()), -70) *
                              (1.0L + 8.0L * (long double)std::numeric_limits<C>::epsilon());
        if (a > m) { emit(c, K_UNDEF, x, lt, lo, ll, plus(det, kv("why", "stage2-nonfinite"))); return; }
        ++c.st.n_band;
    } else if (xfin && !y_in_t) {
        emit(c, K_UNDEF, x, lt, lo, ll, plus(det, kv("why", "stage3-out-of-range")));   // never executed
        return;
    }
    const T expect = static_cast<T>(y);   // defined: |y| <= max(T), or y is +-inf / NaN
    const vf5::UbSnap u0 = vf5::ub_now();
    Results<I> r;
    exec_all<I>(au::meters(x), r);
    const vf5::UbSnap u1 = vf5::ub_since(u0);
    ++c.st.n_exec;
    for (int i = 0; i < r.n; ++i) {
        const bool same = (expect != expect) ? (r.v[i] != r.v[i])
                                             : (vf5::to_bits(r.v[i]) == vf5::to_bits(expect));
        if (!same) {
            emit(c, K_WRONG, x, lt, lo, ll, plus(det, kv("form", r.form[i]) + kv("expect", vf5::fp_str(expect)) +
                 kv("got", vf5::fp_str(r.v[i])) + kv("gotbits", vf5::bits_hex(r.v[i]))));
            break;
        }
    }
    if (u1.total()) { c.st.ub_conv += u1.total(); emit(c, K_UBCONV, x, lt, lo, ll, det); }
}

template <typename I>
void judge(Ctx<I> &c, typename I::S x, bool lt, bool lo, bool ll, const vf5::UbSnap &ubc, FpInt) {
    typedef typename I::C C; typedef typename I::T T;
    const C y = lib_scale<I>(x);   // floating multiply only
    const YDet<C> det{y};
    if (!vf5::finite(x)) ++c.st.n_nonfinite;
    const bool cast_ok = vf5::castable<T>(y);
    const bool integral = vf5::integral_valued(y);
    if (!cast_ok || !integral) ++c.st.n_must;
    if (!cast_ok && !ll) emit(c, K_UNCAST, x, lt, lo, ll, det);   // never executed
    if (ll) { c.st.ub_chk_lossy += ubc.arith; c.st.ub_chk_lossy_na += ubc.fcast + ubc.other; return; }
    ++c.st.n_cleared;
    if (ubc.total()) { c.st.ub_chk_cleared += ubc.total(); emit(c, K_UBCHK, x, lt, lo, ll, det); }
    if (!cast_ok) return;
    if (!integral) { emit(c, K_TRUNC, x, lt, lo, ll, det); return; }
    const i128 expect = static_cast<i128>(y);   // integral-valued and within the range of T
    const vf5::UbSnap u0 = vf5::ub_now();
    Results<I> r;
    exec_all<I>(au::meters(x), r);
    const vf5::UbSnap u1 = vf5::ub_since(u0);
    ++c.st.n_exec;
    for (int i = 0; i < r.n; ++i)
        if (static_cast<i128>(r.v[i]) != expect) {
            emit(c, K_WRONG, x, lt, lo, ll, plus(det, kv("form", r.form[i]) + kv("got", vf::int_str(r.v[i]))));
            break;
        }
    if (u1.total()) { c.st.ub_conv += u1.total(); emit(c, K_UBCONV, x, lt, lo, ll, det); }
}

template <typename I>
inline void eval_one(Ctx<I> &c, typename I::S x) {
    typedef typename I::T T;
    typename I::Target target{};
    const auto q = au::meters(x);
    const vf5::UbSnap u0 = vf5::ub_now();
    const bool lt = au::will_conversion_truncate<T>(q, target);
    const bool lo = au::will_conversion_overflow<T>(q, target);
    const bool ll = au::is_conversion_lossy<T>(q, target);
    const vf5::UbSnap ubc = vf5::ub_since(u0);
    ++c.st.evals;
    c.st.n_trunc += lt;
    c.st.n_ovf += lo;
    c.st.n_lossy += ll;
    if (ll ? c.first_lossy.empty() : c.first_cleared.empty())
        (ll ? c.first_lossy : c.first_cleared) = Str<typename I::S>::val(x);
    judge<I>(c, x, lt, lo, ll, ubc,
             typename CatOf<std::is_integral<typename I::S>::value, std::is_integral<T>::value>::type{});
}

template <typename I>
void finish(const Ctx<I> &c) {
    const Stats &s = c.st;
    std::printf("S {\"inst\":%d,\"S\":\"%s\",\"T\":\"%s\",\"C\":\"%s\",\"N\":\"%llu\",\"D\":\"%llu\",\"evals\":%llu,"
                "\"trunc\":%llu,\"ovf\":%llu,\"lossy\":%llu,\"cleared\":%llu,\"exec\":%llu,\"band\":%llu,"
                "\"viol\":%llu,\"must\":%llu,\"ub_chk_lossy\":%llu,\"ub_chk_lossy_na\":%llu,\"ub_chk_cleared\":%llu,\"ub_conv\":%llu,"
                "\"nonfinite\":%llu,\"band_ulp\":%llu,\"max_ulp\":%.4f,\"first_cleared\":\"%s\",\"first_lossy\":\"%s\","
                "\"nk\":[%llu,%llu,%llu,%llu,%llu,%llu,%llu]}\n",
                c.id, I::sname(), I::tname(), I::cname(), (unsigned long long)I::N, (unsigned long long)I::D,
                s.evals, s.n_trunc, s.n_ovf, s.n_lossy, s.n_cleared, s.n_exec, s.n_band, s.n_viol, s.n_must,
                s.ub_chk_lossy, s.ub_chk_lossy_na, s.ub_chk_cleared, s.ub_conv, s.n_nonfinite, s.band_ulp, s.max_ulp,
                c.first_cleared.c_str(), c.first_lossy.c_str(),
                s.nk[0], s.nk[1], s.nk[2], s.nk[3], s.nk[4], s.nk[5], s.nk[6]);
    std::fflush(stdout);
}

// integral source: inclusive intervals
template <typename I>
void run_iv(int id, int show, const vf::Interval *iv, int niv) {
    static_assert(std::is_same<typename I::C, std::common_type_t<typename I::S, typename I::T>>::value,
                  "independent common-type table disagrees with the compiler's std::common_type");
    Ctx<I> c(id, show);
    for (int k = 0; k < niv; ++k)
        for (i128 v = iv[k].lo; v <= iv[k].hi; ++v) eval_one<I>(c, static_cast<typename I::S>(v));
    finish(c);
}
template <typename F>
const std::vector<vf5::Bits> &base_cached(int tier) {
    static const std::vector<vf5::Bits> b = vf5::base_set<F>(tier);
    return b;
}
// floating source: the structured alphabet (type part + instance part)
template <typename I>
void run_fpset(int id, int show, int tier) {
    static_assert(std::is_same<typename I::C, std::common_type_t<typename I::S, typename I::T>>::value,
                  "independent common-type table disagrees with the compiler's std::common_type");
    typedef typename I::S S;
    Ctx<I> c(id, show);
    const std::vector<vf5::Bits> &base = base_cached<S>(tier);
    for (const vf5::Bits &b : base) eval_one<I>(c, vf5::from_bits<S>(b));
    for (const vf5::Bits &b : vf5::inst_set<S>(I::N, I::D, tier))
        if (!std::binary_search(base.begin(), base.end(), b)) eval_one<I>(c, vf5::from_bits<S>(b));
    finish(c);
}
// floating source: explicit bit patterns (replay)
template <typename I>
void run_fpbits(int id, int show, const char *const *hex, int n) {
    typedef typename I::S S;
    Ctx<I> c(id, show);
    for (int k = 0; k < n; ++k)
        eval_one<I>(c, vf5::from_bits<S>(vf5::parse_bits(hex[k], vf5::FpInfo<S>::nbytes)));
    finish(c);
}
// float source: a contiguous range of the 2^32 bit patterns
template <typename I>
void run_f32(int id, int show, std::uint32_t lo, std::uint32_t hi) {
    static_assert(std::is_same<typename I::S, float>::value, "float only");
    Ctx<I> c(id, show);
    for (std::uint64_t p = lo; p <= hi; ++p) eval_one<I>(c, vf5::from_bits<float>(vf5::Bits{p, 0}));
    finish(c);
}
}  // namespace
'''


def emit_tu(path, insts, jobs):
    """insts: {iid: (S, T, C, N, D)}; jobs: list of (iid, mode, arg):
    ('iv', [(lo,hi),..]) | ('fpset', tier_int) | ('fpbits', [hex,..]) | ('f32', (lo,hi))."""
    out = [RUN_TEMPLATE, "namespace {"]
    for iid in sorted(insts):
        s, t, c, n, d = insts[iid]
        out.append("struct I%d { typedef %s S; typedef %s T; typedef %s C; "
                   "static constexpr std::uint64_t N = %dull, D = %dull; typedef %s Target; "
                   "static const char *sname() { return \"%s\"; } static const char *tname() { return \"%s\"; } "
                   "static const char *cname() { return \"%s\"; } };"
                   % (iid, s, t, c, n, d, target_expr(n, d), s, t, c))
    body = []
    for k, (iid, mode, arg, show) in enumerate(jobs):
        if mode == "iv":
            out.append("static const vf::Interval IV%d[] = {%s};" % (
                k, ", ".join("{%s, %s}" % (lit128(a), lit128(b)) for a, b in arg)))
            call = "run_iv<I%d>(%d, %d, IV%d, %d)" % (iid, iid, show, k, len(arg))
        elif mode == "fpset":
            call = "run_fpset<I%d>(%d, %d, %d)" % (iid, iid, show, arg)
        elif mode == "fpbits":
            out.append("static const char *const HX%d[] = {%s};" % (k, ", ".join('"%s"' % h for h in arg)))
            call = "run_fpbits<I%d>(%d, %d, HX%d, %d)" % (iid, iid, show, k, len(arg))
        elif mode == "f32":
            call = "run_f32<I%d>(%d, %d, %du, %du)" % (iid, iid, show, arg[0], arg[1])
        else:
            raise ValueError(mode)
        body.append("  if (k++ %% nparts == part) %s;" % call)
    out.append("}")
    out.append("int main(int argc, char **argv) {")
    out.append("  int part = argc > 1 ? std::atoi(argv[1]) : 0, nparts = argc > 2 ? std::atoi(argv[2]) : 1;")
    out.append("  int k = 0;")
    out += body
    out.append("  return 0; }")
    with open(path, "w") as f:
        f.write("\n".join(out) + "\n")


def flags_for(cfg, san, opt):
    return [opt] + (SAN if san else []) + cflags(cfg)


def build_and_run(run, cfg, tag, insts, jobs, san, ntu, opt="-O2", parts_per_bin=1, timeout=7200):
    """Distribute jobs over ntu TUs (keeping jobs of one instance together where possible), build all
    in parallel, run every binary in parts_per_bin parts.  Returns (stats, violations)."""
    wd = os.path.join(run.wd, tag)
    os.makedirs(wd, exist_ok=True)
    fl = flags_for(cfg, san, opt)
    groups = [[] for _ in range(ntu)]
    order = {}
    for j in jobs:
        g = order.setdefault(j[0], len(order) % ntu)
        groups[g].append(j)
    groups = [g for g in groups if g]

    def build(k):
        src = os.path.join(wd, "sw%d.cc" % k)
        exe = os.path.join(wd, "sw%d" % k)
        used = {j[0] for j in groups[k]}
        emit_tu(src, {i: insts[i] for i in used}, groups[k])
        rc, err = core.build_exe(cfg, src, exe, fl)
        if rc != 0:
            raise core.InfraError("C05 sweep TU failed to build (%s):\n%s" % (src, err[-3000:]))
        return exe

    core.pch_dir(cfg, fl)
    exes = core.pmap(build, range(len(groups)))
    rjobs = [(e, p) for e in exes for p in range(parts_per_bin)]

    def runexe(job):
        exe, part = job
        rc, out, err = core.sh([exe, str(part), str(parts_per_bin)], timeout=timeout)
        if rc != 0:
            raise core.InfraError("C05 sweep binary %s part %d failed rc=%d: %s" % (exe, part, rc, err[-2000:]))
        return out

    stats, viols = [], []
    for out in core.pmap(runexe, rjobs):
        for line in out.split("\n"):
            if line.startswith("S "):
                stats.append(json.loads(line[2:]))
            elif line.startswith("V "):
                viols.append(json.loads(line[2:]))
    return stats, viols
