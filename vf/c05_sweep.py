"""C05 value-space sweep engine: generated TUs that call the real <T> checkers / conversions and the
stage oracle of harness/c05_oracle.hh, split over cores; 'S' (stats) / 'V' (violation) JSON lines."""
import json
import os
import subprocess

from . import core
from .sweep34 import cflags, lit128, target_expr
from .c05_model import SHAPES

SAN = ["-fsanitize=undefined,float-cast-overflow,unsigned-integer-overflow",
       "-fno-sanitize=vptr,function", "-fsanitize-minimal-runtime", "-fsanitize-recover=all",
       "-fno-sanitize-link-runtime"]

KINDS = ["cleared-undefined", "cleared-wrong-value", "ovf-unjustified", "uncastable-not-lossy",
         "cleared-truncates", "ub-in-cleared-checker", "ub-in-conversion", "fp-scale-wrong"]

RUN_TEMPLATE = r'''
#include "c05_report.hh"
namespace {
using vf5::i128;
using vf5::u128;
using vf5::Ctx;
using vf5::Det;
using vf5::Val;
template <bool B> using BoolC = std::integral_constant<bool, B>;
struct IntInt {}; struct IntFp {}; struct FpFp {}; struct FpInt {};
template <bool SI, bool TI> struct CatOf;
template <> struct CatOf<true, true> { typedef IntInt type; };
template <> struct CatOf<true, false> { typedef IntFp type; };
template <> struct CatOf<false, false> { typedef FpFp type; };
template <> struct CatOf<false, true> { typedef FpInt type; };

// ---- the library under test ---------------------------------------------------------------------
template <typename I>
struct Results {
    typename I::T v[5];
    const char *form[5];
    int n;
};
template <typename I>
void exec_rc(BoolC<true>, au::Quantity<typename I::Src, typename I::S> q, Results<I> &r) {
    r.form[r.n] = "rep_cast<T>";
    r.v[r.n++] = au::rep_cast<typename I::T>(q).in(typename I::Src{});
}
template <typename I>
void exec_rc(BoolC<false>, au::Quantity<typename I::Src, typename I::S>, Results<I> &) {}
// all five spellings of the rep-changing conversion; returns the UBSan events seen while they ran
template <typename I>
vf5::UbSnap exec_all(typename I::S x, Results<I> &r) {
    typedef typename I::T T;
    typename I::Target target{};
    const auto q = au::make_quantity<typename I::Src>(x);
    const vf5::UbSnap u0 = vf5::ub_now();
    r.n = 0;
    r.form[r.n] = "coerce_in<T>";
    r.v[r.n++] = q.template coerce_in<T>(target);
    r.form[r.n] = "coerce_as<T>";
    r.v[r.n++] = q.template coerce_as<T>(target).in(target);
    r.form[r.n] = "in<T>";
    r.v[r.n++] = q.template in<T>(target);
    r.form[r.n] = "as<T>";
    r.v[r.n++] = q.template as<T>(target).in(target);
    exec_rc<I>(BoolC<(I::N == 1 && I::D == 1)>{}, q, r);
    return vf5::ub_since(u0);
}
// stage 2 for a floating common type: the library's own same-rep conversion, taken as given
template <typename I>
typename I::C lib_scale(typename I::S x) {
    return au::make_quantity<typename I::Src>(static_cast<typename I::C>(x)).coerce_in(typename I::Target{});
}
inline void after_exec(Ctx &c, const Val &x, bool lt, bool lo, bool ll, const vf5::UbSnap &u, const Det &d) {
    ++c.st.n_exec;
    if (u.total()) { c.st.ub_conv += u.total(); vf5::emit(c, vf5::K_UBCONV, x, lt, lo, ll, d); }
}
inline void wrong(Ctx &c, const Val &x, bool lt, bool lo, bool ll, Det d, const char *form, const char *why,
                  const Val &got, const Val *expect) {
    d.form = form; d.why = why; d.has_got = true; d.got = got;
    if (expect) { d.has_expect = true; d.expect = *expect; }
    vf5::emit(c, vf5::K_WRONG, x, lt, lo, ll, d);
}

// floating common type: the library's scaled value y against the exact x*N/D.  The statement takes the
// "computed floating result" as given, so only a result that is not a scaling by the factor at all
// (more than 64 ulp(C) away) is a violation; (4, 64] ulp is a counted don't-care band.
template <typename I>
inline void fp_scale(Ctx &c, const Val &xv, typename I::C xc, typename I::C y, bool lt, bool lo, bool ll, const Det &d) {
    const double u = vf5::fp_scale_ulps<typename I::C>(xc, I::N, I::D, y);
    if (u < 0) return;
    if (u > c.st.max_fpscale) c.st.max_fpscale = u;
    if (u > 64.0) { Det e = d; e.why = "stage2-not-x*N/D"; vf5::emit(c, vf5::K_FPSCALE, xv, lt, lo, ll, e); }
    else if (u > 4.0) ++c.st.band_fpscale;
}

// ---- judges ------------------------------------------------------------------------------------
template <typename I>
void judge(Ctx &c, typename I::S x, bool lt, bool lo, bool ll, const vf5::UbSnap &ubc, IntInt) {
    typedef typename I::S S; typedef typename I::C C; typedef typename I::T T;
    const Val xv = vf5::val(x);
    Det d;
    d.has_stages = true;
    d.st = vf5::stages_int<S, C, T>(x, I::N, I::D);
    const vf5::StagesInt &s = d.st;
    if (lo && !s.some_stage_leaves_range()) vf5::emit(c, vf5::K_OVF, xv, lt, lo, ll, d);
    if (s.st1_in && s.band) ++c.st.n_band;
    if (!s.all_defined_exact()) ++c.st.n_must;
    else if (lt) ++c.st.n_trunc_unjust;   // recorded: the statement does not forbid over-reporting truncation
    if (vf5::account(c, xv, lt, lo, ll, ubc, d)) return;
    if (!s.all_defined_exact()) { vf5::emit(c, vf5::K_UNDEF, xv, lt, lo, ll, d); return; }   // never executed
    const T expect = s.neg ? static_cast<T>(-(i128)s.q) : static_cast<T>(s.q);   // st3_in: fits T
    Results<I> r;
    const vf5::UbSnap u = exec_all<I>(x, r);
    for (int i = 0; i < r.n; ++i)
        if (r.v[i] != expect) { wrong(c, xv, lt, lo, ll, d, r.form[i], nullptr, vf5::val(r.v[i]), nullptr); break; }
    after_exec(c, xv, lt, lo, ll, u, d);
}

template <typename I>
void judge(Ctx &c, typename I::S x, bool lt, bool lo, bool ll, const vf5::UbSnap &ubc, IntFp) {
    typedef typename I::C C; typedef typename I::T T;
    static_assert(std::is_same<C, T>::value, "integral source, floating target: C == T");
    const Val xv = vf5::val(x);
    const C y = lib_scale<I>(x);   // int -> floating cast and floating multiply: always defined
    Det d;
    d.has_y = true;
    d.y = vf5::val(y);
    // overflow may be reported only when x*N/D really leaves the range of T (possible for float only:
    // 2^64 * (2^64-59) > FLT_MAX); within 8 eps below max(T) it is a don't-care (two roundings)
    if (lo) {
        if (vf5::int_to_fp_clearly_in_range<T>(x, I::N, I::D)) vf5::emit(c, vf5::K_OVF, xv, lt, lo, ll, d);
        else ++c.st.n_band;
    }
    if (vf5::account(c, xv, lt, lo, ll, ubc, d)) return;
    if (!vf5::finite(y)) { vf5::emit(c, vf5::K_UNDEF, xv, lt, lo, ll, d); return; }
    Results<I> r;
    const vf5::UbSnap u = exec_all<I>(x, r);
    for (int i = 0; i < r.n; ++i)
        if (!(vf5::to_bits(r.v[i]) == vf5::to_bits(y))) {
            wrong(c, xv, lt, lo, ll, d, r.form[i], "stage-composition", vf5::val(r.v[i]), nullptr);
            break;
        }
    const double ue = vf5::ulp_error<T>(x, I::N, I::D, r.v[0]);
    if (ue > c.st.max_ulp) c.st.max_ulp = ue;
    if (ue > 3.0) wrong(c, xv, lt, lo, ll, d, r.form[0], "ulp", vf5::val(r.v[0]), nullptr);
    else if (ue > 2.0) ++c.st.band_ulp;
    after_exec(c, xv, lt, lo, ll, u, d);
}

template <typename I>
void judge(Ctx &c, typename I::S x, bool lt, bool lo, bool ll, const vf5::UbSnap &ubc, FpFp) {
    typedef typename I::C C; typedef typename I::T T;
    const Val xv = vf5::val(x);
    const C y = lib_scale<I>(x);   // widening cast and floating multiply: always defined
    Det d;
    d.has_y = true;
    d.y = vf5::val(y);
    const bool xfin = vf5::finite(x);
    if (!xfin) ++c.st.n_nonfinite;
    fp_scale<I>(c, xv, static_cast<C>(x), y, lt, lo, ll, d);
    const C tmaxc = static_cast<C>(std::numeric_limits<T>::max());   // C contains T: exact
    const bool y_in_t = vf5::finite(y) && y <= tmaxc && y >= -tmaxc;
    // max(T) < |y| < max(T) + ulp(max(T))/2: a round-to-nearest cast yields max(T); whether such a value
    // is "in range" is a matter of reading [conv.double] -> don't-care (C wider than T: the sum is exact)
    const C half_ulp = std::ldexp(C(1), std::numeric_limits<T>::max_exponent - std::numeric_limits<T>::digits - 1);
    const bool y_band3 = vf5::finite(y) && !y_in_t && !std::is_same<C, T>::value &&
                         (y < 0 ? -y : y) < tmaxc + half_ulp;
    if (xfin && !y_in_t && !y_band3) ++c.st.n_must;
    if (vf5::account(c, xv, lt, lo, ll, ubc, d)) return;
    if (xfin && y_band3) { ++c.st.band_stage3; return; }   // cleared inside the band: not judged, not executed
    if (xfin && !vf5::finite(y)) {
        // finite input, scaling left the range of C.  Don't-care band: |x|*N/D <= max(C)*(1+8eps)
        const long double ax = std::fabs(static_cast<long double>(x));
        const long double a = std::ldexp(ax, -70) * (long double)I::N / (long double)I::D;
        const long double m = std::ldexp(static_cast<long double>(std::numeric_limits<C>::max()), -70) *
                              (1.0L + 8.0L * (long double)std::numeric_limits<C>::epsilon());
        if (a > m) { d.why = "stage2-nonfinite"; vf5::emit(c, vf5::K_UNDEF, xv, lt, lo, ll, d); return; }
        ++c.st.n_band;
    } else if (xfin && !y_in_t) {
        d.why = "stage3-out-of-range";
        vf5::emit(c, vf5::K_UNDEF, xv, lt, lo, ll, d);   // never executed
        return;
    }
    const T expect = static_cast<T>(y);   // defined: |y| <= max(T), or y is +-inf / NaN
    Results<I> r;
    const vf5::UbSnap u = exec_all<I>(x, r);
    for (int i = 0; i < r.n; ++i) {
        const bool same = (expect != expect) ? (r.v[i] != r.v[i])
                                             : (vf5::to_bits(r.v[i]) == vf5::to_bits(expect));
        if (!same) {
            const Val ev = vf5::val(expect);
            wrong(c, xv, lt, lo, ll, d, r.form[i], nullptr, vf5::val(r.v[i]), &ev);
            break;
        }
    }
    after_exec(c, xv, lt, lo, ll, u, d);
}

template <typename I>
void judge(Ctx &c, typename I::S x, bool lt, bool lo, bool ll, const vf5::UbSnap &ubc, FpInt) {
    typedef typename I::C C; typedef typename I::T T;
    const Val xv = vf5::val(x);
    const C y = lib_scale<I>(x);   // floating multiply only
    Det d;
    d.has_y = true;
    d.y = vf5::val(y);
    if (!vf5::finite(x)) ++c.st.n_nonfinite;
    fp_scale<I>(c, xv, static_cast<C>(x), y, lt, lo, ll, d);
    const bool cast_ok = vf5::castable<T>(y);
    const bool integral = vf5::integral_valued(y);
    if (!cast_ok || !integral) ++c.st.n_must;
    else if (lt) ++c.st.n_trunc_unjust;
    if (!cast_ok && !ll) vf5::emit(c, vf5::K_UNCAST, xv, lt, lo, ll, d);   // never executed
    if (vf5::account(c, xv, lt, lo, ll, ubc, d)) return;
    if (!cast_ok) return;
    if (!integral) { vf5::emit(c, vf5::K_TRUNC, xv, lt, lo, ll, d); return; }
    const i128 expect = static_cast<i128>(y);   // integral-valued and within the range of T
    Results<I> r;
    const vf5::UbSnap u = exec_all<I>(x, r);
    for (int i = 0; i < r.n; ++i)
        if (static_cast<i128>(r.v[i]) != expect) {
            wrong(c, xv, lt, lo, ll, d, r.form[i], nullptr, vf5::val(r.v[i]), nullptr);
            break;
        }
    after_exec(c, xv, lt, lo, ll, u, d);
}

template <typename I>
inline void eval_one(Ctx &c, typename I::S x) {
    typedef typename I::T T;
    typename I::Target target{};
    const auto q = au::make_quantity<typename I::Src>(x);
    const vf5::UbSnap u0 = vf5::ub_now();
    const bool lt = au::will_conversion_truncate<T>(q, target);
    const bool lo = au::will_conversion_overflow<T>(q, target);
    const bool ll = au::is_conversion_lossy<T>(q, target);
    const vf5::UbSnap ubc = vf5::ub_since(u0);
    ++c.st.evals;
    c.st.n_trunc += lt;
    c.st.n_ovf += lo;
    c.st.n_lossy += ll;
    if (ll) { if (!c.have_lossy) { c.have_lossy = true; c.first_lossy = vf5::val(x); } }
    else if (!c.have_cleared) { c.have_cleared = true; c.first_cleared = vf5::val(x); }
    judge<I>(c, x, lt, lo, ll, ubc,
             typename CatOf<std::is_integral<typename I::S>::value, std::is_integral<T>::value>::type{});
}

template <typename I>
Ctx make_ctx(int id, int show) {
    static_assert(std::is_same<typename I::C, std::common_type_t<typename I::S, typename I::T>>::value,
                  "independent common-type table disagrees with the compiler's std::common_type");
    Ctx c(id, show, I::sname(), I::tname(), I::cname(), I::N, I::D);
    c.shape = I::shape();
    c.wrap_defined = vf5::wrap_defined<typename I::C>();
    return c;
}

// integral source: inclusive intervals
template <typename I>
void run_iv(int id, int show, const vf::Interval *iv, int niv) {
    Ctx c = make_ctx<I>(id, show);
    for (int k = 0; k < niv; ++k)
        for (i128 v = iv[k].lo; v <= iv[k].hi; ++v) eval_one<I>(c, static_cast<typename I::S>(v));
    vf5::finish(c);
}
template <typename F>
const std::vector<vf5::Bits> &base_cached(int tier) {
    static const std::vector<vf5::Bits> b = vf5::base_set<F>(tier);
    return b;
}
// floating source: the structured alphabet (type part + instance part)
template <typename I>
void run_fpset(int id, int show, int tier) {
    typedef typename I::S S;
    Ctx c = make_ctx<I>(id, show);
    const std::vector<vf5::Bits> &base = base_cached<S>(tier);
    for (const vf5::Bits &b : base) eval_one<I>(c, vf5::from_bits<S>(b));
    for (const vf5::Bits &b : vf5::inst_set<S>(I::N, I::D, tier))
        if (!std::binary_search(base.begin(), base.end(), b)) eval_one<I>(c, vf5::from_bits<S>(b));
    vf5::finish(c);
}
// floating source: explicit bit patterns (replay)
template <typename I>
void run_fpbits(int id, int show, const char *const *hex, int n) {
    typedef typename I::S S;
    Ctx c = make_ctx<I>(id, show);
    for (int k = 0; k < n; ++k)
        eval_one<I>(c, vf5::from_bits<S>(vf5::parse_bits(hex[k], vf5::FpInfo<S>::nbytes)));
    vf5::finish(c);
}
// float source: a contiguous range of the 2^32 bit patterns
template <typename I>
void run_f32(int id, int show, std::uint32_t lo, std::uint32_t hi) {
    static_assert(std::is_same<typename I::S, float>::value, "float only");
    Ctx c = make_ctx<I>(id, show);
    for (std::uint64_t p = lo; p <= hi; ++p) eval_one<I>(c, vf5::from_bits<float>(vf5::Bits{p, 0}));
    vf5::finish(c);
}
}  // namespace
'''


def emit_tu(path, insts, jobs):
    """insts: {iid: (S, T, C, N, D, U)} (U = index into c05_model.SHAPES); jobs: list of (iid, mode, arg):
    ('iv', [(lo,hi),..]) | ('fpset', tier_int) | ('fpbits', [hex,..]) | ('f32', (lo,hi))."""
    out = [RUN_TEMPLATE, "namespace {"]
    for iid in sorted(insts):
        s, t, c, n, d, u = insts[iid]
        label, src, tgt = SHAPES[u][:3]
        out.append("struct I%d { typedef %s S; typedef %s T; typedef %s C; typedef %s Src; "
                   "static constexpr std::uint64_t N = %dull, D = %dull; typedef %s Target; "
                   "static const char *sname() { return \"%s\"; } static const char *tname() { return \"%s\"; } "
                   "static const char *cname() { return \"%s\"; } static const char *shape() { return \"%s\"; } };"
                   % (iid, s, t, c, src, n, d, tgt or target_expr(n, d), s, t, c, label))
    body = []
    for k, (iid, mode, arg, show) in enumerate(jobs):
        if mode == "iv":
            out.append("static const vf::Interval IV%d[] = {%s};" % (
                k, ", ".join("{%s, %s}" % (lit128(a), lit128(b)) for a, b in arg)))
            call = "run_iv<I%d>(%d, %d, IV%d, %d)" % (iid, iid, show, k, len(arg))
        elif mode == "fpset":
            call = "run_fpset<I%d>(%d, %d, %d)" % (iid, iid, show, arg)
        elif mode == "fpbits":
            out.append("static const char *const HX%d[] = {%s};" % (k, ", ".join('"%s"' % h for h in arg)))
            call = "run_fpbits<I%d>(%d, %d, HX%d, %d)" % (iid, iid, show, k, len(arg))
        elif mode == "f32":
            call = "run_f32<I%d>(%d, %d, %du, %du)" % (iid, iid, show, arg[0], arg[1])
        else:
            raise ValueError(mode)
        body.append("  if (k++ %% nparts == part) %s;" % call)
    out.append("}")
    out.append("int main(int argc, char **argv) {")
    out.append("  int part = argc > 1 ? std::atoi(argv[1]) : 0, nparts = argc > 2 ? std::atoi(argv[2]) : 1;")
    out.append("  int k = 0;")
    out += body
    out.append("  return 0; }")
    with open(path, "w") as f:
        f.write("\n".join(out) + "\n")


def flags_for(cfg, san, opt):
    return [opt] + (SAN if san else []) + cflags(cfg)


class SoftTimeout(Exception):
    pass


def build_and_run(run, cfg, tag, insts, jobs, san, ntu, opt="-O2", parts_per_bin=1, timeout=7200,
                  soft=False):
    """Distribute jobs over ntu TUs (keeping jobs of one instance together where possible), build all
    in parallel, run every binary in parts_per_bin parts.  Returns (stats, violations).
    soft=True: a binary exceeding `timeout` raises SoftTimeout (deadline guard) instead of InfraError."""
    wd = os.path.join(run.wd, tag)
    os.makedirs(wd, exist_ok=True)
    fl = flags_for(cfg, san, opt)
    groups = [[] for _ in range(ntu)]
    order = {}
    for j in jobs:
        g = order.setdefault(j[0], len(order) % ntu)
        groups[g].append(j)
    groups = [g for g in groups if g]

    def build(k):
        src = os.path.join(wd, "sw%d.cc" % k)
        exe = os.path.join(wd, "sw%d" % k)
        used = {j[0] for j in groups[k]}
        emit_tu(src, {i: insts[i] for i in used}, groups[k])
        rc, err = core.build_exe(cfg, src, exe, fl)
        if rc != 0:
            raise core.InfraError("C05 sweep TU failed to build (%s):\n%s" % (src, err[-3000:]))
        return exe

    core.pch_dir(cfg, fl)
    exes = core.pmap(build, range(len(groups)))
    rjobs = [(e, p) for e in exes for p in range(parts_per_bin)]

    def runexe(job):
        exe, part = job
        try:
            rc, out, err = core.sh([exe, str(part), str(parts_per_bin)], timeout=timeout)
        except subprocess.TimeoutExpired:
            if soft:
                return None
            raise core.InfraError("C05 sweep binary %s part %d timed out after %ds" % (exe, part, timeout))
        if rc != 0:
            raise core.InfraError("C05 sweep binary %s part %d failed rc=%d: %s" % (exe, part, rc, err[-2000:]))
        return out

    stats, viols = [], []
    outs = core.pmap(runexe, rjobs)
    if any(o is None for o in outs):
        raise SoftTimeout()
    for out in outs:
        for line in out.split("\n"):
            if line.startswith("S "):
                stats.append(json.loads(line[2:]))
            elif line.startswith("V "):
                viols.append(json.loads(line[2:]))
    return stats, viols
