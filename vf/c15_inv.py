"""C15 (b): inverse_in / inverse_as over ALL (SI prefix on seconds) x (SI prefix on hertz) pairs.

Model (independent of Au): a source quantity x * 10^a [Hz] has period (10^-(a+b) / x) * 10^b [s], so the exact
conversion constant is K = 10^-(a+b) (same for the time -> frequency direction).  The implicit-rep form must
compile iff the rep is floating, or K is an integer the rep can hold and K >= 10^6.

Explicit-rep forms: target rep == source rep wherever the rep holds K; target rep wider than the source rep (int64_t,
double from a narrower integral source; floating target from an int32_t source) must compile and give trunc(K/x) resp.
K/x; int64_t / double sources into a narrower target.  Replay re-runs the whole instance with the report restricted
to the recorded (form, x).
"""
import os

from . import core, model
from . import c15_common as C
from .core import BITS, tmax

REPS = ["int32_t", "int64_t", "uint32_t", "int16_t", "uint8_t", "double", "uint64_t", "float"]
REPS_THOROUGH = REPS + ["int8_t", "uint16_t", "long double"]
SPARSE = ("uint64_t", "float", "int8_t", "uint16_t", "long double")   # quick: one unit pair per (direction, K) only
FP = ("float", "double", "long double")
WIDE_SRC = ["int16_t", "uint8_t", "int32_t", "uint32_t"]    # source reps of the wider-target explicit forms (int64_t, double)
FLOAT_KEXP = (-30, 38)       # K = 10^kexp and every K/x of the sweep are normal floats only inside this range
PFX = [None] + list(model.SI_PREFIXES)          # 25 units per base
THRESHOLD = 10 ** 6


def punit(stem, p):
    return C.unit(stem, p[1] if p else None), (p[3] if p else 0)


def fp_in_domain(rep, kexp):
    """A floating rep can hold K (and K/x for |x| <= 2^16 as a normal number); otherwise no value is promised."""
    return rep != "float" or FLOAT_KEXP[0] <= kexp <= FLOAT_KEXP[1]


def model_accept(rep, kexp):
    if rep not in BITS:
        return True
    return kexp >= 0 and 10 ** kexp >= THRESHOLD and 10 ** kexp <= tmax(rep)


def explicit_in_domain(rep, kexp):
    """Where the explicit-rep form's value is judged: K is an integer the rep can hold (no threshold)."""
    if rep not in BITS:
        return True
    return kexp >= 0 and 10 ** kexp <= tmax(rep)


def cases():
    """(direction, source U, target U, kexp) for all 625 x 2 unit pairs."""
    out = []
    for ps in PFX:
        for ph in PFX:
            s, a = punit("seconds", ps)
            h, b = punit("hertz", ph)
            out.append(("f2t", h, s, -(a + b)))
            out.append(("t2f", s, h, -(a + b)))
    return out


def call(fn, form, src, tgt, rep):
    q = "au::make_quantity<%s>(static_cast<%s>(1))" % (src.cpp, rep)
    slot = tgt.cpp + "{}" if fn == "inverse_in" else tgt.maker
    if form == "implicit":
        return "(void)au::%s(%s, %s);" % (fn, slot, q)
    trep = form[5:] if form.startswith("wide:") else rep
    return "(void)au::%s<%s>(%s, %s);" % (fn, trep, slot, q)


def cname(c):
    return "%s:%s->%s" % (c[0], c[1].name, c[2].name)


def core_cases(cs):
    """Indices of a sub-grid that still contains every (direction, K): the first pair per (direction, K) and every pair
    with an unprefixed side."""
    seen, out = set(), set()
    for ci, (d, src, tgt, kexp) in enumerate(cs):
        if (d, kexp) not in seen or "(" not in src.name or "(" not in tgt.name:
            out.add(ci)
        seen.add((d, kexp))
    return out


def wide_cases(cs, sub, quick):
    """Cases for the wider-target explicit forms: K = 10^kexp must fit int64_t.  quick: the first pair per (direction, K)."""
    seen, out = set(), []
    for ci, (d, src, tgt, kexp) in enumerate(cs):
        if not 0 <= kexp <= 18 or ci not in sub:
            continue
        if not quick or (d, kexp) not in seen:
            out.append(ci)
        seen.add((d, kexp))
    return out


def first_cases(cs):
    """The first unit pair per (direction, K): the smallest sub-grid that still contains every (direction, K)."""
    seen, out = set(), set()
    for ci, (d, src, tgt, kexp) in enumerate(cs):
        if (d, kexp) not in seen:
            out.add(ci)
        seen.add((d, kexp))
    return out


def sparse_skip(rep, ci, quick, sub, firsts):
    """Reps beyond the six main ones: quick -> one unit pair per (direction, K); thorough -> every pair for the integral
    ones (few K are in their domain), the core sub-grid for float / long double (same code path as double)."""
    if rep not in SPARSE:
        return False
    if quick:
        return ci not in firsts
    return rep in FP and ci not in sub


def probes(level, quick=True):
    """level 2: implicit-rep probes for every case x rep x {inverse_in, inverse_as} + explicit-rep accept probes where K fits.
    level 1: inverse_in implicit for every case x rep (uint32_t / int64_t outside the core sub-grid: frequency -> time only);
             inverse_as and the explicit form on the core sub-grid only.
    level 0: core sub-grid only."""
    ps = []
    cs = cases()
    sub = core_cases(cs)
    firsts = first_cases(cs)
    for ci, c in enumerate(cs):
        d, src, tgt, kexp = c
        if level == 0 and ci not in sub:
            continue
        for rep in (REPS if quick else REPS_THOROUGH):
            exp = model_accept(rep, kexp)
            if level < 2 and ci not in sub and rep in ("uint32_t", "int64_t") and d == "t2f":
                continue          # quick: outside the core sub-grid these two reps are probed in one direction only
            if sparse_skip(rep, ci, quick or level < 2, sub, firsts):
                continue
            if not fp_in_domain(rep, kexp):
                continue          # K is not a (normal) float: nothing is promised either way, not judged
            for fn in ("inverse_in", "inverse_as"):
                if level < 2 and fn == "inverse_as" and ci not in sub:
                    continue
                ps.append(core.Probe((ci, rep, fn, "implicit"), call(fn, "implicit", src, tgt, rep),
                                     "accept" if exp else "reject", {"case": c, "rep": rep, "fn": fn}))
                if rep in BITS and explicit_in_domain(rep, kexp) and (level == 2 or ci in sub):
                    ps.append(core.Probe((ci, rep, fn, "explicit"), call(fn, "explicit", src, tgt, rep), "accept",
                                         {"case": c, "rep": rep, "fn": fn}))
    # explicit target rep wider than the source rep: must compile whenever the target rep holds K
    for ci in wide_cases(cs, sub, quick):
        c = cs[ci]
        for rep in WIDE_SRC:
            for fn, form in (("inverse_as", "wide:int64_t"), ("inverse_in", "wide:double")):
                ps.append(core.Probe((ci, rep, fn, form), call(fn, form, c[1], c[2], rep), "accept",
                                     {"case": c, "rep": rep, "fn": fn}))
    return ps


INST = '''struct I%(id)d { typedef %(rep)s R; typedef %(src)s Src; typedef %(tgt)s Tgt;
  static constexpr bool IMPLICIT = %(imp)s; %(k)s
  static constexpr auto src_maker() { return %(srcm)s; } static constexpr auto tgt_maker() { return %(tgtm)s; } };'''


def inst_text(iid, c, rep, implicit):
    d, src, tgt, kexp = c
    if rep in BITS:
        k = "static constexpr unsigned long long K = %dull;" % (10 ** kexp)
    else:
        k = "static c15::ld K() { return %s; }" % C.ld_lit(model.Fr(10) ** kexp)
    return INST % {"id": iid, "rep": rep, "src": src.cpp, "tgt": tgt.cpp, "imp": "true" if implicit else "false",
                   "k": k, "srcm": src.maker, "tgtm": tgt.maker}


def tu_text(insts, only=None):
    """insts: list of (iid, case, rep, implicit, runner); only = (kind, x) restricts the report to one case (replay)."""
    out = ['#include "c15_inv.hh"', "namespace {"]
    for (iid, c, rep, imp, runner) in insts:
        out.append(inst_text(iid, c, rep, imp))
    out.append("}\nint main() {")
    flt = '"%s", "%s"' % only if only else "nullptr, nullptr"
    for (iid, c, rep, imp, runner) in insts:
        out.append("  c15::run_inv_%s<I%d>(%d, %s);" % (runner, iid, iid, flt))
    out.append("  return 0; }")
    return "\n".join(out) + "\n"


class Explorer:
    """Stages: probe(cfg, level) any number of times, then sweep(cfg) any number of times, then summary()."""

    def __init__(self, run, viol):
        self.run, self.viol, self.quick = run, viol, run.tier == "quick"
        self.cs = cases()
        self.sub = core_cases(self.cs)
        self.firsts = first_cases(self.cs)
        self.st = {"unit_pairs": len(self.cs), "core_subgrid_pairs": len(self.sub), "probes_per_config": {},
                   "probe_accepts": 0, "probe_rejects": 0, "rejects_with_accepted_twin": 0, "sweep_builds": [],
                   "float_instances_K_outside_float_range_not_judged": 0, "reps": list(REPS if self.quick else REPS_THOROUGH)}
        self.verdicts, self.both, self.all_ps, self.S, self.insts = {}, {}, [], [], None
        self.refused = set()      # (case, source rep) whose explicit-rep / wider-target probe did not compile (a violation)
        self.reps = REPS if self.quick else REPS_THOROUGH
        self.pre = '#include "c15_common.hh"\n'

    def probe(self, cfg, level):
        st, viol = self.st, self.viol
        ps = probes(level, self.quick)
        self.all_ps = self.all_ps or ps
        st["probes_per_config"][cfg.name] = len(ps)
        res, _ = core.run_probes(cfg, ps, os.path.join(self.run.wd, "invp_" + cfg.name), "inv", self.pre, batch=64)
        for p in ps:
            v, diag = res[p.pid]
            ci, rep, fn, form = p.pid
            st["probe_accepts" if v == "accept" else "probe_rejects"] += 1
            c = p.meta["case"]
            if form == "implicit":
                self.verdicts.setdefault((ci, rep), []).append(v)
                self.both.setdefault(ci, set()).add(v)
            if v != p.expect:
                if v == "reject":
                    C.guard(diag)
                    if form != "implicit":
                        self.refused.add((ci, rep))
                key = "C15:inverse-%s:%s:%s:%s:rep=%s:K=1e%d" % ("accepted" if v == "accept" else "rejected", form, fn,
                                                               cname(c), rep, c[3])
                what = ("%s: `%s` is %sed; the model says %s (K = 10^%d, rep %s%s) %s"
                        % (cfg, p.code, v, p.expect, c[3], rep, "" if rep not in BITS else ", max %d" % tmax(rep), diag))
                viol(key, what, {"kind": "probe", "code": p.code, "expected": p.expect, "config": [cfg.cxx, cfg.std],
                                 "preamble": self.pre})
        # every rejected implicit probe has an accepted twin: the same call with rep double
        for p in ps:
            ci, rep, fn, form = p.pid
            if form == "implicit" and res[p.pid][0] == "reject":
                tw = res.get((ci, "double", fn, "implicit"))
                if tw and tw[0] == "accept":
                    st["rejects_with_accepted_twin"] += 1
                elif not self.run.violations:
                    raise core.InfraError("rejected inversion probe without an accepted twin: %s" % p.code)

    def instances(self):
        if self.insts is None:
            self.insts = []
            wide = set(wide_cases(self.cs, self.sub, self.quick))
            for ci, c in enumerate(self.cs):
                for rep in self.reps:
                    if (ci, rep) in self.refused:
                        continue              # already reported: the explicit-rep form of this instance does not compile
                    if sparse_skip(rep, ci, self.quick, self.sub, self.firsts):
                        continue
                    imp = all(v == "accept" for v in self.verdicts.get((ci, rep), ["reject"])) and model_accept(rep, c[3])
                    if rep in BITS:
                        if not explicit_in_domain(rep, c[3]):
                            continue
                        if self.quick and not imp and ci not in self.sub:
                            continue          # quick: explicit-only instances on the core sub-grid
                    elif not fp_in_domain(rep, c[3]):
                        self.st["float_instances_K_outside_float_range_not_judged"] += 1
                        continue
                    elif self.quick and ci not in self.sub:
                        continue              # quick: floating instances on the core sub-grid; thorough: all 1250
                    self.insts.append((len(self.insts), c, rep, imp, "int" if rep in BITS else "fp"))
                if ci in wide:
                    for rep in WIDE_SRC:      # the source rep cannot hold K, a wider target rep can
                        if not explicit_in_domain(rep, c[3]) and (ci, rep) not in self.refused:
                            self.insts.append((len(self.insts), c, rep, False, "wide"))
        return self.insts

    def sweep(self, cfg):
        insts, cs, viol = self.instances(), self.cs, self.viol
        groups = C.split(insts, max(core.NCPU * 2, (len(insts) + 99) // 100))      # at most 100 instances per TU
        r = C.build_run(self.run.wd, cfg, "inv", [tu_text(g) for g in groups], C.SWEEP_FLAGS)
        self.st["sweep_builds"].append(str(cfg))
        if len(r["S"]) != len(insts) and not any("trap-signal" in v.get("kind", "") for v in r["V"]):
            raise core.InfraError("inversion sweep: %d of %d instances reported" % (len(r["S"]), len(insts)))
        self.S += r["S"]
        for s in r["S"]:
            if not s["type_ok"]:
                iid, c, rep, imp, runner = insts[s["inst"]]
                key = "C15:inverse-unit:%s:rep=%s" % (cname(c), rep)
                viol(key, "%s: inverse_as(%s, %s<%s>) is not a Quantity<%s, %s>" % (cfg, c[2].maker, c[1].name, rep, c[2].cpp, rep),
                     {"kind": "inv", "case_index": cs.index(c), "rep": rep, "implicit": imp, "runner": runner, "form": None,
                      "config": [cfg.cxx, cfg.std]})
        for v in r["V"]:
            iid, c, rep, imp, runner = insts[v["inst"]]
            key = "C15:inverse-value:%s:%s:rep=%s:K=1e%d:x=%s" % (v["kind"], cname(c), rep, c[3], v["x"])
            what = ("%s: %s(%s, %s(%s{%s})) gives %s; trunc(K/x) with K = 10^%d is %s"
                    % (cfg, v["kind"], c[2].name, c[1].name, rep, v["x"], v["got"], c[3], v["exp"]))
            if v["kind"] == "roundtrip":
                what = ("%s: inverse_as(%s, inverse_as(%s, %s(%s{%s}))) gives %s, not %s (K = 10^%d)"
                        % (cfg, c[1].name, c[2].name, c[1].name, rep, v["x"], v["got"], v["exp"], c[3]))
            viol(key, what, {"kind": "inv", "case_index": cs.index(c), "rep": rep, "implicit": imp, "runner": runner,
                             "source_value": v["x"], "form": v["kind"], "config": [cfg.cxx, cfg.std]})

    def summary(self):
        st, S, insts, all_ps = self.st, self.S, self.insts or [], self.all_ps
        st["unit_pairs_with_both_verdicts"] = sum(1 for s in self.both.values() if len(s) == 2)
        st.update({"sweep_instances": len(insts),
                   "implicit_integral_instances": sum(1 for i in insts if i[3] and i[2] in BITS),
                   "explicit_only_integral_instances": sum(1 for i in insts if not i[3] and i[2] in BITS and i[4] == "int"),
                   "wider_target_only_instances": sum(1 for i in insts if i[4] == "wide"),
                   "floating_instances": sum(1 for i in insts if i[2] not in BITS),
                   "value_evaluations": sum(s["evals"] for s in S), "roundtrip_evaluations": sum(s["rt"] for s in S),
                   "instances_with_zero_and_nonzero_results": sum(1 for s in S if s["zero"] and s["nonzero"]),
                   "raw_violations": sum(s["viol"] for s in S)})
        st["samples"] = [{"call": p.code, "K": "1e%d" % p.meta["case"][3], "expected": p.expect}
                         for p in all_ps[:: max(1, len(all_ps) // 5)]][:5]
        return st


def replay_inv(r, cfg, wd):
    cs = cases()
    c = cs[r["case_index"]]
    runner = r.get("runner") or ("int" if r["rep"] in BITS else "fp")
    form = r.get("form")
    only = (form, r["source_value"]) if form and not form.startswith("trap") else None
    rec = C.build_run(wd, cfg, "rpinv", [tu_text([(0, c, r["rep"], r["implicit"], runner)], only=only)], C.SWEEP_FLAGS)
    if form is None:
        return ["result unit/type wrong" for s in rec["S"] if not s["type_ok"]]
    return [str(v) for v in rec["V"] if v["kind"] == form and v["x"] == r["source_value"]]
