"""Label grammar: parser + denotation (label -> (dim, mag)), independent of Au's label code.

Documented forms: `a * b`, `(a * b) / (c * d)`, `1 / x`, `x^n`, `x^(-n)`, `x^(n/d)`, `[M u]`,
`[(N / D) u]`, `[(UNLABELED SCALE FACTOR) u]`, `EQUIV{l1, l2, ...}`; atoms are matched (longest
first) against the labels of the atoms that occur in the expression under test.
"""
from fractions import Fraction as Fr

from . import model

UNL_UNIT = "[UNLABELED UNIT]"
UNL_MAG = "(UNLABELED SCALE FACTOR)"


class ParseError(Exception):
    pass


class Den:
    """Denotation: dim, mag, and whether an unlabeled scale factor makes the magnitude unknown."""

    def __init__(self, dim, mag, unknown_mag=False):
        self.dim, self.mag, self.unknown_mag = dim, mag, unknown_mag

    def mul(self, o):
        return Den(model.vmul(self.dim, o.dim), model.vmul(self.mag, o.mag), self.unknown_mag or o.unknown_mag)

    def pow(self, e):
        return Den(model.vpow(self.dim, e), model.vpow(self.mag, e), self.unknown_mag)


class Parser:
    def __init__(self, text, atoms):
        """atoms: dict label -> (dim, mag)."""
        self.s, self.i = text, 0
        self.atoms = sorted(atoms.items(), key=lambda kv: -len(kv[0]))

    def peek(self, t):
        return self.s.startswith(t, self.i)

    def eat(self, t):
        if not self.peek(t):
            raise ParseError("expected %r at %d in %r" % (t, self.i, self.s))
        self.i += len(t)

    def integer(self):
        j = self.i
        if j < len(self.s) and self.s[j] == "-":
            j += 1
        k = j
        while k < len(self.s) and self.s[k].isdigit():
            k += 1
        if k == j:
            raise ParseError("integer expected at %d in %r" % (self.i, self.s))
        v = int(self.s[self.i:k])
        if self.s[j] == "0" and k - j > 1:
            raise ParseError("leading zero at %d in %r" % (self.i, self.s))
        self.i = k
        return v

    def parse(self):
        d = self.quotient()
        if self.i != len(self.s):
            raise ParseError("trailing text at %d in %r" % (self.i, self.s))
        return d

    def quotient(self):
        # `N / D`: a numerator or denominator with more than one factor must be grouped, "(a * b) / (c * d)"; an
        # ungrouped `a / b * c` or `a * b / c` is not in the documented grammar (it would read as a different unit)
        if self.peek("1 / "):
            self.eat("1 / ")
            return self.paren_or_factor().pow(-1)
        num, grouped, n = self.product_or_paren()
        if self.peek(" / "):
            if n > 1 and not grouped:
                raise ParseError("ungrouped multi-factor numerator before ' / ' in %r" % self.s)
            self.eat(" / ")
            den = self.paren_or_factor()
            return num.mul(den.pow(-1))
        return num

    def paren_product(self):
        """'(a * b ...)' -> denotation, or None (position restored) if the text here is not a grouped product."""
        if self.peek("(") and not self.peek(UNL_MAG):
            save = self.i
            try:
                self.eat("(")
                d, _ = self.product()
                self.eat(")")
                return d
            except ParseError:
                self.i = save
        return None

    def paren_or_factor(self):
        d = self.paren_product()
        return d if d is not None else self.factor()

    def product_or_paren(self):
        # "(a * b)" is only used to group a multi-factor product; -> (denotation, grouped?, number of factors)
        d = self.paren_product()
        if d is not None:
            return d, True, 2
        d, n = self.product()
        return d, False, n

    def product(self):
        d = self.factor()
        n = 1
        while self.peek(" * "):
            self.eat(" * ")
            d = d.mul(self.factor())
            n += 1
        return d, n

    def factor(self):
        b = self.base()
        if self.peek("^"):
            self.eat("^")
            if self.peek("("):
                self.eat("(")
                n = self.integer()
                dd = 1
                if self.peek("/"):
                    self.eat("/")
                    dd = self.integer()
                self.eat(")")
                e = Fr(n, dd)
            else:
                e = Fr(self.integer())
            b = b.pow(e)
        return b

    def base(self):
        if self.peek("EQUIV{"):
            self.eat("EQUIV{")
            items = [self.quotient()]
            while self.peek(", "):
                self.eat(", ")
                items.append(self.quotient())
            self.eat("}")
            first = items[0]
            for it in items[1:]:
                if model.dim_key(it.dim) != model.dim_key(first.dim) or (
                        not it.unknown_mag and not first.unknown_mag and model.mag_key(it.mag) != model.mag_key(first.mag)):
                    raise ParseError("EQUIV members denote different units in %r" % self.s)
            return first
        if self.peek(UNL_UNIT) and UNL_UNIT in dict(self.atoms):
            self.eat(UNL_UNIT)
            dim, mag = dict(self.atoms)[UNL_UNIT]
            return Den(dim, mag)
        if self.peek("["):
            self.eat("[")
            unknown = False
            if self.peek(UNL_MAG):
                self.eat(UNL_MAG)
                m, unknown = {}, True
            elif self.peek("(" + UNL_MAG + " / "):
                # rational scale whose numerator has no digit form (above 2^64-1): "((UNLABELED SCALE FACTOR) / D)"
                self.eat("(" + UNL_MAG + " / ")
                dd = self.integer()
                self.eat(")")
                if dd <= 1:
                    raise ParseError("bad rational scale in %r" % self.s)
                m, unknown = {}, True
            elif self.peek("("):
                self.eat("(")
                n = self.integer()
                self.eat(" / ")
                if self.peek(UNL_MAG + ")"):
                    # denominator without a digit form: "(N / (UNLABELED SCALE FACTOR))"
                    self.eat(UNL_MAG + ")")
                    if n <= 0:
                        raise ParseError("bad rational scale in %r" % self.s)
                    m, unknown = {}, True
                else:
                    dd = self.integer()
                    self.eat(")")
                    if n <= 0 or dd <= 1:
                        raise ParseError("bad rational scale in %r" % self.s)
                    m = model.mag_ratio(n, dd)
            else:
                n = self.integer()
                if n <= 0:
                    raise ParseError("bad integer scale in %r" % self.s)
                m = model.mag_int(n)
            self.eat(" ")
            inner = Den({}, {}) if self.peek("]") else self.quotient()   # "[2 ]": scaled unitless unit
            self.eat("]")
            return Den(inner.dim, model.vmul(inner.mag, m), inner.unknown_mag or unknown)
        for lab, (dim, mag) in self.atoms:
            if lab and self.peek(lab):
                self.eat(lab)
                return Den(dim, mag)
        raise ParseError("no atom matches at %d in %r" % (self.i, self.s))


def denote(text, atoms):
    if text == "":
        return Den({}, {})
    return Parser(text, atoms).parse()
