"""C13 — generators: operator table, layout/type dump records, acceptance probes, value-sweep TUs."""
import json
import os

from . import core
from .core import F3, R11
from .c13_cpp import HARNESS
from .c13_units import PREAMBLE

DUMP_PREAMBLE = PREAMBLE + HARNESS

# file-scope helpers for the constant-expression probes: compound assignment inside a C++14 constexpr function
PROBE_PREAMBLE = PREAMBLE + r'''
namespace c13p {
#define C13P_ASG(N, OP) struct N { template <class A, class B> static constexpr void f(A &a, const B &b) { a OP b; } };
C13P_ASG(addeq, +=) C13P_ASG(subeq, -=) C13P_ASG(muleq, *=) C13P_ASG(diveq, /=)
template <class F, class X, class B> constexpr X apply(X x, B b) { F::f(x, b); return x; }
}
'''

# (name, class, Au expression, raw expression, integral-only, takes-scalar)
#   {a},{b}: quantities; {la}: quantity lvalue; {ra},{rb}: raw R; {lra}: raw lvalue; {s}: scalar S
_OPS = [
    ("add", "arith", "{a} + {b}", "{ra} + {rb}", False, False),
    ("sub", "arith", "{a} - {b}", "{ra} - {rb}", False, False),
    ("mod", "arith", "{a} % {b}", "{ra} % {rb}", True, False),
    ("eq", "cmp", "{a} == {b}", "{ra} == {rb}", False, False),
    ("ne", "cmp", "{a} != {b}", "{ra} != {rb}", False, False),
    ("lt", "cmp", "{a} < {b}", "{ra} < {rb}", False, False),
    ("le", "cmp", "{a} <= {b}", "{ra} <= {rb}", False, False),
    ("gt", "cmp", "{a} > {b}", "{ra} > {rb}", False, False),
    ("ge", "cmp", "{a} >= {b}", "{ra} >= {rb}", False, False),
    ("pos", "arith", "+{a}", "+{ra}", False, False),
    ("neg", "arith", "-{a}", "-{ra}", False, False),
    ("addeq", "asg", "{la} += {b}", "{lra} += {rb}", False, False),
    ("subeq", "asg", "{la} -= {b}", "{lra} -= {rb}", False, False),
    ("mul_qs", "arith", "{a} * {s}", "{ra} * {s}", False, True),
    ("mul_sq", "arith", "{s} * {a}", "{s} * {ra}", False, True),
    ("div_qs", "arith", "{a} / {s}", "{ra} / {s}", False, True),
    ("muleq", "asg", "{la} *= {s}", "{lra} *= {s}", False, True),
    ("diveq", "asg", "{la} /= {s}", "{lra} /= {s}", False, True),
]
# Same-unit QuantityPoint operators that exist ({p},{q}: points; {lp}: point lvalue; {d}: Quantity of the same
# unit and rep).  The statement's operator sentence has no QuantityPoint subject (no % unary * / for points):
# these are judged on VALUE only, where the raw result is defined and representable in R.
_POPS = [
    ("pt_eq", "pcmp", "{p} == {q}", "{ra} == {rb}"),
    ("pt_ne", "pcmp", "{p} != {q}", "{ra} != {rb}"),
    ("pt_lt", "pcmp", "{p} < {q}", "{ra} < {rb}"),
    ("pt_le", "pcmp", "{p} <= {q}", "{ra} <= {rb}"),
    ("pt_gt", "pcmp", "{p} > {q}", "{ra} > {rb}"),
    ("pt_ge", "pcmp", "{p} >= {q}", "{ra} >= {rb}"),
    ("pt_sub", "pdiff", "{p} - {q}", "{ra} - {rb}"),
    ("pt_add_pd", "parith", "{p} + {d}", "{ra} + {rb}"),
    ("pt_add_dp", "parith", "{d} + {p}", "{rb} + {ra}"),
    ("pt_sub_pd", "parith", "{p} - {d}", "{ra} - {rb}"),
    ("pt_addeq", "pasg", "{lp} += {d}", "{lra} += {rb}"),
    ("pt_subeq", "pasg", "{lp} -= {d}", "{lra} -= {rb}"),
]
SCALARS = ["R", "int32_t", "double"]
# scalar operators with a scalar type wider than / of other signedness than / of another kind than the rep: swept by
# value in both tiers (added after seeded change C13b; extended in round 3: 64-bit reps, long double, a signed scalar
# on an unsigned rep, a floating scalar on an integral rep)
WIDER = {"int8_t": ["int32_t"], "uint8_t": ["int32_t"], "int16_t": ["int32_t", "uint32_t"], "uint16_t": ["int32_t"],
         "int32_t": ["int64_t", "uint32_t", "double"], "uint32_t": ["int64_t", "int32_t"],
         "int64_t": ["uint64_t", "int32_t"], "uint64_t": ["int64_t"],
         "float": ["double"], "double": ["long double"], "long double": ["double"]}
_DECL = {"a": "std::declval<Q>()", "b": "std::declval<Q>()", "la": "std::declval<Q&>()",
         "ra": "std::declval<R>()", "rb": "std::declval<R>()", "lra": "std::declval<R&>()",
         "s": "std::declval<S>()", "p": "std::declval<P>()", "q": "std::declval<P>()", "d": "std::declval<Q>()",
         "lp": "std::declval<P&>()"}
_EVAL = {"a": "a", "b": "b", "la": "a", "ra": "ra", "rb": "rb", "lra": "ra", "s": "s", "p": "p", "q": "q", "d": "b", "lp": "p"}
_FLOATING = ("float", "double", "long double")


class Op:
    __slots__ = ("oid", "name", "cls", "au", "raw", "S")

    def __init__(self, oid, name, cls, au, raw, S):
        self.oid, self.name, self.cls, self.au, self.raw, self.S = oid, name, cls, au, raw, S

    @property
    def point(self):
        return self.cls[0] == "p" or self.cls == "rtp"


RT_OP = Op("roundtrip", "roundtrip", "rt", "{a}.in(unit)", "x", "R")
RTP_OP = Op("roundtrip_pt", "roundtrip_pt", "rtp", "{p}.in(unit)", "x", "R")


def _scalar_ok(cls, rep, s):
    # documented: compound mult/div of an integral rep by a floating scalar is not supported
    return not (cls == "asg" and s in _FLOATING and rep not in F3)


def ops_for(rep):
    """Operators whose raw counterpart exists for `rep` (and which Au documents as supported)."""
    out = []
    for name, cls, au, raw, int_only, scalar in _OPS:
        if int_only and rep in F3:
            continue
        if not scalar:
            out.append(Op(name, name, cls, au, raw, "R"))
            continue
        for s in SCALARS:
            if s == rep or not _scalar_ok(cls, rep, s):
                continue
            out.append(Op("%s.%s" % (name, s), name, cls, au, raw, s))
    return out


def wider_ops(rep):
    """The scalar operators of `rep` with the scalar types of WIDER[rep]."""
    out = []
    for name, cls, au, raw, _, scalar in _OPS:
        if scalar:
            out += [Op("%s.%s" % (name, s), name, cls, au, raw, s) for s in WIDER.get(rep, []) if _scalar_ok(cls, rep, s)]
    return out


def pt_ops(rep):
    return [Op(name, name, cls, au, raw, "R") for name, cls, au, raw in _POPS]


def sweep_ops(rep, tier):
    """Quantity operators that are acceptance-probed (and, when accepted, swept by value where a sweep exists:
    scalar type R and the WIDER scalar types)."""
    out = [o for o in ops_for(rep) if tier == "thorough" or o.S == "R"]
    seen = set(o.oid for o in out)
    return out + [o for o in wider_ops(rep) if o.oid not in seen]


def swept(rep, op):
    """Has this accepted operator a value sweep?"""
    return op.cls in ("rt", "rtp") or op.point or op.S == "R" or op.S in WIDER.get(rep, [])


def find_op(rep, oid):
    for o in ops_for(rep) + wider_ops(rep) + pt_ops(rep) + [RT_OP, RTP_OP]:
        if o.oid == oid:
            return o
    raise KeyError(oid)


def type_record(rid, u, rep, pt_accepted=()):
    """pt_accepted: the point operators (Op) that compile for this unit/rep/configuration."""
    st = ["using U = %s; using R = %s; using Q = au::Quantity<U, R>; using P = au::QuantityPoint<U, R>;" % (u.cpp, rep),
          '{ const R r0{}; Q q{}; P p{}; constexpr Q cq{}; constexpr P cp{}; constexpr R cqv = cq.in(U{}); constexpr R cpv = cp.in(U{}); '
          'vf_b("def_in", c13::bits_eq(q.in(U{}), r0) && c13::bits_eq(p.in(U{}), r0) && c13::bits_eq(cqv, r0) && c13::bits_eq(cpv, r0) '
          '&& c13::bits_eq(q.in(%s), r0) && c13::bits_eq(p.in(%s), r0)); }' % (u.maker, u.ptmaker)]
    for op in ops_for(rep) + list(pt_accepted):
        au, raw = op.au.format(**_DECL), op.raw.format(**_DECL)
        k = op.oid
        if op.cls in ("cmp", "pcmp"):
            tau, traw = "decltype(%s)" % au, "decltype(%s)" % raw
            ref = un = "true"
        else:
            tau = "decltype((%s).in(U{}))" % au
            traw = "std::remove_reference_t<decltype(%s)>" % raw
            ref = ("std::is_lvalue_reference<decltype(%s)>::value == std::is_lvalue_reference<decltype(%s)>::value"
                   % (au, raw))
            # the unit of the result: a Quantity (point: QuantityPoint) of exactly U, the object itself for compound ops
            want = {"arith": "au::Quantity<U, %s>" % traw, "asg": "Q&", "pdiff": "au::Quantity<U, %s>" % tau,
                    "parith": "au::QuantityPoint<U, %s>" % tau, "pasg": "P&"}[op.cls]
            un = "std::is_same<decltype(%s), %s>::value" % (au, want)
        st.append('{ using S = %s; vf_b("%s|ti", std::is_same<%s, %s>::value); vf_b("%s|rf", %s); vf_b("%s|un", %s); '
                  'vf_s("%s|au", c13::TN<%s>::n()); vf_s("%s|raw", c13::TN<%s>::n()); }'
                  % (op.S, k, tau, traw, k, ref, k, un, k, tau, k, traw))
    return (rid, st)


def probe_code(u, rep, op, constant=False):
    """Body of one acceptance probe.  constant=False: the operator on const operands (the assigned-to object
    excepted) at run time; constant=True: the same use inside a constant expression, its compile-time value
    compared with the raw operator's (compound assignment through a constexpr helper function: C++14)."""
    kw = "constexpr" if constant else "const"
    head = ("using R = %s; using S = %s; using U = %s; %s auto mk = %s; %s auto pm = %s; (void)mk; (void)pm; "
            % (rep, op.S, u.cpp, kw, u.maker, kw, u.ptmaker))
    if op.cls in ("rt", "rtp"):
        head += "%s R x = static_cast<R>(5); " % kw
        if op.cls == "rtp":
            if constant:
                return head + 'constexpr auto p = pm(x); static_assert(p.in(pm) == x && pm(x).in(pm) == x, "");'
            return head + "const auto p = pm(x); const R y = p.in(pm); const R z = pm(x).in(pm); (void)y; (void)z;"
        sym = u.symbol
        if constant:   # data_in is not declared constexpr by the library: run-time form only
            return head + ("constexpr auto q = mk(x); static_assert(q.in(mk) == x && q.in(U{}) == x && q.template in<R>(mk) == x "
                           '&& mk(x).in(mk) == x && au::make_quantity<U>(x).in(mk) == x%s, "");'
                           % ((" && (x * %s).in(%s) == x && q.in(%s) == x" % (sym, sym, sym)) if sym else ""))
        return head + ("const auto q = mk(x); const R y = q.in(mk); const R z = q.in(U{}); const R w = q.template in<R>(mk); "
                       "const R &d = q.data_in(mk); const R e = mk(x).data_in(mk); const R v = au::make_quantity<U>(x).in(mk); "
                       "(void)y; (void)z; (void)w; (void)d; (void)e; (void)v;%s"
                       % ((" const auto qs = x * %s; const R t = qs.in(%s); const R t2 = q.in(%s); (void)t; (void)t2;"
                           % (sym, sym, sym)) if sym else ""))
    au, raw = op.au.format(**_EVAL), op.raw.format(**_EVAL)
    mut = op.cls in ("asg", "pasg")
    head += "%s R ra = static_cast<R>(5), rb = static_cast<R>(3); %s S s = static_cast<S>(2); (void)rb; (void)s; " % (kw, kw)
    if not constant:
        # the result is read exactly as the value sweeps read it (for a unitless unit `-a` on a const operand could
        # otherwise compile through the implicit conversion to R and yield a raw number)
        read = {"arith": "const auto v = r.in(mk);", "cmp": "const bool v = r;", "asg": "const auto v = a.in(mk);",
                "pcmp": "const bool v = r;", "pdiff": "const auto v = r.in(mk);", "parith": "const auto v = r.in(pm);",
                "pasg": "const auto v = p.in(pm);"}[op.cls]
        if op.point:
            return head + ("%s p = pm(ra); const auto q = pm(rb); const auto b = mk(rb); (void)q; (void)b; auto &&r = (%s); (void)r; (void)p; %s (void)v;"
                           % ("auto" if mut else "const auto", au, read))
        return head + ("%s a = mk(ra); const auto b = mk(rb); (void)b; auto &&r = (%s); (void)r; (void)a; %s (void)v;"
                       % ("auto" if mut else "const auto", au, read))
    head += "constexpr auto a = mk(ra); constexpr auto b = mk(rb); (void)a; (void)b; "
    if op.point:
        head += "constexpr auto p = pm(ra); constexpr auto q = pm(rb); (void)p; (void)q; "
    if mut:
        fn = "c13p::apply<c13p::%s>" % op.name.replace("pt_", "")
        lhs, rd = ("p", "pm") if op.point else ("a", "mk")
        arg, rarg = ("s", "s") if op.S != "R" or op.name in ("muleq", "diveq") else ("b", "rb")
        return head + 'static_assert(%s(%s, %s).in(%s) == %s(ra, %s), "");' % (fn, lhs, arg, rd, fn, rarg)
    val = {"arith": "r.in(mk)", "cmp": "r", "pcmp": "r", "pdiff": "r.in(mk)", "parith": "r.in(pm)"}[op.cls]
    return head + 'constexpr auto r = (%s); static_assert(%s == (%s), "");' % (au, val, raw)


def layout_record(rid, u, rep):
    st = ["using U = %s; using R = %s; using Q = au::Quantity<U, R>; using P = au::QuantityPoint<U, R>;" % (u.cpp, rep),
          'vf_b("mk", std::is_same<std::decay_t<decltype(%s)>, au::QuantityMaker<U>>::value && '
          'std::is_same<std::decay_t<decltype(%s)>, au::QuantityPointMaker<U>>::value);' % (u.maker, u.ptmaker),
          'vf_i("r_size", sizeof(R)); vf_i("r_align", alignof(R));']
    for tag, T in (("q", "Q"), ("p", "P")):
        st.append('vf_i("%s_size", sizeof(%s)); vf_i("%s_align", alignof(%s)); '
                  'vf_b("%s_tcopy", std::is_trivially_copyable<%s>::value); '
                  'vf_b("%s_tdtor", std::is_trivially_destructible<%s>::value); '
                  'vf_b("%s_stdlayout", std::is_standard_layout<%s>::value);'
                  % (tag, T, tag, T, tag, T, tag, T, tag, T))
        # value-initialised, default-initialised into a 0xAA-poisoned buffer, and constexpr default: the object
        # representation must be R{}'s (same size is a separate fact; read through memcpy at offset 0)
        st.append('{ const R r0{}; %s v{}; alignas(%s) unsigned char buf[sizeof(%s) + sizeof(R)]; std::memset(buf, 0xAA, sizeof buf); '
                  '%s *d = new (buf) %s; (void)d; static constexpr %s c{}; '
                  'vf_b("%s_def_value", std::memcmp(&v, &r0, c13::vbytes<R>()) == 0); '
                  'vf_b("%s_def_default", std::memcmp(buf, &r0, c13::vbytes<R>()) == 0); '
                  'vf_b("%s_def_constexpr", std::memcmp(&c, &r0, c13::vbytes<R>()) == 0); }'
                  % (T, T, T, T, T, T, tag, tag, tag))
    return (rid, st)


LAYOUT_TRUE = ["q_tcopy", "q_tdtor", "q_stdlayout", "q_def_value", "q_def_default", "q_def_constexpr",
               "p_tcopy", "p_tdtor", "p_stdlayout", "p_def_value", "p_def_default", "p_def_constexpr"]


# ------------------------------------------------------------------------------------------------ sweeps
def sym_arg(u):
    return u.symbol or "c13::NoSym{}"


def sweep_tu(path, u, accepted):
    """accepted: [(rep, Op)] — exactly the operator uses (and round trips) that were acceptance-probed and accepted
    for this unit under this configuration; nothing else is instantiated."""
    out = [DUMP_PREAMBLE, "int main(int argc, char **argv) {",
           "  const int part = argc > 1 ? std::atoi(argv[1]) : 0, nparts = argc > 2 ? std::atoi(argv[2]) : 1; int k = 0;"]
    n = 0
    for rep, op in accepted:
        if not swept(rep, op):
            continue
        n += 1
        pre = "  if (k++ % nparts == part) "
        if op.cls == "rt":
            out.append(pre + 'c13::roundtrip<%s>("%s", %s, %s);' % (rep, u.name, u.maker, sym_arg(u)))
        elif op.cls == "rtp":
            out.append(pre + 'c13::roundtrip_pt<%s>("%s", %s);' % (rep, u.name, u.ptmaker))
        elif op.point:
            out.append(pre + 'c13::sweep_pt<c13::%s, %s>("%s", %s);' % (op.name, rep, u.name, u.maker))
        elif op.S == "R":
            out.append(pre + 'c13::sweep<c13::%s, %s>("%s", %s);' % (op.name, rep, u.name, u.maker))
        else:
            out.append(pre + 'c13::sweep_scalar<c13::%s, %s, %s>("%s", %s, "%s");' % (op.name, rep, op.S, u.name, u.maker, op.S))
    out.append("  return 0; }")
    with open(path, "w") as f:
        f.write("\n".join(out) + "\n")
    return n


def f32_tu(path, units):
    out = [DUMP_PREAMBLE, "int main(int argc, char **argv) {",
           "  const unsigned long long lo = std::strtoull(argv[1], 0, 10), hi = std::strtoull(argv[2], 0, 10);"]
    for u in units:
        out.append('  c13::roundtrip_f32("%s", %s, %s, lo, hi);' % (u.name, u.maker, sym_arg(u)))
        out.append('  c13::roundtrip_pt_f32("%s", %s, lo, hi);' % (u.name, u.ptmaker))
    out.append("  return 0; }")
    with open(path, "w") as f:
        f.write("\n".join(out) + "\n")


def parse_sv(out):
    stats, viols = [], []
    for line in out.split("\n"):
        if line.startswith("S "):
            stats.append(json.loads(line[2:]))
        elif line.startswith("V "):
            viols.append(json.loads(line[2:]))
    return stats, viols


def lit(rep, s):
    """C++ expression of type `rep` for a value string printed by the harness (decimal or 0x-bits)."""
    if s.startswith("0x"):
        return 'c13::from_hex<%s>("%s")' % (rep, s[2:])
    try:
        v = int(s)
    except ValueError:      # printed by the trap handler (%.21Lg)
        return "static_cast<%s>(%sL)" % (rep, s if any(c in s for c in ".en") else s + ".0")
    if v == -2 ** 63:
        return "static_cast<%s>(-9223372036854775807LL - 1)" % rep
    return "static_cast<%s>(%d%s)" % (rep, v, "ULL" if v >= 2 ** 63 else "LL")


def single_value_record(u, rep, opname, a, b):
    """One dump record re-running a single (unit, rep, op, a, b) case."""
    name, _, sc = opname.partition("@")
    S = sc or rep
    A, B = lit(rep, a), lit(S, b) if b else "%s{}" % S
    if name == "roundtrip":
        return (0, ["using R = %s; const R x = %s; c13::RT<std::decay_t<decltype(%s)>, std::decay_t<decltype(%s)>, R> rt{\"\", %s, %s}; rt.quiet = true; rt.one(x);"
                    % (rep, A, u.maker, sym_arg(u), u.maker, sym_arg(u)),
                    'vf_b("defined", true); vf_b("same", rt.bad == 0); vf_s("got", rt.last); vf_s("want", c13::Str<R>::s(x));'])
    if name == "roundtrip_pt":
        return (0, ["using R = %s; const R x = %s; c13::RTP<std::decay_t<decltype(%s)>, R> rt{\"\", %s}; rt.quiet = true; rt.one(x);"
                    % (rep, A, u.ptmaker, u.ptmaker),
                    'vf_b("defined", true); vf_b("same", rt.bad == 0); vf_s("got", rt.last); vf_s("want", c13::Str<R>::s(x));'])
    head = "using R = %s; using S = %s; const R a = %s; const S b = %s; auto mk = %s; using Op = c13::%s;" % (rep, S, A, B, u.maker, name)
    if name.startswith("pt_"):
        return (0, [head, 'const bool ok = c13::PtOk<R>::ok(Op::kind, a, b); vf_b("defined", ok);',
                    "if (ok) { const auto want = Op::raw(a, b); const auto got = Op::au(mk, a, b); "
                    'vf_b("same", c13::Num<std::decay_t<decltype(got)>, std::decay_t<decltype(want)>>::eq(got, want)); '
                    'vf_s("got", c13::Str<std::decay_t<decltype(got)>>::h(got)); '
                    'vf_s("want", c13::Str<std::decay_t<decltype(want)>>::h(want)); }'])
    same = "c13::Same<std::decay_t<decltype(got)>, std::decay_t<decltype(want)>>::eq(got, want)"
    if sc:      # the mixed-scalar-type sweeps also demand the raw operator's result type
        same = "std::is_same<std::decay_t<decltype(got)>, std::decay_t<decltype(want)>>::value && " + same
    return (0, [head, 'const bool ok = c13::DefS<R, S>::ok(Op::kind, a, b); vf_b("defined", ok);',
                "if (ok) { const auto want = Op::raw(a, b); const auto got = Op::au(mk, a, b); "
                'vf_b("same", %s); '
                'vf_s("got", c13::Str<std::decay_t<decltype(got)>>::h(got)); '
                'vf_s("want", c13::Str<std::decay_t<decltype(want)>>::h(want)); }' % same])
