"""C13 — generators: operator table, layout/type dump records, acceptance probes, value-sweep TUs."""
import json
import os

from . import core
from .core import F3, R11
from .c13_cpp import HARNESS
from .c13_units import PREAMBLE

DUMP_PREAMBLE = PREAMBLE + HARNESS

# (name, class, Au expression, raw expression, integral-only, takes-scalar)
#   {a},{b}: quantities; {la}: quantity lvalue; {ra},{rb}: raw R; {lra}: raw lvalue; {s}: scalar S
_OPS = [
    ("add", "arith", "{a} + {b}", "{ra} + {rb}", False, False),
    ("sub", "arith", "{a} - {b}", "{ra} - {rb}", False, False),
    ("mod", "arith", "{a} % {b}", "{ra} % {rb}", True, False),
    ("eq", "cmp", "{a} == {b}", "{ra} == {rb}", False, False),
    ("ne", "cmp", "{a} != {b}", "{ra} != {rb}", False, False),
    ("lt", "cmp", "{a} < {b}", "{ra} < {rb}", False, False),
    ("le", "cmp", "{a} <= {b}", "{ra} <= {rb}", False, False),
    ("gt", "cmp", "{a} > {b}", "{ra} > {rb}", False, False),
    ("ge", "cmp", "{a} >= {b}", "{ra} >= {rb}", False, False),
    ("pos", "arith", "+{a}", "+{ra}", False, False),
    ("neg", "arith", "-{a}", "-{ra}", False, False),
    ("addeq", "asg", "{la} += {b}", "{lra} += {rb}", False, False),
    ("subeq", "asg", "{la} -= {b}", "{lra} -= {rb}", False, False),
    ("mul_qs", "arith", "{a} * {s}", "{ra} * {s}", False, True),
    ("mul_sq", "arith", "{s} * {a}", "{s} * {ra}", False, True),
    ("div_qs", "arith", "{a} / {s}", "{ra} / {s}", False, True),
    ("muleq", "asg", "{la} *= {s}", "{lra} *= {s}", False, True),
    ("diveq", "asg", "{la} /= {s}", "{lra} /= {s}", False, True),
]
SCALARS = ["R", "int32_t", "double"]
_DECL = {"a": "std::declval<Q>()", "b": "std::declval<Q>()", "la": "std::declval<Q&>()",
         "ra": "std::declval<R>()", "rb": "std::declval<R>()", "lra": "std::declval<R&>()",
         "s": "std::declval<S>()"}
_EVAL = {"a": "a", "b": "b", "la": "a", "ra": "ra", "rb": "rb", "lra": "ra", "s": "s"}


class Op:
    __slots__ = ("oid", "name", "cls", "au", "raw", "S")

    def __init__(self, oid, name, cls, au, raw, S):
        self.oid, self.name, self.cls, self.au, self.raw, self.S = oid, name, cls, au, raw, S


def ops_for(rep):
    """Operators whose raw counterpart exists for `rep` (and which Au documents as supported)."""
    out = []
    for name, cls, au, raw, int_only, scalar in _OPS:
        if int_only and rep in F3:
            continue
        if not scalar:
            out.append(Op(name, name, cls, au, raw, "R"))
            continue
        for s in SCALARS:
            if s == rep:
                continue
            # documented: compound mult/div of an integral rep by a floating scalar is not supported
            if cls == "asg" and s == "double" and rep not in F3:
                continue
            out.append(Op("%s.%s" % (name, s), name, cls, au, raw, s))
    return out


def type_record(rid, u, rep):
    st = ["using U = %s; using R = %s; using Q = au::Quantity<U, R>; using P = au::QuantityPoint<U, R>;" % (u.cpp, rep),
          '{ const R r0{}; Q q{}; P p{}; constexpr Q cq{}; constexpr P cp{}; constexpr R cqv = cq.in(U{}); constexpr R cpv = cp.in(U{}); '
          'vf_b("def_in", c13::bits_eq(q.in(U{}), r0) && c13::bits_eq(p.in(U{}), r0) && c13::bits_eq(cqv, r0) && c13::bits_eq(cpv, r0) '
          '&& c13::bits_eq(q.in(%s), r0) && c13::bits_eq(p.in(%s), r0)); }' % (u.maker, u.ptmaker)]
    for op in ops_for(rep):
        au, raw = op.au.format(**_DECL), op.raw.format(**_DECL)
        k = op.oid
        if op.cls == "cmp":
            tau, traw = "decltype(%s)" % au, "decltype(%s)" % raw
            ref = "true"
        else:
            tau = "decltype((%s).in(U{}))" % au
            traw = "std::remove_reference_t<decltype(%s)>" % raw
            ref = ("std::is_lvalue_reference<decltype(%s)>::value == std::is_lvalue_reference<decltype(%s)>::value"
                   % (au, raw))
        st.append('{ using S = %s; vf_b("%s|ti", std::is_same<%s, %s>::value); vf_b("%s|rf", %s); '
                  'vf_s("%s|au", c13::TN<%s>::n()); vf_s("%s|raw", c13::TN<%s>::n()); }'
                  % (op.S, k, tau, traw, k, ref, k, tau, k, traw))
    return (rid, st)


def probe_code(u, rep, op):
    au = op.au.format(**_EVAL)
    return ("using R = %s; using S = %s; auto mk = %s; R ra = static_cast<R>(5), rb = static_cast<R>(3); "
            "S s = static_cast<S>(2); auto a = mk(ra); auto b = mk(rb); (void)rb; (void)s; (void)b; "
            "auto &&r = (%s); (void)r; (void)a;" % (rep, op.S, u.maker, au))


def layout_record(rid, u, rep):
    st = ["using U = %s; using R = %s; using Q = au::Quantity<U, R>; using P = au::QuantityPoint<U, R>;" % (u.cpp, rep),
          'vf_b("mk", std::is_same<std::decay_t<decltype(%s)>, au::QuantityMaker<U>>::value && '
          'std::is_same<std::decay_t<decltype(%s)>, au::QuantityPointMaker<U>>::value);' % (u.maker, u.ptmaker),
          'vf_i("r_size", sizeof(R)); vf_i("r_align", alignof(R));']
    for tag, T in (("q", "Q"), ("p", "P")):
        st.append('vf_i("%s_size", sizeof(%s)); vf_i("%s_align", alignof(%s)); '
                  'vf_b("%s_tcopy", std::is_trivially_copyable<%s>::value); '
                  'vf_b("%s_tdtor", std::is_trivially_destructible<%s>::value); '
                  'vf_b("%s_stdlayout", std::is_standard_layout<%s>::value);'
                  % (tag, T, tag, T, tag, T, tag, T, tag, T))
        # value-initialised, default-initialised into a 0xAA-poisoned buffer, and constexpr default: the object
        # representation must be R{}'s (same size is a separate fact; read through memcpy at offset 0)
        st.append('{ const R r0{}; %s v{}; alignas(%s) unsigned char buf[sizeof(%s) + sizeof(R)]; std::memset(buf, 0xAA, sizeof buf); '
                  '%s *d = new (buf) %s; (void)d; static constexpr %s c{}; '
                  'vf_b("%s_def_value", std::memcmp(&v, &r0, c13::vbytes<R>()) == 0); '
                  'vf_b("%s_def_default", std::memcmp(buf, &r0, c13::vbytes<R>()) == 0); '
                  'vf_b("%s_def_constexpr", std::memcmp(&c, &r0, c13::vbytes<R>()) == 0); }'
                  % (T, T, T, T, T, T, tag, tag, tag))
    return (rid, st)


LAYOUT_TRUE = ["q_tcopy", "q_tdtor", "q_stdlayout", "q_def_value", "q_def_default", "q_def_constexpr",
               "p_tcopy", "p_tdtor", "p_stdlayout", "p_def_value", "p_def_default", "p_def_constexpr"]


# ------------------------------------------------------------------------------------------------ sweeps
def sweep_tu(path, u, accepted, rt_reps):
    """accepted: list of (rep, opname) to sweep (S == R only); rt_reps: reps for the round trip."""
    out = [DUMP_PREAMBLE, "int main(int argc, char **argv) {",
           "  const int part = argc > 1 ? std::atoi(argv[1]) : 0, nparts = argc > 2 ? std::atoi(argv[2]) : 1; int k = 0;"]
    for rep, opname in accepted:
        out.append('  if (k++ %% nparts == part) c13::sweep<c13::%s, %s>("%s", %s);' % (opname, rep, u.name, u.maker))
    # scalar operators with a scalar type wider than / different from the rep (added after seeded change C13b)
    wider = {"int8_t": ["int32_t"], "uint8_t": ["int32_t"], "int16_t": ["int32_t", "uint32_t"], "uint16_t": ["int32_t"],
             "int32_t": ["int64_t", "uint32_t"], "uint32_t": ["int64_t"], "float": ["double"], "double": ["long double"]}
    for rep, opname in accepted:
        if opname in ("mul_qs", "mul_sq", "div_qs", "muleq", "diveq"):
            for sc in wider.get(rep, []):
                if opname in ("muleq", "diveq") and sc in ("double", "long double") and rep not in ("float", "double"):
                    continue
                out.append('  if (k++ %% nparts == part) c13::sweep_scalar<c13::%s, %s, %s>("%s", %s, "%s");' % (opname, rep, sc, u.name, u.maker, sc))
    for rep in rt_reps:
        out.append('  if (k++ %% nparts == part) c13::roundtrip<%s>("%s", %s);' % (rep, u.name, u.maker))
    out.append("  return 0; }")
    with open(path, "w") as f:
        f.write("\n".join(out) + "\n")


def f32_tu(path, units):
    out = [DUMP_PREAMBLE, "int main(int argc, char **argv) {",
           "  const unsigned long long lo = std::strtoull(argv[1], 0, 10), hi = std::strtoull(argv[2], 0, 10);"]
    for u in units:
        out.append('  c13::roundtrip_f32("%s", %s, lo, hi);' % (u.name, u.maker))
    out.append("  return 0; }")
    with open(path, "w") as f:
        f.write("\n".join(out) + "\n")


def parse_sv(out):
    stats, viols = [], []
    for line in out.split("\n"):
        if line.startswith("S "):
            stats.append(json.loads(line[2:]))
        elif line.startswith("V "):
            viols.append(json.loads(line[2:]))
    return stats, viols


def lit(rep, s):
    """C++ expression of type `rep` for a value string printed by the harness (decimal or 0x-bits)."""
    if s.startswith("0x"):
        return 'c13::from_hex<%s>("%s")' % (rep, s[2:])
    v = int(s)
    if v == -2 ** 63:
        return "static_cast<%s>(-9223372036854775807LL - 1)" % rep
    return "static_cast<%s>(%d%s)" % (rep, v, "ULL" if v >= 2 ** 63 else "LL")


def single_value_record(u, rep, opname, a, b):
    """One dump record re-running a single (unit, rep, op, a, b) case."""
    A, B = lit(rep, a), lit(rep, b) if b else "%s{}" % rep
    if opname == "roundtrip":
        return (0, ["using R = %s; const R x = %s; const R y = %s(x).in(%s); const R z = %s(x).in(%s{});" % (
            rep, A, u.maker, u.maker, u.maker, u.cpp),
                    'vf_b("defined", true); vf_b("same", c13::bits_eq(x, y) && c13::bits_eq(x, z)); '
                    'vf_s("got", c13::Str<R>::s(y)); vf_s("want", c13::Str<R>::s(x));'])
    return (0, ["using R = %s; const R a = %s; const R b = %s; auto mk = %s; using Op = c13::%s;" % (rep, A, B, u.maker, opname),
                'const bool ok = c13::Def<R, R>::ok(Op::kind, a, b); vf_b("defined", ok);',
                "if (ok) { const auto want = Op::raw(a, b); const auto got = Op::au(mk, a, b); "
                'vf_b("same", c13::Same<std::decay_t<decltype(got)>, std::decay_t<decltype(want)>>::eq(got, want)); '
                'vf_s("got", c13::Str<std::decay_t<decltype(got)>>::h(got)); '
                'vf_s("want", c13::Str<std::decay_t<decltype(want)>>::h(want)); }'])
