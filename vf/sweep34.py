"""Shared value-space explorer for C03 (cleared conversions exact + UB-free) and C04 (checkers exact).

Instances (T, N, D, source unit, target unit slot): unit_ratio(source, target) = N/D.  The bulk uses
source Meters and the anonymous target Meters*D/N; a fixed list of shaped instances (QuantityMaker /
symbol slots, prefixed, compound and powered library units, identity and equivalent-unit targets)
uses the same oracle.  Everything about the expected behaviour is computed by
harness/sweep.hh::exact_scale (unsigned 128-bit arithmetic, no Au code) and by Python big integers
for the window alphabet, the threshold model and the constant-expression probes.
"""
import json
import re
import math
import os
from collections import namedtuple
from math import gcd, isqrt

from . import core
from .core import I8

CONSTEXPR_FLAGS_G = ["-fconstexpr-ops-limit=4000000000", "-fconstexpr-loop-limit=100000000",
                     "-fconstexpr-depth=2048", "-ftemplate-depth=2048"]
CONSTEXPR_FLAGS_C = ["-fconstexpr-steps=2000000000", "-fconstexpr-depth=2048",
                     "-ftemplate-depth=2048"]


SAN = ["-fsanitize=undefined,unsigned-integer-overflow,implicit-conversion", "-fno-sanitize=vptr,function,implicit-integer-sign-change",
       "-fsanitize-minimal-runtime", "-fsanitize-recover=all", "-fno-sanitize-link-runtime"]


def cflags(cfg):
    return CONSTEXPR_FLAGS_C if cfg.is_clang else CONSTEXPR_FLAGS_G


# ---- integral reps: the eight fixed-width aliases plus the distinct integral types of LP64 --------
# (name -> (bits, signed)).  `long long`/`unsigned long long` are distinct from int64_t/uint64_t
# (= long/unsigned long); `char` is a distinct signed 8-bit type; wchar_t/char16_t/char32_t are
# distinct 32/16/32-bit types.  bool is left out: every factor other than 1 is outside its domain.
ALIAS_REPS = {"long long": (64, True), "unsigned long long": (64, False), "char": (8, True),
              "wchar_t": (32, True), "char16_t": (16, False), "char32_t": (32, False)}
BITS = dict(core.BITS)
BITS.update({k: v[0] for k, v in ALIAS_REPS.items()})


def is_signed(t):
    return ALIAS_REPS[t][1] if t in ALIAS_REPS else core.is_signed(t)


def tmin(t):
    return -(1 << (BITS[t] - 1)) if is_signed(t) else 0


def tmax(t):
    return (1 << (BITS[t] - 1)) - 1 if is_signed(t) else (1 << BITS[t]) - 1


def plim(t):
    """(min, max) of the promoted type of t (independent table: sub-int types promote to int)."""
    if BITS[t] < 32:
        return -(1 << 31), (1 << 31) - 1
    return tmin(t), tmax(t)


LIB_RATIOS = [(1250, 381), (5000, 127), (201168, 125), (1852, 1), (3600, 1), (86400, 1),
              (1000, 1), (10 ** 6, 1), (10 ** 9, 1), (10 ** 12, 1), (10 ** 18, 1), (1024, 1),
              (1024 ** 2, 1), (1024 ** 3, 1), (1024 ** 6, 1), (5, 9), (9, 5), (60, 1), (1, 60),
              (1, 1000), (1, 10 ** 6), (1, 10 ** 9), (1, 3600), (381, 1250), (127, 5000),
              (125, 201168), (1, 1852), (1, 1024), (100, 1), (1, 100), (127, 50), (3937, 1200),
              (1200, 3937), (45359237, 100000000), (100000000, 45359237), (1, 86400),
              (1000, 3600), (3600, 1000), (1609344, 1000), (1000, 1609344), (1, 10 ** 18),
              (25146, 15625)]
BIG_PRIMES = [2 ** 31 - 1, 2 ** 61 - 1, 2 ** 64 - 59]


def red(n, d):
    g = gcd(n, d)
    return n // g, d // g


def predicted_domain(t, n, d):
    """When does q.coerce_in(target) compile, per the code's documented structure."""
    if n == 1 and d == 1:
        return True
    if d == 1:
        return n <= tmax(t)
    if n == 1:
        return d <= tmax(t)
    pm = plim(t)[1]
    return n <= pm and d <= pm


def branch_boundaries(t):
    """Denominators at which Max/MinNonOverflowingValue switch between `t_lim * den` and `p_lim`
    (den > p_max / t_max resp. den > p_min / t_min), with both neighbours."""
    tm, (pmn, pm) = tmax(t), plim(t)
    b = {pm // tm, pm // tm + 1, (pm + 1) // (tm + 1), (pm + 1) // (tm + 1) + 1, (pm + 1) // (tm + 1) - 1}
    if is_signed(t):
        q = (-pmn) // (-tmin(t))
        b |= {q - 1, q, q + 1}
    return sorted(x for x in b if x >= 3)


def _is_prime(n):
    if n < 2:
        return False
    i = 2
    while i * i <= n:
        if n % i == 0:
            return False
        i += 1
    return True


def smooth_below(L, primes, k):
    """The k largest integers <= L whose prime factors are exactly the given primes (each present)."""
    out = []

    def rec(i, v):
        if i == len(primes):
            out.append(v)
            return
        v *= primes[i]
        while v <= L:
            rec(i + 1, v)
            v *= primes[i]
    rec(0, 1)
    return sorted(out)[-k:]


def three_primes_below(L):
    """Product of the three largest primes <= cbrt(L): three large prime factors, product close to L."""
    c = int(round(L ** (1.0 / 3)))
    while c ** 3 > L:
        c -= 1
    ps = []
    while c > 1 and len(ps) < 3:
        if _is_prime(c):
            ps.append(c)
        c -= 1
    return ps[0] * ps[1] * ps[2] if len(ps) == 3 else None


def composite_pairs(t):
    """Structured stand-in for 'random coprime pairs': coprime (N, D) whose parts have >= 3 prime factors
    and lie next to the limits of T and of its promoted type (the partial products formed while a
    magnitude's value is multiplied out approach the limit)."""
    s = set()
    for L in sorted({tmax(t), plim(t)[1]}):
        a = smooth_below(L, (2, 3, 5), 2)
        b = smooth_below(L, (7, 11, 13), 2)
        c = three_primes_below(L) if L > 10 ** 6 else None
        e = smooth_below(L, (3, 7, 11, 17), 1)
        for x in a:
            for y in b:
                s |= {(x, y), (y, x)}
        for x in a + b + e + ([c] if c else []):
            s |= {(x, 1), (1, x)}
        if c:
            for y in a[-1:] + b[-1:]:
                if gcd(c, y) == 1:
                    s |= {(c, y), (y, c)}
        for x in e:
            for y in a[-1:]:
                if gcd(x, y) == 1:
                    s |= {(x, y), (y, x)}
    return sorted(red(n, d) for (n, d) in s)


def factor_grid(t, tier):
    tm, pm = tmax(t), plim(t)[1]
    s = set()
    for n in range(1, 13):
        for d in range(1, 13):
            if gcd(n, d) == 1:
                s.add((n, d))
    for n, d in LIB_RATIOS:
        s.add(red(n, d))
    bits = BITS[t]
    lims = {tm - 1, tm, tm + 1, pm - 1, pm, isqrt(tm) - 1, isqrt(tm), isqrt(tm) + 1,
            isqrt(pm) - 1, isqrt(pm), isqrt(pm) + 1, 2 ** (bits - 1), 2 ** bits - 1,
            2 ** (bits - 1) - 1, 2 ** (bits - 1) + 1}
    bb = branch_boundaries(t) if bits < 32 else []
    lims |= set(bb)
    for L in lims:
        if L < 2 or L >= 2 ** 64:
            continue
        for c in (1, 2, 3, 7):
            s.add(red(L, c))
            s.add(red(c, L))
    # both numerator and denominator near the limits of T / of the promoted type (every branch of the
    # Max/MinNonOverflowingValue case analysis has a "large N, large D" corner)
    corner = sorted({tm, tm - 1, tm // 2 + 1, tm // 2 + 2, isqrt(pm), isqrt(pm) + 1, 2 ** (bits - 1) + 1, pm, pm - 1,
                     (tm * 10) // 11, 60000 if bits == 16 else tm - 5, 60001 if bits == 16 else tm - 4})
    for a in corner:
        for b in corner:
            if a != b and 2 <= a < 2 ** 64 and 2 <= b < 2 ** 64:
                s.add(red(a, b))
    # the branch boundary `den > p_lim / t_lim` of the factor > 1 arms, straddled from both sides, with
    # numerators just above the denominator, at the promoted limit, and far above
    for b in bb:
        for o in (b + 1, 2 * b + 1, pm, pm - 1, 3 * b + 1):
            if b < o <= pm:
                s.add(red(o, b))     # factor > 1, D = b
                s.add(red(b, o))     # factor < 1, N = b
    for p in BIG_PRIMES:
        for c in (1, 3):
            s.add(red(p, c))
            s.add(red(c, p))
    s |= set(composite_pairs(t))
    s.discard((1, 1))
    s = sorted(x for x in s if x[0] < 2 ** 64 and x[1] < 2 ** 64)
    return s


def alias_grid(t):
    """Reduced grid for the non-alias integral types: one factor per ApplyMagnitudeImpl /
    Max/MinNonOverflowingValue branch, the limits, and the large primes (whose handling goes through
    the uintmax_t/intmax_t identities of magnitude.hh)."""
    tm, pm = tmax(t), plim(t)[1]
    s = {(2, 1), (3, 1), (1000, 1), (tm, 1), (tm - 1, 1), (tm + 1, 1), (1, 2), (1, 3), (1, 1000), (1, tm),
         (1, tm + 1), (2, 3), (5, 9), (127, 5000), (381, 1250), (3, 2), (9, 5), (5000, 127), (1250, 381),
         (201168, 125), (tm, 2), (2, tm), (tm, tm - 1), (tm - 1, tm), (pm, 3), (3, pm), (pm, pm - 1),
         (pm - 1, pm), (isqrt(pm) + 1, isqrt(pm)), (isqrt(pm), isqrt(pm) + 1), (pm + 1, 3), (3, pm + 1)}
    for b in (branch_boundaries(t) if BITS[t] < 32 else []):
        s |= {(b + 1, b), (pm, b), (b, b + 1)}
    for p in BIG_PRIMES:
        s |= {(p, 1), (1, p), (p, 3), (3, p)}
    return sorted({red(n, d) for (n, d) in s if 0 < n < 2 ** 64 and 0 < d < 2 ** 64} - {(1, 1)})


def full32_subset(t):
    """Factors for the exhaustive 2^32 sweeps: every ApplyMagnitudeImpl / Max/MinNonOverflowing
    branch is hit at least once (32-bit types do not promote, exactly like 64-bit)."""
    tm = tmax(t)
    f = [(2, 1), (3, 1), (1000, 1), (65536, 1), (tm, 1), (tm - 1, 1),
         (1, 2), (1, 3), (1, 1000), (1, 65537), (1, tm),
         (2, 3), (5, 9), (127, 5000), (381, 1250), (1, 1),
         (3, 2), (9, 5), (5000, 127), (1250, 381), (201168, 125), (tm, 2), (2, tm), (tm, tm - 1),
         (tm - 1, tm)]
    out = []
    for n, d in f:
        n, d = red(n, d)
        if (n, d) != (1, 1) and predicted_domain(t, n, d) and (n, d) not in out:
            out.append((n, d))
    return out


def exact_bounds(t, n, d):
    """Big-integer model of the non-overflowing inputs: x*N within the promoted type and x*N/D within T.
    Returns (lo_strict, lo_loose, hi_strict, hi_loose): `strict` uses the rational comparison
    x*N/D <= Tmax, `loose` accepts the don't-care band trunc(x*N/D) <= Tmax; clamped to T."""
    tmn, tmx = tmin(t), tmax(t)
    pmn, pmx = plim(t)
    hs = min(min(pmx, tmx * d) // n, tmx)
    hl = min(min(pmx, (tmx + 1) * d - 1) // n, tmx)
    if tmn < 0:
        ls = max(-(min(-pmn, (-tmn) * d) // n), tmn)
        ll = max(-(min(-pmn, (-tmn + 1) * d - 1) // n), tmn)
    else:
        ls = ll = 0
    return ls, ll, hs, hl


def windows(t, n, d, r, r_small=24, residue_cap=0):
    """Breakpoint-complete window alphabet for a 32/64-bit instance -> merged [lo,hi] list."""
    tmn, tmx = tmin(t), tmax(t)
    pmn, pmx = plim(t)
    big = {0, 1, -1, tmn, tmx, tmn + 1, tmx - 1}
    ls, ll, hs, hl = exact_bounds(t, n, d)
    big |= {hs, hs + 1, hl, hl + 1, ls, ls - 1, ll, ll - 1}
    # thresholds of alternative plausible computations (wrong arm, wrong limit, rounding the other way)
    plaus = {tmx // n, pmx // n, (tmx * d) // n, pmx // d, (tmx // n) * d, tmx // d,
             (pmx // n) * d, (pmx * d) // n, isqrt(tmx), isqrt(pmx), ((tmx + 1) * d) // n,
             (pmx + 1) // n, -(-(tmx * d) // n), -(-pmx // n), (tmx * d + d - 1) // n}
    if tmn < 0:
        plaus |= {-x for x in plaus} | {tmn // n, -((-tmn) // n), -(((-tmn) * d) // n), -((-pmn) // n),
                                        -(((-tmn) * d + d - 1) // n)}
    big |= plaus
    mult = set()
    for c in list(big):
        mult.add((c // d) * d)
        mult.add((c // d + 1) * d)
    small = set()
    for k in range(BITS[t] + 1):
        small.add(2 ** k)
        small.add(-(2 ** k))
    iv = []
    for c in big | mult:
        iv.append((c - r, c + r))
    for c in small:
        iv.append((c - r_small, c + r_small))
    # residue sweeps: truncation is periodic in x with period D -- every residue class, at mid-range
    # offsets away from all breakpoints (3/7, 5/11, 9/13 of Tmax and half of the overflow threshold)
    if 2 <= d <= residue_cap:
        for base in (tmx * 3 // 7, tmx * 5 // 11, tmx * 9 // 13, hs // 2):
            b = base // d * d
            iv.append((b, b + d - 1))
            if tmn < 0:
                iv.append((-b - d + 1, -b))
    iv = [(max(a, tmn), min(b, tmx)) for a, b in iv if b >= tmn and a <= tmx]
    iv.sort()
    merged = []
    for a, b in iv:
        if merged and a <= merged[-1][1] + 1:
            merged[-1] = (merged[-1][0], max(merged[-1][1], b))
        else:
            merged.append((a, b))
    return merged


def target_expr(n, d):
    e = "au::Meters{}"
    if d != 1:
        e += " * au::mag<%du>()" % d
    if n != 1:
        e += " / au::mag<%du>()" % n
    return "decltype(%s)" % e


def lit128(v):
    """C++ expression of type vf::i128 for a Python int in [-2^127, 2^127)."""
    if -2 ** 63 <= v < 2 ** 63:
        return "(vf::i128)%dLL" % v if v != -2 ** 63 else "(-(vf::i128)9223372036854775807LL-1)"
    if 0 <= v < 2 ** 64:
        return "(vf::i128)%dULL" % v
    raise ValueError(v)


# ---- instances -------------------------------------------------------------------------------------
# shape == "" : source Meters, target the anonymous scaled unit, passed as a unit instance
Inst = namedtuple("Inst", "id T N D src tgt shape")

MPS = "decltype(au::Meters{} / au::Seconds{})"
KMPH = "decltype(au::Kilo<au::Meters>{} / au::Hours{})"
# (label, source unit type, target slot type, N, D): QuantityMaker and symbol slots, prefixed, named,
# compound and powered library units, the identity and a distinct-but-equivalent target
SHAPES = [
    ("Feet->inches[maker]", "au::Feet", "decltype(au::inches)", 12, 1),
    ("Inches->feet[maker]", "au::Inches", "decltype(au::feet)", 1, 12),
    ("Kilo<Meters>->meters[maker]", "au::Kilo<au::Meters>", "decltype(au::meters)", 1000, 1),
    ("Meters->kilo(meters)[maker]", "au::Meters", "decltype(au::kilo(au::meters))", 1, 1000),
    ("Meters/Seconds->Kilo<Meters>/Hours", MPS, KMPH, 18, 5),
    ("Kilo<Meters>/Hours->meters/second[maker]", KMPH, "decltype(au::meters / au::second)", 5, 18),
    ("squared(Feet)->squared(inches)[maker]", "decltype(au::squared(au::Feet{}))", "decltype(au::squared(au::inches))", 144, 1),
    ("cubed(Inches)->cubed(Feet)", "decltype(au::cubed(au::Inches{}))", "decltype(au::cubed(au::Feet{}))", 1, 1728),
    ("Feet->meters[maker]", "au::Feet", "decltype(au::meters)", 381, 1250),
    ("Meters->feet[maker]", "au::Meters", "decltype(au::feet)", 1250, 381),
    ("Miles->meters[maker]", "au::Miles", "decltype(au::meters)", 201168, 125),
    ("Meters->symbol_for(inches)", "au::Meters", "decltype(au::symbol_for(au::inches))", 5000, 127),
    ("Percent->unos[maker]", "au::Percent", "decltype(au::unos)", 1, 100),
    ("Meters->Meters", "au::Meters", "au::Meters", 1, 1),
    ("Meters->meters[maker]", "au::Meters", "decltype(au::meters)", 1, 1),
    ("Meters->Kilo<Milli<Meters>>", "au::Meters", "au::Kilo<au::Milli<au::Meters>>", 1, 1),
]


def candidates(tier):
    c = []
    for t in I8:
        for (n, d) in factor_grid(t, tier):
            c.append(Inst(len(c), t, n, d, "au::Meters", target_expr(n, d), ""))
    for t in ALIAS_REPS:
        for (n, d) in alias_grid(t):
            c.append(Inst(len(c), t, n, d, "au::Meters", target_expr(n, d), ""))
    for t in list(I8) + ["long long", "char"]:
        for (label, src, tgt, n, d) in SHAPES:
            c.append(Inst(len(c), t, n, d, src, tgt, label))
    return c


def ikey(i):
    return "T=%s:N=%d:D=%d" % (i.T, i.N, i.D) + (":u=%s" % i.shape if i.shape else "")


RUN_TEMPLATE = r'''
#include <csignal>
#include <cstdio>
#include <cstdlib>
#include "c03_sweep.hh"
#include "c05_ubsan.hh"   // counts EVERY sanitizer event (the full runtime reports each location only once)
static inline unsigned long ub_total() { return vf5_ub_arith + vf5_ub_fcast + vf5_ub_other; }
namespace {
template <bool B> using BoolC = std::integral_constant<bool, B>;

struct Extra {
    unsigned long long ubchk_arith = 0, ubchk_other = 0, n_lat = 0, n_thr = 0;
};

// A trap raised inside the library (SIGFPE from a division by zero, SIGILL from a compiler-inserted trap, ...) while
// it evaluates a checker or a conversion on an input of the swept domain is a violation for that input, not a
// harness failure: the handler emits the record of the evaluation in progress and ends the process with status 86.
static volatile int g_cur_id = -1;
static volatile int g_cur_stage = 0;   // 0 = checkers, 1 = conversion of a cleared input
static const char *volatile g_cur_T = "";
static const char *volatile g_cur_shape = "";
static volatile unsigned long long g_cur_N = 0, g_cur_D = 0, g_cur_bits = 0;
static volatile bool g_cur_signed = false;
extern "C" void vf3_trap(int sig) {
    char xs[40];
    if (g_cur_signed) std::snprintf(xs, sizeof xs, "%lld", (long long)g_cur_bits);
    else std::snprintf(xs, sizeof xs, "%llu", (unsigned long long)g_cur_bits);
    std::printf("\nV {\"inst\":%d,\"T\":\"%s\",\"u\":\"%s\",\"N\":\"%llu\",\"D\":\"%llu\",\"x\":\"%s\",\"kind\":\"%s\","
                "\"lib\":{\"trunc\":-1,\"ovf\":-1,\"lossy\":-1},\"exact\":{\"trunc\":-1,\"prod_in_p\":-1,"
                "\"outside_t\":-1,\"band\":-1,\"result\":\"\"},\"got\":\"signal %d\"}\n",
                (int)g_cur_id, (const char *)g_cur_T, (const char *)g_cur_shape, (unsigned long long)g_cur_N,
                (unsigned long long)g_cur_D, xs, g_cur_stage ? "trap-in-conversion" : "trap-in-checker", sig);
    std::fflush(stdout);
    std::_Exit(86);
}
static void install_traps() {
    std::signal(SIGFPE, vf3_trap);
    std::signal(SIGILL, vf3_trap);
    std::signal(SIGSEGV, vf3_trap);
    std::signal(SIGABRT, vf3_trap);
    std::signal(SIGBUS, vf3_trap);
}

static void emit_v(int id, const char *T, const char *shape, unsigned long long N, unsigned long long D,
                   const std::string &x, const char *kind, bool lt, bool lo, bool ll,
                   const vf::Exact &e, const std::string &got) {
    std::printf("V {\"inst\":%d,\"T\":\"%s\",\"u\":\"%s\",\"N\":\"%llu\",\"D\":\"%llu\",\"x\":\"%s\",\"kind\":\"%s\","
                "\"lib\":{\"trunc\":%d,\"ovf\":%d,\"lossy\":%d},\"exact\":{\"trunc\":%d,\"prod_in_p\":%d,"
                "\"outside_t\":%d,\"band\":%d,\"result\":\"%s%s\"},\"got\":\"%s\"}\n",
                id, T, shape, N, D, x.c_str(), kind, lt, lo, ll, e.trunc, e.prod_in_p, e.outside_t,
                e.band, e.neg ? "-" : "", vf::u128_str(e.q).c_str(), got.c_str());
}

template <typename I, typename T>
void policy_path(BoolC<true>, au::Quantity<typename I::Src, T> q, T expect, bool &bad, T &got) {
    typename I::Target target{};
    T a = q.in(target);
    T b = q.as(target).in(target);
    if (a != expect) { bad = true; got = a; }
    if (b != expect) { bad = true; got = b; }
}
template <typename I, typename T>
void policy_path(BoolC<false>, au::Quantity<typename I::Src, T>, T, bool &, T &) {}

// the library's own compile-time thresholds (internal names; read only when they exist, see VF3_THRESHOLDS)
template <typename I, bool ON> struct ThrMax { static bool get(typename I::T &) { return false; } };
template <typename I, bool ON> struct ThrMin { static bool get(typename I::T &) { return false; } };
#ifdef VF3_THRESHOLDS
template <typename I> struct ThrMax<I, true> {
    static bool get(typename I::T &v) {
        typedef decltype(au::unit_ratio(typename I::Src{}, typename I::Target{})) M;
        v = au::detail::MaxNonOverflowingValue<typename I::T, M>::value();
        return true;
    }
};
template <typename I> struct ThrMin<I, true> {
    static bool get(typename I::T &v) {
        typedef decltype(au::unit_ratio(typename I::Src{}, typename I::Target{})) M;
        v = au::detail::MinNonOverflowingValue<typename I::T, M>::value();
        return true;
    }
};
#endif

template <typename I>
__attribute__((noinline)) void eval_one(int id, typename I::T x, vf::Stats &st, Extra &ex, int *shown) {
    typedef typename I::T T;
    typename I::Target target{};
    constexpr bool POLICY =
        au::implicit_rep_permitted_from_source_to_target<T>(typename I::Src{}, typename I::Target{});
    const int SHOW = 3;
    const auto q = au::make_quantity<typename I::Src>(x);
    g_cur_id = id; g_cur_stage = 0; g_cur_T = I::tname(); g_cur_shape = I::shape(); g_cur_N = I::N; g_cur_D = I::D;
    g_cur_signed = std::is_signed<T>::value;
    g_cur_bits = std::is_signed<T>::value ? (unsigned long long)(long long)x : (unsigned long long)x;
    const vf5::UbSnap u0 = vf5::ub_now();
    const bool lt = au::will_conversion_truncate(q, target);
    const bool lo = au::will_conversion_overflow(q, target);
    const bool ll = au::is_conversion_lossy(q, target);
    const vf5::UbSnap uc = vf5::ub_since(u0);
    const vf::Exact e = vf::exact_scale<T>(x, I::N, I::D);
    ++st.evals;
    st.n_trunc += lt;
    st.n_ovf += lo;
    st.n_band += e.band;
    // sanitizer events inside the checkers: recorded, not judged (C04 speaks about the verdicts only)
    ex.ubchk_arith += uc.arith;
    ex.ubchk_other += uc.fcast + uc.other;
    const char *kind = nullptr;
    int slot = 0;
    if (lt != e.trunc) { kind = lt ? "trunc-fp" : "trunc-fn"; slot = 0; }
    else if (!e.band && lo != e.overflow()) { kind = lo ? "ovf-fp" : "ovf-fn"; slot = 1; }
    else if (ll != (e.trunc || e.overflow())) { kind = ll ? "lossy-fp" : "lossy-fn"; slot = 2; }
    else if (ll != (lt || lo)) { kind = "lossy-not-disjunction"; slot = 3; }
    if (kind) {
        ++st.n_viol;
        if (shown[slot]++ < SHOW)
            emit_v(id, I::tname(), I::shape(), I::N, I::D, vf::int_str(x), kind, lt, lo, ll, e, "");
    }
    if (!ll) {
        ++st.n_cleared;
        if (e.trunc || e.overflow()) {
            // cleared although the exact computation is not exact/defined: never executed
            ++st.n_viol;
            if (shown[4]++ < SHOW)
                emit_v(id, I::tname(), I::shape(), I::N, I::D, vf::int_str(x), "cleared-not-exact", lt, lo, ll, e, "");
        } else {
            const T expect = e.neg ? static_cast<T>(-(vf::i128)e.q) : static_cast<T>(e.q);
            const unsigned long ub1 = ub_total();
            g_cur_stage = 1;
            const T r1 = q.coerce_in(target);
            const T r2 = q.coerce_as(target).in(target);
            bool bad = (r1 != expect) || (r2 != expect);
            T got = (r1 != expect) ? r1 : r2;
            policy_path<I, T>(BoolC<POLICY>{}, q, expect, bad, got);
            st.n_policy += POLICY;
            if (bad) {
                ++st.n_viol;
                if (shown[5]++ < SHOW)
                    emit_v(id, I::tname(), I::shape(), I::N, I::D, vf::int_str(x), "cleared-wrong-value", lt, lo, ll, e,
                           vf::int_str(got));
            }
            if (ub_total() != ub1) {
                ++st.n_viol;
                ++st.n_ubsan;
                if (shown[7]++ < SHOW)
                    emit_v(id, I::tname(), I::shape(), I::N, I::D, vf::int_str(x), "ubsan-in-conversion", lt, lo, ll, e, "");
            }
        }
    }
}

template <typename I>
void run(int id, const vf::Interval *iv, int niv) {
    typedef typename I::T T;
    vf::Stats st;
    Extra ex;
    int shown[8] = {0, 0, 0, 0, 0, 0, 0, 0};
    for (int k = 0; k < niv; ++k)
        for (vf::i128 v = iv[k].lo; v <= iv[k].hi; ++v) eval_one<I>(id, static_cast<T>(v), st, ex, shown);
    if (I::LAT) {
        for (T x : vf3::lattice<T>()) { eval_one<I>(id, x, st, ex, shown); ++ex.n_lat; }
    }
    // the library's thresholds: read out for the Python model, and the checker is evaluated on both
    // sides of them (a shifted constant is then a value-level violation, whichever way it moved)
    T tmaxv = 0, tminv = 0;
    const bool hmax = ThrMax<I, I::RAT>::get(tmaxv);
    const bool hmin = ThrMin<I, (I::RAT && std::is_signed<T>::value)>::get(tminv);
    for (int w = 0; w < 2; ++w) {
        if (!(w ? hmin : hmax)) continue;
        const vf::i128 c = w ? (vf::i128)tminv : (vf::i128)tmaxv;
        for (vf::i128 v = c - 2; v <= c + 2; ++v)
            if (vf3::fits<T>(v)) { eval_one<I>(id, static_cast<T>(v), st, ex, shown); ++ex.n_thr; }
    }
    std::printf("S {\"inst\":%d,\"T\":\"%s\",\"N\":\"%llu\",\"D\":\"%llu\",\"evals\":%llu,\"trunc\":%llu,"
                "\"ovf\":%llu,\"cleared\":%llu,\"band\":%llu,\"viol\":%llu,\"ubsan\":%llu,\"policy\":%llu,"
                "\"ubchk_arith\":%llu,\"ubchk_other\":%llu,\"lat\":%llu,\"thr\":%llu,\"thr_max\":\"%s\",\"thr_min\":\"%s\"}\n",
                id, I::tname(), (unsigned long long)I::N, (unsigned long long)I::D, st.evals,
                st.n_trunc, st.n_ovf, st.n_cleared, st.n_band, st.n_viol, st.n_ubsan, st.n_policy,
                ex.ubchk_arith, ex.ubchk_other, ex.n_lat, ex.n_thr,
                hmax ? vf::int_str(tmaxv).c_str() : "", hmin ? vf::int_str(tminv).c_str() : "");
    std::fflush(stdout);
}
}  // namespace
'''


def inst_struct(i, lat):
    rat = i.N != 1 and i.D != 1
    return ("struct I%d { typedef %s T; typedef %s Src; static constexpr std::uint64_t N = %dull, D = %dull; "
            "typedef %s Target; static constexpr bool LAT = %s, RAT = %s; "
            "static const char *tname() { return \"%s\"; } static const char *shape() { return \"%s\"; } };"
            % (i.id, i.T, i.src, i.N, i.D, i.tgt, "true" if lat else "false", "true" if rat else "false",
               i.T, i.shape))


def emit_tu(path, insts, ivs, thresholds=True, lattice=True):
    """insts: list of Inst; ivs: id -> list of (lo, hi)."""
    out = ["#define VF3_THRESHOLDS 1" if thresholds else "", RUN_TEMPLATE, "namespace {"]
    for i in insts:
        out.append(inst_struct(i, lattice and BITS[i.T] >= 32))
        arr = ", ".join("{%s, %s}" % (lit128(a), lit128(b)) for a, b in ivs[i.id])
        out.append("static const vf::Interval IV%d[] = {%s};" % (i.id, arr))
    out.append("}")
    out.append("int main(int argc, char **argv) {")
    out.append("  int part = argc > 1 ? std::atoi(argv[1]) : 0, nparts = argc > 2 ? std::atoi(argv[2]) : 1;")
    out.append("  install_traps();")
    out.append("  int k = 0;")
    for i in insts:
        out.append("  if (k++ %% nparts == part) run<I%d>(%d, IV%d, %d);" % (i.id, i.id, i.id, len(ivs[i.id])))
    out.append("  return 0; }")
    with open(path, "w") as f:
        f.write("\n".join(out) + "\n")


CHECKERS = ("will_conversion_overflow", "will_conversion_truncate", "is_conversion_lossy")


def conv_code(i):
    return ("using Tg = %s; auto q = au::make_quantity<%s>(static_cast<%s>(1)); (void)q.coerce_in(Tg{}); "
            "(void)q.coerce_as(Tg{});" % (i.tgt, i.src, i.T))


def chk_code(i, which=CHECKERS):
    return ("using Tg = %s; auto q = au::make_quantity<%s>(static_cast<%s>(1)); " % (i.tgt, i.src, i.T) +
            " ".join("(void)au::%s(q, Tg{});" % w for w in which))


def domain_probes(run, cfg, cands):
    """Two separate compile domains, each observed by compiling the probe alone where it matters:
    the conversion (coerce_in / coerce_as) and the three checkers.  Returns
    (dom, grew, problems): dom = instances whose conversion AND checkers compile; grew = conversion
    compiles although the documented structure predicts a rejection (swept like any other instance);
    problems = [(kind, inst, detail, replay_code)] for a shrunken conversion domain (predicted accept,
    rejected) and for checkers that do not compile where the conversion does."""
    wd = os.path.join(run.wd, "dom")
    fl = cflags(cfg)
    pr = [core.Probe(i.id, conv_code(i), "accept" if predicted_domain(i.T, i.N, i.D) else "reject") for i in cands]
    pc = [core.Probe(i.id, chk_code(i), "accept") for i in cands if predicted_domain(i.T, i.N, i.D)]
    (res, _), (resc, _) = core.pmap(lambda a: core.run_probes(cfg, a[0], wd, a[1], flags=fl),
                                    [(pr, "conv"), (pc, "chk")], workers=2)
    byid = {i.id: i for i in cands}
    conv_ok = [i for i in cands if res[i.id][0] == "accept"]
    grew = [i for i in conv_ok if not predicted_domain(i.T, i.N, i.D)]
    if grew:   # the checkers of instances outside the predicted domain were not probed yet
        r2, _ = core.run_probes(cfg, [core.Probe(i.id, chk_code(i), "accept") for i in grew], wd, "chk2", flags=fl)
        resc.update(r2)
    problems = []
    for p in pr:
        v, diag = res[p.pid]
        if p.expect == "accept" and v != "accept":
            problems.append(("conversion-no-compile", byid[p.pid], diag, p.code))
    bad_chk = [i for i in conv_ok if resc[i.id][0] != "accept"]
    if bad_chk:   # name the checker(s)
        singles = [core.Probe(k, chk_code(i, (w,)), "accept", {"i": i, "w": w})
                   for k, (i, w) in enumerate((i, w) for i in bad_chk for w in CHECKERS)]
        r3, _ = core.run_probes(cfg, singles, wd, "chk1", flags=fl)
        for p in singles:
            if r3[p.pid][0] != "accept":
                problems.append(("checker-no-compile", p.meta["i"], "%s: %s" % (p.meta["w"], r3[p.pid][1]), p.code))
        for i in bad_chk:   # all three compile alone but not together: still a loss
            if not any(k == "checker-no-compile" and j.id == i.id for k, j, _, _ in problems):
                problems.append(("checker-no-compile", i, "together: %s" % resc[i.id][1], chk_code(i)))
    badids = {i.id for i in bad_chk}
    dom = [i for i in conv_ok if i.id not in badids]
    return dom, grew, problems


def build_and_run(run, cfg, tag, insts, ivs, flags, nsplit, parts_per_bin=1, timeout=7200, thresholds=True,
                  lattice=True):
    """Split instances over nsplit TUs, build all, run all; returns (stats, violations, nocompile).
    nocompile: [(Inst, diag)] -- instances whose sweep code does not compile although their probes were
    accepted (found by compiling each instance of a failing TU alone); they are dropped and reported."""
    wd = os.path.join(run.wd, tag)
    os.makedirs(wd, exist_ok=True)
    groups = [insts[i::nsplit] for i in range(nsplit)]
    groups = [g for g in groups if g]
    fl = ["-O2"] + list(flags) + cflags(cfg)
    nocompile = []

    def build(k):
        src = os.path.join(wd, "sw%d.cc" % k)
        exe = os.path.join(wd, "sw%d" % k)
        emit_tu(src, groups[k], ivs, thresholds, lattice)
        rc, err = core.build_exe(cfg, src, exe, fl)
        if rc != 0:
            bad = []
            for i in groups[k]:
                s1 = os.path.join(wd, "sw%d_i%d.cc" % (k, i.id))
                emit_tu(s1, [i], ivs, thresholds, lattice)
                rc1, err1 = core.syntax_check(cfg, s1, fl)
                if rc1 != 0:
                    bad.append((i, core._first_error(err1)))
            if not bad:
                raise core.InfraError("sweep TU failed to build (%s):\n%s" % (src, err[-3000:]))
            nocompile.extend(bad)
            keep = [i for i in groups[k] if i.id not in {b[0].id for b in bad}]
            if not keep:
                return None
            emit_tu(src, keep, ivs, thresholds, lattice)
            rc, err = core.build_exe(cfg, src, exe, fl)
            if rc != 0:
                raise core.InfraError("sweep TU failed to build (%s):\n%s" % (src, err[-3000:]))
        return exe

    core.pch_dir(cfg, fl)
    exes = [e for e in core.pmap(build, range(len(groups))) if e]
    jobs = [(e, p) for e in exes for p in range(parts_per_bin)]

    def runexe(job):
        exe, part = job
        env = dict(os.environ)
        env["UBSAN_OPTIONS"] = "halt_on_error=0:print_stacktrace=0:silence_unsigned_overflow=0"
        rc, out, err = core.sh([exe, str(part), str(parts_per_bin)], timeout=timeout, env=env)
        if rc == 86 and '"kind":"trap-' in out:
            return out   # a trap inside the library: the handler has emitted the violation record
        if rc != 0:
            raise core.InfraError("sweep binary %s failed rc=%d: %s" % (exe, rc, err[-2000:]))
        return out

    stats, viols = [], []
    for out in core.pmap(runexe, jobs):
        trapped = '"kind":"trap-' in out
        for line in out.split("\n"):
            try:
                if line.startswith("S "):
                    stats.append(json.loads(line[2:]))
                elif line.startswith("V "):
                    viols.append(json.loads(line[2:]))
            except ValueError:
                # A V record that is not valid JSON: either cut short by a trap (the handler's record follows), or
                # the harness's own local state was clobbered by undefined behaviour inside the library call that
                # preceded it (seen with clang -O2 and a checker that computes x % 0).  The identifying fields are
                # printed first; what can be recovered is reported as a violation of its own kind.
                m = re.match(r'V \{"inst":(\d+),"T":"([^"]*)","u":"([^"]*)","N":"(\d+)","D":"(\d+)","x":"(-?\d+)"', line)
                if m:
                    viols.append({"inst": int(m.group(1)), "T": m.group(2), "u": m.group(3), "N": m.group(4),
                                  "D": m.group(5), "x": m.group(6), "kind": "ub-corrupted-record",
                                  "lib": {"trunc": -1, "ovf": -1, "lossy": -1},
                                  "exact": {"trunc": -1, "prod_in_p": -1, "outside_t": -1, "band": -1, "result": ""},
                                  "got": "unparsable record"})
                elif not trapped:
                    raise
    return stats, viols, nocompile


# ---- constant-expression use (all six configurations) ---------------------------------------------

def cx_lit(t, v):
    if v == -2 ** 63:
        return "static_cast<%s>(-9223372036854775807LL-1)" % t
    return "static_cast<%s>(%d%s)" % (t, v, "ULL" if v >= 2 ** 63 else "LL")


def model_verdicts(t, n, d, x):
    """(trunc, overflow or None inside the don't-care band, exact result or None) by big integers."""
    tmn, tmx = tmin(t), tmax(t)
    pmn, pmx = plim(t)
    prod = x * n
    tr = prod % d != 0
    q = abs(prod) // d * (1 if prod >= 0 else -1)   # truncation toward zero
    in_p = pmn <= prod <= pmx
    outside = prod > tmx * d or prod < tmn * d
    band = outside and tmn <= q <= tmx
    ovf = None if (band and in_p) else (not in_p or outside)
    res = q if (in_p and not outside and not tr) else None
    return tr, ovf, res


CX_FACTORS = [(1, 1), (3, 1), (1, 3), (2, 3), (3, 2), (1250, 381), (5, 9), (1000, 1), (1, 1000)]


def constexpr_probes(run, kinds, reps):
    """static_assert-evaluated checkers (C04) and conversions of cleared values (C03) under all six
    compiler/standard configurations; expected constants from the big-integer model.  A probe that does
    not compile (not a constant expression -- which includes UB met by the constant evaluator -- or a
    different constant) is a violation."""
    want_chk = "constexpr-checker" in kinds
    probes = []
    for t in reps:
        for (n, d) in CX_FACTORS:
            if not predicted_domain(t, n, d):
                continue
            ls, ll, hs, hl = exact_bounds(t, n, d)
            xs = sorted(x for x in {0, 1, d, 7 * d, hs, hs + 1, hl + 1, hs // d * d, ls, ls - 1, ll - 1, -d,
                                    tmax(t), tmin(t)} if tmin(t) <= x <= tmax(t))
            tg = "au::Meters" if (n, d) == (1, 1) else target_expr(n, d)
            asserts = []
            for x in xs:
                tr, ovf, res = model_verdicts(t, n, d, x)
                q = "au::meters(%s)" % cx_lit(t, x)
                b = lambda v: "true" if v else "false"
                if want_chk:
                    asserts.append("static_assert(au::will_conversion_truncate(%s, Tg{}) == %s, \"\");" % (q, b(tr)))
                    if ovf is not None:
                        asserts.append("static_assert(au::will_conversion_overflow(%s, Tg{}) == %s, \"\");" % (q, b(ovf)))
                        asserts.append("static_assert(au::is_conversion_lossy(%s, Tg{}) == %s, \"\");" % (q, b(tr or ovf)))
                elif res is not None:
                    asserts.append("static_assert(%s.coerce_in(Tg{}) == %s, \"\");" % (q, cx_lit(t, res)))
                    asserts.append("static_assert(%s.coerce_as(Tg{}).in(Tg{}) == %s, \"\");" % (q, cx_lit(t, res)))
            if asserts:
                probes.append(({"T": t, "N": n, "D": d}, "using Tg = %s; " % tg + " ".join(asserts)))
    kind = "constexpr-checker" if want_chk else "constexpr-conversion"
    out, nacc = [], 0
    core.pmap(lambda c: core.pch_dir(c, cflags(c)), core.CFG6)

    def one(cfg):
        pl = [core.Probe(k, code, "accept", meta) for k, (meta, code) in enumerate(probes)]
        res, _ = core.run_probes(cfg, pl, os.path.join(run.wd, "cx"), "cx", flags=cflags(cfg))
        return cfg, pl, res
    for cfg, pl, res in core.pmap(one, core.CFG6, workers=3):
        for p in pl:
            v, diag = res[p.pid]
            if v == "accept":
                nacc += 1
            else:
                out.append((kind, p.meta, cfg, diag, p.code))
    return out, nacc, len(probes) * len(core.CFG6)


C03_KINDS = {"cleared-not-exact", "cleared-wrong-value", "ubsan-in-conversion", "trap-in-conversion", "ub-corrupted-record", "conversion-no-compile",
             "checker-no-compile", "sweep-no-compile", "constexpr-conversion"}
C04_KINDS = {"trunc-fp", "trunc-fn", "ovf-fp", "ovf-fn", "lossy-fp", "lossy-fn", "trap-in-checker", "ub-corrupted-record",
             "lossy-not-disjunction", "conversion-no-compile", "checker-no-compile", "sweep-no-compile",
             "constexpr-checker"}


def thresholds_available(run, cfg):
    code = ("typedef decltype(au::unit_ratio(au::Meters{}, %s{})) M; "
            "(void)au::detail::MaxNonOverflowingValue<int, M>::value(); "
            "(void)au::detail::MinNonOverflowingValue<int, M>::value();" % target_expr(2, 3))
    res, _ = core.run_probes(cfg, [core.Probe(0, code, "accept")], os.path.join(run.wd, "dom"), "thr", flags=cflags(cfg))
    return res[0][0] == "accept"


def explore(run, kinds):
    """The integer part shared by C03/C04. Returns coverage pieces."""
    tier = run.tier
    gcfg = core.GXX14
    ccfg = core.CLANG14
    cands = candidates(tier)
    phases = {}
    dom, grew, problems = domain_probes(run, gcfg, cands)
    have_thr = thresholds_available(run, gcfg)
    phases["domain_probes"] = round(run.elapsed(), 1)
    if len(dom) + len({p[1].id for p in problems}) < 0.5 * len(cands):   # lost-and-reported instances are not vacuous
        raise core.InfraError("vacuity guard: only %d of %d factor-grid instances are in-domain"
                              % (len(dom), len(cands)))
    r = 2 ** 12 if tier == "quick" else 2 ** 16
    cap = 2 ** 12 if tier == "quick" else 2 ** 16
    insts, ivs = [], {}
    for i in dom:
        insts.append(i)
        if BITS[i.T] <= 16:
            ivs[i.id] = [(tmin(i.T), tmax(i.T))]
        else:
            ivs[i.id] = windows(i.T, i.N, i.D, r if BITS[i.T] == 64 or tier == "quick" else 2 ** 14,
                                residue_cap=cap)
    allstats, allviols = [], []
    # plain g++ build: the deciding oracle comparison
    s, v, nc = build_and_run(run, gcfg, "plain", insts, ivs, [], nsplit=core.NCPU * 2, thresholds=have_thr)
    allstats += [dict(x, build="g++") for x in s]
    allviols += [dict(x, build="g++ -O2") for x in v]
    phases["sweep g++ -O2"] = round(run.elapsed(), 1)
    for i, diag in nc:
        problems.append(("sweep-no-compile", i, "g++ -O2: " + diag, None))
    # clang + UBSan (signed overflow, unsigned wrap, value-changing implicit narrowing) observer
    san = list(SAN)
    s2, v2, nc2 = build_and_run(run, ccfg, "ubsan", insts, ivs, san, nsplit=core.NCPU * 2, thresholds=have_thr)
    allstats += [dict(x, build="clang-ubsan") for x in s2]
    allviols += [dict(x, build="clang++ -O2 ubsan") for x in v2]
    phases["sweep clang++ -O2 ubsan"] = round(run.elapsed(), 1)
    for i, diag in nc2:
        if i.id not in {j.id for j, _ in nc}:
            problems.append(("sweep-no-compile", i, "clang++ -O2 ubsan: " + diag, None))
    full, full_skipped = [], None
    if tier == "thorough":
        finsts, fivs = [], {}
        k = 100000
        for t in ("int32_t", "uint32_t"):
            for (n, d) in full32_subset(t):
                if predicted_domain(t, n, d):
                    finsts.append(Inst(k, t, n, d, "au::Meters", target_expr(n, d), ""))
                    fivs[k] = [(tmin(t), tmax(t))]
                    k += 1
        # waves of NCPU instances; stop between waves when the deadline would be overrun
        import time as _time
        done, wave_s, full_skipped = [], None, None
        for w in range(0, len(finsts), core.NCPU):
            wave = finsts[w:w + core.NCPU]
            need = (wave_s * 1.3 + 30) if wave_s else 240.0
            if run.time_left() < need + 120:   # 120 s reserved for the constexpr probes and the report
                full_skipped = {"instances_not_run": ["%s x%d/%d" % (i.T, i.N, i.D) for i in finsts[w:]],
                                "reason": "deadline guard: %.0fs left, about %.0fs needed for the next wave" % (
                                    run.time_left(), need)}
                break
            t0 = _time.time()
            s3, v3, nc3 = build_and_run(run, ccfg, "full32_%d" % w, wave, fivs, san, nsplit=len(wave), thresholds=False,
                                        lattice=False)
            wave_s = _time.time() - t0
            allstats += [dict(x, build="clang-ubsan-full32") for x in s3]
            allviols += [dict(x, build="clang++ -O2 ubsan") for x in v3]
            for i, diag in nc3:
                problems.append(("sweep-no-compile", i, "clang++ -O2 ubsan (full 2^32): " + diag, None))
            done += wave
        finsts = done
        full = finsts
    phases["full 2^32 sweeps"] = round(run.elapsed(), 1)
    cx, cx_ok, cx_total = constexpr_probes(run, kinds, list(I8) + list(ALIAS_REPS))
    phases["constexpr_probes"] = round(run.elapsed(), 1)
    # report: value-level violations
    byid = {i.id: i for i in insts + full}
    nviol = 0
    for v in allviols:
        if v["kind"] not in kinds:
            continue
        i = byid[v["inst"]]
        key = "%s:%s:%s:x=%s" % (run.prop, v["kind"], ikey(i), v["x"])
        what = ("%s for %s x=%s factor=%s/%s%s: library trunc=%d ovf=%d lossy=%d; exact trunc=%d "
                "prod_in_promoted=%d outside_T=%d result=%s got=%s [%s]" % (
                    v["kind"], v["T"], v["x"], v["N"], v["D"], (" (%s)" % i.shape) if i.shape else "",
                    v["lib"]["trunc"], v["lib"]["ovf"],
                    v["lib"]["lossy"], v["exact"]["trunc"], v["exact"]["prod_in_p"],
                    v["exact"]["outside_t"], v["exact"]["result"], v.get("got", ""), v["build"]))
        if run.match_known(key) is None:
            rp = run.write_replay(key, {"kind": "value", "instance": {"T": v["T"], "N": v["N"], "D": v["D"],
                                                                      "src": i.src, "tgt": i.tgt, "shape": i.shape},
                                        "value": v["x"], "observed": v, "what": what})
            run.violation(key, what, rp)
        else:
            run.violation(key, what)
        nviol += 1
    # report: lost compile domain
    for kind, i, diag, code in problems:
        if kind not in kinds:
            continue
        key = "%s:%s:%s" % (run.prop, kind, ikey(i))
        if kind == "checker-no-compile":
            key += ":fn=" + diag.split(":")[0]
        what = {"conversion-no-compile": "q.coerce_in / q.coerce_as no longer compile for %s, factor %d/%d%s although "
                                         "numerator and denominator are representable: %s",
                "checker-no-compile": "the conversion compiles for %s, factor %d/%d%s but a runtime checker does not: %s",
                "sweep-no-compile": "conversion and checkers compile alone for %s, factor %d/%d%s but the sweep (which "
                                    "adds .in/.as where the policy trait permits them) does not: %s"}[kind] % (
            i.T, i.N, i.D, (" (%s)" % i.shape) if i.shape else "", diag)
        rec = {"kind": "probe", "cfg": [gcfg.cxx, gcfg.std], "code": code, "what": what} if code else \
              {"kind": "sweep-build", "instance": {"T": i.T, "N": str(i.N), "D": str(i.D), "src": i.src, "tgt": i.tgt,
                                                   "shape": i.shape}, "what": what}
        run.violation(key, what, run.write_replay(key, rec))
        nviol += 1
    for kind, meta, cfg, diag, code in cx:
        key = "%s:%s:T=%s:N=%d:D=%d:cfg=%s" % (run.prop, kind, meta["T"], meta["N"], meta["D"], cfg.name)
        what = ("%s: static_assert-evaluated %s for %s, factor %d/%d under %s: %s" % (
            kind, "checkers differ from the exact verdicts or are not constant expressions" if kind.endswith("checker")
            else "conversion of checker-cleared values is not a constant expression (UB or non-constexpr) or differs "
                 "from the exact result", meta["T"], meta["N"], meta["D"], cfg, diag))
        run.violation(key, what, run.write_replay(key, {"kind": "probe", "cfg": [cfg.cxx, cfg.std], "code": code,
                                                        "what": what}))
        nviol += 1
    # thresholds against the big-integer model
    thr = {"read": 0, "equal_strict_model": 0, "inside_dont_care_band": 0, "differ": []}
    for s in allstats:
        if s["build"] != "g++" or not s.get("thr_max"):
            continue
        i = byid[s["inst"]]
        ls, ll, hs, hl = exact_bounds(i.T, i.N, i.D)
        mx = int(s["thr_max"])
        mn = int(s["thr_min"]) if s.get("thr_min") else None
        thr["read"] += 1
        ok_strict = mx == hs and (mn is None or mn == ls)
        ok_band = hs <= mx <= hl and (mn is None or ll <= mn <= ls)
        if ok_strict:
            thr["equal_strict_model"] += 1
        elif ok_band:
            thr["inside_dont_care_band"] += 1
        elif len(thr["differ"]) < 20:
            # the checker was evaluated around the library's constant AND around the model's: if the
            # constant is really what the checker compares with, a value violation was reported above
            thr["differ"].append({"T": i.T, "N": str(i.N), "D": str(i.D), "lib_max": mx, "lib_min": mn,
                                  "model": [ls, hs], "value_violations": s["viol"]})
    evals = sum(s["evals"] for s in allstats)
    nontriv = sum(1 for s in allstats if s["build"] == "g++" and s["cleared"] > 0 and
                  s["cleared"] < s["evals"])
    vac = [s for s in allstats if s["build"] == "g++" and s["evals"] == 0]
    if vac:
        raise core.InfraError("vacuous instances: %s" % vac[:3])
    ubchk = {"signed_or_promoted_arith": 0, "unsigned_wrap": 0, "other": 0}
    for s in allstats:
        t = s["T"]
        ubchk["unsigned_wrap" if (not is_signed(t) and BITS[t] >= 32) else "signed_or_promoted_arith"] += s.get("ubchk_arith", 0)
        ubchk["other"] += s.get("ubchk_other", 0)
    return {
        "evaluations": evals + cx_total,
        "instances_in_domain": len(dom), "instances_candidates": len(cands),
        "instances_by_rep": {t: sum(1 for i in dom if i.T == t) for t in list(I8) + list(ALIAS_REPS)},
        "instances_shaped_units": sum(1 for i in dom if i.shape),
        "domain_grew": [ikey(i) for i in grew][:20], "domain_grew_count": len(grew),
        "domain_lost_count": len(problems),
        "cleared_conversions_executed": sum(s["cleared"] for s in allstats),
        "policy_permitted_in_as_executed": sum(s["policy"] for s in allstats),
        "dont_care_band_values": sum(s["band"] for s in allstats),
        "ubsan_reports": sum(s["ubsan"] for s in allstats),
        "sanitizer_events_inside_checkers_recorded_not_judged": ubchk,
        "lattice_values": sum(s.get("lat", 0) for s in allstats),
        "threshold_window_values": sum(s.get("thr", 0) for s in allstats),
        "library_thresholds_vs_model": thr if have_thr else "internal names not available: not read",
        "constexpr_probes": {"accepted": cx_ok, "total": cx_total, "configs": [str(c) for c in core.CFG6]},
        "full_2pow32_instances": len(full), "full_2pow32_skipped": full_skipped,
        "distinct_nontrivial": nontriv,
        "window_radius_64bit": r, "residue_sweep_max_denominator": cap,
        "raw_violation_records": nviol, "phase_end_wall_s": phases,
        "samples": [{"T": s["T"], "N": s["N"], "D": s["D"], "values": s["evals"],
                     "lossy": s["evals"] - s["cleared"], "cleared_and_executed": s["cleared"]}
                    for s in allstats[:: max(1, len(allstats) // 6)]][:8],
    }


def replay(path, prop):
    """Re-run exactly one case stand-alone; exit 1 iff the violation reproduces."""
    r = json.load(open(path))
    run = core.Run(prop, "quick", "exploration")
    run.wd = os.path.join(core.BUILD, prop, "replay")
    os.makedirs(run.wd, exist_ok=True)
    kinds = C03_KINDS if prop == "C03" else C04_KINDS
    if r.get("kind") == "float-value":
        return replay_float(run, r, path)
    if r.get("kind") == "probe":
        cfg = core.Cfg(*r["cfg"])
        res, _ = core.run_probes(cfg, [core.Probe(0, r["code"], "accept")], run.wd, "rp", flags=cflags(cfg))
        if res[0][0] != "accept":
            print("reproduced: %s" % res[0][1])
            print("VIOLATION property=%s replay=%s" % (prop, path))
            return 1
        print("not reproduced on the current tree: the probe compiles")
        return 0
    ii = r["instance"]
    t, n, d = ii["T"], int(ii["N"]), int(ii["D"])
    inst = Inst(0, t, n, d, ii.get("src", "au::Meters"), ii.get("tgt", target_expr(n, d)), ii.get("shape", ""))
    have_thr = thresholds_available(run, core.GXX14)
    if r.get("kind") == "sweep-build":
        ivs = {0: [(0, 0)]}
        hits = []
        for cfg, fl, tag in ((core.GXX14, [], "rp"), (core.CLANG14, list(SAN), "rpsan")):
            s, v, nc = build_and_run(run, cfg, tag, [inst], ivs, fl, nsplit=1, thresholds=have_thr)
            hits += nc
        if hits:
            print("reproduced: %s" % hits[0][1])
            print("VIOLATION property=%s replay=%s" % (prop, path))
            return 1
        print("not reproduced on the current tree: the sweep TU of %s builds" % ikey(inst))
        return 0
    x = int(r["value"])
    hits = []
    for cfg, fl, tag in ((core.GXX14, [], "rp"), (core.CLANG14, list(SAN), "rpsan")):
        s, v, nc = build_and_run(run, cfg, tag, [inst], {0: [(x, x)]}, fl, nsplit=1, thresholds=False,
                                 lattice=False)
        hits += [dict(z, build=str(cfg)) for z in v if z["kind"] in kinds and z["x"] == r["value"]]
    for h in hits:
        print("reproduced:", json.dumps(h))
    if hits:
        print("VIOLATION property=%s replay=%s" % (prop, path))
        return 1
    print("not reproduced on the current tree: %s x=%d factor=%d/%d" % (t, x, n, d))
    return 0


# ------------------------------------------------------------------------------------------------
# C04, floating clause: overflow is reported for every finite value whose scaled magnitude exceeds
# the type's largest finite value and never for values safely below it.

FLOAT_TEMPLATE = r'''
#include "sweep.hh"
#include <cmath>
#include <cfloat>
namespace {
// |x| * m compared with max(T), all in (mantissa, exponent) form so nothing overflows.
// returns +1: certainly above max*(1+4eps); -1: certainly below max*(1-4eps); 0: band
template <typename T>
int classify(T x, long double m) {
    if (x == 0) return -1;
    int ex = 0, em = 0;
    long double fx = std::frexp(static_cast<long double>(std::fabs(x)), &ex);
    long double fm = std::frexp(m, &em);
    long double p = fx * fm;            // in [0.25, 1)
    long e = (long)ex + em;
    if (p < 0.5L) { p *= 2; --e; }
    // max(T) = (1 - 2^-digits) * 2^max_exponent
    const long me = std::numeric_limits<T>::max_exponent;
    const long double eps = std::ldexp(1.0L, -std::numeric_limits<T>::digits + 1);
    if (e > me + 1) return +1;
    if (e < me - 1) return -1;
    const long double mx = 1.0L - std::ldexp(1.0L, -std::numeric_limits<T>::digits);
    const long double r = std::ldexp(p, (int)(e - me)) / mx;     // (|x| * m) / max(T), no overflow possible here
    if (r > 1 + 4 * eps) return +1;
    if (r < 1 - 4 * eps) return -1;
    return 0;
}
template <typename I>
void runf(int id) {
    typedef typename I::T T;
    typename I::Target target{};
    const long double m = I::m();
    std::vector<T> vals;
    const T mx = std::numeric_limits<T>::max();
    const T thr = static_cast<T>(static_cast<long double>(mx) / m);   // breakpoint (may be inf / 0)
    const T centers[] = {thr, mx, std::numeric_limits<T>::min(), std::numeric_limits<T>::denorm_min(), T(1), T(0),
                         static_cast<T>(1 / m), static_cast<T>(thr / 2), static_cast<T>(thr * 2)};
    for (T c : centers) {
        if (!(c == c) || std::isinf(c)) c = mx;
        T up = c, dn = c;
        for (int k = 0; k < I::RADIUS; ++k) {
            vals.push_back(up); vals.push_back(-up); vals.push_back(dn); vals.push_back(-dn);
            up = std::nextafter(up, std::numeric_limits<T>::infinity());
            dn = std::nextafter(dn, T(0));
        }
    }
    for (int e = std::numeric_limits<T>::min_exponent - std::numeric_limits<T>::digits; e <= std::numeric_limits<T>::max_exponent; e += I::ESTEP) {
        const long double fr[] = {0.5L, 0.5L + std::ldexp(1.0L, -std::numeric_limits<T>::digits), 0.75L, 1.0L - std::ldexp(1.0L, -std::numeric_limits<T>::digits)};
        for (long double f : fr) { T v = static_cast<T>(std::ldexp(f, e)); if (std::isfinite(v)) { vals.push_back(v); vals.push_back(-v); } }
    }
    unsigned long long n = 0, n_ovf = 0, n_band = 0, n_viol = 0, n_trunc = 0;
    int shown = 0;
    for (T x : vals) {
        if (!std::isfinite(x)) continue;
        const auto q = au::meters(x);
        const bool lo = au::will_conversion_overflow(q, target);
        const bool lt = au::will_conversion_truncate(q, target);
        const bool ll = au::is_conversion_lossy(q, target);
        const int c = classify<T>(x, m);
        ++n; n_ovf += lo; n_band += (c == 0); n_trunc += lt;
        const char *kind = nullptr;
        if (c > 0 && !lo) kind = "float-ovf-fn";
        else if (c < 0 && lo) kind = "float-ovf-fp";
        else if (ll != (lo || lt)) kind = "lossy-not-disjunction";
        if (kind) {
            ++n_viol;
            if (shown++ < 3) std::printf("V {\"inst\":%d,\"T\":\"%s\",\"m\":\"%s\",\"x\":\"%La\",\"kind\":\"%s\",\"lib_ovf\":%d}\n", id, I::tname(), I::mname(), (long double)x, kind, (int)lo);
        }
    }
    std::printf("S {\"inst\":%d,\"T\":\"%s\",\"m\":\"%s\",\"evals\":%llu,\"ovf\":%llu,\"band\":%llu,\"viol\":%llu,\"trunc\":%llu}\n", id, I::tname(), I::mname(), n, n_ovf, n_band, n_viol, n_trunc);
}
}
'''


def explore_float(run, only=None):
    from . import model
    from .checks.c06 import mag_expr
    from fractions import Fraction as Fr
    tier = run.tier
    cfg = core.GXX14
    mags = [("2", model.mag_int(2)), ("1/2", model.mag_ratio(1, 2)), ("1000", model.mag_int(1000)), ("1/1000", model.mag_ratio(1, 1000)),
            ("10^9", model.mag_int(10 ** 9)), ("10^-9", model.mag_ratio(1, 10 ** 9)), ("10^30", model.vpow(model.mag_int(10), 30)),
            ("10^-30", model.vpow(model.mag_int(10), -30)), ("10^38", model.vpow(model.mag_int(10), 38)), ("10^39", model.vpow(model.mag_int(10), 39)),
            ("10^300", model.vpow(model.mag_int(10), 300)), ("10^-300", model.vpow(model.mag_int(10), -300)), ("10^4000", model.vpow(model.mag_int(10), 4000)),
            ("2^127", model.vpow(model.mag_int(2), 127)), ("2^128", model.vpow(model.mag_int(2), 128)), ("2^-126", model.vpow(model.mag_int(2), -126)),
            ("2^1023", model.vpow(model.mag_int(2), 1023)), ("2^-1000", model.vpow(model.mag_int(2), -1000)),
            ("1250/381", model.mag_ratio(1250, 381)), ("381/1250", model.mag_ratio(381, 1250)), ("5/9", model.mag_ratio(5, 9)), ("3600", model.mag_int(3600)),
            ("pi", dict(model.MAG_PI)), ("180/pi", model.vdiv(model.mag_int(180), model.MAG_PI)), ("pi/180", model.vdiv(model.MAG_PI, model.mag_int(180))),
            ("sqrt2", {2: Fr(1, 2)}), ("3", model.mag_int(3)), ("1/3", model.mag_ratio(1, 3)), ("2^64-59", model.mag_int(2 ** 64 - 59)),
            # round 3: factors adjacent to the representability edge of double, and factors just above / below 1
            ("10^308", model.vpow(model.mag_int(10), 308)), ("10^309", model.vpow(model.mag_int(10), 309)),
            ("10^-308", model.vpow(model.mag_int(10), -308)), ("(2^24+1)/2^24", model.mag_ratio(2 ** 24 + 1, 2 ** 24)),
            ("2^24/(2^24+1)", model.mag_ratio(2 ** 24, 2 ** 24 + 1)), ("1001/1000", model.mag_ratio(1001, 1000)),
            ("999/1000", model.mag_ratio(999, 1000)),
            # rationals whose numerator (or denominator) alone is outside a type's range while the ratio is well inside it
            ("10^39/7", model.vdiv(model.vpow(model.mag_int(10), 39), model.mag_int(7))),
            ("7/10^39", model.vdiv(model.mag_int(7), model.vpow(model.mag_int(10), 39))),
            ("10^309/7", model.vdiv(model.vpow(model.mag_int(10), 309), model.mag_int(7))),
            ("2^130/3^80", model.vdiv(model.vpow(model.mag_int(2), 130), model.vpow(model.mag_int(3), 80))),
            ("3^85/2^130", model.vdiv(model.vpow(model.mag_int(3), 85), model.vpow(model.mag_int(2), 130))),
            ("2^1030/3^640", model.vdiv(model.vpow(model.mag_int(2), 1030), model.vpow(model.mag_int(3), 640)))]
    if only is not None:
        mags = [x for x in mags if x[0] == only[1]]
    cands = [(t, name, m) for t in core.F3 for name, m in mags if only is None or t == only[0]]
    probes = []
    for idx, (t, name, m) in enumerate(cands):
        tgt = "decltype(au::Meters{} / (%s))" % mag_expr(m)
        probes.append(core.Probe(idx, "using Tg = %s; auto q = au::meters(static_cast<%s>(1)); (void)q.coerce_in(Tg{}); (void)au::will_conversion_overflow(q, Tg{});" % (tgt, t), "accept"))
    res, _ = core.run_probes(cfg, probes, os.path.join(run.wd, "fdom"), "fdom", flags=cflags(cfg))
    dom = [c for i, c in enumerate(cands) if res[i][0] == "accept"]
    if len(dom) < 0.5 * len(cands) and only is None:
        raise core.InfraError("float clause vacuity guard: %d of %d instances compile" % (len(dom), len(cands)))
    wd = os.path.join(run.wd, "float")
    os.makedirs(wd, exist_ok=True)
    out = [FLOAT_TEMPLATE, "namespace {"]
    for i, (t, name, m) in enumerate(dom):
        val = model.mag_decimal(m)
        out.append('struct F%d { typedef %s T; typedef decltype(au::Meters{} / (%s)) Target; static long double m() { return %sL; } '
                   'static const char *tname() { return "%s"; } static const char *mname() { return "%s"; } static const int RADIUS = %d; static const int ESTEP = %d; };'
                   % (i, t, mag_expr(m), "{:.30E}".format(val), t, name, 64 if tier == "quick" else 4096, 7 if tier == "quick" else 1))
    out.append("}")
    out.append("int main(int argc, char **argv) { int part = argc > 1 ? std::atoi(argv[1]) : 0, np = argc > 2 ? std::atoi(argv[2]) : 1; int k = 0;")
    for i in range(len(dom)):
        out.append("  if (k++ %% np == part) runf<F%d>(%d);" % (i, i))
    out.append("  return 0; }")
    src = os.path.join(wd, "fl.cc")
    open(src, "w").write("\n".join(out) + "\n")
    stats, viols = [], []
    for bcfg in (cfg, core.CLANG14):
        exe = os.path.join(wd, "fl_" + bcfg.name)
        fl = ["-O1"] + cflags(bcfg)
        rc, err = core.build_exe(bcfg, src, exe, fl)
        if rc != 0:
            raise core.InfraError("float sweep TU failed to build (%s):\n%s" % (bcfg, err[-2500:]))
        outs = core.pmap(lambda p: core.sh([exe, str(p), str(core.NCPU)], timeout=3600), range(core.NCPU))
        for rc, o, e in outs:
            if rc != 0:
                raise core.InfraError("float sweep failed: %s" % e[-500:])
            for line in o.split("\n"):
                if line.startswith("S "):
                    stats.append(dict(json.loads(line[2:]), build=str(bcfg)))
                elif line.startswith("V "):
                    viols.append(dict(json.loads(line[2:]), build=str(bcfg)))
    if only is not None:
        return viols
    seen = set()
    for v in viols:
        key = "C04:%s:T=%s:m=%s:x=%s" % (v["kind"], v["T"], v["m"], v["x"])
        if key in seen:
            continue
        seen.add(key)
        what = "%s: %s value x=%s scaled by %s: library overflow=%d" % (v["kind"], v["T"], v["x"], v["m"], v["lib_ovf"])
        run.violation(key, what, run.write_replay(key, {"kind": "float-value", "T": v["T"], "m": v["m"], "x": v["x"], "what": what}))
    if any(s["trunc"] for s in stats):
        pass   # floats: by convention no truncation; recorded only
    g = [s for s in stats if s["build"] == str(cfg)]
    return {"float_instances": len(dom), "float_instances_candidates": len(cands), "float_evaluations": sum(s["evals"] for s in stats),
            "float_builds": [str(cfg), str(core.CLANG14)],
            "float_dont_care_band": sum(s["band"] for s in g),
            "float_instances_with_both_outcomes": sum(1 for s in g if 0 < s["ovf"] < s["evals"])}


def replay_float(run, r, path):
    """Re-run the whole (small) alphabet of the one (T, factor) instance and look for the recorded value."""
    run.tier = r.get("tier", "quick")
    hits = [v for v in explore_float(run, only=(r["T"], r["m"])) if v["x"] == r["x"]]
    for h in hits:
        print("reproduced:", json.dumps(h))
    if hits:
        print("VIOLATION property=C04 replay=%s" % path)
        return 1
    print("not reproduced on the current tree: %s x=%s factor=%s" % (r["T"], r["x"], r["m"]))
    return 0
