"""Shared value-space explorer for C03 (cleared conversions exact + UB-free) and C04 (checkers exact).

Instances (T, N, D): source unit Meters, target unit Meters*D/N, so unit_ratio(source,target)=N/D.
Everything about the expected behaviour is computed by harness/sweep.hh::exact_scale (unsigned
128-bit arithmetic, no Au code) and by Python big integers for the window alphabet.
"""
import json
import math
import os
from math import gcd, isqrt

from . import core
from .core import BITS, I8, is_signed, promoted, tmax, tmin

CONSTEXPR_FLAGS_G = ["-fconstexpr-ops-limit=4000000000", "-fconstexpr-loop-limit=100000000",
                     "-fconstexpr-depth=2048", "-ftemplate-depth=2048"]
CONSTEXPR_FLAGS_C = ["-fconstexpr-steps=2000000000", "-fconstexpr-depth=2048",
                     "-ftemplate-depth=2048"]


SAN = ["-fsanitize=undefined,unsigned-integer-overflow,implicit-conversion", "-fno-sanitize=vptr,function,implicit-integer-sign-change",
       "-fsanitize-minimal-runtime", "-fsanitize-recover=all", "-fno-sanitize-link-runtime"]


def cflags(cfg):
    return CONSTEXPR_FLAGS_C if cfg.is_clang else CONSTEXPR_FLAGS_G


LIB_RATIOS = [(1250, 381), (5000, 127), (201168, 125), (1852, 1), (3600, 1), (86400, 1),
              (1000, 1), (10 ** 6, 1), (10 ** 9, 1), (10 ** 12, 1), (10 ** 18, 1), (1024, 1),
              (1024 ** 2, 1), (1024 ** 3, 1), (1024 ** 6, 1), (5, 9), (9, 5), (60, 1), (1, 60),
              (1, 1000), (1, 10 ** 6), (1, 10 ** 9), (1, 3600), (381, 1250), (127, 5000),
              (125, 201168), (1, 1852), (1, 1024), (100, 1), (1, 100), (127, 50), (3937, 1200),
              (1200, 3937), (45359237, 100000000), (100000000, 45359237), (1, 86400),
              (1000, 3600), (3600, 1000), (1609344, 1000), (1000, 1609344), (1, 10 ** 18),
              (25146, 15625)]
BIG_PRIMES = [2 ** 31 - 1, 2 ** 61 - 1, 2 ** 64 - 59]


def red(n, d):
    g = gcd(n, d)
    return n // g, d // g


def predicted_domain(t, n, d):
    """When does q.coerce_in(target) compile, per the code's documented structure."""
    if n == 1 and d == 1:
        return True
    if d == 1:
        return n <= tmax(t)
    if n == 1:
        return d <= tmax(t)
    pm = tmax(promoted(t))
    return n <= pm and d <= pm


def factor_grid(t, tier):
    tm, pm = tmax(t), tmax(promoted(t))
    s = set()
    for n in range(1, 13):
        for d in range(1, 13):
            if gcd(n, d) == 1:
                s.add((n, d))
    for n, d in LIB_RATIOS:
        s.add(red(n, d))
    bits = BITS[t]
    lims = {tm - 1, tm, tm + 1, pm - 1, pm, isqrt(tm) - 1, isqrt(tm), isqrt(tm) + 1,
            isqrt(pm) - 1, isqrt(pm), isqrt(pm) + 1, 2 ** (bits - 1), 2 ** bits - 1,
            2 ** (bits - 1) - 1, 2 ** (bits - 1) + 1}
    for L in lims:
        if L < 2 or L >= 2 ** 64:
            continue
        for c in (1, 2, 3, 7):
            s.add(red(L, c))
            s.add(red(c, L))
    # both numerator and denominator near the limits of T / of the promoted type (every branch of the
    # Max/MinNonOverflowingValue case analysis has a "large N, large D" corner)
    corner = sorted({tm, tm - 1, tm // 2 + 1, tm // 2 + 2, isqrt(pm), isqrt(pm) + 1, 2 ** (bits - 1) + 1, pm, pm - 1,
                     (tm * 10) // 11, 60000 if bits == 16 else tm - 5, 60001 if bits == 16 else tm - 4})
    for a in corner:
        for b in corner:
            if a != b and 2 <= a < 2 ** 64 and 2 <= b < 2 ** 64:
                s.add(red(a, b))
    for p in BIG_PRIMES:
        for c in (1, 3):
            s.add(red(p, c))
            s.add(red(c, p))
    s.discard((1, 1))
    s = sorted(x for x in s if x[0] < 2 ** 64 and x[1] < 2 ** 64)
    return s


def full32_subset(t):
    """Factors for the exhaustive 2^32 sweeps: every ApplyMagnitudeImpl / Max/MinNonOverflowing
    branch is hit at least once (32-bit types do not promote, exactly like 64-bit)."""
    tm = tmax(t)
    f = [(2, 1), (3, 1), (1000, 1), (65536, 1), (tm, 1), (tm - 1, 1),
         (1, 2), (1, 3), (1, 1000), (1, 65537), (1, tm),
         (2, 3), (5, 9), (127, 5000), (381, 1250), (1, 1),
         (3, 2), (9, 5), (5000, 127), (1250, 381), (201168, 125), (tm, 2), (2, tm), (tm, tm - 1),
         (tm - 1, tm)]
    out = []
    for n, d in f:
        n, d = red(n, d)
        if (n, d) != (1, 1) and predicted_domain(t, n, d) and (n, d) not in out:
            out.append((n, d))
    return out


def windows(t, n, d, r, r_small=24):
    """Breakpoint-complete window alphabet for a 32/64-bit instance -> merged [lo,hi] list."""
    p = promoted(t)
    tmn, tmx, pmn, pmx = tmin(t), tmax(t), tmin(p), tmax(p)
    big = {0, 1, -1, tmn, tmx, tmn + 1, tmx - 1}
    hi = min(pmx // n, (tmx * d) // n)
    big |= {hi, hi + 1}
    if tmn < 0:
        lo = -min((-pmn) // n, ((-tmn) * d) // n)
        big |= {lo, lo - 1}
    plaus = {tmx // n, pmx // n, (tmx * d) // n, pmx // d, (tmx // n) * d, tmx // d,
             (pmx // n) * d, (pmx * d) // n, isqrt(tmx), isqrt(pmx)}
    if tmn < 0:
        plaus |= {-x for x in plaus} | {tmn // n, -((-tmn) // n), -(((-tmn) * d) // n)}
    big |= plaus
    mult = set()
    for c in list(big):
        mult.add((c // d) * d)
        mult.add((c // d + 1) * d)
    small = set()
    for k in range(BITS[t] + 1):
        small.add(2 ** k)
        small.add(-(2 ** k))
    iv = []
    for c in big | mult:
        iv.append((c - r, c + r))
    for c in small:
        iv.append((c - r_small, c + r_small))
    iv = [(max(a, tmn), min(b, tmx)) for a, b in iv if b >= tmn and a <= tmx]
    iv.sort()
    merged = []
    for a, b in iv:
        if merged and a <= merged[-1][1] + 1:
            merged[-1] = (merged[-1][0], max(merged[-1][1], b))
        else:
            merged.append((a, b))
    return merged


def target_expr(n, d):
    e = "au::Meters{}"
    if d != 1:
        e += " * au::mag<%du>()" % d
    if n != 1:
        e += " / au::mag<%du>()" % n
    return "decltype(%s)" % e


def lit128(v):
    """C++ expression of type vf::i128 for a Python int in [-2^127, 2^127)."""
    if -2 ** 63 <= v < 2 ** 63:
        return "(vf::i128)%dLL" % v if v != -2 ** 63 else "(-(vf::i128)9223372036854775807LL-1)"
    if 0 <= v < 2 ** 64:
        return "(vf::i128)%dULL" % v
    raise ValueError(v)


RUN_TEMPLATE = r'''
#include "sweep.hh"
#include "c05_ubsan.hh"   // counts EVERY sanitizer event (the full runtime reports each location only once)
static inline unsigned long ub_total() { return vf5_ub_arith + vf5_ub_fcast + vf5_ub_other; }
namespace {
template <bool B> using BoolC = std::integral_constant<bool, B>;

static void emit_v(int id, const char *T, unsigned long long N, unsigned long long D,
                   const std::string &x, const char *kind, bool lt, bool lo, bool ll,
                   const vf::Exact &e, const std::string &got) {
    std::printf("V {\"inst\":%d,\"T\":\"%s\",\"N\":\"%llu\",\"D\":\"%llu\",\"x\":\"%s\",\"kind\":\"%s\","
                "\"lib\":{\"trunc\":%d,\"ovf\":%d,\"lossy\":%d},\"exact\":{\"trunc\":%d,\"prod_in_p\":%d,"
                "\"outside_t\":%d,\"band\":%d,\"result\":\"%s%s\"},\"got\":\"%s\"}\n",
                id, T, N, D, x.c_str(), kind, lt, lo, ll, e.trunc, e.prod_in_p, e.outside_t,
                e.band, e.neg ? "-" : "", vf::u128_str(e.q).c_str(), got.c_str());
}

template <typename I, typename T>
void policy_path(BoolC<true>, au::Quantity<au::Meters, T> q, T expect, bool &bad, T &got) {
    typename I::Target target{};
    T a = q.in(target);
    T b = q.as(target).in(target);
    if (a != expect) { bad = true; got = a; }
    if (b != expect) { bad = true; got = b; }
}
template <typename I, typename T>
void policy_path(BoolC<false>, au::Quantity<au::Meters, T>, T, bool &, T &) {}

template <typename I>
void run(int id, const vf::Interval *iv, int niv) {
    typedef typename I::T T;
    typename I::Target target{};
    constexpr bool POLICY =
        au::implicit_rep_permitted_from_source_to_target<T>(au::Meters{}, typename I::Target{});
    vf::Stats st;
    int shown[8] = {0, 0, 0, 0, 0, 0, 0, 0};
    const int SHOW = 3;
    for (int k = 0; k < niv; ++k) {
        for (vf::i128 v = iv[k].lo; v <= iv[k].hi; ++v) {
            const T x = static_cast<T>(v);
            const auto q = au::meters(x);
            const unsigned long ub0 = ub_total();
            const bool lt = au::will_conversion_truncate(q, target);
            const bool lo = au::will_conversion_overflow(q, target);
            const bool ll = au::is_conversion_lossy(q, target);
            const vf::Exact e = vf::exact_scale<T>(x, I::N, I::D);
            ++st.evals;
            st.n_trunc += lt;
            st.n_ovf += lo;
            st.n_band += e.band;
            const char *kind = nullptr;
            int slot = 0;
            if (lt != e.trunc) { kind = lt ? "trunc-fp" : "trunc-fn"; slot = 0; }
            else if (!e.band && lo != e.overflow()) { kind = lo ? "ovf-fp" : "ovf-fn"; slot = 1; }
            else if (ll != (e.trunc || e.overflow())) { kind = ll ? "lossy-fp" : "lossy-fn"; slot = 2; }
            else if (ll != (lt || lo)) { kind = "lossy-not-disjunction"; slot = 3; }
            if (ub_total() != ub0) { kind = "ubsan-in-checker"; slot = 6; ++st.n_ubsan; }
            if (kind) {
                ++st.n_viol;
                if (shown[slot]++ < SHOW)
                    emit_v(id, I::tname(), I::N, I::D, vf::int_str(x), kind, lt, lo, ll, e, "");
            }
            if (!ll) {
                ++st.n_cleared;
                if (e.trunc || e.overflow()) {
                    // cleared although the exact computation is not exact/defined: never executed
                    ++st.n_viol;
                    if (shown[4]++ < SHOW)
                        emit_v(id, I::tname(), I::N, I::D, vf::int_str(x), "cleared-not-exact", lt,
                               lo, ll, e, "");
                } else {
                    const T expect = e.neg ? static_cast<T>(-(vf::i128)e.q) : static_cast<T>(e.q);
                    const unsigned long ub1 = ub_total();
                    const T r1 = q.coerce_in(target);
                    const T r2 = q.coerce_as(target).in(target);
                    bool bad = (r1 != expect) || (r2 != expect);
                    T got = (r1 != expect) ? r1 : r2;
                    policy_path<I, T>(BoolC<POLICY>{}, q, expect, bad, got);
                    st.n_policy += POLICY;
                    if (bad) {
                        ++st.n_viol;
                        if (shown[5]++ < SHOW)
                            emit_v(id, I::tname(), I::N, I::D, vf::int_str(x), "cleared-wrong-value",
                                   lt, lo, ll, e, vf::int_str(got));
                    }
                    if (ub_total() != ub1) {
                        ++st.n_viol;
                        ++st.n_ubsan;
                        if (shown[7]++ < SHOW)
                            emit_v(id, I::tname(), I::N, I::D, vf::int_str(x), "ubsan-in-conversion",
                                   lt, lo, ll, e, "");
                    }
                }
            }
        }
    }
    std::printf("S {\"inst\":%d,\"T\":\"%s\",\"N\":\"%llu\",\"D\":\"%llu\",\"evals\":%llu,\"trunc\":%llu,"
                "\"ovf\":%llu,\"cleared\":%llu,\"band\":%llu,\"viol\":%llu,\"ubsan\":%llu,\"policy\":%llu}\n",
                id, I::tname(), (unsigned long long)I::N, (unsigned long long)I::D, st.evals,
                st.n_trunc, st.n_ovf, st.n_cleared, st.n_band, st.n_viol, st.n_ubsan, st.n_policy);
    std::fflush(stdout);
}
}  // namespace
'''


def emit_tu(path, insts, ivs):
    """insts: list of (id, T, N, D); ivs: id -> list of (lo, hi)."""
    out = [RUN_TEMPLATE, "namespace {"]
    for (i, t, n, d) in insts:
        out.append("struct I%d { typedef %s T; static constexpr std::uint64_t N = %dull, D = %dull; "
                   "typedef %s Target; static const char *tname() { return \"%s\"; } };"
                   % (i, t, n, d, target_expr(n, d), t))
        arr = ", ".join("{%s, %s}" % (lit128(a), lit128(b)) for a, b in ivs[i])
        out.append("static const vf::Interval IV%d[] = {%s};" % (i, arr))
    out.append("}")
    out.append("int main(int argc, char **argv) {")
    out.append("  int part = argc > 1 ? std::atoi(argv[1]) : 0, nparts = argc > 2 ? std::atoi(argv[2]) : 1;")
    out.append("  int k = 0;")
    for (i, t, n, d) in insts:
        out.append("  if (k++ %% nparts == part) run<I%d>(%d, IV%d, %d);" % (i, i, i, len(ivs[i])))
    out.append("  return 0; }")
    with open(path, "w") as f:
        f.write("\n".join(out) + "\n")


def domain_probes(run, cfg, cands):
    """cands: list of (T,N,D) -> set of those for which coerce_in compiles (observed)."""
    probes = []
    for idx, (t, n, d) in enumerate(cands):
        code = ("using Tg = %s; auto q = au::meters(%s{1}); (void)q.coerce_in(Tg{}); "
                "(void)q.coerce_as(Tg{}); (void)au::will_conversion_overflow(q, Tg{}); "
                "(void)au::will_conversion_truncate(q, Tg{}); (void)au::is_conversion_lossy(q, Tg{});"
                % (target_expr(n, d), t))
        probes.append(core.Probe(idx, code, "accept" if predicted_domain(t, n, d) else "reject",
                                 {"T": t, "N": n, "D": d}))
    res, _ = core.run_probes(cfg, probes, os.path.join(run.wd, "dom"), "dom", flags=cflags(cfg))
    dom, mism = [], []
    for p in probes:
        v, diag = res[p.pid]
        if v == "accept":
            dom.append(cands[p.pid])
        if v != p.expect:
            mism.append({"T": p.meta["T"], "N": str(p.meta["N"]), "D": str(p.meta["D"]),
                         "predicted": p.expect, "observed": v, "diag": diag})
    return dom, mism


def build_and_run(run, cfg, tag, insts, ivs, flags, nsplit, parts_per_bin=1, timeout=7200):
    """Split instances over nsplit TUs, build all, run all; returns (stats, violations)."""
    wd = os.path.join(run.wd, tag)
    os.makedirs(wd, exist_ok=True)
    groups = [insts[i::nsplit] for i in range(nsplit)]
    groups = [g for g in groups if g]
    fl = ["-O2"] + list(flags) + cflags(cfg)

    def build(k):
        src = os.path.join(wd, "sw%d.cc" % k)
        exe = os.path.join(wd, "sw%d" % k)
        emit_tu(src, groups[k], ivs)
        rc, err = core.build_exe(cfg, src, exe, fl)
        if rc != 0:
            raise core.InfraError("sweep TU failed to build (%s):\n%s" % (src, err[-3000:]))
        return exe

    core.pch_dir(cfg, fl)
    exes = core.pmap(build, range(len(groups)))
    jobs = [(e, p) for e in exes for p in range(parts_per_bin)]

    def runexe(job):
        exe, part = job
        env = dict(os.environ)
        env["UBSAN_OPTIONS"] = "halt_on_error=0:print_stacktrace=0:silence_unsigned_overflow=0"
        rc, out, err = core.sh([exe, str(part), str(parts_per_bin)], timeout=timeout, env=env)
        if rc != 0:
            raise core.InfraError("sweep binary %s failed rc=%d: %s" % (exe, rc, err[-2000:]))
        return out

    stats, viols = [], []
    for out in core.pmap(runexe, jobs):
        for line in out.split("\n"):
            if line.startswith("S "):
                stats.append(json.loads(line[2:]))
            elif line.startswith("V "):
                viols.append(json.loads(line[2:]))
    return stats, viols


C03_KINDS = {"cleared-not-exact", "cleared-wrong-value", "ubsan-in-conversion"}
C04_KINDS = {"trunc-fp", "trunc-fn", "ovf-fp", "ovf-fn", "lossy-fp", "lossy-fn",
             "lossy-not-disjunction", "ubsan-in-checker"}


def explore(run, kinds):
    """The integer part shared by C03/C04. Returns coverage pieces."""
    tier = run.tier
    gcfg = core.GXX14
    ccfg = core.CLANG14
    cands = []
    for t in I8:
        for (n, d) in factor_grid(t, tier):
            cands.append((t, n, d))
    dom, mism = domain_probes(run, gcfg, cands)
    if len(dom) < 0.5 * len(cands):
        raise core.InfraError("vacuity guard: only %d of %d factor-grid instances are in-domain"
                              % (len(dom), len(cands)))
    r = 2 ** 12 if tier == "quick" else 2 ** 16
    insts, ivs = [], {}
    for idx, (t, n, d) in enumerate(dom):
        insts.append((idx, t, n, d))
        if BITS[t] <= 16:
            ivs[idx] = [(tmin(t), tmax(t))]
        else:
            ivs[idx] = windows(t, n, d, r if BITS[t] == 64 or tier == "quick" else 2 ** 14)
    allstats, allviols = [], []
    # plain g++ build: the deciding oracle comparison
    s, v = build_and_run(run, gcfg, "plain", insts, ivs, [], nsplit=core.NCPU * 2)
    allstats += [dict(x, build="g++") for x in s]
    allviols += [dict(x, build="g++ -O2") for x in v]
    # clang + UBSan (signed overflow, unsigned wrap, value-changing implicit narrowing) observer
    san = list(SAN)
    s2, v2 = build_and_run(run, ccfg, "ubsan", insts, ivs, san, nsplit=core.NCPU * 2)
    allstats += [dict(x, build="clang-ubsan") for x in s2]
    allviols += [dict(x, build="clang++ -O2 ubsan") for x in v2]
    full = []
    if tier == "thorough":
        finsts, fivs = [], {}
        k = 100000
        for t in ("int32_t", "uint32_t"):
            for (n, d) in full32_subset(t):
                if (t, n, d) in set(dom) or predicted_domain(t, n, d):
                    finsts.append((k, t, n, d))
                    fivs[k] = [(tmin(t), tmax(t))]
                    k += 1
        s3, v3 = build_and_run(run, ccfg, "full32", finsts, fivs, san, nsplit=len(finsts))
        allstats += [dict(x, build="clang-ubsan-full32") for x in s3]
        allviols += [dict(x, build="clang++ -O2 ubsan") for x in v3]
        full = finsts
    # report
    nviol = 0
    for v in allviols:
        if v["kind"] not in kinds:
            continue
        key = "%s:%s:T=%s:N=%s:D=%s:x=%s" % (run.prop, v["kind"], v["T"], v["N"], v["D"], v["x"])
        what = ("%s for %s x=%s factor=%s/%s: library trunc=%d ovf=%d lossy=%d; exact trunc=%d "
                "prod_in_promoted=%d outside_T=%d result=%s got=%s [%s]" % (
                    v["kind"], v["T"], v["x"], v["N"], v["D"], v["lib"]["trunc"], v["lib"]["ovf"],
                    v["lib"]["lossy"], v["exact"]["trunc"], v["exact"]["prod_in_p"],
                    v["exact"]["outside_t"], v["exact"]["result"], v.get("got", ""), v["build"]))
        if run.match_known(key) is None:
            rp = run.write_replay(key, {"kind": "value", "instance": {"T": v["T"], "N": v["N"],
                                                                      "D": v["D"]},
                                        "value": v["x"], "observed": v, "what": what})
            run.violation(key, what, rp)
        else:
            run.violation(key, what)
        nviol += 1
    evals = sum(s["evals"] for s in allstats)
    nontriv = sum(1 for s in allstats if s["build"] == "g++" and s["cleared"] > 0 and
                  s["cleared"] < s["evals"])
    vac = [s for s in allstats if s["build"] == "g++" and s["evals"] == 0]
    if vac:
        raise core.InfraError("vacuous instances: %s" % vac[:3])
    return {
        "evaluations": evals,
        "instances_in_domain": len(dom), "instances_candidates": len(cands),
        "domain_mismatch": mism[:20], "domain_mismatch_count": len(mism),
        "cleared_conversions_executed": sum(s["cleared"] for s in allstats),
        "policy_permitted_in_as_executed": sum(s["policy"] for s in allstats),
        "dont_care_band_values": sum(s["band"] for s in allstats),
        "ubsan_reports": sum(s["ubsan"] for s in allstats),
        "full_2pow32_instances": len(full),
        "distinct_nontrivial": nontriv,
        "window_radius_64bit": r,
        "raw_violation_records": nviol,
        "samples": [{"T": s["T"], "N": s["N"], "D": s["D"], "values": s["evals"],
                     "lossy": s["evals"] - s["cleared"], "cleared_and_executed": s["cleared"]}
                    for s in allstats[:: max(1, len(allstats) // 6)]][:8],
    }


def replay(path, prop):
    """Re-run exactly one (instance, value) stand-alone; exit 1 iff the violation reproduces."""
    r = json.load(open(path))
    t, n, d = r["instance"]["T"], int(r["instance"]["N"]), int(r["instance"]["D"])
    x = int(r["value"])
    run = core.Run(prop, "quick", "exploration")
    run.wd = os.path.join(core.BUILD, prop, "replay")
    os.makedirs(run.wd, exist_ok=True)
    kinds = C03_KINDS if prop == "C03" else C04_KINDS
    san = list(SAN)
    hits = []
    for cfg, fl, tag in ((core.GXX14, [], "rp"), (core.CLANG14, san, "rpsan")):
        s, v = build_and_run(run, cfg, tag, [(0, t, n, d)], {0: [(x, x)]}, fl, nsplit=1)
        hits += [dict(z, build=str(cfg)) for z in v if z["kind"] in kinds]
    for h in hits:
        print("reproduced:", json.dumps(h))
    if hits:
        print("VIOLATION property=%s replay=%s" % (prop, path))
        return 1
    print("not reproduced on the current tree: %s x=%d factor=%d/%d" % (t, x, n, d))
    return 0


# ------------------------------------------------------------------------------------------------
# C04, floating clause: overflow is reported for every finite value whose scaled magnitude exceeds
# the type's largest finite value and never for values safely below it.

FLOAT_TEMPLATE = r'''
#include "sweep.hh"
#include <cmath>
#include <cfloat>
namespace {
// |x| * m compared with max(T), all in (mantissa, exponent) form so nothing overflows.
// returns +1: certainly above max*(1+4eps); -1: certainly below max*(1-4eps); 0: band
template <typename T>
int classify(T x, long double m) {
    if (x == 0) return -1;
    int ex = 0, em = 0;
    long double fx = std::frexp(static_cast<long double>(std::fabs(x)), &ex);
    long double fm = std::frexp(m, &em);
    long double p = fx * fm;            // in [0.25, 1)
    long e = (long)ex + em;
    if (p < 0.5L) { p *= 2; --e; }
    // max(T) = (1 - 2^-digits) * 2^max_exponent
    const long me = std::numeric_limits<T>::max_exponent;
    const long double eps = std::ldexp(1.0L, -std::numeric_limits<T>::digits + 1);
    if (e > me + 1) return +1;
    if (e < me - 1) return -1;
    const long double mx = 1.0L - std::ldexp(1.0L, -std::numeric_limits<T>::digits);
    const long double r = std::ldexp(p, (int)(e - me)) / mx;     // (|x| * m) / max(T), no overflow possible here
    if (r > 1 + 4 * eps) return +1;
    if (r < 1 - 4 * eps) return -1;
    return 0;
}
template <typename I>
void runf(int id) {
    typedef typename I::T T;
    typename I::Target target{};
    const long double m = I::m();
    std::vector<T> vals;
    const T mx = std::numeric_limits<T>::max();
    const T thr = static_cast<T>(static_cast<long double>(mx) / m);   // breakpoint (may be inf / 0)
    const T centers[] = {thr, mx, std::numeric_limits<T>::min(), std::numeric_limits<T>::denorm_min(), T(1), T(0),
                         static_cast<T>(1 / m), static_cast<T>(thr / 2), static_cast<T>(thr * 2)};
    for (T c : centers) {
        if (!(c == c) || std::isinf(c)) c = mx;
        T up = c, dn = c;
        for (int k = 0; k < I::RADIUS; ++k) {
            vals.push_back(up); vals.push_back(-up); vals.push_back(dn); vals.push_back(-dn);
            up = std::nextafter(up, std::numeric_limits<T>::infinity());
            dn = std::nextafter(dn, T(0));
        }
    }
    for (int e = std::numeric_limits<T>::min_exponent - std::numeric_limits<T>::digits; e <= std::numeric_limits<T>::max_exponent; e += I::ESTEP) {
        const long double fr[] = {0.5L, 0.5L + std::ldexp(1.0L, -std::numeric_limits<T>::digits), 0.75L, 1.0L - std::ldexp(1.0L, -std::numeric_limits<T>::digits)};
        for (long double f : fr) { T v = static_cast<T>(std::ldexp(f, e)); if (std::isfinite(v)) { vals.push_back(v); vals.push_back(-v); } }
    }
    unsigned long long n = 0, n_ovf = 0, n_band = 0, n_viol = 0, n_trunc = 0;
    int shown = 0;
    for (T x : vals) {
        if (!std::isfinite(x)) continue;
        const auto q = au::meters(x);
        const bool lo = au::will_conversion_overflow(q, target);
        const bool lt = au::will_conversion_truncate(q, target);
        const bool ll = au::is_conversion_lossy(q, target);
        const int c = classify<T>(x, m);
        ++n; n_ovf += lo; n_band += (c == 0); n_trunc += lt;
        const char *kind = nullptr;
        if (c > 0 && !lo) kind = "float-ovf-fn";
        else if (c < 0 && lo) kind = "float-ovf-fp";
        else if (ll != (lo || lt)) kind = "lossy-not-disjunction";
        if (kind) {
            ++n_viol;
            if (shown++ < 3) std::printf("V {\"inst\":%d,\"T\":\"%s\",\"m\":\"%s\",\"x\":\"%La\",\"kind\":\"%s\",\"lib_ovf\":%d}\n", id, I::tname(), I::mname(), (long double)x, kind, (int)lo);
        }
    }
    std::printf("S {\"inst\":%d,\"T\":\"%s\",\"m\":\"%s\",\"evals\":%llu,\"ovf\":%llu,\"band\":%llu,\"viol\":%llu,\"trunc\":%llu}\n", id, I::tname(), I::mname(), n, n_ovf, n_band, n_viol, n_trunc);
}
}
'''


def explore_float(run):
    from . import model
    from .checks.c06 import mag_expr
    from fractions import Fraction as Fr
    tier = run.tier
    cfg = core.GXX14
    mags = [("2", model.mag_int(2)), ("1/2", model.mag_ratio(1, 2)), ("1000", model.mag_int(1000)), ("1/1000", model.mag_ratio(1, 1000)),
            ("10^9", model.mag_int(10 ** 9)), ("10^-9", model.mag_ratio(1, 10 ** 9)), ("10^30", model.vpow(model.mag_int(10), 30)),
            ("10^-30", model.vpow(model.mag_int(10), -30)), ("10^38", model.vpow(model.mag_int(10), 38)), ("10^39", model.vpow(model.mag_int(10), 39)),
            ("10^300", model.vpow(model.mag_int(10), 300)), ("10^-300", model.vpow(model.mag_int(10), -300)), ("10^4000", model.vpow(model.mag_int(10), 4000)),
            ("2^127", model.vpow(model.mag_int(2), 127)), ("2^128", model.vpow(model.mag_int(2), 128)), ("2^-126", model.vpow(model.mag_int(2), -126)),
            ("2^1023", model.vpow(model.mag_int(2), 1023)), ("2^-1000", model.vpow(model.mag_int(2), -1000)),
            ("1250/381", model.mag_ratio(1250, 381)), ("381/1250", model.mag_ratio(381, 1250)), ("5/9", model.mag_ratio(5, 9)), ("3600", model.mag_int(3600)),
            ("pi", dict(model.MAG_PI)), ("180/pi", model.vdiv(model.mag_int(180), model.MAG_PI)), ("pi/180", model.vdiv(model.MAG_PI, model.mag_int(180))),
            ("sqrt2", {2: Fr(1, 2)}), ("3", model.mag_int(3)), ("1/3", model.mag_ratio(1, 3)), ("2^64-59", model.mag_int(2 ** 64 - 59))]
    cands = [(t, name, m) for t in core.F3 for name, m in mags]
    probes = []
    for idx, (t, name, m) in enumerate(cands):
        tgt = "decltype(au::Meters{} / (%s))" % mag_expr(m)
        probes.append(core.Probe(idx, "using Tg = %s; auto q = au::meters(static_cast<%s>(1)); (void)q.coerce_in(Tg{}); (void)au::will_conversion_overflow(q, Tg{});" % (tgt, t), "accept"))
    res, _ = core.run_probes(cfg, probes, os.path.join(run.wd, "fdom"), "fdom", flags=cflags(cfg))
    dom = [c for i, c in enumerate(cands) if res[i][0] == "accept"]
    if len(dom) < 0.5 * len(cands):
        raise core.InfraError("float clause vacuity guard: %d of %d instances compile" % (len(dom), len(cands)))
    wd = os.path.join(run.wd, "float")
    os.makedirs(wd, exist_ok=True)
    out = [FLOAT_TEMPLATE, "namespace {"]
    for i, (t, name, m) in enumerate(dom):
        val = model.mag_decimal(m)
        out.append('struct F%d { typedef %s T; typedef decltype(au::Meters{} / (%s)) Target; static long double m() { return %sL; } '
                   'static const char *tname() { return "%s"; } static const char *mname() { return "%s"; } static const int RADIUS = %d; static const int ESTEP = %d; };'
                   % (i, t, mag_expr(m), "{:.30E}".format(val), t, name, 64 if tier == "quick" else 4096, 7 if tier == "quick" else 1))
    out.append("}")
    out.append("int main(int argc, char **argv) { int part = argc > 1 ? std::atoi(argv[1]) : 0, np = argc > 2 ? std::atoi(argv[2]) : 1; int k = 0;")
    for i in range(len(dom)):
        out.append("  if (k++ %% np == part) runf<F%d>(%d);" % (i, i))
    out.append("  return 0; }")
    src = os.path.join(wd, "fl.cc")
    open(src, "w").write("\n".join(out) + "\n")
    exe = os.path.join(wd, "fl")
    fl = ["-O1"] + cflags(cfg)
    rc, err = core.build_exe(cfg, src, exe, fl)
    if rc != 0:
        raise core.InfraError("float sweep TU failed to build:\n%s" % err[-2500:])
    stats, viols = [], []
    outs = core.pmap(lambda p: core.sh([exe, str(p), str(core.NCPU)], timeout=3600), range(core.NCPU))
    for rc, o, e in outs:
        if rc != 0:
            raise core.InfraError("float sweep failed: %s" % e[-500:])
        for line in o.split("\n"):
            if line.startswith("S "):
                stats.append(json.loads(line[2:]))
            elif line.startswith("V "):
                viols.append(json.loads(line[2:]))
    for v in viols:
        key = "C04:%s:T=%s:m=%s:x=%s" % (v["kind"], v["T"], v["m"], v["x"])
        what = "%s: %s value x=%s scaled by %s: library overflow=%d" % (v["kind"], v["T"], v["x"], v["m"], v["lib_ovf"])
        run.violation(key, what, run.write_replay(key, {"kind": "float-value", "T": v["T"], "m": v["m"], "x": v["x"], "what": what}))
    if any(s["trunc"] for s in stats):
        pass   # floats: by convention no truncation; recorded only
    return {"float_instances": len(dom), "float_instances_candidates": len(cands), "float_evaluations": sum(s["evals"] for s in stats),
            "float_dont_care_band": sum(s["band"] for s in stats),
            "float_instances_with_both_outcomes": sum(1 for s in stats if 0 < s["ovf"] < s["evals"])}
