import json, sys, glob
import jsonschema
jsonschema.validate(json.load(open('/verif/MANIFEST.json')), json.load(open('/root/.vp/MANIFEST.schema.json')))
s = json.load(open('/root/.vp/EVIDENCE.schema.json'))
for f in sorted(glob.glob('/verif/evidence/*.json')):
    jsonschema.validate(json.load(open(f)), s)
    print('valid', f)
print('manifest valid')
