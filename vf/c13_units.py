"""C13 — unit alphabet: every library unit (vf/model.py LIB) + generated compound units.

Each entry: name (key-safe), cpp (unit type), maker (quantity maker expression), ptmaker (point maker
expression), symbol (the library's unit symbol `au::symbols::x`, or None when the library defines none).
Generated units live in namespace g13 of PREAMBLE (file-scope code for every TU).
"""
from . import model

PREAMBLE = r'''
namespace g13 {
// user-defined named unit with its own magnitude (no label)
struct Zorks : au::UnitImpl<au::Length, decltype(au::mag<11>())> {};
// user-defined named unit that wraps a scaled library unit
struct Trifeet : decltype(au::Feet{} * au::mag<3>()) {};
// user-defined named *point* unit with an origin
struct Zelsius : decltype(au::Kelvins{} * au::mag<2>()) {
    static constexpr auto origin() { return (au::milli(au::kelvins))(10000); }
};
using MPS = decltype(au::Meters{} / au::Seconds{});
using MPS2 = decltype(au::Meters{} / au::pow<2>(au::Seconds{}));
using NM = decltype(au::Newtons{} * au::Meters{});
using M3 = decltype(au::pow<3>(au::Meters{}));
using InvS = decltype(au::pow<-1>(au::Seconds{}));
using RootHz = decltype(au::root<2>(au::Hertz{}));
using Feet3 = decltype(au::Feet{} * au::mag<3>());
using In5_7 = decltype(au::Inches{} * au::mag<5>() / au::mag<7>());
using PiRad = decltype(au::Radians{} * au::Magnitude<au::Pi>{});
using KiloM = au::Kilo<au::Meters>;
using MilliS = au::Milli<au::Seconds>;
using GibiB = au::Gibi<au::Bytes>;
using KmPerH = decltype(au::Kilo<au::Meters>{} / au::Hours{});
using PctPerDeg = decltype(au::Percent{} / au::Degrees{});
using MperM = decltype(au::Meters{} / au::Meters{});   // unitless by cancellation
}
'''

GEN = ["Zorks", "Trifeet", "Zelsius", "MPS", "MPS2", "NM", "M3", "InvS", "RootHz", "Feet3", "In5_7",
       "PiRad", "KiloM", "MilliS", "GibiB", "KmPerH", "PctPerDeg", "MperM"]

# point makers the library itself defines
LIB_PT = {"kelvins": "au::kelvins_pt", "celsius": "au::celsius_pt", "fahrenheit": "au::fahrenheit_pt",
          "meters": "au::meters_pt"}


class U:
    __slots__ = ("name", "cpp", "maker", "ptmaker", "lib", "symbol")

    def __init__(self, name, cpp, maker, ptmaker, lib, symbol=None):
        self.name, self.cpp, self.maker, self.ptmaker, self.lib, self.symbol = name, cpp, maker, ptmaker, lib, symbol

    def __repr__(self):
        return self.name


def all_units():
    out = []
    for u in model.LIB:
        out.append(U(u.name, u.cpp, u.maker, LIB_PT.get(u.name, "au::QuantityPointMaker<%s>{}" % u.cpp), True, u.symbol))
    for g in GEN:
        c = "g13::" + g
        out.append(U("gen." + g, c, "au::QuantityMaker<%s>{}" % c, "au::QuantityPointMaker<%s>{}" % c, False))
    return out


# units on which operators (result types, acceptance, value sweeps) are explored; layout facts use all units
THOROUGH_OPS_LIB = ["seconds", "radians", "fahrenheit", "bytes", "hertz", "miles", "pounds_force", "degrees"]
QUICK_OPS = ["meters", "unos", "percent", "celsius", "gen.MPS", "gen.Feet3", "gen.KiloM", "gen.MperM", "gen.PiRad"]
# quick tier: units on which the QuantityPoint operators are probed and swept (thorough: every ops unit);
# celsius has a non-trivial origin, gen.MPS is a compound unit without a library point maker
QUICK_PT = ["meters", "celsius", "gen.MPS"]
