"""C15 (a): floor_/ceil_/round_{in,as} for Quantity and QuantityPoint.

Instances = (source unit -> target unit) x source rep x three explicit output reps.  The exact value of x [source]
in the target unit is e = x * ratio + offset with ratio = mag(source)/mag(target) and, for points,
offset = (origin(source) - origin(target)) / mag(target), all from vf/model.py.  The harness evaluates the statement's
inequalities on e in long double; every violation it reports is re-decided here in exact rational arithmetic
(90-digit Decimal for the irrational angle ratios) before it is reported.
"""
import os
from decimal import Decimal
from fractions import Fraction as Fr

from . import core, model
from . import c15_common as C
from .core import BITS
from .core import ffloat as _ffloat

EPS = {"float": Fr(1, 2 ** 23), "double": Fr(1, 2 ** 52), "long double": Fr(1, 2 ** 63)}
DENORM = {"float": Fr(1, 2 ** 149), "double": Fr(1, 2 ** 1074), "long double": Fr(1, 2 ** 16445)}


def pairs():
    u = C.unit
    q = [("identity", u("meters"), u("meters")), ("int:1000", u("meters", "kilo"), u("meters")),
         ("int:3600", u("hours"), u("seconds")), ("int:12", u("feet"), u("inches")),
         ("int:360", u("revolutions"), u("degrees")), ("recip:1000", u("meters"), u("meters", "kilo")),
         ("recip:3600", u("seconds"), u("hours")), ("recip:12", u("inches"), u("feet")), ("recip:8", u("bits"), u("bytes")),
         ("rat:381/1250", u("feet"), u("meters")), ("rat:1250/381", u("meters"), u("feet")),
         ("rat:127/50", u("inches"), u("meters", "centi")), ("rat:25146/15625", u("miles"), u("meters", "kilo")),
         ("rat:5/9", u("fahrenheit"), u("celsius")), ("rat:9/5", u("celsius"), u("fahrenheit")),
         ("rat:463/900", u("knots"), C.quotient(u("meters"), u("seconds"))),
         ("irr:pi/180", u("degrees"), u("radians")), ("irr:180/pi", u("radians"), u("degrees")),
         ("irr:2pi", u("revolutions"), u("radians")), ("irr:1/2pi", u("radians"), u("revolutions")),
         ("irr:pi/10800", u("arcminutes"), u("radians")), ("recip:360", u("degrees"), u("revolutions"))]
    p = [("pt:C->K", u("celsius"), u("kelvins")), ("pt:K->C", u("kelvins"), u("celsius")),
         ("pt:C->F", u("celsius"), u("fahrenheit")), ("pt:F->C", u("fahrenheit"), u("celsius")),
         ("pt:F->K", u("fahrenheit"), u("kelvins")), ("pt:K->mK", u("kelvins"), u("kelvins", "milli")),
         ("pt:km->m", u("meters", "kilo"), u("meters"))]
    out = []
    for n, (name, s, t) in enumerate(q):
        out.append({"name": name, "src": s, "tgt": t, "point": False, "slot": t.maker if n % 2 == 0 else t.cpp + "{}"})
    for n, (name, s, t) in enumerate(p):
        out.append({"name": name, "src": s, "tgt": t, "point": True, "slot": t.pt_maker if n % 2 == 0 else t.cpp + "{}"})
    for pr in out:
        r = model.vdiv(pr["src"].mag, pr["tgt"].mag)
        pr["ratio"] = C.mag_value(r)
        off = pr["src"].origin - pr["tgt"].origin if pr["point"] else Fr(0)
        tm = C.mag_value(pr["tgt"].mag)
        pr["offset"] = (off / tm) if isinstance(tm, Fr) else (C.to_decimal(off) / tm)
    return out


OUTS = {"float": ("int32_t", "double", "int64_t"), "double": ("int32_t", "int64_t", "float")}


def outs_for(rep):
    if rep in OUTS:
        return OUTS[rep]
    o = [rep, "int64_t" if rep != "int64_t" else "int32_t", "float"]
    return tuple(o)


def instances(quick):
    reps_q = ["int32_t", "double", "float"]
    # quick: the three main reps on every pair plus one of the other eight, rotating over the pairs; thorough: all eleven
    rot = ["int64_t", "int16_t", "uint8_t", "long double", "uint64_t", "int8_t", "uint16_t", "uint32_t"]
    reps_t = reps_q + rot
    out = []
    for pi, pr in enumerate(pairs()):
        reps = list(reps_q if quick else reps_t)
        if quick:
            reps.append(rot[pi % len(rot)])
        for rep in reps:
            out.append({"pair": pr, "rep": rep, "outs": outs_for(rep)})
    return out


INST = '''struct I%(id)d { typedef %(rep)s R; typedef %(src)s Src; typedef %(tgt)s Tgt; static constexpr bool POINT = %(pt)s;
  static constexpr auto slot() { return %(slot)s; }
  static c15::ld ratio() { return %(ratio)s; } static c15::ld offset() { return %(offset)s; }
  typedef %(o1)s Out1; typedef %(o2)s Out2; typedef %(o3)s Out3;
  static const char *out1() { return "%(o1)s"; } static const char *out2() { return "%(o2)s"; } static const char *out3() { return "%(o3)s"; } };'''


def inst_text(iid, inst):
    pr = inst["pair"]
    return INST % {"id": iid, "rep": inst["rep"], "src": pr["src"].cpp, "tgt": pr["tgt"].cpp,
                   "pt": "true" if pr["point"] else "false", "slot": pr["slot"], "ratio": C.ld_lit(pr["ratio"]),
                   "offset": C.ld_lit(pr["offset"]), "o1": inst["outs"][0], "o2": inst["outs"][1], "o3": inst["outs"][2]}


def tu_text(group, single=None):
    out = ['#include "c15_round.hh"', "namespace {"]
    for iid, inst in group:
        out.append(inst_text(iid, inst))
    out.append("}\nint main() {")
    for iid, inst in group:
        if single is None:
            out.append("  c15::run_round<I%d>(%d);" % (iid, iid))
        else:
            x, fn, o = single
            out.append('  c15::run_round_single<I%d>(%d, static_cast<%s>(std::strtold("%s", nullptr)), "%s", "%s");'
                       % (iid, iid, inst["rep"], x, fn, o))
    out.append("  return 0; }")
    return "\n".join(out) + "\n"


def work_type(rep):
    return rep if rep in EPS else "double"


def confirm(inst, v):
    """Exact re-decision of one harness-reported violation. True = the statement is violated outside the band."""
    pr = inst["pair"]
    x, r = C.parse_num(v["x"]), C.parse_num(v["r"])
    if r is None:
        return True            # NaN / infinity is not an integral value
    rational = isinstance(pr["ratio"], Fr) and isinstance(pr["offset"], Fr)
    if rational:
        xr, off, half, one = x * pr["ratio"], pr["offset"], Fr(1, 2), Fr(1)
        rr = r
    else:
        xr = C.to_decimal(x) * C.to_decimal(pr["ratio"])
        off, half, one, rr = C.to_decimal(pr["offset"]), Decimal("0.5"), Decimal(1), C.to_decimal(r)
    e = xr + off
    mag = abs(xr) + abs(off)
    w = work_type(inst["rep"])
    band = (8 * EPS[w] * mag + DENORM[w]) if rational else (C.to_decimal(8 * EPS[w]) * mag + C.to_decimal(DENORM[w]))
    if v["out"] in EPS:
        band += (8 * EPS[v["out"]] * mag) if rational else C.to_decimal(8 * EPS[v["out"]]) * mag
    if r.denominator != 1:
        return True
    kind = v["fn"].split("_")[0]
    if kind == "floor":
        ok = rr <= e < rr + one
        d = (rr - e) if rr > e else e - (rr + one)
    elif kind == "ceil":
        ok = rr - one < e <= rr
        d = (e - rr) if e > rr else (rr - one) - e
    else:
        d = abs(rr - e) - half
        ok = d <= 0
    return (not ok) and d > band


def probe_code(inst):
    pr = inst["pair"]
    mk = "au::make_quantity_point" if pr["point"] else "au::make_quantity"
    calls = "".join("(void)au::%s_%s(%s, q); (void)au::%s_%s<%s>(%s, q);" % (f, k, pr["slot"], f, k, o, pr["slot"])
                    for f in ("floor", "ceil", "round") for k in ("in", "as") for o in inst["outs"])
    return "auto q = %s<%s>(static_cast<%s>(1)); %s" % (mk, pr["src"].cpp, inst["rep"], calls)


class Explorer:
    """Stages: prepare(cfg) (domain probes), sweep(cfg) any number of times, summary()."""

    def __init__(self, run, viol):
        self.run, self.viol = run, viol
        self.insts = list(enumerate(instances(run.tier == "quick")))
        self.byid = dict(self.insts)
        self.S, self.builds, self.dom, self.rejected, self.ld_recheck_band = [], [], [], [], 0

    def prepare(self, cfg):
        # domain probes: every instance alone.  The statement makes floor_/ceil_/round_{in,as}(unit, q) available for every
        # same-dimension unit and every rep (the conversion happens in the std function's floating type with an explicit
        # rep, so no conversion policy can refuse it): an instance that does not compile is a violation (loss of domain).
        ps = [core.Probe(iid, probe_code(inst), "accept") for iid, inst in self.insts]
        res, _ = core.run_probes(cfg, ps, os.path.join(self.run.wd, "rndp"), "rnd", '#include "c15_common.hh"\n', batch=8)
        for iid, inst in self.insts:
            if res[iid][0] == "accept":
                self.dom.append((iid, inst))
            else:
                C.guard(res[iid][1])
                self.rejected.append("%s rep=%s: %s" % (inst["pair"]["name"], inst["rep"], res[iid][1][:160]))
                pr = inst["pair"]
                self.viol("C15:round-rejected:%s:%s->%s:rep=%s" % ("point" if pr["point"] else "quantity", pr["src"].name,
                                                                 pr["tgt"].name, inst["rep"]),
                          "%s: `%s` does not compile: %s" % (cfg, probe_code(inst), res[iid][1][:300]),
                          {"kind": "probe", "code": probe_code(inst), "expected": "accept", "config": [cfg.cxx, cfg.std],
                           "preamble": '#include "c15_common.hh"\n'})
        if len(self.dom) < 0.8 * len(self.insts) and not self.rejected:
            raise core.InfraError("vacuity guard: only %d of %d rounding instances compile: %s"
                                  % (len(self.dom), len(self.insts), self.rejected[:3]))

    def sweep(self, cfg):
        dom, byid, viol = self.dom, self.byid, self.viol
        groups = C.split(dom, max(core.NCPU * 2, (len(dom) + 39) // 40))
        r = C.build_run(self.run.wd, cfg, "rnd", [tu_text(g) for g in groups], C.SWEEP_FLAGS)
        self.builds.append(str(cfg))
        if len(r["S"]) != len(dom):
            raise core.InfraError("rounding sweep: %d of %d instances reported" % (len(r["S"]), len(dom)))
        for s in r["S"]:
            inst = byid[s["inst"]]
            pr = inst["pair"]
            desc = "%s:%s->%s:rep=%s" % ("point" if pr["point"] else "quantity", pr["src"].name, pr["tgt"].name, inst["rep"])
            tgt = pr["tgt"]
            got_m = model.mag_key(model.mag_from_readout(s["mag"]))
            got_d = model.dim_key(model.dim_from_readout(s["dim"]))
            if got_m != model.mag_key(tgt.mag) or got_d != model.dim_key(tgt.mu.dim) or not s["type_ok"]:
                viol("C15:round-unit:%s" % desc,
                     "%s: the result of floor_/ceil_/round_as(%s, ...) does not have unit %s and the rounding rep (unit read-out "
                     "mag %s dim %s; type check %s)" % (cfg, pr["slot"], tgt.name, got_m, got_d, bool(s["type_ok"])),
                     {"kind": "round", "pair": pr["name"], "rep": inst["rep"], "x": "1", "fn": "round_as", "out": "",
                      "config": [cfg.cxx, cfg.std]})
            s["build"] = cfg.name
            self.S.append(s)
        for v in r["V"]:
            inst = byid[v["inst"]]
            pr = inst["pair"]
            if not confirm(inst, v) and work_type(inst["rep"]) == "long double":
                # long double working type: the harness oracle (long double too) is no more precise than the library; the
                # exact re-decision says the result is within the band
                self.ld_recheck_band += 1
                continue
            if not confirm(inst, v):
                raise core.InfraError("long-double and exact oracles disagree on %s rep=%s: %s" % (pr["name"], inst["rep"], v))
            call = "%s%s(%s, %s<%s>(%s{%s}))" % (v["fn"], "<%s>" % v["out"] if v["out"] else "", pr["slot"],
                                                 "make_quantity_point" if pr["point"] else "make_quantity", pr["src"].cpp,
                                                 inst["rep"], v["x"])
            key = "C15:round:%s%s:%s:%s->%s:rep=%s:x=%s" % (v["fn"], "<%s>" % v["out"] if v["out"] else "",
                                                           "point" if pr["point"] else "quantity", pr["src"].name,
                                                           pr["tgt"].name, inst["rep"], v["x"])
            e = C.parse_num(v["e"])
            what = "%s: %s gives %s; the exact value is %.17g (don't-care band %.3g)" % (
                cfg, call, _ffloat(C.parse_num(v["r"])) if C.parse_num(v["r"]) is not None else v["r"], _ffloat(e),
                _ffloat(C.parse_num(v["band"])))
            viol(key, what, {"kind": "round", "pair": pr["name"], "rep": inst["rep"], "x": v["x"], "fn": v["fn"],
                             "out": v["out"], "config": [cfg.cxx, cfg.std], "observed": v})

    def summary(self):
        S, byid = self.S, self.byid
        g = [s for s in S if self.builds and s["build"] == S[0]["build"]]
        vac = [s for s in g if s["judged"] == 0]
        if vac:
            raise core.InfraError("vacuous rounding instances: %s" % vac[:2])
        return {
            "unit_pairs": len(pairs()), "instances": len(self.insts), "instances_in_domain": len(self.dom),
            "instances_rejected": self.rejected[:10], "sweep_builds": self.builds, "values": sum(s["values"] for s in S),
            "evaluations": sum(s["judged"] for s in S),
            "inequality_holds": sum(s["hold"] for s in S), "dont_care_band": sum(s["band"] for s in S),
            "long_double_reports_inside_the_band_after_exact_recheck": self.ld_recheck_band,
            "reps": sorted(set(i["rep"] for _, i in self.insts)),
            "skipped_exact_value_overflows_working_type": sum(s["skip_overflow"] for s in S),
            "skipped_result_outside_explicit_output_rep": sum(s["skip_out_range"] for s in S),
            "skipped_point_value_within_2pow16_of_working_type_max": sum(s["skip_headroom"] for s in S),
            "values_with_integral_exact_result": sum(s["exact_int"] for s in S),
            "info_ties_(e evaluated in long double)_rounded_away_from_zero": sum(s["ties_away"] for s in S),
            "info_ties_(e evaluated in long double)_rounded_toward_zero": sum(s["ties_toward"] for s in S),
            "instances_with_both_round_directions": sum(1 for s in g if s["up"] and s["down"]),
            "raw_violations": sum(s["viol"] for s in S),
            "samples": [{"rounding": "%s -> %s" % (byid[s["inst"]]["pair"]["src"].name, byid[s["inst"]]["pair"]["tgt"].name),
                         "rep": byid[s["inst"]]["rep"], "explicit_output_reps": list(byid[s["inst"]]["outs"]),
                         "values": s["values"], "results_judged": s["judged"], "in_band": s["band"]}
                        for s in g[:: max(1, len(g) // 4)]][:4],
        }


def replay_round(r, cfg, wd):
    quick_and_thorough = instances(False) + instances(True)
    inst = [i for i in quick_and_thorough if i["pair"]["name"] == r["pair"] and i["rep"] == r["rep"]][0]
    rec = C.build_run(wd, cfg, "rprnd", [tu_text([(0, inst)], single=(r["x"], r["fn"], r["out"]))], C.SWEEP_FLAGS)
    hits = []
    for v in rec["V"]:
        if confirm(inst, v):
            hits.append(str(v))
    if r["fn"] == "round_as" and r["out"] == "" and r["x"] == "1":
        hits += ["result unit/type wrong" for s in rec["S"] if not s["type_ok"]]
    return hits
