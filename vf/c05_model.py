"""C05 reference model, Python side: instance grid, common-type table, window alphabet for 32/64-bit
integral sources, and an independent second-route judge (big ints / Fraction on decoded bit
patterns) that every violation reported by the C++ stage oracle must pass before it is printed.
No Au code, no parsing of Au headers."""
from fractions import Fraction
from math import gcd

from . import core
from .core import BITS, F3, I8, R11, is_signed, promoted, tmax, tmin
from .core import ffloat as _ffloat

# factor grid of the property's quantifier (N, D): factor = N/D
FACTORS = [(1, 1), (2, 1), (3, 1), (10, 1), (1000, 1), (1, 2), (1, 3), (1, 1000), (3, 2), (2, 3),
           (5, 9), (127, 5000), (2 ** 31, 1), (1, 2 ** 31)]
# round 3: factors that separate the source, common and target types (representable in C but not in S
# or T: 200 for 8-bit, 40000/65537 for 16-bit, 3*10^9 for 32-bit, 2^63 / the prime 2^64-59 for 64-bit),
# a value between 1000 and 2^31 and one above 2^32, their reciprocals, and rationals with both parts large
_BIG = [200, 40000, 65537, 3 * 10 ** 9, 10 ** 12, 2 ** 63, 2 ** 64 - 59]
FACTORS += [(n, 1) for n in _BIG] + [(1, n) for n in _BIG] + [(2 ** 31 - 1, 2 ** 31 - 3), (1250, 381)]

# unit shapes (gap: only Meters -> anonymous scaled unit was used): (label, source unit type, target slot
# type or None for the anonymous Meters*D/N, N, D).  Index 0 is the default shape of the main grid.
KMPH = "decltype(au::Kilo<au::Meters>{} / au::Hours{})"
SHAPES = [
    ("", "au::Meters", None, None, None),
    ("Feet->inches[maker]", "au::Feet", "decltype(au::inches)", 12, 1),
    ("Inches->feet[maker]", "au::Inches", "decltype(au::feet)", 1, 12),
    ("Meters->kilo(meters)[maker]", "au::Meters", "decltype(au::kilo(au::meters))", 1, 1000),
    ("Meters->feet[maker]", "au::Meters", "decltype(au::feet)", 1250, 381),
    ("Kilo<Meters>/Hours->meters/second[maker]", KMPH, "decltype(au::meters / au::second)", 5, 18),
    ("Feet->Feet", "au::Feet", "au::Feet", 1, 1),
    ("Meters->meters[maker]", "au::Meters", "decltype(au::meters)", 1, 1),
    ("Meters->Kilo<Milli<Meters>>", "au::Meters", "au::Kilo<au::Milli<au::Meters>>", 1, 1),
]

FP = {"float": (4, 24, 8), "double": (8, 53, 11), "long double": (10, 64, 15)}   # bytes, digits, ebits


def is_fp(t):
    return t in FP


def common(a, b):
    """std::common_type_t<a, b> on LP64 (independent table).  Identical types are NOT promoted:
    common_type_t<int8_t, int8_t> is int8_t; everything else follows the usual arithmetic
    conversions (core.common_rep)."""
    return a if a == b else core.common_rep(a, b)


def category(s, t):
    return ("int" if not is_fp(s) else "fp") + "-" + ("int" if not is_fp(t) else "fp")


def predicted_domain(s, t, n, d):
    """Does q.coerce_in<T>(target) compile?  Documented structure: the factor must be representable
    in C (integer / inverse integer) resp. numerator and denominator in promoted(C)."""
    c = common(s, t)
    if is_fp(c) or (n == 1 and d == 1):
        return True
    if d == 1:
        return n <= tmax(c)
    if n == 1:
        return d <= tmax(c)
    pm = tmax(promoted(c))
    return n <= pm and d <= pm


def instances():
    """(S, T, N, D, U): the full pair x factor grid on the default shape, plus every other shape on a
    stratified quarter of the rep pairs ((pair index + shape index) % 4 == 0)."""
    out = []
    for s in R11:
        for t in R11:
            for (n, d) in FACTORS:
                out.append((s, t, n, d, 0))
    k = 0
    for s in R11:
        for t in R11:
            for u in range(1, len(SHAPES)):
                if (k + u) % 4 == 0:
                    out.append((s, t, SHAPES[u][3], SHAPES[u][4], u))
            k += 1
    return out


# ---- window alphabet for 32/64-bit integral sources ----------------------------------------------

def windows(s, t, n, d, r, r_small=16):
    """Breakpoint-complete windows (merged inclusive intervals) over the source type's range.
    Breakpoints: 0, +-1, source limits, the limits of C, promoted(C) and T (and the floating
    precisions 2^24/2^53/2^64 for floating targets) pulled back through x -> x*N and x -> x*N/D,
    the nearest multiples of D, and every +-2^k."""
    c = common(s, t)
    smin, smax = tmin(s), tmax(s)
    big = {0, 1, -1, smin, smax, smin + 1, smax - 1}
    lims = set()
    for ty in (c, t):
        if is_fp(ty):
            lims |= {2 ** 24, 2 ** 53, 2 ** 64, -2 ** 24, -2 ** 53}
        else:
            p = promoted(ty)
            lims |= {tmin(ty), tmax(ty), tmin(p), tmax(p)}
    for L in lims:
        a = abs(L)
        for v in (a, a // n, (a * d) // n, a // d, (a // n) * d):
            big |= {v, -v, v + 1, -v - 1}
    mult = set()
    for v in list(big):
        mult.add((v // d) * d)
        mult.add((v // d + 1) * d)
    iv = [(v - r, v + r) for v in big | mult]
    for k in range(BITS[s] + 1):
        iv.append((2 ** k - r_small, 2 ** k + r_small))
        iv.append((-2 ** k - r_small, -2 ** k + r_small))
    iv = sorted((max(a, smin), min(b, smax)) for a, b in iv if b >= smin and a <= smax)
    merged = []
    for a, b in iv:
        if merged and a <= merged[-1][1] + 1:
            merged[-1] = (merged[-1][0], max(merged[-1][1], b))
        else:
            merged.append((a, b))
    return merged


# ---- second route: exact semantics on decoded values -------------------------------------------

def decode_fp(ty, hexbits):
    """-> ('nan'|'inf'|'-inf', None) or ('num', Fraction) from the raw bit pattern."""
    nbytes, digits, ebits = FP[ty]
    v = int(hexbits, 16)
    if ty == "long double":
        se, m = v >> 64, v & (2 ** 64 - 1)
        sign, e = se >> 15, se & 0x7fff
        if e == 0x7fff:
            frac = m & (2 ** 63 - 1)
            return ("nan", None) if frac else (("-inf" if sign else "inf"), None)
        val = Fraction(m) * Fraction(2) ** ((e if e else 1) - 16383 - 63)
        return ("num", -val if sign else val)
    fb = digits - 1
    sign = v >> (nbytes * 8 - 1)
    e = (v >> fb) & (2 ** ebits - 1)
    m = v & (2 ** fb - 1)
    bias = 2 ** (ebits - 1) - 1
    if e == 2 ** ebits - 1:
        return ("nan", None) if m else (("-inf" if sign else "inf"), None)
    if e == 0:
        val = Fraction(m) * Fraction(2) ** (1 - bias - fb)
    else:
        val = Fraction(2 ** fb + m) * Fraction(2) ** (e - bias - fb)
    return ("num", -val if sign else val)


def fr_str(f):
    """Short exact spelling of a dyadic rational (Fraction.__str__ can exceed Python's digit limit for
    long double denormals): integer when small, else odd*2^e."""
    if f is None:
        return "-"
    n, d = f.numerator, f.denominator
    if d == 1 and abs(n) < 10 ** 40:
        return str(n)
    if n == 0:
        return "0"
    a = (abs(n) & -abs(n)).bit_length() - 1
    return "%d*2^%d" % (n >> a, a - (d.bit_length() - 1))


def trunc_frac(f):
    return int(f) if f >= 0 else -int(-f)


def fp_castable(kind, val, t):
    if kind != "num":
        return False
    return tmin(t) <= trunc_frac(val) <= tmax(t)


def fp_max(ty):
    nbytes, digits, ebits = FP[ty]
    emax = 2 ** (ebits - 1)
    return (Fraction(2) ** digits - 1) * Fraction(2) ** (emax - digits)


def stages_int(s, t, n, d, x):
    c = common(s, t)
    out = {"st1_in": tmin(c) <= x <= tmax(c)}
    if not out["st1_in"]:
        return out
    p = promoted(c)
    prod = x * n
    out["prod_in_p"] = tmin(p) <= prod <= tmax(p)
    out["trunc"] = prod % d != 0
    exact = Fraction(prod, d)
    z = trunc_frac(exact)
    out["st2_out"] = not (tmin(c) <= exact <= tmax(c))
    out["band"] = out["st2_out"] and tmin(c) <= z <= tmax(c)
    out["st3_in"] = tmin(t) <= z <= tmax(t)
    out["z"] = z
    out["defined"] = (out["prod_in_p"] and not out["trunc"] and not out["st2_out"] and out["st3_in"])
    out["leaves"] = (not out["prod_in_p"]) or out["st2_out"] or out["band"] or not out["st3_in"]
    return out


def confirm(v):
    """Re-decide one C++-reported violation record by the independent route.  Returns (ok, note);
    ok=False means the two routes of the *checker itself* disagree (infrastructure error)."""
    s, t, n, d, kind = v["S"], v["T"], int(v["N"]), int(v["D"]), v["kind"]
    lib = v["lib"]
    cat = category(s, t)
    if kind in ("ub-in-cleared-checker", "ub-in-conversion"):
        return True, "observer event (no second route)"
    if cat == "int-int":
        x = int(v["x"])
        st = stages_int(s, t, n, d, x)
        defined = st["st1_in"] and st.get("defined", False)
        leaves = (not st["st1_in"]) or st.get("leaves", False)
        if kind == "cleared-undefined":
            return (not lib["lossy"] and not defined), "py stages %s" % st
        if kind == "ovf-unjustified":
            return (bool(lib["ovf"]) and not leaves), "py stages %s" % st
        if kind == "cleared-wrong-value":
            return (defined and str(st["z"]) != v.get("got", "")), "py exact %s" % st.get("z")
        return False, "unexpected kind for int-int"
    if cat == "int-fp":
        x = int(v["x"])
        if kind == "ovf-unjustified":
            return (abs(Fraction(x * n, d)) < fp_max(t) * (1 - Fraction(8, 2 ** (FP[t][1] - 1))),
                    "py |x*N/D| clearly within the range of T")
        if kind == "cleared-undefined":
            return decode_fp(t, v["ybits"])[0] != "num", "py y non-finite"
        if kind == "cleared-wrong-value":
            if v.get("why") == "ulp":
                k, r = decode_fp(t, v["gotbits"])
                exact = Fraction(x * n, d)
                if k != "num":
                    return True, "py result non-finite"
                digits = FP[t][1]
                mag = max(abs(exact), abs(r))
                e = 0
                while Fraction(2) ** e <= mag:
                    e += 1
                while Fraction(2) ** (e - 1) > mag:
                    e -= 1
                ulp = Fraction(2) ** (e - digits)
                return abs(r - exact) > 3 * ulp, "py error %.3f ulp" % _ffloat(abs(r - exact) / ulp)
            return v["gotbits"] != v["ybits"], "py bit compare"
        return False, "unexpected kind for int-fp"
    c = common(s, t)
    yk, yv = decode_fp(c, v["ybits"])
    if kind == "fp-scale-wrong":
        xk, xv = decode_fp(s, v["xbits"])
        if xk != "num" or yk != "num":
            return False, "non-finite x or y is not judged"
        exact = xv * n / d
        mag = max(abs(exact), abs(yv))
        digits, ebits = FP[c][1], FP[c][2]
        e = mag.numerator.bit_length() - mag.denominator.bit_length()
        while Fraction(2) ** e <= mag:
            e += 1
        while Fraction(2) ** (e - 1) > mag:
            e -= 1
        ue = max(e - digits, (3 - 2 ** (ebits - 1)) - digits)   # min_exponent = 3 - 2^(ebits-1)
        err = abs(yv - exact) / Fraction(2) ** ue
        return err > 64, "py stage-2 error %s ulp" % (int(err) if err < 10 ** 30 else ">1e30")
    if cat == "fp-int":
        ok_cast = fp_castable(yk, yv, t)
        if kind == "uncastable-not-lossy":
            return (not lib["lossy"] and not ok_cast), "py castable=%s y=%s" % (ok_cast, yk if yv is None else fr_str(yv))
        if kind == "cleared-truncates":
            return (not lib["lossy"] and ok_cast and yv.denominator != 1), "py y=%s" % fr_str(yv)
        if kind == "cleared-wrong-value":
            return (ok_cast and yv.denominator == 1 and str(int(yv)) != v.get("got", "")), "py y=%s" % fr_str(yv)
        return False, "unexpected kind for fp-int"
    # fp-fp
    xk, xv = decode_fp(s, v["xbits"])
    if kind == "cleared-undefined":
        if xk != "num":
            return False, "non-finite input is a don't-care"
        if yk != "num":
            exact = abs(xv) * n / d
            return exact > fp_max(c) * (1 + Fraction(8, 2 ** (FP[c][1] - 1))), "py |x*N/D| beyond band"
        half = Fraction(2) ** (2 ** (FP[t][2] - 1) - FP[t][1] - 1)
        return abs(yv) >= fp_max(t) + half, "py |y| >= max(T) + ulp/2"
    if kind == "cleared-wrong-value":
        return True, "bit compare of library results (no second route needed)"
    return False, "unexpected kind for fp-fp"


def selfcheck():
    """Start-up validation of this module's own tables (no Au code involved)."""
    assert common("int8_t", "int8_t") == "int8_t" and common("int8_t", "uint8_t") == "int32_t"
    assert common("int64_t", "uint64_t") == "uint64_t" and common("uint32_t", "int64_t") == "int64_t"
    assert common("float", "int64_t") == "float" and common("double", "float") == "double"
    assert decode_fp("float", "4f000000") == ("num", Fraction(2 ** 31))
    assert decode_fp("double", "43f0000000000000") == ("num", Fraction(2 ** 64))
    assert decode_fp("long double", "403e8000000000000000") == ("num", Fraction(2 ** 63))
    assert decode_fp("long double", "00000000000000000001") == ("num", Fraction(1, 2 ** 16445))
    assert decode_fp("float", "00000001") == ("num", Fraction(1, 2 ** 149))
    assert decode_fp("float", "ff800000") == ("-inf", None) and decode_fp("double", "7ff8000000000001")[0] == "nan"
    assert not fp_castable("num", Fraction(2 ** 31), "int32_t") and fp_castable("num", Fraction(-2 ** 31), "int32_t")
    assert fp_castable("num", Fraction(-1, 2), "uint8_t") and fp_castable("num", Fraction(511, 2), "uint8_t")
    assert not fp_castable("num", Fraction(256), "uint8_t") and fp_castable("num", Fraction(-257, 2), "int8_t")
    st = stages_int("int8_t", "uint8_t", 3, 2, -2)
    assert st["st1_in"] and st["prod_in_p"] and not st["trunc"] and not st["st3_in"] and st["leaves"]
    st = stages_int("int32_t", "int32_t", 2, 1, 2 ** 30)
    assert not st["prod_in_p"] and not st["defined"]
    assert fp_max("float") == Fraction(2 ** 128 - 2 ** 104) and fr_str(Fraction(3, 2 ** 16445)) == "3*2^-16445"
