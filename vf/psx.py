"""Program-space explorer support: positive 'observation dump' TUs.

A dump TU contains one record per explored program; each record prints one JSON line at run time
from data the implementation computed at compile time.  If a TU fails to compile it is bisected
down to the offending record(s).
"""
import json
import os

from . import core


def emit_dump(path, records, preamble=""):
    """records: list of (rid, [stmt, ...]) where each stmt is C++ that calls vf_out(...)."""
    out = [r'''
namespace {
std::string vf_line;
inline void vf_begin(long id) { vf_line = "{\"id\":" + std::to_string(id); }
inline void vf_kv(const char *k, const std::string &v) { vf_line += std::string(",\"") + k + "\":" + v; }
inline void vf_b(const char *k, bool v) { vf_kv(k, v ? "true" : "false"); }
inline void vf_i(const char *k, long long v) { vf_kv(k, std::to_string(v)); }
inline void vf_s(const char *k, const std::string &v) { vf_kv(k, "\"" + v + "\""); }
inline void vf_end() { vf_line += "}"; std::puts(vf_line.c_str()); }
}
''', preamble]
    for rid, stmts in records:
        out.append("static void rec_%d() { vf_begin(%d); %s vf_end(); }" % (rid, rid, " ".join(stmts)))
    out.append("int main() {")
    for rid, _ in records:
        out.append("  rec_%d();" % rid)
    out.append("  return 0; }")
    with open(path, "w") as f:
        f.write("\n".join(out) + "\n")


def run_dump(cfg, records, wd, tag, preamble="", flags=(), chunk=200, must_compile=True):
    """Compile+run all records (chunked, parallel). Returns (results: rid -> dict, failed: rid -> diag).

    A chunk that fails to compile is bisected; single records that do not compile land in `failed`.
    """
    os.makedirs(wd, exist_ok=True)
    chunk = max(1, min(chunk, 300))     # larger TUs make the compilers' memory use explode (measured: 5 GB per cc1plus)
    chunks = [records[i:i + chunk] for i in range(0, len(records), chunk)]
    results, failed = {}, {}
    counter = [0]

    def attempt(recs, name):
        src = os.path.join(wd, "%s_%s_%s.cc" % (tag, cfg.name, name))
        exe = src[:-3]
        emit_dump(src, recs, preamble)
        rc, err = core.build_exe(cfg, src, exe, list(flags))
        if rc != 0:
            return None, err
        rc, out, err2 = core.sh([exe], timeout=600)
        if rc != 0:
            raise core.InfraError("dump binary failed rc=%d: %s\n%s" % (rc, exe, err2[-2000:]))
        res = {}
        for line in out.split("\n"):
            if line.startswith("{"):
                try:
                    o = json.loads(line)
                except ValueError:
                    raise core.InfraError("bad dump line from %s: %s" % (exe, line[:300]))
                res[o["id"]] = o
        try:
            os.remove(exe)
        except OSError:
            pass
        return res, ""

    def solve(recs, name):
        res, err = attempt(recs, name)
        if res is not None:
            return res, {}
        if len(recs) == 1:
            return {}, {recs[0][0]: core._first_error(err) or err[-400:]}
        mid = len(recs) // 2
        r1, f1 = solve(recs[:mid], name + "a")
        r2, f2 = solve(recs[mid:], name + "b")
        r1.update(r2)
        f1.update(f2)
        return r1, f1

    core.pch_dir(cfg, flags)
    # the preamble alone must compile, otherwise every record would be "bisected" to a failure
    src0 = os.path.join(wd, "%s_%s_preamble.cc" % (tag, cfg.name))
    emit_dump(src0, [], preamble)
    rc0, err0 = core.syntax_check(cfg, src0, list(flags))
    if rc0 != 0:
        raise core.InfraError("dump preamble does not compile under %s:\n%s" % (cfg, err0[:3000]))
    for (r, f) in core.pmap(lambda kc: solve(kc[1], "c%d" % kc[0]), list(enumerate(chunks))):
        results.update(r)
        failed.update(f)
    return results, failed
