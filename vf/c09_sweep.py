"""C09 explorer: QuantityPoint affine semantics against an exact rational model.

Model of a point unit: (scale s, origin o), both Fractions in kelvins.  Exact position of a point
with stored value x:  o + x*s.

What is read out of the implementation (never judged here except for exactness of the displacement):
  * origin_displacement(U1, U2): value + unit.  Its exact size must be o2 - o1 (judged); its *unit*
    fixes the library's documented intermediate (common unit of the source unit and that unit).
  * the scale of CommonPointUnitT<U1,U2> and of the result unit of p + q (the statement does not fix
    which subdivision is chosen; C10 judges that).  The ORIGIN of the common point unit is taken
    from the model (the smallest origin), not from the implementation.
"""
import json
import math
import os
from fractions import Fraction as Fr

from . import core, model, psx
from .core import tmax, tmin
from .sweep34 import cflags, lit128

REPS = ["int32_t", "int64_t", "double", "float", "uint32_t"]
FLT = ("float", "double")
UBSAN = ["-fsanitize=undefined", "-fsanitize-recover=all"]

PREAMBLE = r'''
namespace gen {
struct PA : decltype(au::Kelvins{} * au::mag<3>() / au::mag<7>()) { static constexpr auto origin() { return (au::kelvins / au::mag<4>())(5); } };
struct PB : au::Kelvins { static constexpr auto origin() { return (au::kelvins / au::mag<6>())(-7); } };
struct PC : decltype(au::Kelvins{} * au::mag<2>() / au::mag<5>()) { static constexpr auto origin() { return au::centi(au::kelvins)(27315); } };
struct PD : decltype(au::Kelvins{} * au::mag<5>() / au::mag<9>()) { static constexpr auto origin() { return (au::kelvins * au::mag<5>() / au::mag<27>())(1); } };
struct PE : decltype(au::Kelvins{} * au::mag<1000>() / au::mag<999>()) {};
struct PF : decltype(au::Kelvins{} * au::mag<3>() / au::mag<7>()) { static constexpr auto origin() { return (au::kelvins / au::mag<6>())(-7); } };
struct QG : decltype(au::Kelvins{} * au::mag<3>() / au::mag<7>()) {};
}
namespace c09d {
inline std::string origin_json(au::Zero) { return "{\"zero\":true}"; }
template <typename Un, typename R>
std::string origin_json(au::Quantity<Un, R> q) {
    return "{\"zero\":false,\"v\":" + std::to_string(static_cast<long long>(q.in(Un{}))) + ",\"mag\":" +
           vf::MagJson<au::detail::MagT<Un>>::get() + "}";
}
}
'''


class PU:
    def __init__(self, name, cpp, scale, origin):
        self.name, self.cpp, self.s, self.o = name, cpp, Fr(scale), Fr(origin)


C0 = Fr(27315, 100)
F0 = Fr(45967, 100) * Fr(5, 9)


def point_units(tier):
    q = [PU("kelvins", "au::Kelvins", 1, 0), PU("celsius", "au::Celsius", 1, C0),
         PU("fahrenheit", "au::Fahrenheit", Fr(5, 9), F0),
         PU("milli_kelvins", "au::Milli<au::Kelvins>", Fr(1, 1000), 0),
         PU("PA", "gen::PA", Fr(3, 7), Fr(5, 4)), PU("PB", "gen::PB", 1, Fr(-7, 6))]
    if tier == "thorough":
        q += [PU("centi_celsius", "au::Centi<au::Celsius>", Fr(1, 100), C0),
              PU("kilo_kelvins", "au::Kilo<au::Kelvins>", 1000, 0),
              PU("milli_celsius", "au::Milli<au::Celsius>", Fr(1, 1000), C0),
              PU("milli_fahrenheit", "au::Milli<au::Fahrenheit>", Fr(5, 9000), F0),
              PU("PC", "gen::PC", Fr(2, 5), C0), PU("PD", "gen::PD", Fr(5, 9), Fr(5, 27)),
              PU("PE", "gen::PE", Fr(1000, 999), 0), PU("PF", "gen::PF", Fr(3, 7), Fr(-7, 6))]
    return q


def quantity_units(tier):
    q = [PU("kelvins", "au::Kelvins", 1, 0), PU("milli_kelvins", "au::Milli<au::Kelvins>", Fr(1, 1000), 0),
         PU("fahrenheit_qty", "au::Fahrenheit", Fr(5, 9), 0)]
    if tier == "thorough":
        q.append(PU("QG", "gen::QG", Fr(3, 7), 0))
    return q


def fgcd(a, b):
    return Fr(math.gcd(a.numerator * b.denominator, b.numerator * a.denominator), a.denominator * b.denominator)


def isf(r):
    return r in FLT


def signed(r):
    return isf(r) or core.is_signed(r)


def lim(r):
    return (tmin(r), tmax(r)) if not isf(r) else (-(2 ** 62), 2 ** 62)


def calc_rep(r1, r2):
    """Model of the documented intermediate rep of QuantityPoint::in<NewRep>: common type, made
    signed when the destination is signed."""
    c = core.common_rep(r1, r2)
    if not isf(c) and signed(r2) and not core.is_signed(c):
        c = c[1:]
    return c


def pol(k, rep):
    return isf(rep) or k == 1 or 2147 * k <= tmax(rep)


def frac_of(o):
    return Fr(o["v"]) * model.mag_fraction(model.mag_from_readout(o["mag"]))


def cf_of(rep):
    return rep if isf(rep) else "double"


def merge(iv):
    iv = sorted(iv)
    out = []
    for a, b in iv:
        if b < a:
            continue
        if out and a <= out[-1][1] + 1:
            out[-1] = (out[-1][0], max(out[-1][1], b))
        else:
            out.append((a, b))
    return out


def windows(centers, radius, lo, hi):
    return merge((max(int(c) - radius, lo), min(int(c) + radius, hi)) for c in centers
                 if int(c) + radius >= lo and int(c) - radius <= hi)


def rnd(fr):
    return int(math.floor(Fr(fr) + Fr(1, 2)))


def ivs(name, iv):
    return "static const vf::Interval %s[] = {%s};" % (name, ", ".join("{%s, %s}" % (lit128(a), lit128(b)) for a, b in iv))


def consts(**kw):
    return " ".join("static constexpr vf::i128 %s() { return %s; }" % (k, lit128(v)) for k, v in kw.items())


# ---------------------------------------------------------------------------------- read-outs
def readouts(wd, cfg, units, qunits):
    recs, meta = [], {}
    rid = 0
    for a in units:
        for b in units:
            if a is b:
                continue
            recs.append((rid, ['vf_kv("disp", c09d::origin_json(au::origin_displacement(%s{}, %s{})));' % (a.cpp, b.cpp)]))
            meta[rid] = ("disp", a.name, b.name)
            rid += 1
    for i, a in enumerate(units):
        for b in units[i + 1:]:
            recs.append((rid, ['using Cp = au::CommonPointUnitT<%s, %s>;' % (a.cpp, b.cpp),
                               'vf_kv("mag", vf::MagJson<au::detail::MagT<Cp>>::get());',
                               'vf_kv("origin", c09d::origin_json(au::origin_displacement(au::Kelvins{}, Cp{})));',
                               'using Dq = decltype(std::declval<au::QuantityPoint<%s, long long>>() - std::declval<au::QuantityPoint<%s, long long>>());' % (a.cpp, b.cpp),
                               'vf_kv("sub_mag", vf::MagJson<au::detail::MagT<typename Dq::Unit>>::get());']))
            meta[rid] = ("cpu", a.name, b.name)
            rid += 1
    for p in units:
        for q in qunits:
            recs.append((rid, ['using Rt = decltype(std::declval<au::QuantityPoint<%s, long long>>() + std::declval<au::Quantity<%s, long long>>());' % (p.cpp, q.cpp),
                               'using Rm = decltype(std::declval<au::QuantityPoint<%s, long long>>() - std::declval<au::Quantity<%s, long long>>());' % (p.cpp, q.cpp),
                               'vf_kv("mag", vf::MagJson<au::detail::MagT<typename Rt::Unit>>::get());',
                               'vf_kv("origin", c09d::origin_json(au::origin_displacement(au::Kelvins{}, typename Rt::Unit{})));',
                               'vf_b("same", std::is_same<typename Rt::Unit, typename Rm::Unit>::value);']))
            meta[rid] = ("shift", p.name, q.name)
            rid += 1
    res, failed = psx.run_dump(cfg, recs, wd, "ro", PREAMBLE, flags=cflags(cfg), chunk=max(6, len(recs) // (core.NCPU * 2) + 1))
    out = {"disp": {}, "cpu": {}, "shift": {}, "failed": []}
    for r, o in res.items():
        k, a, b = meta[r]
        out[k][(a, b)] = o
    for r, d in failed.items():
        out["failed"].append({"what": meta[r], "diag": d[:200]})
    return out


# ---------------------------------------------------------------------------------- instances
class Conv:
    kind = "conv"

    def __init__(self, idx, u1, r1, u2, r2, disp):
        self.id, self.u1, self.r1, self.u2, self.r2 = idx, u1, r1, u2, r2
        self.calc = calc_rep(r1, r2)
        self.same = r1 == r2
        if disp["zero"]:
            self.dv, self.sd = 0, None
            cu = u1.s
            self.kx, self.kdd, self.kd = 1, 1, 0
        else:
            self.dv, self.sd = disp["v"], model.mag_fraction(model.mag_from_readout(disp["mag"]))
            cu = fgcd(u1.s, self.sd)
            self.kx, self.kdd = int(u1.s / cu), int(self.sd / cu)
            self.kd = -self.dv * self.kdd
        nd = cu / u2.s
        self.n, self.d = nd.numerator, nd.denominator
        self.static_out = None
        if not isf(self.calc) and core.is_signed(self.calc):
            lo, hi = lim(self.calc)
            if not (lo <= self.dv <= hi and lo <= self.dv * self.kdd <= hi):
                self.static_out = "origin displacement does not fit the signed intermediate rep"
        if not isf(self.calc) and (self.n > tmax(self.calc) or self.d > tmax(self.calc)):
            self.static_out = "conversion factor not representable in the intermediate rep"
        if not isf(self.calc) and (self.kd * self.n) % math.gcd(self.kx * self.n, self.d) != 0:
            # (x*KX + KD)*N/D is never an integer: nothing is demanded of any value of this instance
            self.static_out = "true result is never an integer"
        self.ops = {}

    def desc(self):
        return "U1=%s:R1=%s:U2=%s:R2=%s" % (self.u1.name, self.r1, self.u2.name, self.r2)

    def pred(self, group):
        c = self.calc
        if group == "ci":
            return isf(c) or (pol(self.kx, c) and pol(self.kdd, c) and self.n <= tmax(c) and self.d <= tmax(c))
        r = self.r1
        if isf(r):
            return True
        return (tmin(r) <= -self.dv <= tmax(r) and pol(self.kx, r) and pol(self.kdd, r) and self.d == 1 and pol(self.n, r))

    def probes(self, cfg):
        mk = "auto p = au::make_quantity_point<%s>(static_cast<%s>(1)); using U2 = %s; using T = %s; " % (
            self.u1.cpp, self.r1, self.u2.cpp, self.r2)
        body = "(void)p.template coerce_in<T>(U2{}); (void)p.template coerce_as<T>(U2{}); (void)p.template in<T>(U2{}); (void)p.template as<T>(U2{});"
        if self.same:
            body += " (void)p.coerce_in(U2{}); (void)p.coerce_as(U2{});"
        out = [((self.id, "ci"), mk + body, self.pred("ci"))]
        if self.same:
            out.append(((self.id, "pol"), mk + "(void)p.in(U2{}); (void)p.as(U2{});", self.pred("pol")))
        # implicit converting constructor: 'ctor' = declared implicit AND well-formed; 'noctor' = not declared implicit.
        # (both rejected = declared implicit but ill-formed when used: reported by the check)
        p2 = "using P1 = decltype(p); using P2 = au::QuantityPoint<U2, T>; "
        out.append(((self.id, "ctor"), mk + p2 + "static_assert(std::is_convertible<P1, P2>::value, \"\"); P2 p2 = p; (void)p2;", isf(self.r2)))
        out.append(((self.id, "noctor"), mk + p2 + "static_assert(!std::is_convertible<P1, P2>::value, \"\");", not isf(self.r2)))
        return out

    def swept(self, cfg):
        return self.static_out is None and self.ops[cfg.name].get("ci")

    def prepare(self, big, small):
        lo, hi = lim(self.r1)
        u1, u2 = self.u1, self.u2
        cen = [0, rnd((u2.o - u1.o) / u1.s), rnd(-u1.o / u1.s)]
        iv = windows(cen, big, lo, hi)
        b = [lo, hi, 2 ** 24, -2 ** 24, 2 ** 31, -2 ** 31, 2 ** 32, 2 ** 53, -2 ** 53]
        if not isf(self.calc):
            cl, ch = lim(self.calc)
            for L in (cl, ch):
                b += [L // self.kx, (L - self.kd) // self.kx, (int(Fr(L, self.n)) - self.kd) // self.kx]
            if not isf(self.r2):
                for L in lim(self.r2):
                    b.append((int(Fr(L * self.d, self.n)) - self.kd) // self.kx)
        self.iv = merge(iv + windows(b, small, lo, hi))
        if not isf(self.r1) and core.BITS[self.r1] <= 16:
            self.iv = [(lo, hi)]          # 8/16-bit source reps: every value

    def weight(self):
        return sum(b - a + 1 for a, b in self.iv) * (3 if isf(self.r1) else 1)

    def emit(self, cfg):
        ops = self.ops[cfg.name]
        c = self.calc
        cl, ch = lim(c)
        return ("struct I%d { typedef %s U1; typedef %s U2; typedef %s R1; typedef %s R2; typedef %s CF; "
                "static constexpr bool CFLOAT = %s, CUNS = %s, SAME = %s, POL = %s, CTOR = %s; %s };\n%s"
                % (self.id, self.u1.cpp, self.u2.cpp, self.r1, self.r2, cf_of(c), str(isf(c)).lower(),
                   str(not isf(c) and not core.is_signed(c)).lower(), str(self.same).lower(),
                   str(bool(ops.get("pol"))).lower(), str(bool(ops.get("ctor"))).lower(),
                   consts(KX=self.kx, KD=self.kd, N=self.n, D=self.d, CLO=cl, CHI=ch), ivs("A%d" % self.id, self.iv)))

    def call(self):
        return "c09::run_conv<I%d>(%d, A%d, %d);" % (self.id, self.id, self.id, len(self.iv))

    def rec(self):
        return {"type": "conv", "u1": [self.u1.name, self.u1.cpp, str(self.u1.s), str(self.u1.o)],
                "u2": [self.u2.name, self.u2.cpp, str(self.u2.s), str(self.u2.o)], "r1": self.r1, "r2": self.r2}


class Pair:
    kind = "pair"

    def __init__(self, idx, u1, r1, u2, r2, cpu):
        self.id, self.u1, self.r1, self.u2, self.r2 = idx, u1, r1, u2, r2
        self.c = core.common_rep(r1, r2)
        self.sc = model.mag_fraction(model.mag_from_readout(cpu["mag"]))
        self.oc = min(u1.o, u2.o)                      # model: the common origin is the smallest origin
        self.ab = [(u.s / self.sc, (u.o - self.oc) / self.sc) for u in (u1, u2)]
        self.static_out = None
        if any(a.denominator != 1 or b.denominator != 1 for a, b in self.ab):
            self.static_out = "positions are not integral in the implementation's common point unit"
        elif not isf(self.c) and any(b > tmax(self.c) for a, b in self.ab):
            self.static_out = "origin offset does not fit the common rep"
        self.ops = {}

    def desc(self):
        return "U1=%s:R1=%s:U2=%s:R2=%s" % (self.u1.name, self.r1, self.u2.name, self.r2)

    def pred(self, group):
        if isf(self.c):
            return True
        if self.static_out:
            return False
        return all(pol(int(a), self.c) and b <= tmax(self.c) // 2 for a, b in self.ab)

    def probes(self, cfg):
        mk = ("auto a = au::make_quantity_point<%s>(static_cast<%s>(1)); auto b = au::make_quantity_point<%s>(static_cast<%s>(1)); "
              % (self.u1.cpp, self.r1, self.u2.cpp, self.r2))
        out = [((self.id, "cmp"), mk + "(void)(a == b); (void)(a != b); (void)(a < b); (void)(a <= b); (void)(a > b); (void)(a >= b); "
                "(void)(b == a); (void)(b != a); (void)(b < a); (void)(b <= a); (void)(b > a); (void)(b >= a);", self.pred("cmp")),
               ((self.id, "sub"), mk + "(void)(a - b); (void)(b - a);", self.pred("sub"))]
        if cfg.std == "c++20":
            out.append(((self.id, "ss"), mk + "(void)(a <=> b); (void)(b <=> a);", self.pred("ss")))
        return out

    def swept(self, cfg):
        return self.static_out is None and self.ops[cfg.name].get("cmp")

    def prepare(self, big, small):
        self.w, self.f = [], []
        us = (self.u1, self.u2)
        for i, (u, r) in enumerate(zip(us, (self.r1, self.r2))):
            o = us[1 - i]
            lo, hi = lim(r)
            cen = [0, rnd((o.o - u.o) / u.s), rnd(-u.o / u.s)]
            self.w.append(windows(cen, big, lo, hi))
            b = cen + [lo, hi, 1000, -1000]
            if not isf(self.c):
                cl, ch = lim(self.c)
                a, off = int(self.ab[i][0]), int(self.ab[i][1])
                b += [ch // a, cl // a, (ch - off) // a, (cl - off) // a]
            self.f.append(windows(b, small, lo, hi))

    def weight(self):
        n = lambda iv: sum(b - a + 1 for a, b in iv)
        return n(self.w[0]) * (n(self.f[1]) + 5) + n(self.w[1]) * (n(self.f[0]) + 5)

    def emit(self, cfg):
        ops = self.ops[cfg.name]
        (a1, b1), (a2, b2) = self.ab
        return ("struct I%d { typedef %s U1; typedef %s U2; typedef %s R1; typedef %s R2; typedef %s C; typedef %s CF; "
                "static constexpr bool CFLOAT = %s, SUB = %s, SS = %s; %s };\n%s\n%s\n%s\n%s"
                % (self.id, self.u1.cpp, self.u2.cpp, self.r1, self.r2, self.c, cf_of(self.c), str(isf(self.c)).lower(),
                   str(bool(ops.get("sub"))).lower(), str(bool(ops.get("ss"))).lower(),
                   consts(A1=int(a1), B1=int(b1), A2=int(a2), B2=int(b2)),
                   ivs("W1_%d" % self.id, self.w[0]), ivs("F1_%d" % self.id, self.f[0]),
                   ivs("W2_%d" % self.id, self.w[1]), ivs("F2_%d" % self.id, self.f[1])))

    def call(self):
        i = self.id
        return "c09::run_pair<I%d>(%d, W1_%d, %d, F1_%d, %d, W2_%d, %d, F2_%d, %d);" % (
            i, i, i, len(self.w[0]), i, len(self.f[0]), i, len(self.w[1]), i, len(self.f[1]))

    def rec(self):
        return {"type": "pair", "u1": [self.u1.name, self.u1.cpp, str(self.u1.s), str(self.u1.o)],
                "u2": [self.u2.name, self.u2.cpp, str(self.u2.s), str(self.u2.o)], "r1": self.r1, "r2": self.r2,
                "cpu_mag": str(self.sc)}


class Shift:
    kind = "shift"

    def __init__(self, idx, up, rp, uq, rq, ro):
        self.id, self.u1, self.r1, self.u2, self.r2 = idx, up, rp, uq, rq
        self.c = core.common_rep(rp, rq)
        self.g = model.mag_fraction(model.mag_from_readout(ro["mag"]))
        self.oru = Fr(0) if ro["origin"]["zero"] else frac_of(ro["origin"])
        self.ap, self.aq, self.b = up.s / self.g, uq.s / self.g, (up.o - self.oru) / self.g
        self.static_out = None
        if any(x.denominator != 1 for x in (self.ap, self.aq, self.b)):
            self.static_out = "result unit cannot hold the operands integrally"
        self.ops = {}

    def desc(self):
        return "UP=%s:RP=%s:UQ=%s:RQ=%s" % (self.u1.name, self.r1, self.u2.name, self.r2)

    def pred(self, group):
        return isf(self.c) or (self.static_out is None and pol(int(self.ap), self.c) and pol(int(self.aq), self.c))

    def probes(self, cfg):
        mk = ("auto p = au::make_quantity_point<%s>(static_cast<%s>(1)); auto q = au::make_quantity<%s>(static_cast<%s>(1)); "
              % (self.u1.cpp, self.r1, self.u2.cpp, self.r2))
        return [((self.id, "shift"), mk + "(void)(p + q); (void)(q + p); (void)(p - q);", self.pred("shift"))]

    def swept(self, cfg):
        return self.static_out is None and self.ops[cfg.name].get("shift")

    def prepare(self, big, small):
        lo, hi = lim(self.r1)
        self.w = windows([0, rnd(-self.u1.o / self.u1.s)], big, lo, hi)
        b = [lo, hi]
        if not isf(self.c):
            cl, ch = lim(self.c)
            b += [ch // int(self.ap), cl // int(self.ap)]
        self.w = merge(self.w + windows(b, small, lo, hi))
        lo, hi = lim(self.r2)
        b = [0, 1000, -1000, lo, hi]
        if not isf(self.c):
            b += [ch // int(self.aq), cl // int(self.aq)]
        self.f = windows(b, small, lo, hi)

    def weight(self):
        n = lambda iv: sum(b - a + 1 for a, b in iv)
        return n(self.w) * n(self.f)

    def emit(self, cfg):
        return ("struct I%d { typedef %s UP; typedef %s UQ; typedef %s RP; typedef %s RQ; typedef %s C; typedef %s CF; "
                "static constexpr bool CFLOAT = %s; %s };\n%s\n%s"
                % (self.id, self.u1.cpp, self.u2.cpp, self.r1, self.r2, self.c, cf_of(self.c), str(isf(self.c)).lower(),
                   consts(AP=int(self.ap), AQ=int(self.aq), B=int(self.b)),
                   ivs("W%d" % self.id, self.w), ivs("F%d" % self.id, self.f)))

    def call(self):
        i = self.id
        return "c09::run_shift<I%d>(%d, W%d, %d, F%d, %d);" % (i, i, i, len(self.w), i, len(self.f))

    def rec(self):
        return {"type": "shift", "u1": [self.u1.name, self.u1.cpp, str(self.u1.s), str(self.u1.o)],
                "u2": [self.u2.name, self.u2.cpp, str(self.u2.s), str(self.u2.o)], "r1": self.r1, "r2": self.r2,
                "mag": str(self.g), "origin": str(self.oru)}


SHIFT_REPS_QUICK = [("int32_t", "int32_t"), ("int32_t", "int64_t"), ("int64_t", "int32_t"), ("uint32_t", "uint32_t"),
                    ("double", "double"), ("float", "double"), ("int32_t", "double")]
# quick tier: every equal-rep pair + both orders of the width/signedness/int-float mixes
REPS_QUICK = [(r, r) for r in REPS] + [("int32_t", "int64_t"), ("int64_t", "int32_t"), ("uint32_t", "int32_t"),
                                       ("int32_t", "uint32_t"), ("int32_t", "double"), ("double", "int32_t"),
                                       ("float", "double"), ("double", "float"), ("int64_t", "float")]
# narrow reps, conversions only (added after seeded change C09: the intermediate-rep rule matters for unsigned reps
# narrower than int, where std::common_type_t<T,T> does not promote)
REPS_NARROW_CONV = [("uint16_t", "uint16_t"), ("uint8_t", "uint8_t"), ("int16_t", "int16_t"), ("uint16_t", "int32_t"),
                    ("int16_t", "uint16_t"), ("uint8_t", "uint16_t")]


def build_instances(tier, units, qunits, ro):
    out = []
    core6 = {u.name for u in point_units("quick")}
    full = [(a, b) for a in REPS for b in REPS]

    def rps(a, b):
        # thorough: all 25 ordered rep pairs among the six core units, the 13-pair mix elsewhere
        return full if tier == "thorough" and a.name in core6 and b.name in core6 else REPS_QUICK
    for a in units:
        for b in units:
            if a is b or (a.name, b.name) not in ro["disp"]:
                continue
            for r1, r2 in rps(a, b) + REPS_NARROW_CONV:
                if True:
                    out.append(Conv(len(out), a, r1, b, r2, ro["disp"][(a.name, b.name)]))
    for i, a in enumerate(units):
        for b in units[i + 1:]:
            if (a.name, b.name) not in ro["cpu"]:
                continue
            for r1, r2 in rps(a, b):
                if True:
                    out.append(Pair(len(out), a, r1, b, r2, ro["cpu"][(a.name, b.name)]))
    reps = SHIFT_REPS_QUICK if tier == "quick" else REPS_QUICK
    for p in units:
        for q in qunits:
            if (p.name, q.name) not in ro["shift"]:
                continue
            for rp, rq in reps:
                out.append(Shift(len(out), p, rp, q, rq, ro["shift"][(p.name, q.name)]))
    return out


def run_domain_probes(wd, cfg, insts):
    ps = []
    for it in insts:
        for pid, code, exp in it.probes(cfg):
            ps.append(core.Probe(pid, code, "accept" if exp else "reject"))
    res, _ = core.run_probes(cfg, ps, os.path.join(wd, "dom_" + cfg.name), "c09d", PREAMBLE, flags=cflags(cfg))
    by = {it.id: it for it in insts}
    mism, nacc, nrej = [], 0, 0
    for it in insts:
        it.ops[cfg.name] = {}
    for p in ps:
        v, diag = res[p.pid]
        it = by[p.pid[0]]
        it.ops[cfg.name][p.pid[1]] = v == "accept"
        nacc += v == "accept"
        nrej += v == "reject"
        if v != p.expect and p.pid[1] not in ("ctor", "noctor"):
            mism.append({"config": str(cfg), "instance": it.kind + ":" + it.desc(), "group": p.pid[1],
                         "predicted": p.expect, "observed": v, "diag": diag[:140]})
    return mism, nacc, nrej


def build_and_run(wd, cfg, tag, insts, flags, nsplit, timeout=3000):
    d = os.path.join(wd, tag)
    os.makedirs(d, exist_ok=True)
    groups = [[] for _ in range(max(1, min(nsplit, len(insts))))]
    load = [0] * len(groups)
    for it in sorted(insts, key=lambda i: (-i.weight(), i.id)):
        k = load.index(min(load))
        groups[k].append(it)
        load[k] += it.weight() + 200000      # + a per-instance compile-cost term
    fl = ["-O1"] + list(flags) + cflags(cfg)
    core.pch_dir(cfg, fl)

    def job(k):
        src, exe = os.path.join(d, "sw%d.cc" % k), os.path.join(d, "sw%d" % k)
        g = sorted(groups[k], key=lambda i: i.id)
        with open(src, "w") as f:
            f.write(PREAMBLE + '\n#include "c09_sweep.hh"\nnamespace {\n' + "\n".join(it.emit(cfg) for it in g) +
                    "\n}\nint main() {\n" + "\n".join("  " + it.call() for it in g) + "\n  return 0; }\n")
        rc, err = core.build_exe(cfg, src, exe, fl)
        if rc != 0:
            raise core.InfraError("C09 sweep TU failed to build (%s):\n%s" % (src, err[-3000:]))
        env = dict(os.environ)
        env["UBSAN_OPTIONS"] = "halt_on_error=0:print_stacktrace=0"
        rc, out, err = core.sh([exe], timeout=timeout, env=env)
        if rc == 3 and '"kind":"trap"' in out:
            return out
        if rc != 0:
            raise core.InfraError("C09 sweep binary %s failed rc=%d: %s" % (exe, rc, err[-2000:]))
        try:
            os.remove(exe)
        except OSError:
            pass
        return out

    stats, viols = [], []
    for out in core.pmap(job, range(len(groups))):
        for line in out.split("\n"):
            if line.startswith("S "):
                stats.append(json.loads(line[2:]))
            elif line.startswith("V "):
                viols.append(json.loads(line[2:]))
    return stats, viols


# ---------------------------------------------------------------- second (Python) oracle route
def py_expect(it, v):
    """Recompute an integral expectation with Fractions directly from (scale, origin)."""
    k = v["kind"]
    try:
        x1 = Fr(v["x1"])
        x2 = Fr(v["x2"]) if v["x2"] else None
    except ValueError:
        return None
    if it.kind == "conv" and k == "conversion":
        if isf(it.calc):
            return None
        r = (x1 * it.u1.s + it.u1.o - it.u2.o) / it.u2.s
        return str(int(r)) if r.denominator == 1 else "non-integral"
    if it.kind == "pair" and not isf(it.c):
        a, b = it.u1.o + x1 * it.u1.s, it.u2.o + x2 * it.u2.s
        if v["order"] == 1:
            a, b = b, a
        if k == "cmp-exact":
            return "true" if {"<": a < b, "==": a == b, ">": a > b, "<=": a <= b, ">=": a >= b, "!=": a != b}[v["op"]] else "false"
        if k == "spaceship-exact":
            return "less" if a < b else "equal" if a == b else "greater"
        if k == "point-difference":
            r = (a - b) / it.sc
            return str(int(r)) if r.denominator == 1 else "non-integral"
    if it.kind == "shift" and not isf(it.c) and k == "point-shift":
        sgn = -1 if v["op"] == "p-q" else 1
        r = (it.u1.o + x1 * it.u1.s + sgn * x2 * it.u2.s - it.oru) / it.g
        return str(int(r)) if r.denominator == 1 else "non-integral"
    return None


# ---------------------------------------------------------------------------------- negative probes
NEG_PREAMBLE = PREAMBLE + r'''
namespace c09n {
template <typename U, typename R> void takes_q(au::Quantity<U, R>) {}
template <typename U, typename R> void takes_p(au::QuantityPoint<U, R>) {}
inline void takes_qk(au::Quantity<au::Kelvins, double>) {}
inline void takes_pk(au::QuantityPoint<au::Kelvins, double>) {}
}
'''


def negative_probes(tier):
    """(id, code, expect) — every reject probe shares its id prefix with an accepted twin."""
    units = [("kelvins", "au::Kelvins"), ("celsius", "au::Celsius"), ("fahrenheit", "au::Fahrenheit"),
             ("PA", "gen::PA"), ("meters", "au::Meters")]
    if tier == "thorough":
        units += [("milli_kelvins", "au::Milli<au::Kelvins>"), ("PB", "gen::PB"), ("kilo_kelvins", "au::Kilo<au::Kelvins>")]
    makers = {"kelvins": ("au::kelvins", "au::kelvins_pt"), "celsius": ("au::celsius_qty", "au::celsius_pt"),
              "fahrenheit": ("au::fahrenheit_qty", "au::fahrenheit_pt"), "meters": ("au::meters", "au::meters_pt")}
    out = []
    for (un, u) in units:
        for r in REPS:
            mk = ("auto p = au::make_quantity_point<%s>(static_cast<%s>(5)); auto q = au::make_quantity<%s>(static_cast<%s>(3)); "
                  "%s k = 2; (void)p; (void)q; (void)k; " % (u, r, u, r, r))
            t = "%s:%s" % (un, r)
            P, Q = "au::QuantityPoint<%s, %s>" % (u, r), "au::Quantity<%s, %s>" % (u, r)
            cases = [
                ("p+p", "(void)(p + p);", "(void)(p + q); (void)(p - p);"),
                ("p+=p", "p += p;", "p += q;"),
                ("k*p", "(void)(k * p);", "(void)(k * q);"),
                ("p*k", "(void)(p * k);", "(void)(q * k);"),
                ("p*p", "(void)(p * p);", "(void)(q * q);"),
                ("p/p", "(void)(p / p);", "(void)(q / q);"),
                ("init-from-ZERO", "%s z = au::ZERO; (void)z;" % P, "%s z = au::ZERO; (void)z;" % Q),
                ("construct-from-ZERO", "%s z{au::ZERO}; (void)z;" % P, "%s z{au::ZERO}; (void)z;" % Q),
                ("assign-ZERO", "p = au::ZERO;", "q = au::ZERO;"),
                ("point-as-quantity-arg", "c09n::takes_q(p);", "c09n::takes_q(q);"),
                ("quantity-as-point-arg", "c09n::takes_p(q);", "c09n::takes_p(p);"),
                ("point-to-quantity-init", "%s z = p; (void)z;" % Q, "%s z = q; (void)z;" % Q),
                ("quantity-to-point-init", "%s z = q; (void)z;" % P, "%s z = p; (void)z;" % P),
                ("quantity-maker-on-point", "(void)au::QuantityMaker<%s>{}(p);" % u, "(void)au::QuantityMaker<%s>{}(static_cast<%s>(1));" % (u, r)),
                ("point-maker-on-quantity", "(void)au::QuantityPointMaker<%s>{}(q);" % u, "(void)au::QuantityPointMaker<%s>{}(static_cast<%s>(1));" % (u, r)),
                            ]
            if un in makers:
                qm, pm = makers[un]
                cases += [("named-quantity-maker-on-point", "(void)%s(p);" % qm, "(void)%s(static_cast<%s>(1));" % (qm, r)),
                          ("named-point-maker-on-quantity", "(void)%s(q);" % pm, "(void)%s(static_cast<%s>(1));" % (pm, r))]
            if un == "kelvins":
                cases += [("point-as-fixed-quantity-arg", "c09n::takes_qk(p);", "c09n::takes_qk(q);"),
                          ("quantity-as-fixed-point-arg", "c09n::takes_pk(q);", "c09n::takes_pk(p);")]
            for name, bad, twin in cases:
                out.append(("%s:%s" % (name, t), mk + bad, "reject"))
                out.append(("%s:%s:twin" % (name, t), mk + twin, "accept"))
    # mixed-unit point + point (different origins): twin is the subtraction
    mixed = [("celsius", "au::Celsius", "kelvins", "au::Kelvins"), ("fahrenheit", "au::Fahrenheit", "celsius", "au::Celsius"),
             ("PA", "gen::PA", "PB", "gen::PB")]
    for (n1, u1, n2, u2) in mixed:
        for r in ("int64_t", "double"):
            mk = "auto a = au::make_quantity_point<%s>(static_cast<%s>(5)); auto b = au::make_quantity_point<%s>(static_cast<%s>(3)); " % (u1, r, u2, r)
            out.append(("p+p-mixed:%s:%s:%s" % (n1, n2, r), mk + "(void)(a + b);", "reject"))
            out.append(("p+p-mixed:%s:%s:%s:twin" % (n1, n2, r), mk + "(void)(a - b); (void)(a < b);", "accept"))
    return out
