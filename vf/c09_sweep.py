"""C09 explorer: QuantityPoint affine semantics against an exact rational model.

Model of a point unit: (scale s, origin o), both Fractions in kelvins.  Exact position of a point
with stored value x:  o + x*s.

What is read out of the implementation (never judged here except for exactness of the displacement):
  * origin_displacement(U1, U2): value + unit.  Its exact size must be o2 - o1 (judged); its *unit*
    fixes the library's documented intermediate (common unit of the source unit and that unit).
  * the scale of CommonPointUnitT<U1,U2> and of the result unit of p + q (the statement does not fix
    which subdivision is chosen; C10 judges that).  The ORIGIN of the common point unit is taken
    from the model (the smallest origin), not from the implementation.
"""
import json
import math
import os
from fractions import Fraction as Fr

from . import core, model, psx
from .core import tmax, tmin
from .sweep34 import cflags, lit128

REPS = ["int32_t", "int64_t", "double", "float", "uint32_t", "uint64_t", "long double"]
FLT = ("float", "double", "long double")
UBSAN = ["-fsanitize=undefined", "-fsanitize-recover=all"]

PREAMBLE = r'''
namespace gen {
struct PA : decltype(au::Kelvins{} * au::mag<3>() / au::mag<7>()) { static constexpr auto origin() { return (au::kelvins / au::mag<4>())(5); } };
struct PB : au::Kelvins { static constexpr auto origin() { return (au::kelvins / au::mag<6>())(-7); } };
struct PC : decltype(au::Kelvins{} * au::mag<2>() / au::mag<5>()) { static constexpr auto origin() { return au::centi(au::kelvins)(27315); } };
struct PD : decltype(au::Kelvins{} * au::mag<5>() / au::mag<9>()) { static constexpr auto origin() { return (au::kelvins * au::mag<5>() / au::mag<27>())(1); } };
struct PE : decltype(au::Kelvins{} * au::mag<1000>() / au::mag<999>()) {};
struct PF : decltype(au::Kelvins{} * au::mag<3>() / au::mag<7>()) { static constexpr auto origin() { return (au::kelvins / au::mag<6>())(-7); } };
struct QG : decltype(au::Kelvins{} * au::mag<3>() / au::mag<7>()) {};
}
namespace c09d {
inline std::string origin_json(au::Zero) { return "{\"zero\":true}"; }
template <typename Un, typename R>
std::string origin_json(au::Quantity<Un, R> q) {
    return "{\"zero\":false,\"v\":" + std::to_string(static_cast<long long>(q.in(Un{}))) + ",\"mag\":" +
           vf::MagJson<au::detail::MagT<Un>>::get() + "}";
}
}
'''


class PU:
    def __init__(self, name, cpp, scale, origin):
        self.name, self.cpp, self.s, self.o = name, cpp, Fr(scale), Fr(origin)


C0 = Fr(27315, 100)
F0 = Fr(45967, 100) * Fr(5, 9)


def point_units(tier):
    q = [PU("kelvins", "au::Kelvins", 1, 0), PU("celsius", "au::Celsius", 1, C0),
         PU("fahrenheit", "au::Fahrenheit", Fr(5, 9), F0),
         PU("milli_kelvins", "au::Milli<au::Kelvins>", Fr(1, 1000), 0),
         PU("PA", "gen::PA", Fr(3, 7), Fr(5, 4)), PU("PB", "gen::PB", 1, Fr(-7, 6)),
         PU("centi_celsius", "au::Centi<au::Celsius>", Fr(1, 100), C0)]
    if tier == "thorough":
        q += [PU("kilo_kelvins", "au::Kilo<au::Kelvins>", 1000, 0),
              PU("milli_celsius", "au::Milli<au::Celsius>", Fr(1, 1000), C0),
              PU("milli_fahrenheit", "au::Milli<au::Fahrenheit>", Fr(5, 9000), F0),
              PU("PC", "gen::PC", Fr(2, 5), C0), PU("PD", "gen::PD", Fr(5, 9), Fr(5, 27)),
              PU("PE", "gen::PE", Fr(1000, 999), 0), PU("PF", "gen::PF", Fr(3, 7), Fr(-7, 6))]
    return q


def quantity_units(tier):
    q = [PU("kelvins", "au::Kelvins", 1, 0), PU("milli_kelvins", "au::Milli<au::Kelvins>", Fr(1, 1000), 0),
         PU("fahrenheit_qty", "au::Fahrenheit", Fr(5, 9), 0)]
    if tier == "thorough":
        q.append(PU("QG", "gen::QG", Fr(3, 7), 0))
    return q


def fgcd(a, b):
    return Fr(math.gcd(a.numerator * b.denominator, b.numerator * a.denominator), a.denominator * b.denominator)


def isf(r):
    return r in FLT


def signed(r):
    return isf(r) or core.is_signed(r)


def lim(r):
    return (tmin(r), tmax(r)) if not isf(r) else (-(2 ** 62), 2 ** 62)


def calc_rep(r1, r2):
    """Model of the documented intermediate rep of QuantityPoint::in<NewRep>: common type, made
    signed when the destination is signed."""
    c = core.common_rep(r1, r2)
    if not isf(c) and signed(r2) and not core.is_signed(c):
        c = c[1:]
    return c


def pol(k, rep):
    return isf(rep) or k == 1 or 2147 * k <= tmax(rep)


def frac_of(o):
    return Fr(o["v"]) * model.mag_fraction(model.mag_from_readout(o["mag"]))


def cf_of(rep):
    return rep if isf(rep) else "double"


def merge(iv):
    iv = sorted(iv)
    out = []
    for a, b in iv:
        if b < a:
            continue
        if out and a <= out[-1][1] + 1:
            out[-1] = (out[-1][0], max(out[-1][1], b))
        else:
            out.append((a, b))
    return out


def windows(centers, radius, lo, hi):
    return merge((max(int(c) - radius, lo), min(int(c) + radius, hi)) for c in centers
                 if int(c) + radius >= lo and int(c) - radius <= hi)


def rnd(fr):
    return int(math.floor(Fr(fr) + Fr(1, 2)))


def ivs(name, iv):
    return "static const vf::Interval %s[] = {%s};" % (name, ", ".join("{%s, %s}" % (lit128(a), lit128(b)) for a, b in iv))


def consts(**kw):
    return " ".join("static constexpr vf::i128 %s() { return %s; }" % (k, lit128(v)) for k, v in kw.items())


# ---------------------------------------------------------------------------------- read-outs
def readouts(wd, cfg, units, qunits):
    recs, meta = [], {}
    rid = 0
    for a in units:
        for b in units:
            if a is b:
                continue
            recs.append((rid, ['vf_kv("disp", c09d::origin_json(au::origin_displacement(%s{}, %s{})));' % (a.cpp, b.cpp)]))
            meta[rid] = ("disp", a.name, b.name)
            rid += 1
    for i, a in enumerate(units):
        for b in units[i:]:
            recs.append((rid, ['using Cp = au::CommonPointUnitT<%s, %s>;' % (a.cpp, b.cpp),
                               'vf_kv("mag", vf::MagJson<au::detail::MagT<Cp>>::get());',
                               'vf_kv("origin", c09d::origin_json(au::origin_displacement(au::Kelvins{}, Cp{})));',
                               'vf_kv("d1", c09d::origin_json(au::origin_displacement(Cp{}, %s{})));' % a.cpp,
                               'vf_kv("d2", c09d::origin_json(au::origin_displacement(Cp{}, %s{})));' % b.cpp,
                               'using Dq = decltype(std::declval<au::QuantityPoint<%s, long long>>() - std::declval<au::QuantityPoint<%s, long long>>());' % (a.cpp, b.cpp),
                               'vf_kv("sub_mag", vf::MagJson<au::detail::MagT<typename Dq::Unit>>::get());']))
            meta[rid] = ("cpu", a.name, b.name)
            rid += 1
    for p in units:
        for q in qunits:
            recs.append((rid, ['using Rt = decltype(std::declval<au::QuantityPoint<%s, long long>>() + std::declval<au::Quantity<%s, long long>>());' % (p.cpp, q.cpp),
                               'using Rm = decltype(std::declval<au::QuantityPoint<%s, long long>>() - std::declval<au::Quantity<%s, long long>>());' % (p.cpp, q.cpp),
                               'vf_kv("mag", vf::MagJson<au::detail::MagT<typename Rt::Unit>>::get());',
                               'vf_kv("origin", c09d::origin_json(au::origin_displacement(au::Kelvins{}, typename Rt::Unit{})));',
                               'vf_b("same", std::is_same<typename Rt::Unit, typename Rm::Unit>::value);']))
            meta[rid] = ("shift", p.name, q.name)
            rid += 1
    res, failed = psx.run_dump(cfg, recs, wd, "ro", PREAMBLE, flags=cflags(cfg), chunk=max(6, len(recs) // (core.NCPU * 2) + 1))
    out = {"disp": {}, "cpu": {}, "shift": {}, "failed": []}
    for r, o in res.items():
        k, a, b = meta[r]
        out[k][(a, b)] = o
    for r, d in failed.items():
        out["failed"].append({"what": meta[r], "diag": d[:200]})
    return out


# ---------------------------------------------------------------------------------- instances
class Conv:
    kind = "conv"

    def __init__(self, idx, u1, r1, u2, r2, disp):
        self.id, self.u1, self.r1, self.u2, self.r2 = idx, u1, r1, u2, r2
        self.calc = calc_rep(r1, r2)
        self.same = r1 == r2
        if disp["zero"]:
            self.dv, self.sd = 0, None
            cu = u1.s
            self.kx, self.kdd, self.kd = 1, 1, 0
        else:
            self.dv, self.sd = disp["v"], model.mag_fraction(model.mag_from_readout(disp["mag"]))
            cu = fgcd(u1.s, self.sd)
            self.kx, self.kdd = int(u1.s / cu), int(self.sd / cu)
            self.kd = -self.dv * self.kdd
        nd = cu / u2.s
        self.n, self.d = nd.numerator, nd.denominator
        self.static_out = None
        if not isf(self.calc) and core.is_signed(self.calc):
            lo, hi = lim(self.calc)
            if not (lo <= self.dv <= hi and lo <= self.dv * self.kdd <= hi):
                self.static_out = "origin displacement does not fit the signed intermediate rep"
        if not isf(self.calc) and (self.n > tmax(self.calc) or self.d > tmax(self.calc)):
            self.static_out = "conversion factor not representable in the intermediate rep"
        if not isf(self.calc) and (self.kd * self.n) % math.gcd(self.kx * self.n, self.d) != 0:
            # (x*KX + KD)*N/D is never an integer: nothing is demanded of any value of this instance
            self.static_out = "true result is never an integer"
        self.ops = {}

    def desc(self):
        return "U1=%s:R1=%s:U2=%s:R2=%s" % (self.u1.name, self.r1, self.u2.name, self.r2)

    def pred(self, group):
        c = self.calc
        if group == "ci":
            return isf(c) or (pol(self.kx, c) and pol(self.kdd, c) and self.n <= tmax(c) and self.d <= tmax(c))
        r = self.r1
        if isf(r):
            return True
        return (tmin(r) <= -self.dv <= tmax(r) and pol(self.kx, r) and pol(self.kdd, r) and self.d == 1 and pol(self.n, r))

    def probes(self, cfg):
        mk = "auto p = au::make_quantity_point<%s>(static_cast<%s>(1)); using U2 = %s; using T = %s; " % (
            self.u1.cpp, self.r1, self.u2.cpp, self.r2)
        body = "(void)p.template coerce_in<T>(U2{}); (void)p.template coerce_as<T>(U2{}); (void)p.template in<T>(U2{}); (void)p.template as<T>(U2{});"
        if self.same:
            body += " (void)p.coerce_in(U2{}); (void)p.coerce_as(U2{});"
        out = [((self.id, "ci"), mk + body, self.pred("ci"))]
        if self.pred("ci"):
            # the same conversions with the target named by its point maker (unit-slot spelling)
            out.append(((self.id, "maker"), mk + "(void)p.template in<T>(au::QuantityPointMaker<U2>{}); (void)p.template as<T>(au::QuantityPointMaker<U2>{});"
                        + (" (void)p.coerce_as(au::QuantityPointMaker<U2>{});" if self.same else ""), True))
        if self.same:
            out.append(((self.id, "pol"), mk + "(void)p.in(U2{}); (void)p.as(U2{});", self.pred("pol")))
        # implicit converting constructor: 'ctor' = declared implicit AND well-formed; 'noctor' = not declared implicit.
        # (both rejected = declared implicit but ill-formed when used: reported by the check)
        p2 = "using P1 = decltype(p); using P2 = au::QuantityPoint<U2, T>; "
        out.append(((self.id, "ctor"), mk + p2 + "static_assert(std::is_convertible<P1, P2>::value, \"\"); P2 p2 = p; (void)p2;", isf(self.r2)))
        out.append(((self.id, "noctor"), mk + p2 + "static_assert(!std::is_convertible<P1, P2>::value, \"\");", not isf(self.r2)))
        return out

    def swept(self, cfg):
        return self.static_out is None and self.ops[cfg.name].get("ci")

    def prepare(self, big, small, lat_step=0):
        lo, hi = lim(self.r1)
        u1, u2 = self.u1, self.u2
        cen = [0, rnd((u2.o - u1.o) / u1.s), rnd(-u1.o / u1.s)]
        iv = windows(cen, big, lo, hi)
        b = [lo, hi, 2 ** 24, -2 ** 24, 2 ** 31, -2 ** 31, 2 ** 32, 2 ** 53, -2 ** 53, 2 ** 63, 2 ** 64 - 1]
        divs = (1,)
        if not isf(self.calc):
            cl, ch = lim(self.calc)
            for L in (cl, ch):
                b += [L // self.kx, (L - self.kd) // self.kx, (int(Fr(L, self.n)) - self.kd) // self.kx]
            limits = [cl, ch]
            if not isf(self.r2):
                limits += list(lim(self.r2))
                for L in lim(self.r2):
                    b.append((int(Fr(L * self.d, self.n)) - self.kd) // self.kx)
            # overflow thresholds of other plausible orders of the same computation (scale before displacing, divide late, ...)
            for L in limits:
                for den in (self.kx * self.n, self.kx * self.n * self.d, self.kx * self.d, self.n, self.d, self.n * self.d):
                    b += [L // den, (L - self.kd * self.n) // (self.kx * self.n)]
            divs = (1, self.kx, self.kx * self.n)
        self.iv = merge(iv + windows(b, small, lo, hi))
        if lat_step:
            self.iv = merge(self.iv + [(max(x - 1, lo), min(x + 1, hi)) for x in lattice(lo, hi, divs, lat_step)])
        if not isf(self.r1) and core.BITS[self.r1] <= 16:
            self.iv = [(lo, hi)]          # 8/16-bit source reps: every value

    def weight(self):
        return sum(b - a + 1 for a, b in self.iv) * (3 if isf(self.r1) else 1)

    def emit(self, cfg):
        ops = self.ops[cfg.name]
        c = self.calc
        cl, ch = lim(c)
        return ("struct I%d { typedef %s U1; typedef %s U2; typedef %s R1; typedef %s R2; typedef %s CF; "
                "static constexpr bool CFLOAT = %s, CUNS = %s, SAME = %s, POL = %s, CTOR = %s, MAKER = %s; %s };\n%s"
                % (self.id, self.u1.cpp, self.u2.cpp, self.r1, self.r2, cf_of(c), str(isf(c)).lower(),
                   str(not isf(c) and not core.is_signed(c)).lower(), str(self.same).lower(),
                   str(bool(ops.get("pol"))).lower(), str(bool(ops.get("ctor"))).lower(), str(bool(ops.get("maker"))).lower(),
                   consts(KX=self.kx, KD=self.kd, N=self.n, D=self.d, CLO=cl, CHI=ch), ivs("A%d" % self.id, self.iv)))

    def call(self):
        return "c09::run_conv<I%d>(%d, A%d, %d);" % (self.id, self.id, self.id, len(self.iv))

    def rec(self):
        return {"type": "conv", "u1": [self.u1.name, self.u1.cpp, str(self.u1.s), str(self.u1.o)],
                "u2": [self.u2.name, self.u2.cpp, str(self.u2.s), str(self.u2.o)], "r1": self.r1, "r2": self.r2}


def lattice(lo, hi, divs=(1,), step=1):
    """Enumerated mid-range lattice: {2^j, 3*2^(j-1), 5*2^(j-2)} and the same divided by every factor in divs, +-1, both signs."""
    lat = set()
    for j in range(2, 64, step):
        for v in (2 ** j, 3 * 2 ** (j - 1), 5 * 2 ** (j - 2)):
            for k in divs:
                if k > 0:
                    lat.add(v // k)
    if lo < 0:
        lat |= {-x for x in lat}
    return [x for x in sorted(lat) if lo <= x <= hi]


KIND_PREAMBLE = r'''
namespace c09k {
template <typename T> struct IsQ : std::false_type {};
template <typename U, typename R> struct IsQ<au::Quantity<U, R>> : std::true_type {};
template <typename T> struct IsP : std::false_type {};
template <typename U, typename R> struct IsP<au::QuantityPoint<U, R>> : std::true_type {};
}
'''


class Pair:
    kind = "pair"

    def __init__(self, idx, u1, r1, u2, r2, cpu):
        self.id, self.u1, self.r1, self.u2, self.r2 = idx, u1, r1, u2, r2
        self.c = core.common_rep(r1, r2)
        self.sc = model.mag_fraction(model.mag_from_readout(cpu["mag"]))
        self.oc = min(u1.o, u2.o)                      # model: the common origin is the smallest origin
        self.ab = [(u.s / self.sc, (u.o - self.oc) / self.sc) for u in (u1, u2)]
        self.sub_in_cpu = cpu.get("sub_mag") == cpu.get("mag")
        self.static_out = None
        if any(a.denominator != 1 or b.denominator != 1 for a, b in self.ab):
            self.static_out = "positions are not integral in the implementation's common point unit"
        elif not isf(self.c) and any(b > tmax(self.c) for a, b in self.ab):
            self.static_out = "origin offset does not fit the common rep"
        # the documented computation of p.as(common point unit) in the common rep: x*KX + D*KDD (common unit of the operand's
        # unit and the unit the origin displacement is written in), then * N.  Every factor is policy-checked, D must fit.
        self.path = []
        for u, key in ((u1, "d1"), (u2, "d2")):
            d = cpu.get(key)
            if d is None:
                self.path.append(None)
            elif d["zero"]:
                self.path.append((1, 1, 0, u.s / self.sc))
            else:
                du = model.mag_fraction(model.mag_from_readout(d["mag"]))
                cu = fgcd(u.s, du)
                self.path.append((int(u.s / cu), int(du / cu), d["v"], cu / self.sc))
        self.ops = {}

    def desc(self):
        return "U1=%s:R1=%s:U2=%s:R2=%s" % (self.u1.name, self.r1, self.u2.name, self.r2)

    def pred(self, group):
        """True = the statement gives the library no reason to refuse (floating common rep, or every factor of the documented
        computation inside the implicit-conversion policy and the displacement representable); None = cannot tell."""
        if isf(self.c):
            return True
        if self.static_out:
            return False
        if any(x is None for x in self.path):
            return None
        c = self.c
        for (kx, kdd, dv, n) in self.path:
            if n.denominator != 1 or not (pol(kx, c) and pol(kdd, c) and pol(int(n), c)) or not (tmin(c) <= dv <= tmax(c)):
                return False
        return True

    def probes(self, cfg):
        mk = ("auto a = au::make_quantity_point<%s>(static_cast<%s>(1)); auto b = au::make_quantity_point<%s>(static_cast<%s>(1)); "
              % (self.u1.cpp, self.r1, self.u2.cpp, self.r2))
        out = [((self.id, "cmp"), mk + "(void)(a == b); (void)(a != b); (void)(a < b); (void)(a <= b); (void)(a > b); (void)(a >= b); "
                "(void)(b == a); (void)(b != a); (void)(b < a); (void)(b <= a); (void)(b > a); (void)(b >= a);", self.pred("cmp")),
               ((self.id, "sub"), mk + "(void)(a - b); (void)(b - a);", self.pred("sub"))]
        if cfg.std == "c++20":
            out.append(((self.id, "ss"), mk + "(void)(a <=> b); (void)(b <=> a);", self.pred("ss")))
        if self.pred("sub"):
            # the result of point - point is a Quantity (a displacement), never a point
            out.append(((self.id, "kind"), mk + "static_assert(c09k::IsQ<decltype(a - b)>::value && c09k::IsQ<decltype(b - a)>::value, \"\");", True))
        return out

    def swept(self, cfg):
        return self.static_out is None and self.ops[cfg.name].get("cmp")

    def prepare(self, big, small, lat_step=0, full16=False):
        self.w, self.f = [], []
        us = (self.u1, self.u2)
        for i, (u, r) in enumerate(zip(us, (self.r1, self.r2))):
            o = us[1 - i]
            lo, hi = lim(r)
            cen = [0, rnd((o.o - u.o) / u.s), rnd(-u.o / u.s)]
            if not isf(r) and core.BITS[r] <= 16:
                self.w.append([(lo, hi)] if core.BITS[r] == 8 or full16 else windows(cen + [lo, hi], big, lo, hi))
            else:
                self.w.append(windows(cen, big, lo, hi))
            b = cen + [lo, hi, 1000, -1000]
            a = 1
            if not isf(self.c):
                cl, ch = lim(self.c)
                a, off = int(self.ab[i][0]), int(self.ab[i][1])
                b += [ch // a, cl // a, (ch - off) // a, (cl - off) // a]
            self.f.append(windows(b, small, lo, hi))
            if lat_step:
                self.w[i] = merge(self.w[i] + [(x, x) for x in lattice(lo, hi, (1, a), lat_step)])

    def weight(self):
        n = lambda iv: sum(b - a + 1 for a, b in iv)
        return n(self.w[0]) * (n(self.f[1]) + 5) + n(self.w[1]) * (n(self.f[0]) + 5)

    def emit(self, cfg):
        ops = self.ops[cfg.name]
        (a1, b1), (a2, b2) = self.ab
        return ("struct I%d { typedef %s U1; typedef %s U2; typedef %s R1; typedef %s R2; typedef %s C; typedef %s CF; "
                "static constexpr bool CFLOAT = %s, SUB = %s, SS = %s; %s };\n%s\n%s\n%s\n%s"
                % (self.id, self.u1.cpp, self.u2.cpp, self.r1, self.r2, self.c, cf_of(self.c), str(isf(self.c)).lower(),
                   str(bool(ops.get("sub")) and self.sub_in_cpu).lower(), str(bool(ops.get("ss"))).lower(),
                   consts(A1=int(a1), B1=int(b1), A2=int(a2), B2=int(b2)),
                   ivs("W1_%d" % self.id, self.w[0]), ivs("F1_%d" % self.id, self.f[0]),
                   ivs("W2_%d" % self.id, self.w[1]), ivs("F2_%d" % self.id, self.f[1])))

    def call(self):
        i = self.id
        return "c09::run_pair<I%d>(%d, W1_%d, %d, F1_%d, %d, W2_%d, %d, F2_%d, %d);" % (
            i, i, i, len(self.w[0]), i, len(self.f[0]), i, len(self.w[1]), i, len(self.f[1]))

    def rec(self):
        return {"type": "pair", "u1": [self.u1.name, self.u1.cpp, str(self.u1.s), str(self.u1.o)],
                "u2": [self.u2.name, self.u2.cpp, str(self.u2.s), str(self.u2.o)], "r1": self.r1, "r2": self.r2,
                "cpu_mag": str(self.sc)}


class Shift:
    kind = "shift"

    def __init__(self, idx, up, rp, uq, rq, ro):
        self.id, self.u1, self.r1, self.u2, self.r2 = idx, up, rp, uq, rq
        self.c = core.common_rep(rp, rq)
        self.g = model.mag_fraction(model.mag_from_readout(ro["mag"]))
        self.oru = Fr(0) if ro["origin"]["zero"] else frac_of(ro["origin"])
        self.ap, self.aq, self.b = up.s / self.g, uq.s / self.g, (up.o - self.oru) / self.g
        self.static_out = None
        if any(x.denominator != 1 for x in (self.ap, self.aq, self.b)):
            self.static_out = "result unit cannot hold the operands integrally"
        self.ops = {}

    def desc(self):
        return "UP=%s:RP=%s:UQ=%s:RQ=%s" % (self.u1.name, self.r1, self.u2.name, self.r2)

    def pred(self, group):
        return isf(self.c) or (self.static_out is None and pol(int(self.ap), self.c) and pol(int(self.aq), self.c))

    def probes(self, cfg):
        mk = ("auto p = au::make_quantity_point<%s>(static_cast<%s>(1)); auto q = au::make_quantity<%s>(static_cast<%s>(1)); "
              % (self.u1.cpp, self.r1, self.u2.cpp, self.r2))
        out = [((self.id, "shift"), mk + "(void)(p + q); (void)(q + p); (void)(p - q);", self.pred("shift"))]
        if self.pred("shift"):
            # point +- quantity is a point
            out.append(((self.id, "kind"), mk + "static_assert(c09k::IsP<decltype(p + q)>::value && c09k::IsP<decltype(q + p)>::value && "
                        "c09k::IsP<decltype(p - q)>::value, \"\");", True))
        if self.sameq():
            out.append(((self.id, "compound"), mk + "p += q; p -= q;", True))
        return out

    def sameq(self):
        """the quantity operand has exactly the point's Diff type: p += q / p -= q are available without any conversion"""
        return self.u1.cpp == self.u2.cpp and self.r1 == self.r2

    def swept(self, cfg):
        return self.static_out is None and self.ops[cfg.name].get("shift")

    def prepare(self, big, small, lat_step=0, full16=False):
        lo, hi = lim(self.r1)
        self.w = windows([0, rnd(-self.u1.o / self.u1.s)], big, lo, hi)
        b = [lo, hi]
        if not isf(self.c):
            cl, ch = lim(self.c)
            b += [ch // int(self.ap), cl // int(self.ap)]
        self.w = merge(self.w + windows(b, small, lo, hi))
        if not isf(self.r1) and (core.BITS[self.r1] == 8 or (core.BITS[self.r1] == 16 and full16)):
            self.w = [(lo, hi)]
        if lat_step:
            self.w = merge(self.w + [(x, x) for x in lattice(lo, hi, (1, int(self.ap)), lat_step)])
        lo, hi = lim(self.r2)
        b = [0, 1000, -1000, lo, hi]
        if not isf(self.c):
            b += [ch // int(self.aq), cl // int(self.aq)]
        self.f = windows(b, small, lo, hi)
        if lat_step:
            self.f = merge(self.f + [(x, x) for x in lattice(lo, hi, (1, int(self.aq)), max(lat_step, 4))])

    def weight(self):
        n = lambda iv: sum(b - a + 1 for a, b in iv)
        return n(self.w) * n(self.f)

    def emit(self, cfg):
        return ("struct I%d { typedef %s UP; typedef %s UQ; typedef %s RP; typedef %s RQ; typedef %s C; typedef %s CF; "
                "static constexpr bool CFLOAT = %s, COMPOUND = %s; %s };\n%s\n%s"
                % (self.id, self.u1.cpp, self.u2.cpp, self.r1, self.r2, self.c, cf_of(self.c), str(isf(self.c)).lower(),
                   str(bool(self.ops[cfg.name].get("compound"))).lower(),
                   consts(AP=int(self.ap), AQ=int(self.aq), B=int(self.b)),
                   ivs("W%d" % self.id, self.w), ivs("F%d" % self.id, self.f)))

    def call(self):
        i = self.id
        return "c09::run_shift<I%d>(%d, W%d, %d, F%d, %d);" % (i, i, i, len(self.w), i, len(self.f))

    def rec(self):
        return {"type": "shift", "u1": [self.u1.name, self.u1.cpp, str(self.u1.s), str(self.u1.o)],
                "u2": [self.u2.name, self.u2.cpp, str(self.u2.s), str(self.u2.o)], "r1": self.r1, "r2": self.r2,
                "mag": str(self.g), "origin": str(self.oru)}


SHIFT_REPS_QUICK = [("int32_t", "int32_t"), ("int32_t", "int64_t"), ("int64_t", "int32_t"), ("uint32_t", "uint32_t"),
                    ("double", "double"), ("float", "double"), ("int32_t", "double"), ("uint64_t", "uint64_t"),
                    ("long double", "long double"), ("int64_t", "int64_t"), ("float", "float")]
# quick tier: every equal-rep pair + both orders of the width/signedness/int-float mixes
REPS_QUICK = [(r, r) for r in REPS] + [("int32_t", "int64_t"), ("int64_t", "int32_t"), ("uint32_t", "int32_t"),
                                       ("int32_t", "uint32_t"), ("int32_t", "double"), ("double", "int32_t"),
                                       ("float", "double"), ("double", "float"), ("int64_t", "float"),
                                       ("uint64_t", "int64_t"), ("int64_t", "uint64_t"), ("uint32_t", "uint64_t"),
                                       ("long double", "double"), ("float", "long double")]
# narrow reps, conversions (added after seeded change C09: the intermediate-rep rule matters for unsigned reps
# narrower than int, where std::common_type_t<T,T> does not promote)
REPS_NARROW_CONV = [("uint16_t", "uint16_t"), ("uint8_t", "uint8_t"), ("int16_t", "int16_t"), ("uint16_t", "int32_t"),
                    ("int16_t", "uint16_t"), ("uint8_t", "uint16_t")]
# narrow reps for point (op) point and point +- quantity: equal narrow reps keep the whole computation in the narrow rep
# (std::common_type_t<T,T> = T), mixed ones promote to int
REPS_NARROW_PAIR = [("int16_t", "int16_t"), ("uint16_t", "uint16_t"), ("uint8_t", "uint8_t"), ("int8_t", "int8_t"),
                    ("int8_t", "int16_t"), ("uint8_t", "uint16_t"), ("uint16_t", "int16_t"), ("int16_t", "int32_t")]
# quick tier, distinct units, point (op) point
PAIR_QUICK = [(r, r) for r in REPS] + [("int32_t", "int64_t"), ("uint32_t", "int32_t"), ("int32_t", "double"), ("float", "double"),
                                       ("uint64_t", "int64_t"), ("long double", "double"), ("int64_t", "float"),
                                       ("int16_t", "int16_t"), ("uint16_t", "uint16_t"), ("int8_t", "int16_t"), ("uint8_t", "uint16_t"),
                                       ("uint16_t", "int16_t"), ("int16_t", "int32_t")]
SHIFT_NARROW_QUICK = [("int16_t", "int16_t"), ("uint16_t", "uint16_t"), ("uint8_t", "uint8_t"), ("int8_t", "int16_t"), ("int16_t", "int32_t")]
REPS_SAME_UNIT = [(r, r) for r in REPS] + REPS_NARROW_PAIR[:4] + [("int32_t", "int64_t"), ("uint32_t", "int32_t"), ("float", "double"),
                                                                   ("int16_t", "int32_t"), ("uint8_t", "uint16_t"), ("int64_t", "uint64_t")]


def build_instances(tier, units, qunits, ro):
    out = []
    core6 = {u.name for u in point_units("quick")}
    full = [(a, b) for a in REPS for b in REPS]

    def rps(a, b):
        # thorough: all 49 ordered rep pairs among the core units, the mix elsewhere
        return full if tier == "thorough" and a.name in core6 and b.name in core6 else REPS_QUICK
    for a in units:
        for b in units:
            if a is b or (a.name, b.name) not in ro["disp"]:
                continue
            for r1, r2 in rps(a, b) + REPS_NARROW_CONV:
                out.append(Conv(len(out), a, r1, b, r2, ro["disp"][(a.name, b.name)]))
    for i, a in enumerate(units):
        for b in units[i:]:
            if (a.name, b.name) not in ro["cpu"]:
                continue
            # same-unit operands (the non-template friend operators when the reps are equal too) get their own menu
            both_core = a.name in core6 and b.name in core6
            if a is b:
                menu = REPS_SAME_UNIT if tier == "quick" or not both_core else full + REPS_NARROW_PAIR
            else:
                menu = PAIR_QUICK if tier == "quick" or not both_core else full + REPS_NARROW_PAIR
            for r1, r2 in menu:
                out.append(Pair(len(out), a, r1, b, r2, ro["cpu"][(a.name, b.name)]))
    reps = SHIFT_REPS_QUICK if tier == "quick" else REPS_QUICK
    for p in units:
        for q in qunits:
            if (p.name, q.name) not in ro["shift"]:
                continue
            for rp, rq in reps + (SHIFT_NARROW_QUICK if tier == "quick" else REPS_NARROW_PAIR):
                out.append(Shift(len(out), p, rp, q, rq, ro["shift"][(p.name, q.name)]))
    return out


def run_domain_probes(wd, cfg, insts):
    """Returns (mismatches: predicted reject / observed accept, n accepted, n rejected, refused: probes the model predicts must
    compile (no policy reason to refuse) that the compiler rejects -> the check reports those as violations)."""
    ps = []
    for it in insts:
        for pid, code, exp in it.probes(cfg):
            ps.append(core.Probe(pid, code, "accept" if exp else "reject", {"must": exp is True}))
    res, _ = core.run_probes(cfg, ps, os.path.join(wd, "dom_" + cfg.name), "c09d", PREAMBLE + KIND_PREAMBLE, flags=cflags(cfg))
    by = {it.id: it for it in insts}
    mism, nacc, nrej, refused = [], 0, 0, []
    for it in insts:
        it.ops[cfg.name] = {}
    for p in ps:
        v, diag = res[p.pid]
        it = by[p.pid[0]]
        g = p.pid[1]
        it.ops[cfg.name][g] = v == "accept"
        nacc += v == "accept"
        nrej += v == "reject"
        if v == p.expect or g in ("ctor", "noctor"):
            continue
        if p.meta["must"] and g != "pol":
            if not it.static_out:
                refused.append((it, g, p.code, diag))
        else:
            mism.append({"config": str(cfg), "instance": it.kind + ":" + it.desc(), "group": g,
                         "predicted": p.expect, "observed": v, "diag": diag[:140]})
    return mism, nacc, nrej, refused


def build_and_run(wd, cfg, tag, insts, flags, nsplit, timeout=3000):
    d = os.path.join(wd, tag)
    os.makedirs(d, exist_ok=True)
    groups = [[] for _ in range(max(1, min(nsplit, len(insts))))]
    load = [0] * len(groups)
    for it in sorted(insts, key=lambda i: (-i.weight(), i.id)):
        k = load.index(min(load))
        groups[k].append(it)
        load[k] += it.weight() + 200000      # + a per-instance compile-cost term
    fl = ["-O1"] + list(flags) + cflags(cfg)
    core.pch_dir(cfg, fl)

    def job(k):
        src, exe = os.path.join(d, "sw%d.cc" % k), os.path.join(d, "sw%d" % k)
        g = sorted(groups[k], key=lambda i: i.id)
        with open(src, "w") as f:
            f.write(PREAMBLE + '\n#include "c09_sweep.hh"\nnamespace {\n' + "\n".join(it.emit(cfg) for it in g) +
                    "\n}\nint main() {\n" + "\n".join("  " + it.call() for it in g) + "\n  return 0; }\n")
        rc, err = core.build_exe(cfg, src, exe, fl)
        if rc != 0:
            raise core.InfraError("C09 sweep TU failed to build (%s):\n%s" % (src, err[-3000:]))
        env = dict(os.environ)
        env["UBSAN_OPTIONS"] = "halt_on_error=0:print_stacktrace=0"
        rc, out, err = core.sh([exe], timeout=timeout, env=env)
        if rc == 3 and '"kind":"trap"' in out:
            return out
        if rc != 0:
            raise core.InfraError("C09 sweep binary %s failed rc=%d: %s" % (exe, rc, err[-2000:]))
        try:
            os.remove(exe)
        except OSError:
            pass
        return out

    stats, viols = [], []
    for out in core.pmap(job, range(len(groups))):
        for line in out.split("\n"):
            if line.startswith("S "):
                stats.append(json.loads(line[2:]))
            elif line.startswith("V "):
                viols.append(json.loads(line[2:]))
    return stats, viols


# ---------------------------------------------------------------- second (Python) oracle route
def py_expect(it, v):
    """Recompute an integral expectation with Fractions directly from (scale, origin)."""
    k = v["kind"]
    try:
        x1 = Fr(v["x1"])
        x2 = Fr(v["x2"]) if v["x2"] else None
    except ValueError:
        return None
    if it.kind == "conv" and k == "conversion":
        if isf(it.calc):
            return None
        r = (x1 * it.u1.s + it.u1.o - it.u2.o) / it.u2.s
        return str(int(r)) if r.denominator == 1 else "non-integral"
    if it.kind == "pair" and not isf(it.c):
        a, b = it.u1.o + x1 * it.u1.s, it.u2.o + x2 * it.u2.s
        if v["order"] == 1:
            a, b = b, a
        if k == "cmp-exact":
            return "true" if {"<": a < b, "==": a == b, ">": a > b, "<=": a <= b, ">=": a >= b, "!=": a != b}[v["op"]] else "false"
        if k == "spaceship-exact":
            return "less" if a < b else "equal" if a == b else "greater"
        if k == "point-difference":
            r = (a - b) / it.sc
            return str(int(r)) if r.denominator == 1 else "non-integral"
    if it.kind == "shift" and not isf(it.c) and k == "point-shift":
        sgn = -1 if v["op"] == "p-q" else 1
        r = (it.u1.o + x1 * it.u1.s + sgn * x2 * it.u2.s - it.oru) / it.g
        return str(int(r)) if r.denominator == 1 else "non-integral"
    return None


# ---------------------------------------------------------------------------------- negative probes
NEG_PREAMBLE = PREAMBLE + r'''
namespace c09n {
template <typename U, typename R> void takes_q(au::Quantity<U, R>) {}
template <typename U, typename R> void takes_p(au::QuantityPoint<U, R>) {}
inline void takes_qk(au::Quantity<au::Kelvins, double>) {}
inline void takes_pk(au::QuantityPoint<au::Kelvins, double>) {}
}
'''


def negative_probes(tier):
    """(id, code, expect) — every reject probe shares its id prefix with an accepted twin."""
    units = [("kelvins", "au::Kelvins"), ("celsius", "au::Celsius"), ("fahrenheit", "au::Fahrenheit"),
             ("PA", "gen::PA"), ("meters", "au::Meters")]
    if tier == "thorough":
        units += [("milli_kelvins", "au::Milli<au::Kelvins>"), ("PB", "gen::PB"), ("kilo_kelvins", "au::Kilo<au::Kelvins>")]
    makers = {"kelvins": ("au::kelvins", "au::kelvins_pt"), "celsius": ("au::celsius_qty", "au::celsius_pt"),
              "fahrenheit": ("au::fahrenheit_qty", "au::fahrenheit_pt"), "meters": ("au::meters", "au::meters_pt")}
    out = []
    for (un, u) in units:
        for r in REPS:
            mk = ("auto p = au::make_quantity_point<%s>(static_cast<%s>(5)); auto q = au::make_quantity<%s>(static_cast<%s>(3)); "
                  "%s k = 2; (void)p; (void)q; (void)k; " % (u, r, u, r, r))
            t = "%s:%s" % (un, r)
            P, Q = "au::QuantityPoint<%s, %s>" % (u, r), "au::Quantity<%s, %s>" % (u, r)
            cases = [
                ("p+p", "(void)(p + p);", "(void)(p + q); (void)(p - p);"),
                ("p+=p", "p += p;", "p += q;"),
                ("k*p", "(void)(k * p);", "(void)(k * q);"),
                ("p*k", "(void)(p * k);", "(void)(q * k);"),
                ("p*p", "(void)(p * p);", "(void)(q * q);"),
                ("p/p", "(void)(p / p);", "(void)(q / q);"),
                ("init-from-ZERO", "%s z = au::ZERO; (void)z;" % P, "%s z = au::ZERO; (void)z;" % Q),
                ("construct-from-ZERO", "%s z{au::ZERO}; (void)z;" % P, "%s z{au::ZERO}; (void)z;" % Q),
                ("assign-ZERO", "p = au::ZERO;", "q = au::ZERO;"),
                ("point-as-quantity-arg", "c09n::takes_q(p);", "c09n::takes_q(q);"),
                ("quantity-as-point-arg", "c09n::takes_p(q);", "c09n::takes_p(p);"),
                ("point-to-quantity-init", "%s z = p; (void)z;" % Q, "%s z = q; (void)z;" % Q),
                ("quantity-to-point-init", "%s z = q; (void)z;" % P, "%s z = p; (void)z;" % P),
                ("quantity-maker-on-point", "(void)au::QuantityMaker<%s>{}(p);" % u, "(void)au::QuantityMaker<%s>{}(static_cast<%s>(1));" % (u, r)),
                ("point-maker-on-quantity", "(void)au::QuantityPointMaker<%s>{}(q);" % u, "(void)au::QuantityPointMaker<%s>{}(static_cast<%s>(1));" % (u, r)),
                # further forms without affine meaning
                ("q-p", "(void)(q - p);", "(void)(p - q);"),
                ("negate-p", "(void)(-p);", "(void)(-q);"),
                ("p/k", "(void)(p / k);", "(void)(q / k);"),
                ("k/p", "(void)(k / p);", "(void)(k * q);"),
                ("p-=p", "p -= p;", "p -= q;"),
                ("p*=k", "p *= k;", "q *= k;"),
                ("p/=k", "p /= k;", "q /= k;"),
                ("p*q", "(void)(p * q);", "(void)(q * q);"),
                ("q*p", "(void)(q * p);", "(void)(q * q);"),
                ("p/q", "(void)(p / q);", "(void)(q / q);"),
                ("q/p", "(void)(q / p);", "(void)(q / q);"),
                # a point where a quantity is required (and vice versa) in comparison position
                ("p==q", "(void)(p == q);", "(void)(q == q); (void)(p == p);"),
                ("q==p", "(void)(q == p);", "(void)(q == q); (void)(p == p);"),
                ("p<q", "(void)(p < q);", "(void)(q < q); (void)(p < p);"),
                ("q>=p", "(void)(q >= p);", "(void)(q >= q); (void)(p >= p);"),
                ("p==ZERO", "(void)(p == au::ZERO);", "(void)(q == au::ZERO);"),
                ("p<ZERO", "(void)(p < au::ZERO);", "(void)(q < au::ZERO);"),
                ("ZERO<=p", "(void)(au::ZERO <= p);", "(void)(au::ZERO <= q);"),
                # explicit conversions between the two kinds
                ("explicit-quantity-from-point", "%s z{p}; (void)z;" % Q, "%s z{q}; (void)z;" % Q),
                ("static_cast-quantity-from-point", "(void)static_cast<%s>(p);" % Q, "(void)static_cast<%s>(q);" % Q),
                ("explicit-point-from-quantity", "%s z{q}; (void)z;" % P, "%s z{p}; (void)z;" % P),
                ("static_cast-point-from-quantity", "(void)static_cast<%s>(q);" % P, "(void)static_cast<%s>(p);" % P),
                            ]
            if not isf(r):
                cases.append(("p%p", "(void)(p % p);", "(void)(q % q);"))
                cases.append(("p%q", "(void)(p % q);", "(void)(q % q);"))
            if un in makers:
                qm, pm = makers[un]
                cases += [("named-quantity-maker-on-point", "(void)%s(p);" % qm, "(void)%s(static_cast<%s>(1));" % (qm, r)),
                          ("named-point-maker-on-quantity", "(void)%s(q);" % pm, "(void)%s(static_cast<%s>(1));" % (pm, r))]
            if un == "kelvins":
                cases += [("point-as-fixed-quantity-arg", "c09n::takes_qk(p);", "c09n::takes_qk(q);"),
                          ("quantity-as-fixed-point-arg", "c09n::takes_pk(q);", "c09n::takes_pk(p);")]
            for name, bad, twin in cases:
                out.append(("%s:%s" % (name, t), mk + bad, "reject"))
                out.append(("%s:%s:twin" % (name, t), mk + twin, "accept"))
    # mixed-unit point + point (different origins): twin is the subtraction
    mixed = [("celsius", "au::Celsius", "kelvins", "au::Kelvins"), ("fahrenheit", "au::Fahrenheit", "celsius", "au::Celsius"),
             ("PA", "gen::PA", "PB", "gen::PB")]
    for (n1, u1, n2, u2) in mixed:
        for r in ("int64_t", "double"):
            mk = "auto a = au::make_quantity_point<%s>(static_cast<%s>(5)); auto b = au::make_quantity_point<%s>(static_cast<%s>(3)); " % (u1, r, u2, r)
            out.append(("p+p-mixed:%s:%s:%s" % (n1, n2, r), mk + "(void)(a + b);", "reject"))
            out.append(("p+p-mixed:%s:%s:%s:twin" % (n1, n2, r), mk + "(void)(a - b); (void)(a < b);", "accept"))
    return out
