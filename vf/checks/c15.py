"""C15 — unit-aware math functions (bounded exhaustive enumeration against independent oracles).

 (a) floor_/ceil_/round_{in,as}: unit-only and explicit-output-rep forms, Quantity and QuantityPoint   (vf/c15_round.py)
 (b) inverse_in / inverse_as: all SI-prefixed seconds x hertz pairs, accept/reject + trunc(K/x) + round trip (vf/c15_inv.py)
 (c) trig, arc*, hypot, fmod, remainder, abs, copysign, min, max, clamp, isnan: value and result unit     (vf/c15_math.py)

Stage order: everything under the corner configurations / g++ first; thorough then adds the clang++ sweep builds and the four
remaining probe configurations while the time budget lasts (skipped stages are listed in exhaustive_note).
VERIF_C15_PARTS=a|b|c (development only) restricts a run to some sub-explorations.
"""
import json
import os

from .. import c15_common as C
from .. import c15_inv as INV
from .. import core

LEVEL = "exploration"
REPLAY_CAP = 50


def _viol_fn(run):
    def viol(key, what, obj):
        rp = None
        if run.match_known(key) is None and len(run.violations) < REPLAY_CAP:
            rp = run.write_replay(key, dict(obj, what=what))
        run.violation(key, what, rp)
    return viol


BUDGET_S = 1140     # thorough: stop adding configurations / second builds so that the run ends within ~20 minutes


def check(run):
    from .. import c15_math as M
    from .. import c15_round as RND
    quick = run.tier == "quick"
    cfgs = list(core.CORNERS) if quick else list(core.CORNERS) + [x for x in core.CFG6 if x not in core.CORNERS]
    sweep_cfgs = [core.GXX14] if quick else [core.GXX14, core.CLANG20]
    parts = os.environ.get("VERIF_C15_PARTS", "abc")
    viol = _viol_fn(run)
    wall, notes = {}, []

    def left():
        return min(run.time_left(), BUDGET_S - run.elapsed())

    def stage(name, need, fn):
        """Run one stage unless fewer than `need` seconds of budget are left (need = 0: mandatory)."""
        if need and left() < need:
            notes.append("deadline: %s not run" % name)
            return False
        t0 = run.elapsed()
        try:
            fn()
        except core.InfraError as e:
            # a stage that cannot be built AFTER violations were recorded (typically: a call the probes already reported as
            # refused is also used by the value sweep) must not turn the run into "no verdict"
            if not run.violations:
                raise
            notes.append("%s aborted after violations were recorded: %s" % (name, str(e)[:200]))
        wall[name] = round(run.elapsed() - t0, 1)
        return True

    core.warm_pch(cfgs[:2])
    inv, rnd, mth = INV.Explorer(run, viol), RND.Explorer(run, viol), M.Explorer(run, viol)
    g, extra = sweep_cfgs[0], sweep_cfgs[1:]
    # mandatory part: accept/reject probes under the two corner configurations, every value sweep under g++/c++14
    if "b" in parts:
        stage("b_probes_" + cfgs[0].name, 0, lambda: inv.probe(cfgs[0], 1 if quick else 2))
        stage("b_probes_" + cfgs[1].name, 0, lambda: inv.probe(cfgs[1], 0 if quick else 2))
        stage("b_sweep_" + g.name, 0, lambda: inv.sweep(g))
    if "a" in parts:
        stage("a_domain", 0, lambda: rnd.prepare(g))
        stage("a_sweep_" + g.name, 0, lambda: rnd.sweep(g))
    if "c" in parts:
        stage("c_domain", 0, lambda: mth.prepare(g))
        stage("c_sweep_" + g.name, 0, lambda: mth.sweep(g))
        for x in cfgs[:2]:
            stage("c_constexpr_" + x.name, 0, lambda: mth.constexpr_stage(x))
    # thorough extras, as the budget allows: second sweep build, then the four remaining probe configurations
    for x in extra:
        if "a" in parts:
            stage("a_sweep_" + x.name, 150, lambda: rnd.sweep(x))
        if "c" in parts:
            stage("c_sweep_" + x.name, 240, lambda: mth.sweep(x))
        if "b" in parts:
            stage("b_sweep_" + x.name, 200, lambda: inv.sweep(x))
    if "b" in parts:
        for x in cfgs[2:]:
            stage("b_probes_" + x.name, 200, lambda: inv.probe(x, 2))
    st = {}
    if "a" in parts:
        st["a"] = rnd.summary()
    if "b" in parts:
        st["b"] = inv.summary()
    if "c" in parts:
        st["c"] = mth.summary()
    a, b, c = st.get("a", {}), st.get("b", {}), st.get("c", {})
    run.cov.update({
        "evaluations": int(a.get("evaluations", 0) + b.get("value_evaluations", 0) + b.get("roundtrip_evaluations", 0)
                           + b.get("probe_accepts", 0) + b.get("probe_rejects", 0) + c.get("evaluations", 0)),
        "distinct_nontrivial": int(a.get("instances_with_both_round_directions", 0) + b.get("unit_pairs_with_both_verdicts", 0)
                                   + c.get("instances_with_both_outcomes", 0)),
        "rule": ("(a) rounding instances = (source unit, target unit) pairs with integer, reciprocal, rational and irrational "
                 "ratios (Quantity) and affine pairs (QuantityPoint) x source rep (quick: int32_t, double, float on every pair "
                 "plus one of int64_t, int16_t, uint8_t, long double, uint64_t, int8_t, uint16_t, uint32_t rotating over the "
                 "pairs; thorough: all eleven) x three explicit output reps; an instance that does not compile is a violation; "
                 "values = every "
                 "integer in +-2^16 (integral reps, and as float/double), every half-integer in +-2^16, k / k+-0.5 and their "
                 "+-1,+-2 ulp neighbours at anchor integers incl. 2^24 and 2^53, the pre-images of those under the conversion, "
                 "tiny and huge-but-finite values; all 12 functions per value; oracle = long double value of x*ratio+offset with "
                 "constants from the Python model, every reported violation re-decided in exact rational / 90-digit arithmetic. "
                 "(b) every (SI prefix on seconds) x (SI prefix on hertz) pair, both directions, reps int32_t, int64_t, "
                 "uint32_t, int16_t, uint8_t, double on every pair and uint64_t, float (thorough also int8_t, uint16_t, long "
                 "double) on one pair per (direction, K) (thorough: every pair): accept/reject probes of the implicit-rep form "
                 "against the model, explicit-rep twins, explicit forms with a target rep wider than the source rep (int64_t, "
                 "double from int16_t/uint8_t/int32_t/uint32_t) must compile; accepted instances: x in +-2^16, x in {K-1, K, "
                 "K+1, -K, -K-1, 1-K, K/2, K/2+1, K/3, max, max-1, min, min+1} of the rep against trunc(K/x) in 128-bit "
                 "integers, the wider-target forms on the sub-lattice |x| <= 4096 or 257 | x or |x| > 2^16, int64_t / double / "
                 "int32_t sources into a narrower or floating target, and the round trip for all n in 1..1000. (c) sin/cos/tan/"
                 "arc*/hypot/fmod/remainder/abs/copysign/min/max/clamp/isnan over unit pairs (incl. identical units and "
                 "identical types: the same-type overloads / hidden friends) x rep pairs (both orders of narrow/wide, long "
                 "double and small integral reps for the raw-argument wrappers) x structured value grids against the std "
                 "function applied to model-converted operands; operand pairs with an irrational ratio (radians/degrees/"
                 "revolutions, floating reps and integral reps for the std-function wrappers) against the long double value with "
                 "a tolerance; result unit read out as prime factorisation and compared with the model's common unit; a "
                 "call that no conversion policy may refuse and that does not compile is a violation; 24 static_assert uses of "
                 "inverse_*/min/max/clamp with hand-computed values under both corner configurations. Non-trivial = rounding instances on which "
                 "round_in went both up and down + inversion unit pairs with both an accepted and a rejected rep + cmath "
                 "instances on which the judged result took more than one branch/sign."),
        "exhaustive": not notes,
        "exhaustive_note": ("complete over the stated finite alphabets and unit grids (not over all doubles)" if not notes
                            else "; ".join(notes)),
        "configs_accept_reject": [str(x) for x in cfgs], "configs_value_sweeps": [str(x) for x in sweep_cfgs],
        "rounding": a, "inversion": b, "cmath": c, "stage_wall_s": wall,
        "samples": (a.get("samples", []) + b.get("samples", []) + c.get("samples", []))[:12] or [{"none": True}],
    })
    run.assumptions += [
        "g++ 12 / clang 14 on x86-64 LP64 with glibc libm execute the harness faithfully; x87 long double (64-bit mantissa) "
        "is the harness-side reference arithmetic, constants come from vf/model.py (pi to 90 digits)",
        "rounding: 'up to the rounding error of the floating type' = don't-care band of 8*eps*(|x*ratio| + |origin offset|) "
        "+ one denormal around the deciding boundary, eps of the type std::round works in (double for integral reps; for long "
        "double the harness oracle is long double as well: band 16*eps, and a report the exact re-decision places inside "
        "8*eps is counted, not reported); inputs "
        "whose exact value overflows that type, or the explicit output rep, are outside the statement and only counted",
        "QuantityPoint rounding: values within a factor 2^16 of the working type's largest finite value are outside the "
        "statement (the conversion has to pass through a finer common unit and overflows there: overflow, not rounding)",
        "|round - exact| <= 1/2 does not fix the direction of ties, so std::nearbyint-style ties are not judged (only counted)",
        "inversion, floating rep: K/x within 4 eps relative; integral rep: exact trunc(K/x); x = 0 never executed; rep float is "
        "judged only for 10^-30 <= K <= 10^38 (K and every K/x of the sweep are normal floats), other pairs are counted",
        "explicit-rep inversion with a wider target rep: int64_t target exact trunc(K/x) (needs K <= 10^18), double target "
        "within 4 eps",
        "operand pairs with an irrational ratio: X_i = x_i * factor_i in long double (factors from the model, one of them a "
        "multiple of pi); hypot/arctan2 within 8 eps relative, fmod/remainder within 16 eps*|X1| and not judged (counted) "
        "where X1/X2 is within 8 eps of a discontinuity or beyond 1/(16 eps), min/max within 8 eps of the selected operand, "
        "either operand accepted when they differ by less than 8 eps; operands that overflow the working type are counted",
        "constant evaluation is not part of the statement: a static_assert whose condition is not a constant expression is "
        "only counted; a false condition or an expression that does not compile at run time either is a violation",
        "trig: |lib - f(e_hat)| <= 4 ulp + first/second-order effect of an argument error of 2*eps*|e_hat| (f evaluated in long "
        "double); arguments already in radians: bit equality with the std function",
        "min/max/clamp: judged only where every operand, expressed exactly in the model's common unit, is representable in "
        "the common rep; hypot/fmod/remainder/arctan2: judged wherever both operands expressed in the common unit are exactly "
        "representable in the type the std function computes in (representability in the common integral rep is NOT "
        "required); other value pairs are counted and never executed; results of converted operands are compared as values (+0 == -0, "
        "NaN == NaN), results of unconverted operands bit for bit",
        "min/max/clamp: NaN operands are outside the contract of std::min/std::max/std::clamp (strict weak ordering) and are "
        "only counted; clamp additionally requires lo <= hi",
        "min/max/clamp of QuantityPoints: the statement does not fix which common point unit is chosen (see C10), so its "
        "magnitude is read out from the implementation and accepted iff every input's scale and origin offset are integers in "
        "it; values are then judged in that unit with the lowest input origin as zero",
        "value-sweep TUs are built with -O1 -fwrapv so that a signed wrap inside the library shows up as a wrong value",
    ]


def replay(path):
    from .. import c15_math as M
    from .. import c15_round as RND
    r = json.load(open(path))
    cfg = core.Cfg(*r["config"]) if r.get("config") else core.GXX14
    wd = os.path.join(core.BUILD, "C15", "replay")
    os.makedirs(wd, exist_ok=True)
    kind = r.get("kind")
    if kind == "probe":
        p = core.Probe(0, r["code"], r["expected"])
        res, _ = core.run_probes(cfg, [p], wd, "rp", r.get("preamble", ""))
        hits = [] if res[0][0] == r["expected"] else ["%s: observed %s, expected %s" % (r["code"], res[0][0], r["expected"])]
    elif kind == "inv":
        hits = INV.replay_inv(r, cfg, wd)
    elif kind == "round":
        hits = RND.replay_round(r, cfg, wd)
    elif kind == "math":
        hits = M.replay_math(r, cfg, wd)
    else:
        print("unknown replay kind", kind)
        return 0
    for h in hits:
        print("reproduced:", h)
    if hits:
        print("VIOLATION property=C15 replay=%s" % path)
        return 1
    print("not reproduced on the current tree: %s" % r.get("key"))
    return 0
