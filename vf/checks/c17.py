"""C17 — std::chrono round trip (bounded exhaustive enumeration against an exact reference).

 (a) as_quantity(d): count (bit-identical), Rep identity, unit_ratio(unit, seconds) == Period, for the four
     value categories rvalue / lvalue / const lvalue / const rvalue                   (dump + sweep)
 (b) implicit / as_chrono_duration round trip: count, Period identity                (dump + sweep)
 (c) duration-vs-quantity == != < <= > >= + - on all ordered pairs of duration types, both
     argument orders: integer counts (8/10-bit square, boundary square, threshold-edge alphabet) against
     chrono and a 128-bit exact oracle; enumerated floating counts against chrono alone   (sweep)
 (d) is_convertible<duration, Q> == is_convertible<Quantity<s*Period, Rep>, Q>     (dump); for accepted
     (duration, target): `Target t = d` compiles and equals `Target t2 = as_quantity(d)`  (probe + sweep)
 all six compiler x standard configurations, compile-only: acceptance of the mixed operators on a reduced pair
     set and constexpr use (static_assert) of the round trip and the mixed operators      (probes)
"""
import json
import os
import resource
from fractions import Fraction as Fr

from .. import c17_gen as G
from .. import core, model, psx

LEVEL = "exploration"
TIME_DIM = model.dim_key(model.LIB_BY_STEM["seconds"].dim)
FORMS = tuple((tag, cat) for tag, cat, _ in G.CATS)     # rvalue, lvalue, const lvalue, const rvalue
INTEGRAL = set(core.BITS)


REPLAY_CAP = 50   # replay artefacts are written for the first violations only (finish() prints <= 50)


def _viol(run, key, what, obj):
    """Record a violation; write its replay artefact unless it is a known finding or beyond the cap."""
    rp = None
    if run.match_known(key) is None and len(run.violations) < REPLAY_CAP:
        rp = run.write_replay(key, dict(obj, what=what))
    run.violation(key, what, rp)


def _control(cfg, wd, flags=()):
    """Before a compile failure is believed: the toolchain + PCH must still compile a trivial Au/chrono
    TU (another process may have wiped the PCH cache, or /repo may be mid-edit) - else no verdict."""
    os.makedirs(wd, exist_ok=True)
    src = os.path.join(wd, "control_%s.cc" % cfg.name)
    with open(src, "w") as f:
        f.write("void control() { au::Quantity<au::Seconds, int> q = au::seconds(1); (void)q; "
                "std::chrono::seconds s{1}; (void)s; }\n")
    rc, err = core.syntax_check(cfg, src, list(flags))
    if rc != 0:
        raise core.InfraError("control TU does not compile under %s (PCH removed concurrently / tree mid-edit?): %s"
                              % (cfg, core._first_error(err) or err[-300:]))


def _by_name():
    return {d.name: d for d in G.durations() + G.extra_durations() + G.named_durations()}


# ------------------------------------------------------------------------------ (a)(b)(d) dumps
def static_records(allD):
    recs, meta = [], {}
    for d in allD:
        for part in ("asq", "acd"):
            rid = len(recs)
            recs.append((rid, G.static_stmts(d, part)))
            meta[rid] = (part, d, None)
    for d in allD:
        for t in G.targets_for(d, d.extra):
            rid = len(recs)
            recs.append((rid, G.accept_stmts(d, t[1])))
            meta[rid] = ("accept", d, t)
    return recs, meta


def judge_static(d, part, o):
    """-> list of (key, what) for one type-level record."""
    out = []
    if part == "asq" and not (o["dur_rep_same"] and o["dur_period_same"]):
        raise core.InfraError("harness assumption broken: %s is not duration<%s, ratio<%d,%d>>"
                              % (d.cpp, d.rep, d.num, d.den))
    exp = G.expected_ratio_key(d)
    for tag, cat in FORMS:
        if part == "acd":
            if not o["acd_period_same_" + tag]:
                out.append(("C17:as_chrono_duration-period:%s" % d.name,
                            "as_chrono_duration(as_quantity(%s %s))::period is not ratio<%d,%d>"
                            % (cat, d.name, d.num, d.den)))
            if not o["acd_rep_same_" + tag]:
                out.append(("C17:as_chrono_duration-rep:%s" % d.name,
                            "as_chrono_duration(as_quantity(%s %s))::rep is not %s" % (cat, d.name, d.rep)))
            continue
        if not o["q_rep_same_" + tag]:
            out.append(("C17:as_quantity-rep:%s" % d.name,
                        "as_quantity(%s %s) does not have rep %s" % (cat, d.name, d.rep)))
        gm = model.mag_from_readout(o["ratio_" + tag])
        got = model.mag_key(gm)
        dim = model.dim_key(model.dim_from_readout(o["u_" + tag]["dim"]))
        if got != exp or dim != TIME_DIM:
            out.append(("C17:as_quantity-unit:%s" % d.name,
                        "unit of as_quantity(%s %s) has ratio %s to seconds%s; Period is %d/%d"
                        % (cat, d.name, model.mag_fraction(gm) if model.mag_is_rational(gm) else got,
                           "" if dim == TIME_DIM else " and is not a time unit", d.num, d.den)))
        if not o["back_implicit_" + tag]:
            out.append(("C17:back-implicit-rejected:%s" % d.name,
                        "as_quantity(%s %s) is not implicitly convertible back to the duration"
                        % (cat, d.name)))
    return out


def judge_accept(d, t, o):
    out = []
    for k, cat, _ in G.ACC_FORMS:
        if o[k] != o["qty"]:
            out.append(("C17:accept-mismatch:%s->%s" % (d.name, t[0]),
                        "is_convertible<%s %s, %s> is %s but is_convertible<Quantity<Seconds*%d/%d,%s>, %s> is %s"
                        % (cat, d.name, t[0], o[k], d.num, d.den, d.rep, t[0], o["qty"])))
    return out


def run_static(run, cfgs, allD):
    recs, meta = static_records(allD)
    core.warm_pch(cfgs)
    stats = {"records": 0, "accept_true": 0, "accept_false": 0, "hard_errors": 0, "model_mismatch": []}
    both = {}
    tidx = {t[0]: k for k, t in enumerate(G.targets())}
    accepted = {}    # cfg name -> duration name -> indices of targets that accept it in every form
    for cfg in cfgs:
        res, failed = psx.run_dump(cfg, recs, os.path.join(run.wd, "dump_" + cfg.name), "c17", "",
                                   chunk=min(200, max(20, len(recs) // (core.NCPU * 2) + 1)))
        if failed:   # believe a compile failure only if it reproduces alone, after a control compile
            _control(cfg, run.wd)
            res2, failed = psx.run_dump(cfg, [recs[r] for r in sorted(failed)],
                                        os.path.join(run.wd, "dumpre_" + cfg.name), "c17", "", chunk=1)
            res.update(res2)
        for rid, diag in sorted(failed.items()):
            kind, d, t = meta[rid]
            if kind != "accept":
                key = "C17:%s-rejected:%s" % ({"asq": "as_quantity", "acd": "as_chrono_duration"}[kind], d.name)
                what = "%s: type-level use of %s on %s does not compile: %s" % (
                    cfg, {"asq": "as_quantity(d)", "acd": "as_chrono_duration(as_quantity(d))"}[kind], d.name, diag)
            else:
                key = "C17:hard-error:%s->%s" % (d.name, t[0])
                what = ("%s: asking std::is_convertible<%s, %s> (or the same question for Quantity<Seconds*%d/%d,%s>) "
                        "is a hard compile error instead of true/false: %s" % (cfg, d.name, t[0], d.num, d.den, d.rep, diag))
                stats["hard_errors"] += 1
            _viol(run, key, what, {"kind": "dump", "record": kind, "dur": d.name,
                                   "target": t[0] if t else None, "config": [cfg.cxx, cfg.std]})
        for rid, o in res.items():
            kind, d, t = meta[rid]
            stats["records"] += 1
            if kind != "accept":
                v = judge_static(d, kind, o)
            else:
                v = judge_accept(d, t, o)
                stats["accept_true" if o["qty"] else "accept_false"] += 1
                both.setdefault(d.name, set()).add(bool(o["qty"]))
                if o["qty"] and all(o[k] for k, _, _ in G.ACC_FORMS):
                    accepted.setdefault(cfg.name, {}).setdefault(d.name, []).append(tidx[t[0]])
                pred = G.policy_implicit(d.rep, d.period / t[2], t[3])
                if pred != o["qty"] and len(stats["model_mismatch"]) < 20:
                    stats["model_mismatch"].append({"dur": d.name, "target": t[0], "documented_policy": pred,
                                                    "observed": o["qty"], "config": str(cfg)})
            for key, what in v:
                _viol(run, key, "%s: %s" % (cfg, what), {"kind": "dump", "record": kind, "dur": d.name,
                                                        "target": t[0] if t else None,
                                                        "config": [cfg.cxx, cfg.std], "observed": o})
    stats["durations_with_both_accept_outcomes"] = sum(1 for s in both.values() if len(s) == 2)
    for per_cfg in accepted.values():      # (results arrive in completion order: make the lists canonical)
        for lst in per_cfg.values():
            lst.sort()
    return stats, accepted


# ------------------------------------------------------------------------------ run-time sweeps
def _build_run(run, cfg, tag, emit, groups, flags, parts=1, failed=None, budget=None):
    """Build one TU per group, run them all, parse S/V lines.  With `failed` (a list), groups whose TU
    does not compile are appended to it instead of being an infrastructure error.  With `budget` (a dict),
    a job is started only while run.time_left() > 60 and is given that much time at most; jobs not
    started / not finished are counted in budget["skipped"] instead of being an infrastructure error."""
    wd = os.path.join(run.wd, tag + "_" + cfg.name)
    os.makedirs(wd, exist_ok=True)
    fl = list(flags)

    def build(k):
        src, exe = os.path.join(wd, "t%d.cc" % k), os.path.join(wd, "t%d" % k)
        emit(src, groups[k])
        rc, err = core.build_exe(cfg, src, exe, fl)
        if rc != 0:
            if failed is None:
                raise core.InfraError("probe-accepted sweep TU failed to build (%s):\n%s" % (src, err[-3000:]))
            failed.append(groups[k])
            return None
        return exe

    core.pch_dir(cfg, fl)
    exes = [e for e in core.pmap(build, range(len(groups))) if e]

    def go(job):
        exe, part = job
        if budget is not None:
            left = run.time_left()
            if left < 60:
                budget["skipped"] = budget.get("skipped", 0) + 1
                return ""
            try:
                rc, out, err = core.sh([exe, str(part), str(parts)], timeout=min(3600, left))
            except Exception as e:      # subprocess.TimeoutExpired: the deadline passed during this job
                if "Timeout" not in type(e).__name__:
                    raise
                budget["skipped"] = budget.get("skipped", 0) + 1
                return ""
            budget["done"] = budget.get("done", 0) + 1
        else:
            rc, out, err = core.sh([exe, str(part), str(parts)], timeout=3600)
        if rc != 0:
            raise core.InfraError("sweep binary %s failed rc=%d: %s" % (exe, rc, err[-2000:]))
        return out

    S, V = [], []
    for out in core.pmap(go, [(e, p) for e in exes for p in range(parts)]):
        for line in out.split("\n"):
            if line.startswith("S "):
                S.append(json.loads(line[2:]))
            elif line.startswith("V "):
                V.append(json.loads(line[2:]))
    for e in exes:
        try:
            os.remove(e)
        except OSError:
            pass
    return S, V


RT_WHAT = {"count": "as_quantity(d).in(unit)", "count-rvalue": "as_quantity(D{x}).in(unit)",
           "back-implicit": "D back = as_quantity(d); back.count()",
           "back-as_chrono_duration": "as_chrono_duration(as_quantity(d)).count()",
           "implicit-accept-value": "Quantity q = d; q.in(unit)",
           "count-const-rvalue": "const D cd{x}; as_quantity(std::move(cd)).in(unit)",
           "implicit-accept-const-rvalue": "const D cd{x}; Quantity q = std::move(cd); q.in(unit)"}


def _target_params(d, t):
    """Template arguments N, Dn (= Period / target unit) of the (d)-value sweep, or None when they do not fit."""
    if t[3] not in INTEGRAL:
        return 0, 0           # a floating target takes every count; the factor is not needed
    k = d.period / t[2]
    if k.numerator >= 2 ** 64 or k.denominator >= 2 ** 64:
        return None
    return k.numerator, k.denominator


def run_roundtrip(run, cfg, allD, w, accepted, wt, stride):
    """accepted: duration name -> indices into G.targets() of the targets that implicitly accept it
    (observed under this cfg by the type-level stage); wt = window radius of the (d)-value sweep;
    stride: duration number i takes its accepted targets number k with (i + k) % stride == 0 (quick
    tier: 3, so every target meets a third of the durations; thorough: 1 = all)."""
    T = G.targets()
    wdp = os.path.join(run.wd, "rtp_" + cfg.name)
    probes = [core.Probe(i, G.roundtrip_probe(d), "accept") for i, d in enumerate(allD)]
    res, _ = core.run_probes(cfg, probes, wdp, "rt")
    again = [p for p in probes if res[p.pid][0] != "accept"]
    if again:
        _control(cfg, run.wd)
        res.update(core.run_probes(cfg, again, wdp, "rtre")[0])
    insts, ivs, tg, ivt = [], {}, {}, {}
    unfit = left = 0
    for i, d in enumerate(allD):
        if res[i][0] != "accept":
            key = "C17:roundtrip-rejected:%s" % d.name
            what = "%s: as_quantity / implicit round trip / as_chrono_duration of %s does not compile: %s" % (cfg, d.name, res[i][1])
            _viol(run, key, what, {"kind": "probe", "code": probes[i].code, "config": [cfg.cxx, cfg.std]})
            continue
        insts.append((i, d))
        ivs[i] = G.roundtrip_intervals(d.rep, w)
        tg[i] = []
        for k, tid in enumerate(accepted.get(d.name, [])):
            nd = _target_params(d, T[tid])
            if (i + k) % stride:
                left += 1
            elif nd is None:
                unfit += 1
            else:
                tg[i].append((tid, T[tid][1], nd[0], nd[1]))
        ivt[i] = G.roundtrip_intervals(d.rep, wt)
    # is_convertible said yes for these (d, target): actually doing `Target t = d` must compile
    tp = [core.Probe(i, G.implicit_target_probe(d, [x[1] for x in tg[i]]), "accept") for i, d in insts if tg[i]]
    tres, _ = core.run_probes(cfg, tp, wdp, "tg", batch=8)
    badd = [p.pid for p in tp if tres[p.pid][0] != "accept"]
    if badd:
        _control(cfg, run.wd)
        one = [core.Probe((i, x[0]), G.implicit_target_probe(allD[i], [x[1]]), "accept") for i in badd for x in tg[i]]
        ores, _ = core.run_probes(cfg, one, wdp, "tg1", batch=8)
        for pr in one:
            if ores[pr.pid][0] == "accept":
                continue
            i, tid = pr.pid
            key = "C17:implicit-accept-hard-error:%s->%s" % (allD[i].name, T[tid][0])
            what = ("%s: std::is_convertible<%s, %s> is true, but `%s t = d;` does not compile: %s"
                    % (cfg, allD[i].name, T[tid][0], T[tid][0], ores[pr.pid][1]))
            _viol(run, key, what, {"kind": "probe", "code": pr.code, "config": [cfg.cxx, cfg.std]})
            tg[i] = [x for x in tg[i] if x[0] != tid]
    n = min(core.NCPU * 2, len(insts))
    groups = [insts[k::n] for k in range(n)]
    S, V = _build_run(run, cfg, "rt", lambda src, g: G.emit_roundtrip_tu(src, g, ivs, tg, ivt), groups, ["-O1"])
    _roundtrip_violations(run, cfg, allD, V)
    ST = [s for s in S if "tgt" in s]
    S = [s for s in S if "tgt" not in s]
    if len(S) != len(insts) or len(ST) != sum(len(tg[i]) for i, _ in insts):
        raise core.InfraError("round-trip sweep: %d of %d instances, %d of %d (duration, target) instances reported"
                              % (len(S), len(insts), len(ST), sum(len(tg[i]) for i, _ in insts)))
    return {"types": len(insts), "evals": sum(s["evals"] for s in S), "nan_counts": sum(s["nans"] for s in S),
            "raw_violations": sum(s["viol"] for s in S) + sum(s["viol"] for s in ST),
            "implicit_target_instances": len(ST), "implicit_target_evals": sum(s["evals"] for s in ST),
            "implicit_target_skipped_outside_target_range": sum(s["skipped"] for s in ST),
            "implicit_target_factor_does_not_fit_template_argument": unfit,
            "implicit_target_instances_left_to_thorough_tier": left}


def _roundtrip_violations(run, cfg, allD, V):
    T = G.targets()
    for v in V:
        d = allD[v["inst"]]
        if v["kind"] == "implicit-target-value":
            t = T[v["tgt"]]
            key = "C17:implicit-target-value:%s->%s:x=%s" % (d.name, t[0], v["x"])
            what = ("%s: %s t = %s{%s} holds %s, but %s t2 = as_quantity(%s{%s}) holds %s (both read with .in(unit of the target))"
                    % (cfg, t[0], d.name, v["x"], v["got"], t[0], d.name, v["x"], v["want"]))
            _viol(run, key, what, {"kind": "roundtrip", "dur": d.name, "target": t[0], "item": [v["ik"], v["iv"]],
                                   "config": [cfg.cxx, cfg.std], "observed": v})
            continue
        key = "C17:%s:%s:x=%s" % (v["kind"], d.name, v["x"])
        what = ("%s: %s with count %s: %s gives %s" % (cfg, d.name, v["x"], RT_WHAT[v["kind"]], v["got"]))
        _viol(run, key, what, {"kind": "roundtrip", "dur": d.name, "item": [v["ik"], v["iv"]],
                               "config": [cfg.cxx, cfg.std], "observed": v})


SLICES32 = 8


def run_full32(run, cfg, allD):
    """Thorough tier, last stage: every one of the 2^32 counts of the 32-bit reps (int32_t values, float bit
    patterns) of the 44 + 6 main types through the round trip, in SLICES32 slices per type; a slice is
    started only while the deadline leaves room (the slices that did not run are counted)."""
    insts = [(i, d) for i, d in enumerate(allD) if d.rep in ("int32_t", "float") and not d.extra]
    ivs = {}
    for i, d in insts:
        kind, lo = (1, 0) if d.rep == "float" else (0, -2 ** 31)
        step = 2 ** 32 // SLICES32
        ivs[i] = [(kind, lo + k * step, lo + (k + 1) * step - 1) for k in range(SLICES32)]
    budget = {}
    S, V = _build_run(run, cfg, "rt32", lambda src, g: G.emit_roundtrip_slices_tu(src, g, ivs), [[x] for x in insts], ["-O1"],
                      parts=SLICES32, budget=budget)
    _roundtrip_violations(run, cfg, allD, V)
    return {"types": len(insts), "slices": len(insts) * SLICES32, "slices_done": len(S),
            "slices_not_run_deadline": budget.get("skipped", 0), "evals": sum(s["evals"] for s in S),
            "nan_counts": sum(s["nans"] for s in S), "raw_violations": sum(s["viol"] for s in S)}


FORMS4 = ("dq", "qd", "qq", "acd")


def run_mixed(run, cfg, durs, pairs, lo8, hi8):
    """pairs: list of (i, j) indices into durs.

    Acceptance is observed, never assumed: a pair counts as accepted when a sweep TU containing all
    four forms of it (duration op quantity, quantity op duration, quantity op quantity,
    as_chrono_duration of the mixed sums) compiles; predicted-reject pairs, and every pair of a TU
    that does not compile, are decided form by form with single-line probes."""
    wdp = os.path.join(run.wd, "mxp_" + cfg.name)
    emit = lambda src, g: G.emit_mixed_tu(src, g, lo8, hi8)
    verdict, diag = {}, {}

    def probe(ps, exp, tag):
        pr = [core.Probe((i, j, f), G.mixed_probe(durs[i], durs[j], f), exp) for (i, j) in ps for f in FORMS4]
        res, _ = core.run_probes(cfg, pr, wdp, tag, batch=24)
        for (i, j) in ps:
            verdict[(i, j)] = {f: res[(i, j, f)][0] for f in FORMS4}
            diag[(i, j)] = next((res[(i, j, f)][1] for f in FORMS4 if res[(i, j, f)][1]), "")

    pred = {p: G.predicted_mixed_accept(durs[p[0]], durs[p[1]]) for p in pairs}
    probe([p for p in pairs if not pred[p]], "reject", "mxr")
    todo = [p for p in pairs if pred[p]] + [p for p in pairs if not pred[p] and
                                            all(v == "accept" for v in verdict[p].values())]
    # pairs over the same two periods share most template instantiations: keep them in one TU
    np_ = len(G.PERIODS)
    todo.sort(key=lambda p: (min(p[0] % np_, p[1] % np_), max(p[0] % np_, p[1] % np_), p))
    idx = {k: p for k, p in enumerate(todo)}
    insts = [(k, durs[i], durs[j]) for k, (i, j) in idx.items()]
    n = max(1, min(core.NCPU * 2, len(insts)))
    sz = -(-len(insts) // n)
    bad = []
    S, V = _build_run(run, cfg, "mx", emit, [insts[k:k + sz] for k in range(0, len(insts), sz)] or [[]], ["-O1"], failed=bad)
    if bad:
        _control(cfg, run.wd, ["-O1"])
        again = [x for g in bad for x in g]
        probe([idx[k] for k, _, _ in again], "accept", "mxa")
        flip = [idx[k] for k, _, _ in again if "accept" not in verdict[idx[k]].values()]
        if flip:   # predicted-accept yet rejected in every form: decide once more after a control compile
            _control(cfg, run.wd)
            probe(flip, "accept", "mxf")
        ok = [x for x in again if all(v == "accept" for v in verdict[idx[x[0]]].values())]
        if ok:
            m = max(1, min(core.NCPU * 2, len(ok)))
            S2, V2 = _build_run(run, cfg, "mx2", emit, [ok[k::m] for k in range(m)], ["-O1"])
            S, V = S + S2, V + V2
    for p in todo:
        verdict.setdefault(p, {f: "accept" for f in FORMS4})
    suspect = [p for p in pairs if len(set(verdict[p].values())) > 1]
    if suspect:   # a form-dependent verdict becomes a violation below: re-decide it after a control compile
        _control(cfg, run.wd)
        probe(suspect, "accept", "mxc")
    acc, rej, mism = [], [], 0
    for (i, j) in pairs:
        a, b = durs[i], durs[j]
        v = verdict[(i, j)]
        if (v["qq"] == "accept") != pred[(i, j)]:
            mism += 1
        for f in ("dq", "qd"):
            if v[f] != v["qq"]:
                key = "C17:mixed-accept:%s:%s:%s" % (f, a.name, b.name)
                what = ("%s: the eight operators on (%s, %s) are %sed in the form %s but %sed when both operands are "
                        "the corresponding quantities (%s)" % (cfg, a.name, b.name, v[f],
                                                               "duration op quantity" if f == "dq" else "quantity op duration",
                                                               v["qq"], diag.get((i, j), "")))
                _viol(run, key, what, {"kind": "mixed-accept", "a": a.name, "b": b.name, "form": f,
                                       "config": [cfg.cxx, cfg.std]})
        if v["dq"] == "accept" and v["qd"] == "accept" and v["acd"] != "accept":
            key = "C17:mixed-sum-not-a-duration:%s:%s" % (a.name, b.name)
            what = ("%s: the mixed sums/differences of (%s, %s) compile but as_chrono_duration() of them does not: %s"
                    % (cfg, a.name, b.name, diag.get((i, j), "")))
            _viol(run, key, what, {"kind": "probe", "code": G.mixed_probe(a, b, "acd"), "config": [cfg.cxx, cfg.std]})
        if all(x == "accept" for x in v.values()):
            acc.append((i, j))
        else:
            rej.append((i, j))
    if len(acc) < 0.5 * len(pairs) and not run.violations:
        raise core.InfraError("vacuity guard: only %d of %d ordered duration pairs accept mixed operations" % (len(acc), len(pairs)))
    if len(S) != len(acc):
        raise core.InfraError("mixed sweep: %d of %d accepted pairs reported" % (len(S), len(acc)))
    od = [s for s in S if s["oracle_disagree"]]
    if od:
        i, j = idx[od[0]["inst"]]
        raise core.InfraError("128-bit oracle and chrono disagree where chrono does not overflow on (%s, %s): %s"
                              % (durs[i].name, durs[j].name, od[0]))
    for v in V:
        i, j = idx[v["inst"]]
        a, b = durs[i], durs[j]
        key = "C17:%s:%s:%s:%s:%s:a=%s:b=%s" % (v["kind"], v["op"], v["form"], a.name, b.name, v["a"], v["b"])
        l = "%s{%s}" % (a.name, v["a"]) if v["form"] == "dq" else "as_quantity(%s{%s})" % (a.name, v["a"])
        r = "%s{%s}" % (b.name, v["b"]) if v["form"] == "qd" else "as_quantity(%s{%s})" % (b.name, v["b"])
        what = "%s: %s %s %s gives %s; inside chrono %s%s" % (
            cfg, l, v["op"], r, v["au"], v["chrono"],
            {"mixed": " (exact %s)" % v["exact"],
             "mixed-band": " (chrono's conversion to the common type rounds here, it does not overflow; exact %s)" % v["exact"],
             "mixed-fp": " (chrono does not overflow)"}[v["kind"]])
        _viol(run, key, what, {"kind": "mixed", "a": a.name, "b": b.name, "x": v["ra"], "y": v["rb"],
                               "fp": v["kind"] == "mixed-fp", "op": v["op"], "form": v["form"],
                               "config": [cfg.cxx, cfg.std], "observed": v})
    full = (1 << 6) - 1
    tot = lambda k: sum(s[k] for s in S)
    return {"pairs": len(pairs), "pairs_accepted": len(acc), "pairs_rejected_by_policy": len(rej),
            "policy_prediction_mismatch": mism, "sweep_tus_that_needed_per_pair_probing": len(bad),
            "quantity_op_quantity_disagreements_with_chrono_info": tot("qq_disagree"),
            "value_pairs": tot("evals"), "op_evaluations": tot("ops") + tot("fp_ops"),
            "threshold_edge_value_pairs": tot("edge"), "threshold_edge_elements_not_exact_in_operand_rep": tot("edge_dropped"),
            "skipped_chrono_conversion_overflow": tot("skip_conv"),
            "skipped_chrono_sum_overflow": tot("skip_arith"),
            "fp_inexact_band_value_pairs": tot("band"),
            "fp_inexact_band_disagreements": tot("band_disagree"),
            "fp_alphabet_value_pairs": tot("fp_evals"), "fp_alphabet_op_evaluations": tot("fp_ops"),
            "fp_alphabet_dont_care_chrono_overflows_to_inf": tot("fp_ovf"),
            "fp_alphabet_dont_care_chrono_overflows_to_inf_disagreements_info": tot("fp_ovf_disagree"),
            "fp_alphabet_dont_care_nan_in_le_ge": tot("fp_nan_dc"),
            "fp_alphabet_dont_care_nan_in_le_ge_disagreements_info": tot("fp_nan_dc_disagree"),
            "fp_alphabet_nan_operations_demanded": tot("fp_nan_demanded"),
            "fp_alphabet_sums_equal_but_sign_of_zero_differs_info": tot("fp_zero_sign_diff"),
            "pairs_with_both_outcomes_of_all_comparisons": sum(1 for s in S if s["seen_true"] == full and s["seen_false"] == full),
            "pairs_sum_type_identical_to_chrono": tot("sum_type_same"),
            "raw_violations": tot("viol"),
            "rejected_examples": ["%s vs %s" % (durs[i].name, durs[j].name) for i, j in rej[:4]]}


# ------------------------------------------------------------------------------ all six configurations
# reduced pair set for the compile-only stage: (index into G.PERIODS) x (index into G.PERIODS)
CFG_PERIOD_PAIRS = [(2, 3), (8, 10), (0, 6), (4, 4), (3, 2), (10, 7)]


def config_pairs(durs, quick):
    """Quick: same-rep pairs on the first four period pairs plus one cross-rep row (int32_t against the other
    three reps, both orders) on the first two; thorough: every rep pair on all six period pairs."""
    np_, nr = len(G.PERIODS), len(G.REPS)
    out = []
    for r1 in range(nr):
        for r2 in range(nr):
            for n, (p1, p2) in enumerate(CFG_PERIOD_PAIRS):
                if quick and (n >= 4 or (r1 != r2 and not ((r1 == 0 or r2 == 0) and n < 2))):
                    continue
                out.append((r1 * np_ + p1, r2 * np_ + p2))
    return out


def constexpr_types(allD, quick):
    """Quick: every rep on the periods 1/1000, 86400/1, 1001/30000, the named typedefs, and the int64_t
    instances of the extra periods; thorough: every duration type."""
    if not quick:
        return list(allD)
    return [d for d in allD if d.named or (d.extra and d.rep == "int64_t") or
            (not d.extra and (d.num, d.den) in ((1, 1000), (86400, 1), (1001, 30000)))]


def run_configs(run, cfgs, durs, allD, quick):
    """Compile-only, under every compiler x standard: (i) the eight mixed operators in the forms
    duration op quantity / quantity op duration are accepted exactly when quantity op quantity is, and the
    verdict does not depend on the configuration (C++20 rewritten candidates included); (ii) the round trip and
    the mixed operators are usable in constant expressions (static_assert on their values)."""
    pairs = config_pairs(durs, quick)
    cxD = constexpr_types(allD, quick)
    verdicts, stats = {}, {"configs": [str(c) for c in cfgs], "pairs": len(pairs), "probes": 0, "constexpr_probes": 0,
                           "pairs_accepted": 0, "pairs_rejected_by_policy": 0}
    core.warm_pch(cfgs)
    for cfg in cfgs:
        wd = os.path.join(run.wd, "cfg_" + cfg.name)
        pred = {p: G.predicted_mixed_accept(durs[p[0]], durs[p[1]]) for p in pairs}
        pr = [core.Probe((i, j, f), G.mixed_probe(durs[i], durs[j], f), "accept" if pred[(i, j)] else "reject")
              for (i, j) in pairs for f in FORMS4]
        cx = [core.Probe(("cx", k), G.constexpr_probe(d), "accept") for k, d in enumerate(cxD)]
        res, _ = core.run_probes(cfg, pr + cx, wd, "cf", batch=24)
        odd = [p for p in pr if len(set(res[(p.pid[0], p.pid[1], f)][0] for f in FORMS4)) > 1] + \
              [p for p in cx if res[p.pid][0] != "accept"]
        if odd:
            _control(cfg, run.wd)
            for p in odd:
                p.expect = "accept"
            res.update(core.run_probes(cfg, odd, wd, "cfre", batch=24)[0])
        stats["probes"] += len(pr)
        stats["constexpr_probes"] += len(cx)
        for (i, j) in pairs:
            a, b = durs[i], durs[j]
            v = {f: res[(i, j, f)][0] for f in FORMS4}
            dg = next((res[(i, j, f)][1] for f in FORMS4 if res[(i, j, f)][1]), "")
            verdicts[(cfg.name, i, j)] = v
            stats["pairs_accepted" if all(x == "accept" for x in v.values()) else "pairs_rejected_by_policy"] += 1
            for f in ("dq", "qd"):
                if v[f] != v["qq"]:
                    key = "C17:mixed-accept:%s:%s:%s" % (f, a.name, b.name)
                    what = ("%s: the eight operators on (%s, %s) are %sed in the form %s but %sed when both operands are "
                            "the corresponding quantities (%s)" % (cfg, a.name, b.name, v[f],
                                                                   "duration op quantity" if f == "dq" else "quantity op duration",
                                                                   v["qq"], dg))
                    _viol(run, key, what, {"kind": "mixed-accept", "a": a.name, "b": b.name, "form": f,
                                           "config": [cfg.cxx, cfg.std]})
            if v["dq"] == "accept" and v["qd"] == "accept" and v["acd"] != "accept":
                key = "C17:mixed-sum-not-a-duration:%s:%s" % (a.name, b.name)
                what = ("%s: the mixed sums/differences of (%s, %s) compile but as_chrono_duration() of them does not: %s"
                        % (cfg, a.name, b.name, dg))
                _viol(run, key, what, {"kind": "probe", "code": G.mixed_probe(a, b, "acd"), "config": [cfg.cxx, cfg.std]})
            v0 = verdicts[(cfgs[0].name, i, j)]
            for f in ("dq", "qd"):
                if v[f] != v0[f] and v[f] == v["qq"]:      # (a form-dependent verdict is reported above)
                    key = "C17:mixed-accept-config:%s:%s:%s:%s" % (f, a.name, b.name, cfg.name)
                    what = ("the eight mixed operators on (%s, %s), form %s, are %sed under %s but %sed under %s (%s)"
                            % (a.name, b.name, f, v0[f], cfgs[0], v[f], cfg, dg))
                    _viol(run, key, what, {"kind": "mixed-accept-config", "a": a.name, "b": b.name, "form": f,
                                           "config": [cfg.cxx, cfg.std], "config0": [cfgs[0].cxx, cfgs[0].std]})
        for k, d in enumerate(cxD):
            if res[("cx", k)][0] != "accept":
                key = "C17:constexpr-use:%s" % d.name
                what = ("%s: as_quantity / round trip / mixed operators on %s{1} are not usable in a constant expression, "
                        "or a static_assert on their value fails: %s" % (cfg, d.name, res[("cx", k)][1]))
                _viol(run, key, what, {"kind": "probe", "code": G.constexpr_probe(d), "config": [cfg.cxx, cfg.std]})
    return stats


# ------------------------------------------------------------------------------ driver
def check(run):
    quick = run.tier == "quick"
    durs, extra, named = G.durations(), G.extra_durations(), G.named_durations()
    allD = durs + extra + named
    cfgs = core.CORNERS if quick else core.CFG6
    sweep_cfgs = [core.GXX14] if quick else [core.GXX14, core.CLANG20]
    notes, wall, cpu = [], {}, {}

    def cpu_now():   # compiler + sweep processes (children); recorded for sizing only, never used for a verdict
        r = resource.getrusage(resource.RUSAGE_CHILDREN)
        return r.ru_utime + r.ru_stime

    t0, c0 = run.elapsed(), cpu_now()
    st, accepted = run_static(run, cfgs, allD)
    wall["type_level"], cpu["type_level"] = round(run.elapsed() - t0, 1), round(cpu_now() - c0, 1)
    t0, c0 = run.elapsed(), cpu_now()
    cf = run_configs(run, core.CFG6, durs, allD, quick)
    wall["six_configs"], cpu["six_configs"] = round(run.elapsed() - t0, 1), round(cpu_now() - c0, 1)
    pairs = [(i, j) for i in range(len(durs)) for j in range(len(durs))]
    rt, mx = {}, {}
    for n, cfg in enumerate(sweep_cfgs):
        if n and run.time_left() < 420:
            notes.append("second sweep build (%s) skipped: deadline" % cfg)
            break
        # thorough, first build: the 10-bit square (it contains the 8-bit square of the quantifier), while
        # the deadline leaves room for it
        big = not quick and n == 0

        def mixed_stage():
            sq = (-512, 511) if big and run.time_left() > 1200 else (-128, 127)
            if big and sq[1] == 127:
                notes.append("10-bit square reduced to the 8-bit square: deadline")
            return dict(run_mixed(run, cfg, durs, pairs, sq[0], sq[1]), value_square=list(sq))

        for stage, fn in (("roundtrip", lambda: run_roundtrip(run, cfg, allD, 2 ** 12 if quick else 2 ** 16,
                                                              accepted.get(cfg.name, {}),
                                                              2 ** 8 if quick else 2 ** 14, 3 if quick else 1)),
                          ("mixed", mixed_stage)):
            t0, c0 = run.elapsed(), cpu_now()
            try:
                (rt if stage == "roundtrip" else mx)[cfg.name] = fn()
            except core.InfraError as e:
                # never lose violations that are already established; without any, there is no verdict
                if not run.violations:
                    raise
                notes.append("%s stage under %s aborted after violations were found: %s" % (stage, cfg, str(e)[:300]))
            wall["%s_%s" % (stage, cfg.name)] = round(run.elapsed() - t0, 1)
            cpu["%s_%s" % (stage, cfg.name)] = round(cpu_now() - c0, 1)
    f32 = None
    if not quick:
        if run.time_left() < 180:
            notes.append("sweep over all 2^32 counts of the 32-bit reps not run (windows only): deadline")
        else:
            t0, c0 = run.elapsed(), cpu_now()
            try:
                f32 = run_full32(run, core.GXX14, allD)
                if f32["slices_done"] != f32["slices"]:
                    notes.append("sweep over all 2^32 counts of the 32-bit reps: %d of %d slices run before the deadline"
                                 % (f32["slices_done"], f32["slices"]))
            except core.InfraError as e:
                if not run.violations:
                    raise
                notes.append("2^32 stage aborted after violations were found: %s" % str(e)[:300])
            wall["full32"], cpu["full32"] = round(run.elapsed() - t0, 1), round(cpu_now() - c0, 1)
    g = sweep_cfgs[0].name
    mx.setdefault(g, {"pairs_with_both_outcomes_of_all_comparisons": 0, "op_evaluations": 0})
    evals = (st["records"] + cf["probes"] + cf["constexpr_probes"] +
             sum(r["evals"] + r["implicit_target_evals"] for r in rt.values()) + sum(m["op_evaluations"] for m in mx.values()) +
             (f32["evals"] if f32 else 0))
    fpal = {r: G.fp_alphabet(r)[1] for r in G.REPS}
    run.cov.update({
        "evaluations": evals,
        "distinct_nontrivial": mx[g]["pairs_with_both_outcomes_of_all_comparisons"] + st["durations_with_both_accept_outcomes"],
        "rule": ("durations = {int32_t,int64_t,float,double} x 11 periods (44 types) + the six named typedefs + 32 types that take "
                 "part in (a)(b)(d) only: periods 1/10^12, 1/10^18, 31556952000/1, 10^10/3 (numerator or denominator beyond 2^31 / "
                 "2^32), 1/1000003 and 4294967311/1 (large primes) and the non-reduced spellings ratio<2,4>, ratio<120,2>. "
                 "(a)(b): per type and per value category (rvalue, lvalue, const lvalue, const rvalue), type-level read-out (rep "
                 "identity, unit_ratio to seconds as a prime factorisation compared with Fraction(Period), as_chrono_duration period "
                 "identity) in every config, and a run-time sweep over all 16-bit counts plus windows at 0, +-1, rep min/max "
                 "(floating reps: windows of consecutive bit patterns incl. -0.0, denormals, inf, NaN; thorough tier, last stage, as far "
                 "as the deadline allows: all 2^32 counts / bit patterns of the int32_t and float types); 'unchanged count' is "
                 "compared on the object representation (memcmp), NaN counts as NaN. (c): every ordered pair of the 44 types x 8 "
                 "operators x both argument orders x {the 8-bit square (thorough: 10-bit); a 9x9 boundary square; the enumerated "
                 "threshold-edge alphabet: with [lo,hi] the exact range of the common rep and K1,K2 the factors to the common "
                 "period, A = {hi/K1, -(hi/K1), lo/K1}+{-1,0,1} u {0,+-1,+-(hi/K1)/2}, B likewise, all of A x B and for each "
                 "element the partners that put the sum resp. the difference within one step of hi and lo} compared with chrono "
                 "and an exact 128-bit oracle; and, when the common rep is floating, all pairs of an enumerated alphabet of "
                 "floating bit patterns / boundary integers (coverage key fp_alphabet) compared with chrono alone. Pairs rejected "
                 "by Au's conversion policy are recorded, not swept. (d): is_convertible<duration (4 value categories),Q> vs "
                 "is_convertible<Quantity<s*Period,Rep>,Q> over 50 x 48 targets (8 units x 4 reps + 4 units x {uint64_t, int16_t, "
                 "uint8_t, long double}) and 32 x 11 targets for the extra periods; for every accepted (duration, target) `Target t = d` must compile and hold the same "
                 "value as `Target t2 = as_quantity(d)` (and the exact product for integral targets) over the 16-bit counts + "
                 "windows (quick tier: a third of the (duration, target) instances, the rest is counted as left to thorough). Under all six compiler x standard configurations, compile-only: acceptance of the 4 forms of the mixed "
                 "operators on a reduced pair set, and constexpr use (static_assert) of round trip + mixed operators per type. "
                 "Non-trivial = ordered pairs on which every comparison operator was seen both true and false, plus "
                 "duration types for which both accepted and refused targets were seen."),
        "exhaustive": not notes,
        "exhaustive_note": ("complete over the stated finite alphabets (not over all 2^64 counts)" if not notes else "; ".join(notes)),
        "configs_type_level": [str(c) for c in cfgs], "configs_value_level": [str(c) for c in sweep_cfgs[:len(rt)]],
        "type_level": st, "six_configs": cf, "roundtrip": rt, "roundtrip_all_2^32_counts_of_32bit_reps": f32, "mixed": mx, "stage_wall_s": wall, "stage_cpu_s": cpu, "fp_alphabet": fpal,
        "samples": [{"duration": durs[8].name, "unit_ratio_to_seconds": "1001/30000", "targets_accepting": "see type_level"},
                    {"pair": [durs[6].name, durs[11].name], "factors_to_common_period": list(G.pair_factors(durs[6], durs[11])[1:])},
                    {"pair": [durs[10].name, durs[42].name], "factors_to_common_period": list(G.pair_factors(durs[10], durs[42])[1:])},
                    {"duration": extra[1].name, "unit_ratio_to_seconds": "1/10^18"}],
    })
    run.assumptions += [
        "libstdc++ <chrono> of g++ 12 (also used by clang++ 14) is the reference for 'inside chrono'; it is cross-checked "
        "against exact __int128 arithmetic wherever it does not overflow / round, and any disagreement is an infrastructure error",
        "'chrono does not overflow' for an integral common rep = both counts scaled to the common period and the sum/difference "
        "fit that rep (those cases are not executed at all when they do not); for a floating common rep chrono rounds instead of "
        "overflowing, so the implementation must agree with chrono there too (kinds mixed-band / mixed-fp); the only floating "
        "don't-care is a finite count that chrono's own conversion or sum turns into an infinity (counted)",
        "NaN counts: libstdc++ derives duration <= and >= from < by negation (d <= NaN is true inside chrono although the IEEE "
        "comparison is false), so a NaN on either side of a mixed <= or >= is a counted don't-care "
        "(fp_alphabet_dont_care_nan_in_le_ge); ==, !=, <, > (chrono's answer is the IEEE answer) and +, - (NaN result) are demanded",
        "mixed sums/differences are 'the same answer' when they compare equal as durations (or are both NaN); a differing sign of "
        "zero is counted, not demanded. Round-tripped counts must be bit-identical (NaN payload is not demanded)",
        "named typedefs std::chrono::nanoseconds..hours have a 64-bit signed rep (observed in the dump, else infrastructure error)",
        "the value of an implicit acceptance is executed only where it has no undefined behaviour: integral target from an integral "
        "rep with an integer factor whose exact product fits the target rep, or any count into a floating target",
    ]


# ------------------------------------------------------------------------------ replay
def replay(path):
    r = json.load(open(path))
    cfg = core.Cfg(*r["config"]) if r.get("config") else core.GXX14
    run = core.Run.__new__(core.Run)
    run.wd = os.path.join(core.BUILD, "C17", "replay")
    os.makedirs(run.wd, exist_ok=True)
    D = _by_name()
    hit, kind = [], r.get("kind")
    if kind == "dump":
        d = D[r["dur"]]
        if r["record"] != "accept":
            recs = [(0, G.static_stmts(d, r["record"]))]
        else:
            t = [t for t in G.targets() if t[0] == r["target"]][0]
            recs = [(0, G.accept_stmts(d, t[1]))]
        res, failed = psx.run_dump(cfg, recs, run.wd, "rp")
        if failed:
            hit.append("does not compile: %s" % failed[0])
        elif r["record"] != "accept":
            hit += [w for _, w in judge_static(d, r["record"], res[0])]
        else:
            hit += [w for _, w in judge_accept(d, t, res[0])]
    elif kind in ("probe", "mixed-accept", "mixed-accept-config"):
        if kind == "probe":
            res, _ = core.run_probes(cfg, [core.Probe(0, r["code"], "accept")], run.wd, "rp")
            vs = [res[0][0]]
            bad = vs[0] != "accept"
        elif kind == "mixed-accept":
            ps = [core.Probe(f, G.mixed_probe(D[r["a"]], D[r["b"]], f), "accept") for f in (r["form"], "qq")]
            res, _ = core.run_probes(cfg, ps, run.wd, "rp")
            vs = [res[p.pid][0] for p in ps]
            bad = vs[0] != vs[1]
        else:
            vs = []
            for c in (core.Cfg(*r["config0"]), cfg):
                res, _ = core.run_probes(c, [core.Probe(0, G.mixed_probe(D[r["a"]], D[r["b"]], r["form"]), "accept")], run.wd, "rp")
                vs.append(res[0][0])
            bad = vs[0] != vs[1]
        if bad:
            hit.append("verdicts %s" % vs)
    elif kind == "roundtrip":
        d = D[r["dur"]]
        k, v = int(r["item"][0]), int(r["item"][1])
        tg, only = None, None
        if r.get("target"):
            tid, t = [(n, t) for n, t in enumerate(G.targets()) if t[0] == r["target"]][0]
            nd = _target_params(d, t)
            tg, only = {0: [(tid, t[1], nd[0], nd[1])]}, tid
        S, V = _build_run(run, cfg, "rp", lambda src, g: G.emit_roundtrip_tu(src, g, {0: [(k, v, v)]}, tg, {0: [(k, v, v)]}, only),
                          [[(0, d)]], ["-O1"])
        hit += [json.dumps(x) for x in V]
    elif kind == "mixed":
        a, b = D[r["a"]], D[r["b"]]
        xy = (int(r["x"]), int(r["y"]))
        S, V = _build_run(run, cfg, "rp", lambda src, g: G.emit_mixed_tu(src, g, single=None if r.get("fp") else xy,
                                                                         single_fp=xy if r.get("fp") else None),
                          [[(0, a, b)]], ["-O1"])
        hit += [json.dumps(x) for x in V]
    else:
        print("unknown replay kind", kind)
        return 0
    for h in hit:
        print("reproduced:", h)
    if hit:
        print("VIOLATION property=C17 replay=%s" % path)
        return 1
    print("not reproduced on the current tree: %s" % r.get("key"))
    return 0
