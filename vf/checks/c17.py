"""C17 — std::chrono round trip (bounded exhaustive enumeration against an exact reference).

 (a) as_quantity(d): count, Rep identity, unit_ratio(unit, seconds) == Period      (dump + sweep)
 (b) implicit / as_chrono_duration round trip: count, Period identity              (dump + sweep)
 (c) duration-vs-quantity == != < <= > >= + - on all ordered pairs of duration types, both
     argument orders, against chrono itself and a 128-bit exact oracle               (sweep)
 (d) is_convertible<duration, Q> == is_convertible<Quantity<s*Period, Rep>, Q>     (dump)
"""
import json
import os
from fractions import Fraction as Fr

from .. import c17_gen as G
from .. import core, model, psx

LEVEL = "exploration"
TIME_DIM = model.dim_key(model.LIB_BY_STEM["seconds"].dim)
FORMS = (("rv", "rvalue"), ("lv", "lvalue"), ("cl", "const lvalue"))


REPLAY_CAP = 50   # replay artefacts are written for the first violations only (finish() prints <= 50)


def _viol(run, key, what, obj):
    """Record a violation; write its replay artefact unless it is a known finding or beyond the cap."""
    rp = None
    if run.match_known(key) is None and len(run.violations) < REPLAY_CAP:
        rp = run.write_replay(key, dict(obj, what=what))
    run.violation(key, what, rp)


def _control(cfg, wd, flags=()):
    """Before a compile failure is believed: the toolchain + PCH must still compile a trivial Au/chrono
    TU (another process may have wiped the PCH cache, or /repo may be mid-edit) - else no verdict."""
    os.makedirs(wd, exist_ok=True)
    src = os.path.join(wd, "control_%s.cc" % cfg.name)
    with open(src, "w") as f:
        f.write("void control() { au::Quantity<au::Seconds, int> q = au::seconds(1); (void)q; "
                "std::chrono::seconds s{1}; (void)s; }\n")
    rc, err = core.syntax_check(cfg, src, list(flags))
    if rc != 0:
        raise core.InfraError("control TU does not compile under %s (PCH removed concurrently / tree mid-edit?): %s"
                              % (cfg, core._first_error(err) or err[-300:]))


def _by_name():
    return {d.name: d for d in G.durations() + G.named_durations()}


# ------------------------------------------------------------------------------ (a)(b)(d) dumps
def static_records(allD):
    recs, meta = [], {}
    for d in allD:
        for part in ("asq", "acd"):
            rid = len(recs)
            recs.append((rid, G.static_stmts(d, part)))
            meta[rid] = (part, d, None)
    for d in allD:
        for t in G.targets():
            rid = len(recs)
            recs.append((rid, G.accept_stmts(d, t[1])))
            meta[rid] = ("accept", d, t)
    return recs, meta


def judge_static(d, part, o):
    """-> list of (key, what) for one type-level record."""
    out = []
    if part == "asq" and not (o["dur_rep_same"] and o["dur_period_same"]):
        raise core.InfraError("harness assumption broken: %s is not duration<%s, ratio<%d,%d>>"
                              % (d.cpp, d.rep, d.num, d.den))
    exp = G.expected_ratio_key(d)
    for tag, cat in FORMS:
        if part == "acd":
            if not o["acd_period_same_" + tag]:
                out.append(("C17:as_chrono_duration-period:%s" % d.name,
                            "as_chrono_duration(as_quantity(%s %s))::period is not ratio<%d,%d>"
                            % (cat, d.name, d.num, d.den)))
            if not o["acd_rep_same_" + tag]:
                out.append(("C17:as_chrono_duration-rep:%s" % d.name,
                            "as_chrono_duration(as_quantity(%s %s))::rep is not %s" % (cat, d.name, d.rep)))
            continue
        if not o["q_rep_same_" + tag]:
            out.append(("C17:as_quantity-rep:%s" % d.name,
                        "as_quantity(%s %s) does not have rep %s" % (cat, d.name, d.rep)))
        gm = model.mag_from_readout(o["ratio_" + tag])
        got = model.mag_key(gm)
        dim = model.dim_key(model.dim_from_readout(o["u_" + tag]["dim"]))
        if got != exp or dim != TIME_DIM:
            out.append(("C17:as_quantity-unit:%s" % d.name,
                        "unit of as_quantity(%s %s) has ratio %s to seconds%s; Period is %d/%d"
                        % (cat, d.name, model.mag_fraction(gm) if model.mag_is_rational(gm) else got,
                           "" if dim == TIME_DIM else " and is not a time unit", d.num, d.den)))
        if not o["back_implicit_" + tag]:
            out.append(("C17:back-implicit-rejected:%s" % d.name,
                        "as_quantity(%s %s) is not implicitly convertible back to the duration"
                        % (cat, d.name)))
    return out


def judge_accept(d, t, o):
    out = []
    for k, cat in (("dur", "rvalue"), ("dur_lref", "lvalue"), ("dur_clref", "const lvalue")):
        if o[k] != o["qty"]:
            out.append(("C17:accept-mismatch:%s->%s" % (d.name, t[0]),
                        "is_convertible<%s %s, %s> is %s but is_convertible<Quantity<Seconds*%d/%d,%s>, %s> is %s"
                        % (cat, d.name, t[0], o[k], d.num, d.den, d.rep, t[0], o["qty"])))
    return out


def run_static(run, cfgs, allD):
    recs, meta = static_records(allD)
    core.warm_pch(cfgs)
    stats = {"records": 0, "accept_true": 0, "accept_false": 0, "hard_errors": 0, "model_mismatch": []}
    both = {}
    for cfg in cfgs:
        res, failed = psx.run_dump(cfg, recs, os.path.join(run.wd, "dump_" + cfg.name), "c17", "",
                                   chunk=max(20, len(recs) // (core.NCPU * 2) + 1))
        if failed:   # believe a compile failure only if it reproduces alone, after a control compile
            _control(cfg, run.wd)
            res2, failed = psx.run_dump(cfg, [recs[r] for r in sorted(failed)],
                                        os.path.join(run.wd, "dumpre_" + cfg.name), "c17", "", chunk=1)
            res.update(res2)
        for rid, diag in sorted(failed.items()):
            kind, d, t = meta[rid]
            if kind != "accept":
                key = "C17:%s-rejected:%s" % ({"asq": "as_quantity", "acd": "as_chrono_duration"}[kind], d.name)
                what = "%s: type-level use of %s on %s does not compile: %s" % (
                    cfg, {"asq": "as_quantity(d)", "acd": "as_chrono_duration(as_quantity(d))"}[kind], d.name, diag)
            else:
                key = "C17:hard-error:%s->%s" % (d.name, t[0])
                what = ("%s: asking std::is_convertible<%s, %s> (or the same question for Quantity<Seconds*%d/%d,%s>) "
                        "is a hard compile error instead of true/false: %s" % (cfg, d.name, t[0], d.num, d.den, d.rep, diag))
                stats["hard_errors"] += 1
            _viol(run, key, what, {"kind": "dump", "record": kind, "dur": d.name,
                                   "target": t[0] if t else None, "config": [cfg.cxx, cfg.std]})
        for rid, o in res.items():
            kind, d, t = meta[rid]
            stats["records"] += 1
            if kind != "accept":
                v = judge_static(d, kind, o)
            else:
                v = judge_accept(d, t, o)
                stats["accept_true" if o["qty"] else "accept_false"] += 1
                both.setdefault(d.name, set()).add(bool(o["qty"]))
                pred = G.policy_implicit(d.rep, d.period / t[2], t[3])
                if pred != o["qty"] and len(stats["model_mismatch"]) < 20:
                    stats["model_mismatch"].append({"dur": d.name, "target": t[0], "documented_policy": pred,
                                                    "observed": o["qty"], "config": str(cfg)})
            for key, what in v:
                _viol(run, key, "%s: %s" % (cfg, what), {"kind": "dump", "record": kind, "dur": d.name,
                                                        "target": t[0] if t else None,
                                                        "config": [cfg.cxx, cfg.std], "observed": o})
    stats["durations_with_both_accept_outcomes"] = sum(1 for s in both.values() if len(s) == 2)
    return stats


# ------------------------------------------------------------------------------ run-time sweeps
def _build_run(run, cfg, tag, emit, groups, flags, parts=1, failed=None):
    """Build one TU per group, run them all, parse S/V lines.  With `failed` (a list), groups whose TU
    does not compile are appended to it instead of being an infrastructure error."""
    wd = os.path.join(run.wd, tag + "_" + cfg.name)
    os.makedirs(wd, exist_ok=True)
    fl = list(flags)

    def build(k):
        src, exe = os.path.join(wd, "t%d.cc" % k), os.path.join(wd, "t%d" % k)
        emit(src, groups[k])
        rc, err = core.build_exe(cfg, src, exe, fl)
        if rc != 0:
            if failed is None:
                raise core.InfraError("probe-accepted sweep TU failed to build (%s):\n%s" % (src, err[-3000:]))
            failed.append(groups[k])
            return None
        return exe

    core.pch_dir(cfg, fl)
    exes = [e for e in core.pmap(build, range(len(groups))) if e]

    def go(job):
        exe, part = job
        rc, out, err = core.sh([exe, str(part), str(parts)], timeout=3600)
        if rc != 0:
            raise core.InfraError("sweep binary %s failed rc=%d: %s" % (exe, rc, err[-2000:]))
        return out

    S, V = [], []
    for out in core.pmap(go, [(e, p) for e in exes for p in range(parts)]):
        for line in out.split("\n"):
            if line.startswith("S "):
                S.append(json.loads(line[2:]))
            elif line.startswith("V "):
                V.append(json.loads(line[2:]))
    for e in exes:
        try:
            os.remove(e)
        except OSError:
            pass
    return S, V


def run_roundtrip(run, cfg, allD, w, full32):
    probes = [core.Probe(i, G.roundtrip_probe(d), "accept") for i, d in enumerate(allD)]
    res, _ = core.run_probes(cfg, probes, os.path.join(run.wd, "rtp_" + cfg.name), "rt")
    again = [p for p in probes if res[p.pid][0] != "accept"]
    if again:
        _control(cfg, run.wd)
        res.update(core.run_probes(cfg, again, os.path.join(run.wd, "rtp_" + cfg.name), "rtre")[0])
    insts, ivs = [], {}
    for i, d in enumerate(allD):
        if res[i][0] != "accept":
            key = "C17:roundtrip-rejected:%s" % d.name
            what = "%s: as_quantity / implicit round trip / as_chrono_duration of %s does not compile: %s" % (cfg, d.name, res[i][1])
            _viol(run, key, what, {"kind": "probe", "code": probes[i].code, "config": [cfg.cxx, cfg.std]})
            continue
        insts.append((i, d))
        ivs[i] = G.roundtrip_intervals(d.rep, w, full32)
    n = min(core.NCPU, len(insts))
    groups = [insts[k::n] for k in range(n)]
    S, V = _build_run(run, cfg, "rt", lambda src, g: G.emit_roundtrip_tu(src, g, ivs), groups, ["-O1"],
                      parts=4 if full32 else 1)
    for v in V:
        d = allD[v["inst"]]
        key = "C17:%s:%s:x=%s" % (v["kind"], d.name, v["x"])
        what = ("%s: %s with count %s: %s gives %s" % (cfg, d.name, v["x"], {
            "count": "as_quantity(d).in(unit)", "count-rvalue": "as_quantity(D{x}).in(unit)",
            "back-implicit": "D back = as_quantity(d); back.count()",
            "back-as_chrono_duration": "as_chrono_duration(as_quantity(d)).count()",
            "implicit-accept-value": "Quantity q = d; q.in(unit)"}[v["kind"]], v["got"]))
        _viol(run, key, what, {"kind": "roundtrip", "dur": d.name, "item": [v["ik"], v["iv"]],
                               "config": [cfg.cxx, cfg.std], "observed": v})
    if len(S) != len(insts):
        raise core.InfraError("round-trip sweep: %d of %d instances reported" % (len(S), len(insts)))
    return {"types": len(insts), "evals": sum(s["evals"] for s in S), "nan_counts": sum(s["nans"] for s in S),
            "raw_violations": sum(s["viol"] for s in S)}


FORMS4 = ("dq", "qd", "qq", "acd")


def run_mixed(run, cfg, durs, pairs, lo8, hi8):
    """pairs: list of (i, j) indices into durs.

    Acceptance is observed, never assumed: a pair counts as accepted when a sweep TU containing all
    four forms of it (duration op quantity, quantity op duration, quantity op quantity,
    as_chrono_duration of the mixed sums) compiles; predicted-reject pairs, and every pair of a TU
    that does not compile, are decided form by form with single-line probes."""
    wdp = os.path.join(run.wd, "mxp_" + cfg.name)
    emit = lambda src, g: G.emit_mixed_tu(src, g, lo8, hi8)
    verdict, diag = {}, {}

    def probe(ps, exp, tag):
        pr = [core.Probe((i, j, f), G.mixed_probe(durs[i], durs[j], f), exp) for (i, j) in ps for f in FORMS4]
        res, _ = core.run_probes(cfg, pr, wdp, tag, batch=24)
        for (i, j) in ps:
            verdict[(i, j)] = {f: res[(i, j, f)][0] for f in FORMS4}
            diag[(i, j)] = next((res[(i, j, f)][1] for f in FORMS4 if res[(i, j, f)][1]), "")

    pred = {p: G.predicted_mixed_accept(durs[p[0]], durs[p[1]]) for p in pairs}
    probe([p for p in pairs if not pred[p]], "reject", "mxr")
    todo = [p for p in pairs if pred[p]] + [p for p in pairs if not pred[p] and
                                            all(v == "accept" for v in verdict[p].values())]
    # pairs over the same two periods share most template instantiations: keep them in one TU
    np_ = len(G.PERIODS)
    todo.sort(key=lambda p: (min(p[0] % np_, p[1] % np_), max(p[0] % np_, p[1] % np_), p))
    idx = {k: p for k, p in enumerate(todo)}
    insts = [(k, durs[i], durs[j]) for k, (i, j) in idx.items()]
    n = max(1, min(core.NCPU * 2, len(insts)))
    sz = -(-len(insts) // n)
    bad = []
    S, V = _build_run(run, cfg, "mx", emit, [insts[k:k + sz] for k in range(0, len(insts), sz)] or [[]], ["-O1"], failed=bad)
    if bad:
        _control(cfg, run.wd, ["-O1"])
        again = [x for g in bad for x in g]
        probe([idx[k] for k, _, _ in again], "accept", "mxa")
        flip = [idx[k] for k, _, _ in again if "accept" not in verdict[idx[k]].values()]
        if flip:   # predicted-accept yet rejected in every form: decide once more after a control compile
            _control(cfg, run.wd)
            probe(flip, "accept", "mxf")
        ok = [x for x in again if all(v == "accept" for v in verdict[idx[x[0]]].values())]
        if ok:
            m = max(1, min(core.NCPU * 2, len(ok)))
            S2, V2 = _build_run(run, cfg, "mx2", emit, [ok[k::m] for k in range(m)], ["-O1"])
            S, V = S + S2, V + V2
    for p in todo:
        verdict.setdefault(p, {f: "accept" for f in FORMS4})
    suspect = [p for p in pairs if len(set(verdict[p].values())) > 1]
    if suspect:   # a form-dependent verdict becomes a violation below: re-decide it after a control compile
        _control(cfg, run.wd)
        probe(suspect, "accept", "mxc")
    acc, rej, mism = [], [], 0
    for (i, j) in pairs:
        a, b = durs[i], durs[j]
        v = verdict[(i, j)]
        if (v["qq"] == "accept") != pred[(i, j)]:
            mism += 1
        for f in ("dq", "qd"):
            if v[f] != v["qq"]:
                key = "C17:mixed-accept:%s:%s:%s" % (f, a.name, b.name)
                what = ("%s: the eight operators on (%s, %s) are %sed in the form %s but %sed when both operands are "
                        "the corresponding quantities (%s)" % (cfg, a.name, b.name, v[f],
                                                               "duration op quantity" if f == "dq" else "quantity op duration",
                                                               v["qq"], diag.get((i, j), "")))
                _viol(run, key, what, {"kind": "mixed-accept", "a": a.name, "b": b.name, "form": f,
                                       "config": [cfg.cxx, cfg.std]})
        if v["dq"] == "accept" and v["qd"] == "accept" and v["acd"] != "accept":
            key = "C17:mixed-sum-not-a-duration:%s:%s" % (a.name, b.name)
            what = ("%s: the mixed sums/differences of (%s, %s) compile but as_chrono_duration() of them does not: %s"
                    % (cfg, a.name, b.name, diag.get((i, j), "")))
            _viol(run, key, what, {"kind": "probe", "code": G.mixed_probe(a, b, "acd"), "config": [cfg.cxx, cfg.std]})
        if all(x == "accept" for x in v.values()):
            acc.append((i, j))
        else:
            rej.append((i, j))
    if len(acc) < 0.5 * len(pairs) and not run.violations:
        raise core.InfraError("vacuity guard: only %d of %d ordered duration pairs accept mixed operations" % (len(acc), len(pairs)))
    if len(S) != len(acc):
        raise core.InfraError("mixed sweep: %d of %d accepted pairs reported" % (len(S), len(acc)))
    od = [s for s in S if s["oracle_disagree"]]
    if od:
        i, j = idx[od[0]["inst"]]
        raise core.InfraError("128-bit oracle and chrono disagree where chrono does not overflow on (%s, %s): %s"
                              % (durs[i].name, durs[j].name, od[0]))
    for v in V:
        i, j = idx[v["inst"]]
        a, b = durs[i], durs[j]
        key = "C17:mixed:%s:%s:%s:%s:a=%s:b=%s" % (v["op"], v["form"], a.name, b.name, v["a"], v["b"])
        l = "%s{%s}" % (a.name, v["a"]) if v["form"] == "dq" else "as_quantity(%s{%s})" % (a.name, v["a"])
        r = "%s{%s}" % (b.name, v["b"]) if v["form"] == "qd" else "as_quantity(%s{%s})" % (b.name, v["b"])
        what = "%s: %s %s %s gives %s; inside chrono %s (exact %s)" % (cfg, l, v["op"], r, v["au"], v["chrono"], v["exact"])
        _viol(run, key, what, {"kind": "mixed", "a": a.name, "b": b.name, "x": v["a"], "y": v["b"],
                               "op": v["op"], "form": v["form"], "config": [cfg.cxx, cfg.std], "observed": v})
    full = (1 << 6) - 1
    return {"pairs": len(pairs), "pairs_accepted": len(acc), "pairs_rejected_by_policy": len(rej),
            "policy_prediction_mismatch": mism, "sweep_tus_that_needed_per_pair_probing": len(bad),
            "quantity_op_quantity_disagreements_with_chrono_info": sum(s["qq_disagree"] for s in S),
            "value_pairs": sum(s["evals"] for s in S), "op_evaluations": sum(s["ops"] for s in S),
            "skipped_chrono_conversion_overflow": sum(s["skip_conv"] for s in S),
            "skipped_chrono_sum_overflow": sum(s["skip_arith"] for s in S),
            "fp_inexact_band_value_pairs": sum(s["band"] for s in S),
            "fp_inexact_band_disagreements": sum(s["band_disagree"] for s in S),
            "pairs_with_both_outcomes_of_all_comparisons": sum(1 for s in S if s["seen_true"] == full and s["seen_false"] == full),
            "pairs_sum_type_identical_to_chrono": sum(s["sum_type_same"] for s in S),
            "raw_violations": sum(s["viol"] for s in S),
            "rejected_examples": ["%s vs %s" % (durs[i].name, durs[j].name) for i, j in rej[:4]]}


# ------------------------------------------------------------------------------ driver
def check(run):
    quick = run.tier == "quick"
    durs, named = G.durations(), G.named_durations()
    allD = durs + named
    cfgs = core.CORNERS if quick else core.CFG6
    sweep_cfgs = [core.GXX14] if quick else [core.GXX14, core.CLANG20]
    notes, wall = [], {}
    t0 = run.elapsed()
    st = run_static(run, cfgs, allD)
    wall["type_level"] = round(run.elapsed() - t0, 1)
    pairs = [(i, j) for i in range(len(durs)) for j in range(len(durs))]
    rt, mx = {}, {}
    for n, cfg in enumerate(sweep_cfgs):
        if n and run.time_left() < 420:
            notes.append("second sweep build (%s) skipped: deadline" % cfg)
            break
        # thorough, first build: the 10-bit square (it contains the 8-bit square of the quantifier)
        sq = (-128, 127) if quick or n else (-512, 511)
        for stage, fn in (("roundtrip", lambda: run_roundtrip(run, cfg, allD, 2 ** 12 if quick else 2 ** 16,
                                                              full32=(not quick and n == 0))),
                          ("mixed", lambda: dict(run_mixed(run, cfg, durs, pairs, sq[0], sq[1]), value_square=list(sq)))):
            t0 = run.elapsed()
            try:
                (rt if stage == "roundtrip" else mx)[cfg.name] = fn()
            except core.InfraError as e:
                # never lose violations that are already established; without any, there is no verdict
                if not run.violations:
                    raise
                notes.append("%s stage under %s aborted after violations were found: %s" % (stage, cfg, str(e)[:300]))
            wall["%s_%s" % (stage, cfg.name)] = round(run.elapsed() - t0, 1)
    g = sweep_cfgs[0].name
    mx.setdefault(g, {"pairs_with_both_outcomes_of_all_comparisons": 0, "op_evaluations": 0})
    evals = st["records"] + sum(r["evals"] for r in rt.values()) + sum(m["op_evaluations"] for m in mx.values())
    run.cov.update({
        "evaluations": evals,
        "distinct_nontrivial": mx[g]["pairs_with_both_outcomes_of_all_comparisons"] + st["durations_with_both_accept_outcomes"],
        "rule": ("durations = {int32_t,int64_t,float,double} x 11 periods (44 types) + the six named typedefs. "
                 "(a)(b): per type and per value category, type-level read-out (rep identity, unit_ratio to seconds as a "
                 "prime factorisation compared with Fraction(Period), as_chrono_duration period identity) in every config, "
                 "and a run-time sweep over all 16-bit counts plus windows at 0, +-1, rep min/max (floating reps: windows of "
                 "consecutive bit patterns incl. denormals, inf, NaN). (c): every ordered pair of the 44 types x 8 operators "
                 "x both argument orders x the 8-bit square plus a 9x9 boundary square, compared with chrono and an exact "
                 "128-bit oracle; pairs rejected by Au's conversion policy are recorded, not swept. (d): "
                 "is_convertible<duration,Q> vs is_convertible<Quantity<s*Period,Rep>,Q> over 50 x 32 targets. "
                 "Non-trivial = ordered pairs on which every comparison operator was seen both true and false, plus "
                 "duration types for which both accepted and refused targets were seen."),
        "exhaustive": not notes,
        "exhaustive_note": ("complete over the stated finite alphabets (not over all 2^64 counts)" if not notes else "; ".join(notes)),
        "configs_type_level": [str(c) for c in cfgs], "configs_value_level": [str(c) for c in sweep_cfgs[:len(rt)]],
        "type_level": st, "roundtrip": rt, "mixed": mx, "stage_wall_s": wall,
        "samples": [{"duration": durs[8].name, "unit_ratio_to_seconds": "1001/30000", "targets_accepting": "see type_level"},
                    {"pair": [durs[6].name, durs[11].name], "factors_to_common_period": list(G.pair_factors(durs[6], durs[11])[1:])},
                    {"pair": [durs[10].name, durs[42].name], "factors_to_common_period": list(G.pair_factors(durs[10], durs[42])[1:])}],
    })
    run.assumptions += [
        "libstdc++ <chrono> of g++ 12 (also used by clang++ 14) is the reference for 'inside chrono'; it is cross-checked "
        "against exact __int128 arithmetic wherever it does not overflow / round, and any disagreement is an infrastructure error",
        "'chrono does not overflow' for an integral common rep = both counts scaled to the common period and the sum/difference "
        "fit that rep (those cases are not executed at all when they do not); for a floating common rep the analogous don't-care "
        "band is 'the exact scaled value or sum is not representable', where Au and chrono are still compared but only counted",
        "NaN counts compare equal to NaN counts (bitwise payload is not demanded)",
        "named typedefs std::chrono::nanoseconds..hours have a 64-bit signed rep (observed in the dump, else infrastructure error)",
    ]


# ------------------------------------------------------------------------------ replay
def replay(path):
    r = json.load(open(path))
    cfg = core.Cfg(*r["config"]) if r.get("config") else core.GXX14
    run = core.Run.__new__(core.Run)
    run.wd = os.path.join(core.BUILD, "C17", "replay")
    os.makedirs(run.wd, exist_ok=True)
    D = _by_name()
    hit, kind = [], r.get("kind")
    if kind == "dump":
        d = D[r["dur"]]
        if r["record"] != "accept":
            recs = [(0, G.static_stmts(d, r["record"]))]
        else:
            t = [t for t in G.targets() if t[0] == r["target"]][0]
            recs = [(0, G.accept_stmts(d, t[1]))]
        res, failed = psx.run_dump(cfg, recs, run.wd, "rp")
        if failed:
            hit.append("does not compile: %s" % failed[0])
        elif r["record"] != "accept":
            hit += [w for _, w in judge_static(d, r["record"], res[0])]
        else:
            hit += [w for _, w in judge_accept(d, t, res[0])]
    elif kind in ("probe", "mixed-accept"):
        if kind == "probe":
            ps = [core.Probe(0, r["code"], "accept")]
        else:
            ps = [core.Probe(f, G.mixed_probe(D[r["a"]], D[r["b"]], f), "accept") for f in (r["form"], "qq")]
        res, _ = core.run_probes(cfg, ps, run.wd, "rp")
        vs = [res[p.pid][0] for p in ps]
        if (kind == "probe" and vs[0] != "accept") or (kind != "probe" and vs[0] != vs[1]):
            hit.append("verdicts %s" % vs)
    elif kind == "roundtrip":
        d = D[r["dur"]]
        k, v = int(r["item"][0]), int(r["item"][1])
        S, V = _build_run(run, cfg, "rp", lambda src, g: G.emit_roundtrip_tu(src, g, {0: [(k, v, v)]}), [[(0, d)]], ["-O1"])
        hit += [json.dumps(x) for x in V]
    elif kind == "mixed":
        a, b = D[r["a"]], D[r["b"]]
        S, V = _build_run(run, cfg, "rp", lambda src, g: G.emit_mixed_tu(src, g, single=(int(r["x"]), int(r["y"]))),
                          [[(0, a, b)]], ["-O1"])
        hit += [json.dumps(x) for x in V]
    else:
        print("unknown replay kind", kind)
        return 0
    for h in hit:
        print("reproduced:", h)
    if hit:
        print("VIOLATION property=C17 replay=%s" % path)
        return 1
    print("not reproduced on the current tree: %s" % r.get("key"))
    return 0
