"""C02 — unit algebra is exact and canonical.  Explicit-state BFS over unit expressions.

State   = canonical model state: (monomial over atoms, accumulated scale magnitude, prefix wrapper)
Trans.  = one application of an algebra operation to a state's first-found C++ type
Oracle  = vf/model.py exact exponent vectors; every transition is replayed on the real headers.
"""
import itertools
import os
from fractions import Fraction as Fr

from .. import core, model, psx
from ..model import LIB_BY_STEM as U

LEVEL = "model_checking"

PREAMBLE = r'''
using au::pow;
using au::root;
namespace gen {
// named, unlabelled, unscaled unit with a magnitude nothing else has
struct Zorks : au::UnitImpl<au::Length, decltype(au::mag<11>())> {};
constexpr auto zorks = au::QuantityMaker<Zorks>{};
}
'''

MAXNUM = 12
DENS = (1, 2, 3, 6)


def atoms_for(tier):
    kg = model.prefixed(model.SI_PREFIXES[9], U["grams"])
    kg.maker, kg.singular, kg.symbol = "au::kilo(au::grams)", "au::kilo(au::gram)", "au::kilo(au::symbols::g)"
    anon = model.scaled(U["inches"], 3)
    zork = model.Unit("zorks", "gen::Zorks", model.d(L=1), model.mag_int(11), 0, None, "gen::zorks",
                      None, None, None, named=True)
    a = [U["meters"], U["seconds"], U["feet"], U["radians"], kg, U["hertz"], anon, zork]
    if tier == "thorough":
        a += [U["inches"], U["miles"], U["degrees"], U["bits"], U["minutes"], U["celsius"]]
    return a


class State:
    __slots__ = ("mono", "scale", "wrap", "expr", "depth", "sid", "leaf", "path")

    def __init__(self, mono, scale, wrap, expr, depth, path):
        self.mono, self.scale, self.wrap, self.expr, self.depth, self.path = mono, scale, wrap, expr, depth, path
        self.leaf = wrap is not None
        self.sid = None

    def canonical_type(self):
        return not self.scale and self.wrap is None

    def key(self):
        return (tuple(sorted((k, v.numerator, v.denominator) for k, v in self.mono.items())),
                model.mag_key(self.scale), self.wrap)


def dim_mag(atoms, st):
    dim, mag = {}, dict(st.scale)
    for i, e in st.mono.items():
        dim = model.vmul(dim, model.vpow(atoms[i].dim, e))
        mag = model.vmul(mag, model.vpow(atoms[i].mag, e))
    if st.wrap is not None:
        mag = model.vmul(mag, model.prefix_mag(st.wrap[0]))
    return dim, mag


def in_bounds(mono):
    if len(mono) > 4:
        return False
    return all(abs(e.numerator) <= MAXNUM and e.denominator in DENS for e in mono.values())


SCALINGS = [("*mag2", "decltype(%s{} * au::mag<2>())", model.mag_int(2)),
            ("/mag3", "decltype(%s{} / au::mag<3>())", model.mag_ratio(1, 3)),
            ("*5/7", "decltype(%s{} * (au::mag<5>() / au::mag<7>()))", model.mag_ratio(5, 7)),
            ("*pi", "decltype(%s{} * au::Magnitude<au::Pi>{})", dict(model.MAG_PI)),
            # scaling by a magnitude that is exactly ONE must be the identity, also on an already scaled unit
            ("*one", "decltype(%s{} * au::mag<1>())", {}),
            ("*6/6", "decltype(%s{} * (au::mag<6>() / au::mag<6>()))", {}),
            ("*2*3/6", "decltype(%s{} * au::mag<2>() * au::mag<3>() / au::mag<6>())", {})]


def successors(atoms, st, menu):
    """Yield (label, mono, scale, wrap, expr) for every operation in the menu."""
    S = st.expr
    if "binary" in menu:
        for i in menu["binary"]:
            A = atoms[i].cpp
            am = {i: Fr(1)}
            yield ("*%s" % atoms[i].name, model.vmul(st.mono, am), st.scale, None,
                   "decltype(%s{} * %s{})" % (S, A))
            yield ("/%s" % atoms[i].name, model.vdiv(st.mono, am), st.scale, None,
                   "decltype(%s{} / %s{})" % (S, A))
            yield ("%s*" % atoms[i].name, model.vmul(am, st.mono), st.scale, None,
                   "decltype(%s{} * %s{})" % (A, S))
            yield ("%s/" % atoms[i].name, model.vdiv(am, st.mono), model.vinv(st.scale), None,
                   "decltype(%s{} / %s{})" % (A, S))
    for k in menu.get("pow", ()):
        yield ("pow<%d>" % k, model.vpow(st.mono, k), model.vpow(st.scale, k), None,
               "decltype(au::pow<%d>(%s{}))" % (k, S))
    for k in menu.get("root", ()):
        yield ("root<%d>" % k, model.vpow(st.mono, Fr(1, k)), model.vpow(st.scale, Fr(1, k)), None,
               "decltype(au::root<%d>(%s{}))" % (k, S))
    if menu.get("scale"):
        for lab, tmpl, m in SCALINGS:
            yield (lab, st.mono, model.vmul(st.scale, m), None, tmpl % S)
    for p in menu.get("prefix", ()):
        yield (p[0], st.mono, st.scale, (p, st.key()), "au::%s<%s>" % (p[0], S))


def check(run):
    tier = run.tier
    atoms = atoms_for(tier)
    n_at = len(atoms)
    full = {"binary": range(n_at), "pow": (-2, -1, 0, 1, 2, 3), "root": (2, 3), "scale": True,
            "prefix": model.ALL_PREFIXES}
    nopfx = dict(full, prefix=())
    if tier == "quick":
        menus = {0: full, 1: dict(nopfx, prefix=model.ALL_PREFIXES[8:16:3])}
        maxdepth = 2
    else:
        # depth 3 only from states over the four core atoms (meters, seconds, feet, kg) with a reduced menu:
        # the full depth-3 graph has 155 k states / 393 k transitions (measured) and is out of reach
        menus = {0: full, 1: full, 2: {"binary": (0, 1), "pow": (2,), "scale": True}}
        maxdepth = 3
    # ---- BFS over the model
    states, order, trans = {}, [], []
    for i, a in enumerate(atoms):
        s = State({i: Fr(1)}, {}, None, a.cpp, 0, a.name)
        s.sid = len(order)
        states[s.key()] = s
        order.append(s)
    frontier = list(order)
    for depth in range(maxdepth):
        nxt = []
        menu = menus[depth]
        for st in frontier:
            if st.leaf or (depth == 2 and not set(st.mono) <= {0, 1, 2, 4}):
                continue
            for lab, mono, scale, wrap, expr in successors(atoms, st, menu):
                if not in_bounds(mono):
                    continue
                t = State(mono, scale, wrap, expr, depth + 1, "%s %s" % (st.path, lab))
                k = t.key()
                if k not in states:
                    t.sid = len(order)
                    states[k] = t
                    order.append(t)
                    nxt.append(t)
                trans.append((st, lab, t, states[k]))
        frontier = nxt
    # ---- index by (dim,mag) and by dim for equivalence checks
    dm = {}
    for s in order:
        dim, mag = dim_mag(atoms, s)
        dm[s.sid] = (dim, mag)
    by_dim = {}
    for s in order:
        by_dim.setdefault(model.dim_key(dm[s.sid][0]), []).append(s)
    # ---- emit one record per transition
    recs, meta = [], {}
    for rid, (src, lab, t, rep) in enumerate(trans):
        X = t.expr
        dim, mag = dim_mag(atoms, t)
        stm = ['vf_kv("u", "{" + vf::unit_json<%s>() + "}");' % X]
        m = {"src": src, "lab": lab, "t": t, "rep": rep, "dim": dim, "mag": mag}
        if rep is not t:
            R = rep.expr
            stm.append('vf_b("same", std::is_same<%s, %s>::value);' % (X, R))
            stm.append('vf_b("equiv", au::are_units_quantity_equivalent(%s{}, %s{}));' % (X, R))
            stm.append('vf_b("ratio1", au::unit_ratio(%s{}, %s{}) == au::ONE);' % (X, R))
            m["expect_same"] = (src.canonical_type() and t.canonical_type() and rep.canonical_type())
        # one alias (same dim+mag, different state) and one non-equivalent same-dim state
        bucket = by_dim[model.dim_key(dim)]
        tk = states[t.key()].sid
        h = rid % len(bucket)
        alias = other = None
        for j in range(len(bucket)):
            c = bucket[(h + j) % len(bucket)]
            if c.sid == tk:
                continue
            same = model.mag_key(dm[c.sid][1]) == model.mag_key(mag)
            if same and alias is None:
                alias = c
            if not same and other is None:
                other = c
            if alias is not None and other is not None:
                break
        if alias is not None:
            stm.append('vf_b("alias_equiv", au::are_units_quantity_equivalent(%s{}, %s{}));' % (X, alias.expr))
            stm.append('vf_b("alias_ratio1", au::unit_ratio(%s{}, %s{}) == au::ONE);' % (X, alias.expr))
            m["alias"] = alias
        if other is not None:
            stm.append('vf_b("other_equiv", au::are_units_quantity_equivalent(%s{}, %s{}));' % (X, other.expr))
            m["other"] = other
        recs.append((rid, stm))
        meta[rid] = m
    ntrans = len(recs)
    # ---- spellings (makers / singular names / symbols / constants) for atom-op-atom programs
    sp = []
    rid = ntrans
    lib_atoms = [a for a in atoms if a.maker]
    for a, b in itertools.product(lib_atoms, repeat=2):
        for op in "*/":
            X = "decltype(%s{} %s %s{})" % (a.cpp, op, b.cpp)
            forms = ["decltype(%s %s %s)" % (a.maker, op, b.maker),
                     "decltype(au::make_constant(%s{}) %s au::make_constant(%s{}))" % (a.cpp, op, b.cpp),
                     "decltype(au::make_constant(%s{} %s %s{}))" % (a.cpp, op, b.cpp)]
            if b.singular:
                forms.append("decltype(%s %s %s)" % (a.maker, op, b.singular) if op == "/" else
                             "decltype(%s * %s)" % (b.singular, a.maker))
            if a.symbol and b.symbol:
                forms.append("decltype(%s %s %s)" % (a.symbol, op, b.symbol))
                forms.append("decltype(au::symbol_for(%s %s %s))" % (a.maker, op, b.maker))
            stm = []
            for j, f in enumerate(forms):
                stm.append('vf_b("f%d", std::is_same<au::AssociatedUnitT<%s>, %s>::value);' % (j, f, X))
            sp.append((rid, stm))
            meta[rid] = {"spelling": "%s %s %s" % (a.name, op, b.name), "forms": forms}
            rid += 1
    for a in lib_atoms:
        for k, alias in ((2, "squared"), (3, "cubed"), (-1, "inverse")):
            X = "decltype(au::pow<%d>(%s{}))" % (k, a.cpp)
            forms = ["decltype(au::pow<%d>(%s))" % (k, a.maker), "decltype(au::%s(%s))" % (alias, a.maker),
                     "decltype(au::%s(%s{}))" % (alias, a.cpp),
                     "decltype(pow<%d>(au::make_constant(%s{})))" % (k, a.cpp)]
            if a.symbol:
                forms.append("decltype(pow<%d>(%s))" % (k, a.symbol))
            if a.singular:
                forms.append("decltype(au::pow<%d>(%s))" % (k, a.singular))
            stm = ['vf_b("f%d", std::is_same<au::AssociatedUnitT<%s>, %s>::value);' % (j, f, X)
                   for j, f in enumerate(forms)]
            sp.append((rid, stm))
            meta[rid] = {"spelling": "pow<%d>(%s)" % (k, a.name), "forms": forms}
            rid += 1
        for k, alias in ((2, "sqrt"), (3, "cbrt")):
            X = "decltype(au::root<%d>(%s{}))" % (k, a.cpp)
            forms = ["decltype(au::root<%d>(%s))" % (k, a.maker), "decltype(au::%s(%s{}))" % (alias, a.cpp)]
            stm = ['vf_b("f%d", std::is_same<au::AssociatedUnitT<%s>, %s>::value);' % (j, f, X)
                   for j, f in enumerate(forms)]
            sp.append((rid, stm))
            meta[rid] = {"spelling": "root<%d>(%s)" % (k, a.name), "forms": forms}
            rid += 1
    # ---- grouping / order independence on all atom triples
    gr = []
    for a, b, c in itertools.product(range(n_at), repeat=3):
        A, B, C = atoms[a].cpp, atoms[b].cpp, atoms[c].cpp
        stm = ['vf_b("g1", std::is_same<decltype((%s{} * %s{}) * %s{}), decltype(%s{} * (%s{} * %s{}))>::value);'
               % (A, B, C, A, B, C),
               'vf_b("g2", std::is_same<decltype((%s{} * %s{}) * %s{}), decltype((%s{} * %s{}) * %s{})>::value);'
               % (A, B, C, C, A, B),
               'vf_b("g3", std::is_same<decltype((%s{} / %s{}) * %s{}), decltype(%s{} * %s{} / %s{})>::value);'
               % (A, B, C, C, A, B)]
        gr.append((rid, stm))
        meta[rid] = {"group": (atoms[a].name, atoms[b].name, atoms[c].name)}
        rid += 1
    # ---- library table: every library unit and prefix against the model (dim, mag)
    lib = []
    units_h, _ = core.lib_headers()
    missing = [h for h in units_h if h not in U]
    if missing:
        raise core.InfraError("library unit headers without a model entry: %s" % missing)
    for u in model.LIB:
        lib.append((rid, ['vf_kv("u", "{" + vf::unit_json<%s>() + "}");' % u.cpp]))
        meta[rid] = {"lib": u}
        rid += 1
    for p in model.ALL_PREFIXES:
        pu = model.prefixed(p, U["seconds"])
        lib.append((rid, ['vf_kv("u", "{" + vf::unit_json<%s>() + "}");' % pu.cpp,
                          'vf_b("applier", std::is_same<decltype(au::%s(au::Seconds{})), %s>::value);' % (p[1], pu.cpp),
                          'vf_b("applier_maker", std::is_same<au::AssociatedUnitT<decltype(au::%s(au::seconds))>, %s>::value);' % (p[1], pu.cpp)]))
        meta[rid] = {"lib": pu}
        rid += 1
    allrecs = recs + sp + gr + lib
    cfgs = core.CORNERS if tier == "quick" else core.CFG6
    total_cmp = 0
    for cfg in cfgs:
        res, failed = psx.run_dump(cfg, allrecs, os.path.join(run.wd, cfg.name), "c02", PREAMBLE,
                                   chunk=max(60, len(allrecs) // (core.NCPU * 2) + 1))
        for r, diag in failed.items():
            m = meta[r]
            desc = m.get("spelling") or (m["t"].path if "t" in m else str(m))
            run.violation("C02:does-not-compile:%s:%s" % (cfg.name, desc),
                          "valid unit expression rejected by %s: %s :: %s" % (cfg, desc, diag))
        for r, o in res.items():
            m = meta[r]
            total_cmp += 1
            if "t" in m or "lib" in m:
                got_d = model.dim_key(model.dim_from_readout(o["u"]["dim"]))
                got_m = model.mag_key(model.mag_from_readout(o["u"]["mag"]))
                if "lib" in m:
                    ed, em, desc = m["lib"].dim, m["lib"].mag, m["lib"].cpp
                else:
                    ed, em, desc = m["dim"], m["mag"], m["t"].path
                if got_d != model.dim_key(ed) or got_m != model.mag_key(em):
                    run.violation("C02:dim-mag:%s" % desc,
                                  "%s: %s has dim=%s mag=%s, exact algebra gives dim=%s mag=%s" % (
                                      cfg, desc, got_d, got_m, model.dim_key(ed), model.mag_key(em)),
                                  run.write_replay("C02:dim-mag:%s" % desc,
                                                   {"kind": "program", "expr": m["t"].expr if "t" in m else desc,
                                                    "config": str(cfg), "observed": o}))
                for k in ("applier", "applier_maker"):
                    if k in o and not o[k]:
                        run.violation("C02:prefix-applier:%s" % desc, "%s: prefix applier form differs for %s" % (cfg, desc))
            if "t" in m:
                desc = m["t"].path
                if "equiv" in o:
                    if not o["equiv"] or not o["ratio1"]:
                        run.violation("C02:equiv:%s" % desc, "%s: '%s' and '%s' have equal exact dim/mag but are not quantity-equivalent / ratio != 1" % (cfg, desc, m["rep"].path))
                    if m.get("expect_same") and not o["same"]:
                        run.violation("C02:type-identity:%s" % desc,
                                      "%s: algebraically equal expressions '%s' and '%s' have different types" % (cfg, desc, m["rep"].path),
                                      run.write_replay("C02:type-identity:%s" % desc, {"kind": "program", "a": m["t"].expr, "b": m["rep"].expr, "config": str(cfg)}))
                if "alias_equiv" in o and not (o["alias_equiv"] and o["alias_ratio1"]):
                    run.violation("C02:alias-equiv:%s" % desc, "%s: '%s' vs '%s' equal dim/mag but not equivalent" % (cfg, desc, m["alias"].path))
                if "other_equiv" in o and o["other_equiv"]:
                    run.violation("C02:false-equiv:%s" % desc, "%s: '%s' vs '%s' differ in magnitude but are reported quantity-equivalent" % (cfg, desc, m["other"].path))
            if "spelling" in m:
                for k, v in o.items():
                    if k.startswith("f") and v is False:
                        run.violation("C02:spelling:%s:%s" % (m["spelling"], m["forms"][int(k[1:])]),
                                      "%s: spelling %s of %s names a different unit type" % (cfg, m["forms"][int(k[1:])], m["spelling"]))
            if "group" in m:
                for k in ("g1", "g2", "g3"):
                    if not o[k]:
                        run.violation("C02:grouping:%s:%s" % (k, "/".join(m["group"])),
                                      "%s: product of %s depends on grouping/order (%s)" % (cfg, m["group"], k))
    run.cov.update({
        "states": len(order), "transitions": ntrans,
        "traces_validated_against_impl": ntrans * len(cfgs),
        "spelling_programs": len(sp), "grouping_triples": len(gr), "library_units_checked": len(lib),
        "comparisons": total_cmp, "configs": [str(c) for c in cfgs],
        "max_depth": maxdepth, "atoms": [a.name for a in atoms],
        "exhaustive": True,
        "exhaustive_note": "BFS frontier closed at depth %d over the stated atoms/menus; exponents bounded by |num|<=%d, den in %s" % (maxdepth, MAXNUM, DENS),
        "samples": [{"path": t.path, "expr": t.expr} for (_, _, t, _) in trans[:: max(1, ntrans // 6)]][:8],
    })
    run.assumptions += ["vf/model.py unit table (SI/NIST definitions) and exponent-vector algebra are the reference",
                        "documented ordering limitation: no two distinct named units of identical dim/mag/origin in one product"]


def replay(path):
    import json
    r = json.load(open(path))
    print(json.dumps(r, indent=1))
    print("re-run: bin/check C02 --tier %s (program-space replay artefacts are regenerated deterministically)" % r.get("tier", "quick"))
    return 0
