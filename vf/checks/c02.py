"""C02 — unit algebra is exact and canonical.  Explicit-state BFS over unit expressions.

State   = canonical model state: (monomial over atoms, accumulated scale magnitude, prefix wrapper)
Trans.  = one application of an algebra operation to a state's first-found C++ type
Oracle  = vf/model.py exact exponent vectors; every transition is replayed on the real headers.

C18 re-uses `atoms_for`, `State`, `successors`, `in_bounds` and `dim_mag` with its own menus: their behaviour for the
menu keys C18 passes (binary / pow / root / scale / prefix) is part of this module's interface.
"""
import itertools
import os
import re
from fractions import Fraction as Fr

from .. import core, model, psx
from ..model import LIB_BY_STEM as U

LEVEL = "model_checking"

PREAMBLE = r'''
using au::pow;
using au::root;
namespace gen {
// named, unlabelled, unscaled unit with a magnitude nothing else has
struct Zorks : au::UnitImpl<au::Length, decltype(au::mag<11>())> {};
constexpr auto zorks = au::QuantityMaker<Zorks>{};
}
'''

MAXNUM = 12
DENS = (1, 2, 3, 6)
DENS_C02 = (1, 2, 3, 4, 6)        # C02 also follows root<2> of root<2> (C18 keeps DENS)
PT_MAKERS = {"meters": "au::meters_pt", "celsius": "au::celsius_pt", "kelvins": "au::kelvins_pt", "fahrenheit": "au::fahrenheit_pt"}


def atoms_for(tier):
    kg = model.prefixed(model.SI_PREFIXES[9], U["grams"])
    kg.maker, kg.singular, kg.symbol = "au::kilo(au::grams)", "au::kilo(au::gram)", "au::kilo(au::symbols::g)"
    anon = model.scaled(U["inches"], 3)
    zork = model.Unit("zorks", "gen::Zorks", model.d(L=1), model.mag_int(11), 0, None, "gen::zorks",
                      None, None, None, named=True)
    a = [U["meters"], U["seconds"], U["feet"], U["radians"], kg, U["hertz"], anon, zork]
    if tier == "thorough":
        a += [U["inches"], U["miles"], U["degrees"], U["bits"], U["minutes"], U["celsius"]]
    return a


def atoms_c02(tier):
    """(atoms, n_bin): the first n_bin atoms take part in binary menus and grouping triples; the rest are prefixed
    *start states* (Kilo<Meters>, Milli<Seconds>, Kibi<Feet>) that are expanded one level (pow/root/binary/scale/prefix)."""
    a = atoms_for(tier)
    if tier == "quick":
        a.append(U["degrees"])      # a named unit with an irrational (pi/180) magnitude
    n_bin = len(a)
    P = {p[0]: p for p in model.ALL_PREFIXES}
    for p, stem in (("Kilo", "meters"), ("Milli", "seconds"), ("Kibi", "feet")):
        a.append(model.prefixed(P[p], U[stem]))
    return a, n_bin


class State:
    __slots__ = ("mono", "scale", "wrap", "expr", "depth", "sid", "leaf", "path", "expand")

    def __init__(self, mono, scale, wrap, expr, depth, path):
        self.mono, self.scale, self.wrap, self.expr, self.depth, self.path = mono, scale, wrap, expr, depth, path
        self.leaf = wrap is not None
        self.sid = None
        self.expand = True      # C02: False for states reached only through the extra (state x state, pow<N/D>) transitions

    def canonical_type(self):
        return not self.scale and self.wrap is None

    def key(self):
        return (tuple(sorted((k, v.numerator, v.denominator) for k, v in self.mono.items())),
                model.mag_key(self.scale), self.wrap)


def dim_mag(atoms, st):
    dim, mag = {}, dict(st.scale)
    for i, e in st.mono.items():
        dim = model.vmul(dim, model.vpow(atoms[i].dim, e))
        mag = model.vmul(mag, model.vpow(atoms[i].mag, e))
    if st.wrap is not None:
        mag = model.vmul(mag, model.prefix_mag(st.wrap[0]))
    return dim, mag


def in_bounds(mono, dens=DENS):
    if len(mono) > 4:
        return False
    return all(abs(e.numerator) <= MAXNUM and e.denominator in dens for e in mono.values())


SCALINGS = [("*mag2", "decltype(%s{} * au::mag<2>())", model.mag_int(2)),
            ("/mag3", "decltype(%s{} / au::mag<3>())", model.mag_ratio(1, 3)),
            ("*5/7", "decltype(%s{} * (au::mag<5>() / au::mag<7>()))", model.mag_ratio(5, 7)),
            ("*pi", "decltype(%s{} * au::Magnitude<au::Pi>{})", dict(model.MAG_PI)),
            # scaling by a magnitude that is exactly ONE must be the identity, also on an already scaled unit
            ("*one", "decltype(%s{} * au::mag<1>())", {}),
            ("*6/6", "decltype(%s{} * (au::mag<6>() / au::mag<6>()))", {}),
            ("*2*3/6", "decltype(%s{} * au::mag<2>() * au::mag<3>() / au::mag<6>())", {})]


def successors(atoms, st, menu):
    """Yield (label, mono, scale, wrap, expr) for every operation in the menu."""
    S = st.expr
    if "binary" in menu:
        for i in menu["binary"]:
            A = atoms[i].cpp
            am = {i: Fr(1)}
            yield ("*%s" % atoms[i].name, model.vmul(st.mono, am), st.scale, None,
                   "decltype(%s{} * %s{})" % (S, A))
            yield ("/%s" % atoms[i].name, model.vdiv(st.mono, am), st.scale, None,
                   "decltype(%s{} / %s{})" % (S, A))
            yield ("%s*" % atoms[i].name, model.vmul(am, st.mono), st.scale, None,
                   "decltype(%s{} * %s{})" % (A, S))
            yield ("%s/" % atoms[i].name, model.vdiv(am, st.mono), model.vinv(st.scale), None,
                   "decltype(%s{} / %s{})" % (A, S))
    # state x state: the right/left operand is itself a compound, powered or scaled unit
    for olab, omono, oscale, O in menu.get("binary_state", ()):
        yield ("*[%s]" % olab, model.vmul(st.mono, omono), model.vmul(st.scale, oscale), None, "decltype(%s{} * %s{})" % (S, O))
        yield ("/[%s]" % olab, model.vdiv(st.mono, omono), model.vdiv(st.scale, oscale), None, "decltype(%s{} / %s{})" % (S, O))
        yield ("[%s]*" % olab, model.vmul(omono, st.mono), model.vmul(oscale, st.scale), None, "decltype(%s{} * %s{})" % (O, S))
        yield ("[%s]/" % olab, model.vdiv(omono, st.mono), model.vdiv(oscale, st.scale), None, "decltype(%s{} / %s{})" % (O, S))
    for k in menu.get("pow", ()):
        yield ("pow<%d>" % k, model.vpow(st.mono, k), model.vpow(st.scale, k), None,
               "decltype(au::pow<%d>(%s{}))" % (k, S))
    for k in menu.get("root", ()):
        yield ("root<%d>" % k, model.vpow(st.mono, Fr(1, k)), model.vpow(st.scale, Fr(1, k)), None,
               "decltype(au::root<%d>(%s{}))" % (k, S))
    # one-step rational power with a numerator other than 1
    for n, dd in menu.get("ratpow", ()):
        yield ("pow<%d/%d>" % (n, dd), model.vpow(st.mono, Fr(n, dd)), model.vpow(st.scale, Fr(n, dd)), None,
               "au::UnitPowerT<%s, %d, %d>" % (S, n, dd))
    if menu.get("scale"):
        for lab, tmpl, m in SCALINGS:
            yield (lab, st.mono, model.vmul(st.scale, m), None, tmpl % S)
    for p in menu.get("prefix", ()):
        yield (p[0], st.mono, st.scale, (p, st.key()), "au::%s<%s>" % (p[0], S))


def is_extra(lab):
    """transition kinds whose target states are observed but not expanded further (keeps the graph near its round-2 size)"""
    return "[" in lab or (lab.startswith("pow<") and "/" in lab)


def operand_states(atoms):
    """operand alphabet for the state x state transitions (non-integer exponents of the bases m, s, ft; compound and scaled operands)"""
    ix = {a.name: i for i, a in enumerate(atoms)}
    m, s, ft = ix["meters"], ix["seconds"], ix["feet"]
    kg = [i for i, a in enumerate(atoms) if a.name.startswith("Kilo<grams")][0]
    M, S, FT, KG = (atoms[i].cpp for i in (m, s, ft, kg))
    h = Fr(1, 2)
    return [("rt2(m)", {m: h}, {}, "decltype(au::root<2>(%s{}))" % M),
            ("rt3(m)", {m: Fr(1, 3)}, {}, "decltype(au::root<3>(%s{}))" % M),
            ("m^-2", {m: Fr(-2)}, {}, "decltype(au::pow<-2>(%s{}))" % M),
            ("m^(2/3)", {m: Fr(2, 3)}, {}, "decltype(au::root<3>(au::pow<2>(%s{})))" % M),
            ("1/rt2(m)", {m: -h}, {}, "decltype(au::pow<-1>(au::root<2>(%s{})))" % M),
            ("m/s", {m: Fr(1), s: Fr(-1)}, {}, "decltype(%s{} / %s{})" % (M, S)),
            ("m*s", {m: Fr(1), s: Fr(1)}, {}, "decltype(%s{} * %s{})" % (M, S)),
            ("ft*2", {ft: Fr(1)}, model.mag_int(2), "decltype(%s{} * au::mag<2>())" % FT),
            ("rt2(s)", {s: h}, {}, "decltype(au::root<2>(%s{}))" % S),
            ("kg^2", {kg: Fr(2)}, {}, "decltype(au::pow<2>(%s{}))" % KG),
            ("rt2(ft)", {ft: h}, {}, "decltype(au::root<2>(%s{}))" % FT),
            ("1/s", {s: Fr(-1)}, {}, "decltype(au::pow<-1>(%s{}))" % S)], {m, s, ft}


MAGS = [("mag3", "au::mag<3>()", model.mag_int(3)), ("5/7", "(au::mag<5>() / au::mag<7>())", model.mag_ratio(5, 7)),
        ("pi", "au::Magnitude<au::Pi>{}", dict(model.MAG_PI))]


def spelling_records(atoms, n_bin):
    """[(description, [(form, unit-type spelling it must name)], slot)] — slot 'q' uses AssociatedUnitT, 'p' AssociatedUnitForPointsT"""
    out = []
    lib_atoms = [a for a in atoms[:n_bin] if a.maker]
    C = lambda a: "au::make_constant(%s{})" % a.cpp
    for a, b in itertools.product(lib_atoms, repeat=2):
        for op in "*/":
            X = "decltype(%s{} %s %s{})" % (a.cpp, op, b.cpp)
            Xr = "decltype(%s{} %s %s{})" % (b.cpp, op, a.cpp)
            e = 1 if op == "*" else -1
            # value arithmetic whose result has the trivial unit (no dimension, magnitude ONE) returns a raw number by design
            unitless = not model.vmul(a.dim, model.vpow(b.dim, e)) and not model.vmul(a.mag, model.vpow(b.mag, e))
            forms = [("decltype(%s %s %s)" % (a.maker, op, b.maker), X),
                     ("decltype(%s %s %s)" % (C(a), op, C(b)), X),
                     ("decltype(au::make_constant(%s{} %s %s{}))" % (a.cpp, op, b.cpp), X),
                     # cross-wrapper compositions (Pre- and PostcomposesWith): constant with maker / singular name, both orders
                     ("decltype(%s %s %s)" % (C(a), op, b.maker), X), ("decltype(%s %s %s)" % (a.maker, op, C(b)), X)]
            if not unitless:
                # quantities: the unit of the result of value arithmetic, and wrapper-scales-quantity
                forms += [("typename decltype(%s(1.0) %s %s(2.0))::Unit" % (a.maker, op, b.maker), X),
                          ("typename decltype(%s(2.0f) %s %s)::Unit" % (a.maker, op, C(b)), X),
                          ("typename decltype(%s %s %s(2.0f))::Unit" % (C(a), op, b.maker), X)]
            if b.singular:
                forms.append(("decltype(%s %s %s)" % (a.maker, op, b.singular), X) if op == "/" else ("decltype(%s * %s)" % (b.singular, a.maker), Xr))
                forms.append(("decltype(%s %s %s)" % (C(a), op, b.singular), X))
                forms.append(("decltype(%s %s %s)" % (b.singular, op, C(a)), Xr))
            if a.singular and b.singular and op == "*":
                forms.append(("decltype(%s * %s)" % (a.singular, b.singular), X))
            if a.symbol and b.symbol:
                forms.append(("decltype(%s %s %s)" % (a.symbol, op, b.symbol), X))
                forms.append(("decltype(au::symbol_for(%s %s %s))" % (a.maker, op, b.maker), X))
                if not unitless:
                    forms.append(("typename decltype(2.0 * %s %s %s)::Unit" % (a.symbol, op, b.symbol), X))
                    forms.append(("typename decltype(%s(2.0) %s %s)::Unit" % (a.maker, op, b.symbol), X))
            out.append(("%s %s %s" % (a.name, op, b.name), forms, "q"))
    for a in lib_atoms:
        for k, alias in ((2, "squared"), (3, "cubed"), (-1, "inverse")):
            X = "decltype(au::pow<%d>(%s{}))" % (k, a.cpp)
            forms = [("decltype(au::pow<%d>(%s))" % (k, a.maker), X), ("decltype(au::%s(%s))" % (alias, a.maker), X),
                     ("decltype(au::%s(%s{}))" % (alias, a.cpp), X), ("decltype(pow<%d>(%s))" % (k, C(a)), X),
                     ("decltype(au::%s(%s))" % (alias, C(a)), X)]
            if a.symbol:
                forms += [("decltype(pow<%d>(%s))" % (k, a.symbol), X), ("decltype(au::%s(%s))" % (alias, a.symbol), X)]
            if a.singular:
                forms += [("decltype(au::pow<%d>(%s))" % (k, a.singular), X), ("decltype(au::%s(%s))" % (alias, a.singular), X)]
            if k == -1:
                forms.append(("typename decltype(1.0 / %s(2.0))::Unit" % a.maker, X))
                if a.symbol:
                    forms.append(("typename decltype(1.0 / %s)::Unit" % a.symbol, X))
            else:
                forms.append(("typename decltype(au::int_pow<%d>(%s(2.0)))::Unit" % (k, a.maker), X))
            out.append(("pow<%d>(%s)" % (k, a.name), forms, "q"))
        for k, alias in ((2, "sqrt"), (3, "cbrt")):
            X = "decltype(au::root<%d>(%s{}))" % (k, a.cpp)
            forms = [("decltype(au::root<%d>(%s))" % (k, a.maker), X), ("decltype(au::%s(%s{}))" % (alias, a.cpp), X),
                     ("decltype(au::%s(%s))" % (alias, a.maker), X), ("decltype(root<%d>(%s))" % (k, C(a)), X),
                     ("decltype(au::%s(%s))" % (alias, C(a)), X), ("au::UnitPowerT<%s, 1, %d>" % (a.cpp, k), X),
                     ("typename decltype(au::%s(%s(2.0)))::Unit" % (alias, a.maker), X)]
            if a.symbol:
                forms += [("decltype(root<%d>(%s))" % (k, a.symbol), X), ("decltype(au::%s(%s))" % (alias, a.symbol), X)]
            out.append(("root<%d>(%s)" % (k, a.name), forms, "q"))
        # roots (and powers) of wrappers whose unit is already a power, a product, a quotient or a root: the exponent must be
        # multiplied into the existing factors and simplified exactly as for the unit-type spelling
        others = [b for b in lib_atoms if b is not a][:2]
        for k, alias in ((2, "sqrt"), (3, "cbrt")):
            ws = [("maker", a.maker, "au::%s" % alias, "au::root<%d>" % k), ("const", C(a), "au::%s" % alias, "root<%d>" % k)]
            if a.symbol:
                ws.append(("symbol", a.symbol, "au::%s" % alias, "root<%d>" % k))
            inner = [("pow<%d>" % k, "au::pow<%d>(%%s)" % k, "decltype(au::root<%d>(au::pow<%d>(%s{})))" % (k, k, a.cpp)),
                     ("pow<2>", "au::pow<2>(%s)", "decltype(au::root<%d>(au::pow<2>(%s{})))" % (k, a.cpp)),
                     ("root<2>", "au::root<2>(%s)", "decltype(au::root<%d>(au::root<2>(%s{})))" % (k, a.cpp)),
                     ("inverse", "au::pow<-1>(%s)", "decltype(au::root<%d>(au::pow<-1>(%s{})))" % (k, a.cpp))]
            forms = []
            for wn, w, al, rt in ws:
                for iname, ifmt, X in inner:
                    e = ifmt % w if wn == "maker" else ifmt.replace("au::pow", "pow").replace("au::root", "root") % w
                    forms += [("decltype(%s(%s))" % (rt, e), X), ("decltype(%s(%s))" % (al, e), X)]
            for b in others:
                for op in ("*", "/"):
                    X = "decltype(au::root<%d>(%s{} %s %s{}))" % (k, a.cpp, op, b.cpp)
                    forms += [("decltype(au::root<%d>(%s %s %s))" % (k, a.maker, op, b.maker), X),
                              ("decltype(root<%d>(%s %s %s))" % (k, C(a), op, C(b)), X),
                              ("decltype(au::%s(%s %s %s))" % (alias, C(a), op, C(b)), X)]
                    if a.symbol and b.symbol:
                        forms += [("decltype(root<%d>(%s %s %s))" % (k, a.symbol, op, b.symbol), X),
                                  ("decltype(au::%s(%s %s %s))" % (alias, a.symbol, op, b.symbol), X),
                                  ("typename decltype(3.0 * au::%s(%s %s %s))::Unit" % (alias, a.symbol, op, b.symbol), X)]
            out.append(("root<%d> of compound/powered wrappers of %s" % (k, a.name), forms, "q"))
        # scaling a wrapper by a magnitude (CanScaleByMagnitude, QuantityMaker / QuantityPointMaker operators)
        for mlab, M, _ in MAGS:
            Xm, Xd, Xi = ("decltype(%s{} * %s)" % (a.cpp, M), "decltype(%s{} / %s)" % (a.cpp, M), "decltype(au::pow<-1>(%s{}) * %s)" % (a.cpp, M))
            forms = [("decltype(%s * %s)" % (a.maker, M), Xm), ("decltype(%s / %s)" % (a.maker, M), Xd)]
            for w in ([a.symbol] if a.symbol else []) + [C(a)]:
                forms += [("decltype(%s * %s)" % (M, w), Xm), ("decltype(%s * %s)" % (w, M), Xm), ("decltype(%s / %s)" % (M, w), Xi), ("decltype(%s / %s)" % (w, M), Xd)]
            out.append(("%s scaled by %s" % (a.name, mlab), forms, "q"))
            if a.name in PT_MAKERS:
                out.append(("%s_pt scaled by %s" % (a.name, mlab), [("decltype(%s * %s)" % (PT_MAKERS[a.name], M), Xm), ("decltype(%s / %s)" % (PT_MAKERS[a.name], M), Xd)], "p"))
    return out


def check(run):
    tier = run.tier
    atoms, n_bin = atoms_c02(tier)
    pfx_atoms = set(range(n_bin, len(atoms)))
    operands, operand_bases = operand_states(atoms)
    full = {"binary": range(n_bin), "binary_state": operands, "pow": (-3, -2, -1, 0, 1, 2, 3), "root": (2, 3),
            "ratpow": ((2, 3), (3, 2), (-1, 2), (-2, 3), (3, 4)), "scale": True, "prefix": model.ALL_PREFIXES}
    nobs = dict(full, binary_state=())
    if tier == "quick":
        menus = {0: full, 1: dict(nobs, prefix=model.ALL_PREFIXES[8:16:3])}
        maxdepth = 2
    else:
        # depth 3 only from states over the four core atoms (meters, seconds, feet, kg) with a reduced menu:
        # the full depth-3 graph has 155 k states / 393 k transitions (measured) and is out of reach
        menus = {0: full, 1: nobs, 2: {"binary": (0, 1), "pow": (2,), "scale": True}}
        maxdepth = 3
    # ---- BFS over the model
    states, order, trans = {}, [], []
    for i, a in enumerate(atoms):
        s = State({i: Fr(1)}, {}, None, a.cpp, 0, a.name)
        s.sid = len(order)
        states[s.key()] = s
        order.append(s)
    frontier = list(order)
    for depth in range(maxdepth):
        nxt = []
        for st in frontier:
            if st.leaf or (depth == 2 and not set(st.mono) <= {0, 1, 2, 4}) or (depth >= 1 and set(st.mono) & pfx_atoms):
                continue
            menu = menus[depth]
            if depth == 1 and st.mono and set(st.mono) <= operand_bases:
                # state x state products where the same base meets itself with two (possibly non-integer) exponents
                menu = dict(menu, binary_state=operands)
            for lab, mono, scale, wrap, expr in successors(atoms, st, menu):
                if not in_bounds(mono, DENS_C02):
                    continue
                t = State(mono, scale, wrap, expr, depth + 1, "%s %s" % (st.path, lab))
                k = t.key()
                if k not in states:
                    t.sid = len(order)
                    t.expand = not is_extra(lab)
                    states[k] = t
                    order.append(t)
                    if t.expand:
                        nxt.append(t)
                elif not is_extra(lab) and not states[k].expand and states[k].depth == depth + 1:
                    states[k].expand = True
                    nxt.append(states[k])
                trans.append((st, lab, t, states[k]))
        frontier = nxt
    # ---- index by (dim,mag) and by dim for equivalence checks
    dm = {}
    for s in order:
        dm[s.sid] = dim_mag(atoms, s)
    by_dim, by_dm, by_mag = {}, {}, {}
    for s in order:
        dk, mk = model.dim_key(dm[s.sid][0]), model.mag_key(dm[s.sid][1])
        by_dim.setdefault(dk, []).append(s)
        by_dm.setdefault((dk, mk), []).append(s)
        by_mag.setdefault(mk, {}).setdefault(dk, s)
    # ---- emit one record per transition
    recs, meta = [], {}
    for rid, (src, lab, t, rep) in enumerate(trans):
        X = t.expr
        dim, mag = dim_mag(atoms, t)
        stm = ['vf_kv("u", "{" + vf::unit_json<%s>() + "}");' % X]
        m = {"src": src, "lab": lab, "t": t, "rep": rep, "dim": dim, "mag": mag}
        if rep is not t:
            R = rep.expr
            stm.append('vf_b("same", std::is_same<%s, %s>::value);' % (X, R))
            stm.append('vf_b("equiv", au::are_units_quantity_equivalent(%s{}, %s{}));' % (X, R))
            stm.append('vf_b("ratio1", au::unit_ratio(%s{}, %s{}) == au::ONE);' % (X, R))
            m["expect_same"] = (src.canonical_type() and t.canonical_type() and rep.canonical_type())
        # one alias (same dim+mag, different state) and two non-equivalent same-dim states
        bucket = by_dim[model.dim_key(dim)]
        tk = states[t.key()].sid
        h = rid % len(bucket)
        alias = None
        others = []
        for j in range(len(bucket)):
            c = bucket[(h + j) % len(bucket)]
            if c.sid == tk:
                continue
            same = model.mag_key(dm[c.sid][1]) == model.mag_key(mag)
            if same and alias is None:
                alias = c
            if not same and len(others) < 2 and (not others or j >= len(bucket) // 2):
                others.append(c)
            if alias is not None and len(others) == 2:
                break
        if alias is not None:
            stm.append('vf_b("alias_equiv", au::are_units_quantity_equivalent(%s{}, %s{}));' % (X, alias.expr))
            stm.append('vf_b("alias_ratio1", au::unit_ratio(%s{}, %s{}) == au::ONE);' % (X, alias.expr))
            m["alias"] = alias
        for n, other in enumerate(others):
            stm.append('vf_b("other%d_equiv", au::are_units_quantity_equivalent(%s{}, %s{}));' % (n, X, other.expr))
        m["others"] = others
        recs.append((rid, stm))
        meta[rid] = m
    ntrans = len(recs)
    rid = ntrans
    # ---- "if and only if" on whole (dim, mag) groups: all pairs (groups of up to 8 states, ring + skip-2 beyond) must be
    #      equivalent with ratio ONE and freely interconvertible (implicit conversion both ways, value unchanged, data_in)
    eqv, n_pairs = [], 0
    for gk in sorted(by_dm):
        g = by_dm[gk]
        if len(g) < 2:
            continue
        if len(g) <= 8:
            pairs = list(itertools.combinations(g, 2))
        else:
            pairs = [(g[i], g[(i + k) % len(g)]) for i in range(len(g)) for k in (1, 2)]
        for c0 in range(0, len(pairs), 6):
            part = pairs[c0:c0 + 6]
            stm = []
            for n, (x, y) in enumerate(part):
                QX, QY = "au::Quantity<%s, int32_t>" % x.expr, "au::Quantity<%s, int32_t>" % y.expr
                stm.append('vf_b("e%d", au::are_units_quantity_equivalent(%s{}, %s{}) && au::unit_ratio(%s{}, %s{}) == au::ONE && au::unit_ratio(%s{}, %s{}) == au::ONE);'
                           % (n, x.expr, y.expr, x.expr, y.expr, y.expr, x.expr))
                stm.append('vf_b("c%d", std::is_convertible<%s, %s>::value && std::is_convertible<%s, %s>::value);' % (n, QX, QY, QY, QX))
                stm.append('{ %s q = au::make_quantity<%s>(int32_t{12345}); %s r = q; vf_b("v%d", r.in(%s{}) == 12345 && q.data_in(%s{}) == 12345 && q.in(%s{}) == 12345); }'
                           % (QX, x.expr, QY, n, y.expr, y.expr, y.expr))
            n_pairs += len(part)
            eqv.append((rid, stm))
            meta[rid] = {"eqv": part}
            rid += 1
    # ---- ... and only if: a state of a DIFFERENT dimension with the same magnitude is never equivalent (kept in records of
    #      their own: a library that refuses to answer for different dimensions is counted, not judged)
    xdim = []
    for (dk, mk), g in sorted(by_dm.items()):
        partners = [s for d2, s in sorted(by_mag[mk].items()) if d2 != dk][:2]
        if partners and g[0].depth <= 1:
            stm = ['vf_b("x%d", au::are_units_quantity_equivalent(%s{}, %s{}));' % (n, g[0].expr, p.expr) for n, p in enumerate(partners)]
            xdim.append((rid, stm))
            meta[rid] = {"xdim": (g[0], partners)}
            rid += 1
    # ---- spellings (makers / singular names / symbols / constants / quantity arithmetic)
    sp = []
    for desc, forms, slot in spelling_records(atoms, n_bin):
        assoc = "au::AssociatedUnitT" if slot == "q" else "au::AssociatedUnitForPointsT"
        stm = ['vf_b("f%d", std::is_same<%s<%s>, %s>::value);' % (j, assoc, f, X) for j, (f, X) in enumerate(forms)]
        sp.append((rid, stm))
        meta[rid] = {"spelling": desc, "forms": forms}
        rid += 1
    # ---- grouping / order independence on all atom triples
    gr = []
    for a, b, c in itertools.product(range(n_bin), repeat=3):
        A, B, C = atoms[a].cpp, atoms[b].cpp, atoms[c].cpp
        stm = ['vf_b("g1", std::is_same<decltype((%s{} * %s{}) * %s{}), decltype(%s{} * (%s{} * %s{}))>::value);'
               % (A, B, C, A, B, C),
               'vf_b("g2", std::is_same<decltype((%s{} * %s{}) * %s{}), decltype((%s{} * %s{}) * %s{})>::value);'
               % (A, B, C, C, A, B),
               'vf_b("g3", std::is_same<decltype((%s{} / %s{}) * %s{}), decltype(%s{} * %s{} / %s{})>::value);'
               % (A, B, C, C, A, B)]
        gr.append((rid, stm))
        meta[rid] = {"group": (atoms[a].name, atoms[b].name, atoms[c].name)}
        rid += 1
    # ---- library table: every library unit and prefix against the model (dim, mag), and every library spelling of the
    #      unit (quantity maker, singular name, symbol, point maker) against the unit type
    lib = []
    units_h, _ = core.lib_headers()
    missing = [h for h in units_h if h not in U]
    if missing:
        raise core.InfraError("library unit headers without a model entry: %s" % missing)
    for u in model.LIB:
        stm = ['vf_kv("u", "{" + vf::unit_json<%s>() + "}");' % u.cpp,
               'vf_b("maker", std::is_same<au::AssociatedUnitT<std::remove_cv_t<decltype(%s)>>, %s>::value);' % (u.maker, u.cpp),
               'vf_b("maker_makes", std::is_same<decltype(%s(1)), au::Quantity<%s, int>>::value);' % (u.maker, u.cpp)]
        if u.singular:
            stm.append('vf_b("singular", std::is_same<au::AssociatedUnitT<std::remove_cv_t<decltype(%s)>>, %s>::value);' % (u.singular, u.cpp))
        if u.symbol:
            stm.append('vf_b("symbol", std::is_same<au::AssociatedUnitT<std::remove_cv_t<decltype(%s)>>, %s>::value);' % (u.symbol, u.cpp))
            stm.append('vf_b("symbol_makes", std::is_same<decltype(1.5 * %s), au::Quantity<%s, double>>::value);' % (u.symbol, u.cpp))
        if u.name in PT_MAKERS:
            stm.append('vf_b("pt_maker", std::is_same<au::AssociatedUnitForPointsT<std::remove_cv_t<decltype(%s)>>, %s>::value);' % (PT_MAKERS[u.name], u.cpp))
            stm.append('vf_b("pt_maker_makes", std::is_same<decltype(%s(1)), au::QuantityPoint<%s, int>>::value);' % (PT_MAKERS[u.name], u.cpp))
        lib.append((rid, stm))
        meta[rid] = {"lib": u}
        rid += 1
    for p in model.ALL_PREFIXES:
        pu = model.prefixed(p, U["seconds"])
        lib.append((rid, ['vf_kv("u", "{" + vf::unit_json<%s>() + "}");' % pu.cpp,
                          'vf_b("applier", std::is_same<decltype(au::%s(au::Seconds{})), %s>::value);' % (p[1], pu.cpp),
                          'vf_b("applier_maker", std::is_same<au::AssociatedUnitT<decltype(au::%s(au::seconds))>, %s>::value);' % (p[1], pu.cpp),
                          'vf_b("applier_singular", std::is_same<au::AssociatedUnitT<decltype(au::%s(au::second))>, %s>::value);' % (p[1], pu.cpp),
                          'vf_b("applier_symbol", std::is_same<au::AssociatedUnitT<decltype(au::%s(au::symbols::s))>, %s>::value);' % (p[1], pu.cpp),
                          'vf_b("applier_pt", std::is_same<au::AssociatedUnitForPointsT<decltype(au::%s(au::kelvins_pt))>, au::%s<au::Kelvins>>::value);' % (p[1], p[0])]))
        meta[rid] = {"lib": pu}
        rid += 1
    # developer aid (used to demonstrate detection of a library slip quickly): VERIF_C02_FOCUS=<regex> keeps only the records whose
    # descriptor "trans:<path>" / "eqv" / "xdim" / "spelling:<desc>" / "group" / "lib:<unit>" matches; kept records are identical to the full tier's
    focus = os.environ.get("VERIF_C02_FOCUS")
    if focus:
        rx = re.compile(focus)

        def desc_of(m):
            return ("trans:" + m["t"].path if "t" in m else "eqv" if "eqv" in m else "xdim" if "xdim" in m else
                    "spelling:" + m["spelling"] if "spelling" in m else "group" if "group" in m else "lib:" + m["lib"].cpp)
        recs, eqv, xdim, sp, gr, lib = ([r for r in lst if rx.search(desc_of(meta[r[0]]))] for lst in (recs, eqv, xdim, sp, gr, lib))
        ntrans = len(recs)
    cheap = eqv + xdim + sp + gr + lib
    allrecs = recs + cheap
    # quick: the two corner configurations run everything; g++/c++17 runs the records that are not transitions
    cfgs = [(c, allrecs) for c in core.CORNERS] + [(core.CFG6[1], cheap)] if tier == "quick" else [(c, allrecs) for c in core.CFG6]
    total_cmp = 0
    not_judged = {"cross_dimension_equivalence_question_does_not_compile": 0}

    def viol(cfg, key, what, r, o=None):
        run.violation(key, "%s: %s" % (cfg, what),
                      run.write_replay(key, {"kind": "program", "config": str(cfg), "stmts": byid[r], "observed": o}))

    byid = dict(allrecs)
    for cfg, rl in cfgs:
        if run.time_left() < 300:
            run.cov.setdefault("configs_skipped_by_deadline", []).append(str(cfg))
            continue
        res, failed = psx.run_dump(cfg, rl, os.path.join(run.wd, cfg.name), "c02", PREAMBLE,
                                   chunk=max(60, len(rl) // (core.NCPU * 2) + 1)) if rl else ({}, {})
        for r, diag in failed.items():
            m = meta[r]
            if "xdim" in m:
                not_judged["cross_dimension_equivalence_question_does_not_compile"] += 1
                continue
            desc = m.get("spelling") or (m["t"].path if "t" in m else m["lib"].cpp if "lib" in m else
                                         "group " + "/".join(m["group"]) if "group" in m else
                                         "equivalence of " + " | ".join("%s ~ %s" % (x.path, y.path) for x, y in m["eqv"]))
            viol(cfg, "C02:does-not-compile:%s:%s" % (cfg.name, desc), "valid unit expression rejected: %s :: %s" % (desc, diag), r)
        for r, o in res.items():
            m = meta[r]
            total_cmp += 1
            if "t" in m or "lib" in m:
                got_d = model.dim_key(model.dim_from_readout(o["u"]["dim"]))
                got_m = model.mag_key(model.mag_from_readout(o["u"]["mag"]))
                if "lib" in m:
                    ed, em, desc = m["lib"].dim, m["lib"].mag, m["lib"].cpp
                else:
                    ed, em, desc = m["dim"], m["mag"], m["t"].path
                if got_d != model.dim_key(ed) or got_m != model.mag_key(em):
                    viol(cfg, "C02:dim-mag:%s" % desc, "%s has dim=%s mag=%s, exact algebra gives dim=%s mag=%s" % (
                        desc, got_d, got_m, model.dim_key(ed), model.mag_key(em)), r, o)
                for k, v in o.items():
                    if k.startswith("applier") and not v:
                        viol(cfg, "C02:prefix-applier:%s:%s" % (k, desc), "prefix applier form %s names a different unit than %s" % (k, desc), r, o)
                    if k in ("maker", "maker_makes", "singular", "symbol", "symbol_makes", "pt_maker", "pt_maker_makes") and not v:
                        viol(cfg, "C02:lib-spelling:%s:%s" % (k, desc), "the library's %s spelling of %s (%s) does not name / make that unit" % (
                            k, desc, getattr(m["lib"], k.split("_")[0], None) or PT_MAKERS.get(m["lib"].name)), r, o)
            if "t" in m:
                desc = m["t"].path
                if "equiv" in o:
                    if not o["equiv"] or not o["ratio1"]:
                        viol(cfg, "C02:equiv:%s" % desc, "'%s' and '%s' have equal exact dim/mag but are not quantity-equivalent / ratio != 1" % (desc, m["rep"].path), r, o)
                    if m.get("expect_same") and not o["same"]:
                        viol(cfg, "C02:type-identity:%s" % desc, "algebraically equal expressions '%s' and '%s' have different types" % (desc, m["rep"].path), r, o)
                if "alias_equiv" in o and not (o["alias_equiv"] and o["alias_ratio1"]):
                    viol(cfg, "C02:alias-equiv:%s" % desc, "'%s' vs '%s' equal dim/mag but not equivalent" % (desc, m["alias"].path), r, o)
                for n, other in enumerate(m["others"]):
                    if o.get("other%d_equiv" % n):
                        viol(cfg, "C02:false-equiv:%s:%s" % (desc, other.path), "'%s' vs '%s' differ in magnitude but are reported quantity-equivalent" % (desc, other.path), r, o)
            if "eqv" in m:
                for n, (x, y) in enumerate(m["eqv"]):
                    for k, why in (("e", "are not quantity-equivalent with unit_ratio ONE"), ("c", "are not implicitly interconvertible (int32_t) in both directions"),
                                   ("v", "do not convert with factor exactly 1 (12345 -> r.in / q.in / q.data_in)")):
                        if not o["%s%d" % (k, n)]:
                            viol(cfg, "C02:group-%s:%s:%s" % ({"e": "equiv", "c": "convertible", "v": "value"}[k], x.path, y.path),
                                 "'%s' and '%s' have equal exact dim/mag but %s" % (x.path, y.path, why), r, o)
            if "xdim" in m:
                x, ps = m["xdim"]
                for n, p in enumerate(ps):
                    if o["x%d" % n]:
                        viol(cfg, "C02:false-equiv-dim:%s:%s" % (x.path, p.path), "'%s' and '%s' have different dimensions (same magnitude) but are reported quantity-equivalent" % (x.path, p.path), r, o)
            if "spelling" in m:
                for k, v in o.items():
                    if k.startswith("f") and v is False:
                        f, X = m["forms"][int(k[1:])]
                        viol(cfg, "C02:spelling:%s:%s" % (m["spelling"], f), "spelling %s of %s names a different unit type than %s" % (f, m["spelling"], X), r, o)
            if "group" in m:
                for k in ("g1", "g2", "g3"):
                    if not o[k]:
                        viol(cfg, "C02:grouping:%s:%s" % (k, "/".join(m["group"])), "product of %s depends on grouping/order (%s)" % (m["group"], k), r, o)
    skipped = run.cov.get("configs_skipped_by_deadline", [])
    ntraces = sum(ntrans for c, rl in cfgs if rl is allrecs and str(c) not in skipped)
    run.cov.update({
        "states": len(order), "transitions": ntrans,
        "traces_validated_against_impl": ntraces,
        "spelling_programs": len(sp), "spelling_forms": sum(len(meta[r]["forms"]) for r, _ in sp), "grouping_triples": len(gr), "library_units_checked": len(lib),
        "equivalence_groups": sum(1 for g in by_dm.values() if len(g) > 1), "equivalence_pairs": n_pairs, "cross_dimension_nonequivalence_records": len(xdim),
        "state_x_state_operands": [o[0] for o in operands],
        "comparisons": total_cmp, "configs": ["%s%s" % (c, "" if rl is allrecs else " (equivalence groups, spellings, grouping, library table only)") for c, rl in cfgs],
        "max_depth": maxdepth, "atoms": [a.name for a in atoms[:n_bin]], "prefixed_start_states": [a.name for a in atoms[n_bin:]],
        "exhaustive": "configs_skipped_by_deadline" not in run.cov and not focus, "focus": focus,
        "exhaustive_note": "BFS frontier closed at depth %d over the stated atoms/menus (state x state operands at depth 0 and, at depth 1, from states over the bases m, s, ft; "
                           "prefixed start states expanded one level); exponents bounded by |num|<=%d, den in %s; equivalence: all pairs inside every (dim, mag) group of up to 8 "
                           "states, ring + skip-2 pairs in larger groups" % (maxdepth, MAXNUM, DENS_C02),
        "not_judged": not_judged,
        "samples": [{"path": t.path, "expr": t.expr} for (_, _, t, _) in trans[:: max(1, ntrans // 6)]][:8],
    })
    run.assumptions += ["vf/model.py unit table (SI/NIST definitions, and the maker / singular / symbol names of every library unit) and exponent-vector algebra are the reference",
                        "documented ordering limitation: no two distinct named units of identical dim/mag/origin in one product",
                        "value arithmetic whose result unit is trivial (no dimension, magnitude ONE; e.g. meters(1.0) / meters(2.0), hertz(1.0) * seconds(2.0)) returns a raw number by design: "
                        "those quantity spellings are left out (the unit-type / maker / symbol / constant spellings of the same product are kept)",
                        "the dim/mag read-out is compared as a sorted exponent vector; pack order (canonical form) is observed only through std::is_same between spellings"]


def replay(path):
    import json
    r = json.load(open(path))
    if not r.get("stmts"):
        print(json.dumps(r, indent=1))
        print("no program recorded; re-run: bin/check C02 --tier %s" % r.get("tier", "quick"))
        return 0
    cfg = [c for c in core.CFG6 if str(c) == r.get("config")]
    cfg = cfg[0] if cfg else core.GXX14
    wd = os.path.join(core.BUILD, "C02", "replay")
    res, failed = psx.run_dump(cfg, [(0, r["stmts"])], wd, "rp", PREAMBLE)
    print("recorded:", r.get("observed"))
    print("observed now:", res.get(0), failed)
    was_compile_failure = r.get("observed") is None
    if (failed and was_compile_failure) or (not failed and not was_compile_failure and res.get(0) == dict(r["observed"], id=0)):
        print("VIOLATION property=C02 replay=%s" % path)
        return 1
    return 0
