"""C20 — behaviour is independent of packaging, language standard and compiler (differential)."""
import hashlib
import itertools
import os
import re

from .. import core, model
from ..core import R11

LEVEL = "exploration"


def msf(args, out):
    """Run tools/bin/make-single-file (cwd = repo root, it only reads and prints)."""
    rc, o, e = core.sh(["python3", os.path.join(core.REPO, "tools", "bin", "make-single-file")] + args + ["--version-id", "verif"],
                       cwd=core.REPO, timeout=120)
    if rc != 0:
        return False, e[-800:]
    os.makedirs(os.path.dirname(out), exist_ok=True)
    with open(out, "w") as f:
        f.write(o)
    return True, ""


def cc(cfg, args, timeout=600):
    rc, o, e = core.sh([cfg.cxx, "-std=" + cfg.std, "-w"] + args, timeout=timeout)
    return rc, (e or o)


UNIT_SNIPPET = '  { auto q = au::%s(3); std::printf("%s %%s %%d\\n", au::unit_label(q.unit), static_cast<int>(q.in(q.unit))); }'


def surface_program(header, units, consts, io):
    """A program that only uses what the selection contains; prints plain text."""
    L = ['#include <cstdio>', '#include <cstdint>', '#include "%s"' % header if header else "", 'int main() {',
         '  std::printf("%s\\n", au::unit_label(au::UnitProductT<>{}));',
         '  std::printf("%d\\n", (int)au::get_value<int>(au::mag<12>() * au::mag<5>()));',
         '  { au::Quantity<au::UnitProductT<>, int> q = au::ZERO; std::printf("%d\\n", q.in(au::UnitProductT<>{})); }',
         '  std::printf("%d %d\\n", (int)au::detail::is_prime(2147483647u), (int)au::detail::find_prime_factor(1000001u));',
         '  { std::chrono::milliseconds d{1500}; std::printf("%lld\\n", (long long)au::as_quantity(d).in(au::Milli<au::Seconds>{})); }']
    for u in units:
        mu = model.LIB_BY_STEM[u]
        L.append(UNIT_SNIPPET % (mu.maker.replace("au::", ""), u))
        L.append('  std::printf("%%s %%d\\n", au::unit_label(au::kilo(au::%s)), (int)sizeof(au::QuantityD<%s>));' % (mu.maker.replace("au::", ""), mu.cpp))
    for c in consts:
        L.append('  std::printf("%s %%s\\n", au::unit_label(au::%s));' % (c, c.upper()))
    if io:
        L.insert(2, '#include <sstream>')
        L.append('  { std::ostringstream o; o << au::make_quantity<au::UnitProductT<>>(int8_t{65}) << "|" << au::ZERO << "|" << (au::mag<3>() / au::mag<7>()); std::printf("%s\\n", o.str().c_str()); }')
        for u in units[:2]:
            mu = model.LIB_BY_STEM[u]
            L.append('  { std::ostringstream o; o << au::%s(2.5) << "|" << au::make_quantity_point<%s>(7); std::printf("%%s\\n", o.str().c_str()); }' % (mu.maker.replace("au::", ""), mu.cpp))
    L.append('  return 0; }')
    return "\n".join(L) + "\n"


def multi_includes(units, consts, io):
    inc = ['#include "au/au.hh"'] + ['#include "au/units/%s.hh"' % u for u in units] + ['#include "au/constants/%s.hh"' % c for c in consts]
    if io:
        inc.append('#include "au/io.hh"')
    return "\n".join(inc) + "\n"


def check_selection(run, cfg, sel_id, units, consts, io, deep):
    """Returns list of (kind, detail) problems for one header selection."""
    wd = os.path.join(run.wd, "sf", sel_id)
    hdr = os.path.join(wd, "inc", "au.hh")
    args = (["--units"] + units if units else []) + (["--constants"] + consts if consts else []) + ([] if io else ["--noio"])
    ok, err = msf(args, hdr)
    if not ok:
        return [("generator-failed", err)]
    probs = []
    inc = os.path.join(wd, "inc")
    # 1. self-contained + double inclusion (no other Au file on the include path)
    t1 = os.path.join(wd, "twice.cc")
    open(t1, "w").write('#include "au.hh"\n#include "au.hh"\nint main() { return 0; }\n')
    rc, e = cc(cfg, ["-fsyntax-only", "-I" + inc, t1])
    if rc != 0:
        return [("not-self-contained", core._first_error(e))]
    if not deep:
        return probs
    # 2. behaviour equal to the multi-header tree, and linkable from two TUs
    prog = surface_program("au.hh", units, consts, io)
    a = os.path.join(wd, "a.cc")
    b = os.path.join(wd, "b.cc")
    open(a, "w").write(prog)
    open(b, "w").write('#include "au.hh"\nint other_tu() { return (int)au::get_value<int>(au::mag<6>()) + (int)sizeof(au::unit_label(au::UnitProductT<>{})); }\n')
    exe1 = os.path.join(wd, "single")
    rc, e = cc(cfg, ["-I" + inc, a, b, "-o", exe1])
    if rc != 0:
        return [("single-file-program-rejected", core._first_error(e))]
    m = os.path.join(wd, "m.cc")
    open(m, "w").write(multi_includes(units, consts, io) + surface_program("", units, consts, io))
    exe2 = os.path.join(wd, "multi")
    rc, e = cc(cfg, ["-I" + core.AU_INC, m, "-o", exe2])
    if rc != 0:
        return [("multi-header-program-rejected", core._first_error(e))]
    o1 = core.sh([exe1], timeout=60)
    o2 = core.sh([exe2], timeout=60)
    if o1[0] != 0 or o2[0] != 0 or o1[1] != o2[1]:
        probs.append(("output-differs", "single: %r multi: %r" % (o1[1][:300], o2[1][:300])))
    for f in (exe1, exe2):
        try:
            os.remove(f)
        except OSError:
            pass
    return probs


SURFACE_STMTS = [
    ("add", "P(a + b);"), ("sub", "P(a - b);"), ("neg", "P(-a);"), ("pos", "P(+a);"), ("mul-s", "P(a * R(2));"), ("s-mul", "P(R(2) * a);"),
    ("div-s", "P(a / R(2));"), ("mul-q", "P(a * t);"), ("div-q-same", "PR(a / b);"), ("mod", "P(a % b);"), ("mod-mixed", "P(a % f);"),
    ("eq", "PB(a == b);"), ("lt", "PB(a < b);"), ("ge", "PB(a >= b);"), ("lt-mixed", "PB(a < f);"), ("add-mixed", "P(a + f);"),
    ("as-cm", "P(a.as(au::centi(au::meters)));"), ("as-km", "P(a.as(au::kilo(au::meters)));"), ("coerce-km", "P(a.coerce_as(au::kilo(au::meters)));"),
    ("as-ft", "P(a.as(au::feet));"), ("as-double-ft", "P(a.template as<double>(au::feet));"), ("rep_cast", "P(au::rep_cast<int>(a));"),
    ("implicit-cm", "au::Quantity<au::Centi<au::Meters>, R> x = a; P(x);"), ("implicit-f64", "au::QuantityD<au::Meters> x = a; P(x);"),
    ("zero-cmp", "PB(a > au::ZERO);"), ("round_as", "P(au::round_as(au::feet, a));"), ("round_in-int", "PR(au::round_in<int>(au::feet, a));"),
    ("int_pow", "P(au::int_pow<2>(a));"), ("sqrt", "P(au::sqrt(a * b));"), ("min", "P(min(a, b));"), ("max-mixed", "P(max(a, f));"),
    ("lossy", "PB(au::is_conversion_lossy(a, au::kilo(au::meters)));"), ("trunc", "PB(au::will_conversion_truncate(a, au::feet));"),
    ("ovf", "PB(au::will_conversion_overflow(a, au::nano(au::meters)));"), ("inverse", "P(au::inverse_as(au::micro(au::seconds), au::hertz(R(4))));"),
    ("pt-sub", "P(au::celsius_pt(R(20)) - au::celsius_pt(R(5)));"), ("pt-cmp", "PB(au::celsius_pt(R(20)) < au::kelvins_pt(R(300)));"),
    ("pt-as", "P(au::celsius_pt(R(20)).coerce_as(au::kelvins_pt) - au::kelvins_pt(R(0)));"), ("hypot", "P(au::hypot(a, b));"),
    ("stream", "{ std::ostringstream o; o << a; std::printf(\"%s\\n\", o.str().c_str()); }"),
    ("chrono", "{ std::chrono::duration<R> d = au::seconds(R(5)); PR(d.count()); }"), ("const", "P(au::SPEED_OF_LIGHT.template as<R>(au::meters / au::second));"),
    ("spaceship", "PB((a <=> b) > 0);"),
    # mixed std::chrono / Quantity operators, foreign type on either side (C++20 rewrites == / != candidates, earlier standards do not)
    ("chrono-ne-left", "PB(std::chrono::milliseconds(1500) != au::seconds(R(1)));"), ("chrono-ne-right", "PB(au::seconds(R(1)) != std::chrono::milliseconds(1500));"),
    ("chrono-eq-left", "PB(std::chrono::milliseconds(1000) == au::seconds(R(1)));"), ("chrono-eq-right", "PB(au::seconds(R(1)) == std::chrono::milliseconds(1000));"),
    ("chrono-lt-left", "PB(std::chrono::milliseconds(1500) < au::seconds(R(1)));"), ("chrono-lt-right", "PB(au::seconds(R(1)) < std::chrono::milliseconds(1500));"),
    ("chrono-le-left", "PB(std::chrono::milliseconds(1000) <= au::seconds(R(1)));"), ("chrono-ge-right", "PB(au::seconds(R(1)) >= std::chrono::milliseconds(1000));"),
    ("chrono-gt-left", "PB(std::chrono::duration<double>(1.5) > au::seconds(R(1)));"), ("chrono-add-left", "P(std::chrono::milliseconds(1500) + au::seconds(R(1)));"),
    ("chrono-sub-right", "P(au::seconds(R(1)) - std::chrono::milliseconds(1500));"),
    # every label shape, odr-used and linked (C++14 needs the out-of-class definitions of the constexpr label members)
    ("label-inv-product", "PL(au::pow<-1>(au::Meters{} * au::Seconds{}));"), ("label-quotient", "PL(au::Meters{} / au::Seconds{});"),
    ("label-product", "PL(au::Meters{} * au::Seconds{});"), ("label-pow", "PL(au::pow<3>(au::Meters{}));"), ("label-negpow", "PL(au::pow<-2>(au::Seconds{}));"),
    ("label-root", "PL(au::root<2>(au::Meters{}));"), ("label-compound-quotient", "PL((au::Meters{} * au::Grams{}) / (au::Seconds{} * au::Kelvins{}));"),
    ("label-scaled", "PL(au::Meters{} * au::mag<3>());"), ("label-rational-scaled", "PL(au::Feet{} * au::mag<5>() / au::mag<7>());"),
    ("label-irrational-scaled", "PL(au::Meters{} * au::Magnitude<au::Pi>{});"), ("label-prefixed", "PL(au::Kilo<au::Meters>{});"),
    ("label-prefixed-compound", "PL(au::Milli<decltype(au::Meters{} / au::Seconds{})>{});"), ("label-common", "PL(au::CommonUnitT<au::Feet, au::Meters>{});"),
    ("label-common-point", "PL(au::CommonPointUnitT<au::Celsius, au::Fahrenheit>{});"), ("label-unitless", "PL(au::UnitProductT<>{});"),
    ("label-unlabeled", "PL(c20::Nameless{});"), ("label-maglabel", "std::printf(\"%s %s %d\\n\", TAG, au::mag_label(au::mag<22>() / au::mag<7>()), (int)sizeof(au::mag_label(au::mag<22>() / au::mag<7>())));"),
    ("label-stream-inverse", "{ std::ostringstream o; o << (R(6) / (a * t)); std::printf(\"%s %s\\n\", TAG, o.str().c_str()); }"),
]

SURFACE_PRE = r'''
using au::min; using au::max;
namespace c20 {
struct Nameless : au::UnitImpl<au::Length, decltype(au::mag<13>())> {};
template <typename T> void pr(const char *tag, T v, std::true_type) { std::printf("%s int %lld sz=%d sg=%d\n", tag, (long long)v, (int)sizeof(T), (int)std::is_signed<T>::value); }
template <typename T> void pr(const char *tag, T v, std::false_type) { std::printf("%s flt %La sz=%d\n", tag, (long double)v, (int)sizeof(T)); }
template <typename T> void praw(const char *tag, T v) { pr(tag, v, std::is_integral<T>{}); }
template <typename U, typename R> void pq(const char *tag, au::Quantity<U, R> q) {
    std::string t = std::string(tag) + " [" + au::unit_label(U{}) + "]";
    praw(t.c_str(), q.in(U{}));
}
}
#define PL(u) std::printf("%s label '%s' %d\n", TAG, au::unit_label(u), (int)sizeof(au::unit_label(u)))
#define P(x) c20::pq(TAG, (x))
#define PR(x) c20::praw(TAG, (x))
#define PB(x) std::printf("%s bool %d\n", TAG, (int)(x))
'''


def stmt_body(rep, name, stmt):
    return ('using R = %s; const char *TAG = "%s/%s"; auto a = au::meters(R(7)); auto b = au::meters(R(3)); auto f = au::feet(R(2)); auto t = au::seconds(R(2)); '
            '(void)a; (void)b; (void)f; (void)t; (void)TAG; %s' % (rep, name, rep, stmt))


def check(run):
    tier = run.tier
    units_h, consts_h = core.lib_headers()
    missing = [u for u in units_h if u not in model.LIB_BY_STEM]
    if missing:
        raise core.InfraError("unit headers without model entry: %s" % missing)
    evals = 0
    nprob = 0
    # ---------------- (a) single-file packaging
    sels = [("empty", [], [])] + [("u-" + u, [u], []) for u in units_h] + [("c-" + c, [], [c]) for c in consts_h] + [("all", list(units_h), list(consts_h))]
    deep_ids = {"empty", "all"} | {"u-" + u for u in units_h[:: (4 if tier == "quick" else 1)]} | {"c-" + c for c in consts_h[:: (3 if tier == "quick" else 1)]}
    jobs = []
    for sid, us, cs in sels:
        for io in (True, False):
            jobs.append((core.GXX14, "%s-%s" % (sid, "io" if io else "noio"), us, cs, io, sid in deep_ids))
    jobs.append((core.CLANG20, "all-io-clang20", list(units_h), list(consts_h), True, True))
    jobs.append((core.CLANG14, "empty-noio-clang14", [], [], False, True))
    if tier == "thorough":
        for u1, u2 in itertools.combinations(units_h + ["C:" + c for c in consts_h], 2):
            us = [x for x in (u1, u2) if not x.startswith("C:")]
            cs = [x[2:] for x in (u1, u2) if x.startswith("C:")]
            jobs.append((core.GXX14, "p-%s-%s" % (u1.replace(":", ""), u2.replace(":", "")), us, cs, hash((u1, u2)) % 2 == 0, False))
        for k, u in enumerate(units_h):
            jobs.append((core.GXX14, "allbut-" + u, [x for x in units_h if x != u], list(consts_h), True, k % 6 == 0))
    done = 0

    def do(job):
        if run.time_left() < 300:
            return job, None
        return job, check_selection(run, *job[0:1], job[1], job[2], job[3], job[4], job[5])
    for job, probs in core.pmap(do, jobs):
        if probs is None:
            continue
        done += 1
        evals += 1
        for kind, detail in probs:
            key = "C20:single-file:%s:%s" % (kind, job[1])
            run.violation(key, "%s: selection %s: %s: %s" % (job[0], job[1], kind, detail),
                          run.write_replay(key, {"kind": "selection", "units": job[2], "constants": job[3], "io": job[4], "config": str(job[0])}))
    n_sel = done
    # ---------------- (b) every header stands alone; every _fwd header matches its definition
    hdrs = []
    root = os.path.join(core.AU_INC, "au")
    for d, dirs, files in os.walk(root):
        dirs[:] = sorted(x for x in dirs if x != "test")
        for f in sorted(files):
            if f.endswith(".hh") and not f.endswith("_test.hh") and "testing" not in f and "fwd_test" not in f and "chrono_policy_validation" not in f:
                hdrs.append(os.path.relpath(os.path.join(d, f), core.AU_INC))
    cfgs = core.CORNERS if tier == "quick" else core.CFG6
    hwd = os.path.join(run.wd, "hdr")
    os.makedirs(hwd, exist_ok=True)
    hjobs = []
    for h in hdrs:
        tag = re.sub(r"\W", "_", h)
        src = os.path.join(hwd, tag + ".cc")
        open(src, "w").write('#include "%s"\n#include "%s"\nint main() { return 0; }\n' % (h, h))
        for cfg in cfgs:
            hjobs.append((cfg, h, src, "standalone"))
        if h.endswith("_fwd.hh") or h == "au/fwd.hh":
            full = h.replace("_fwd.hh", ".hh") if h != "au/fwd.hh" else "au/au.hh"
            names, prev = [], ""
            for line in open(os.path.join(core.AU_INC, h)).read().split("\n"):
                mm = re.match(r"^struct (\w+);", line)
                if mm and not prev.strip().startswith("template") and not prev.strip().endswith(">"):
                    names.append(mm.group(1))
                if line.strip():
                    prev = line
            src2 = os.path.join(hwd, tag + "_then_def.cc")
            uses = "".join("au::%s *p_%s = nullptr;\n" % (n, n) for n in names)
            open(src2, "w").write('#include "%s"\n%s#include "%s"\n%sint main() { return 0; }\n' % (
                h, uses, full, "".join("static_assert(sizeof(au::%s) > 0, \"\");\n" % n for n in names)))
            for cfg in cfgs:
                hjobs.append((cfg, h, src2, "fwd-matches-definition"))

    def hdo(j):
        cfg, h, src, kind = j
        rc, e = cc(cfg, ["-fsyntax-only", "-I" + core.AU_INC, src])
        return j, rc, e
    for (cfg, h, src, kind), rc, e in core.pmap(hdo, hjobs):
        evals += 1
        if rc != 0:
            key = "C20:header:%s:%s:%s" % (kind, h, cfg.name)
            run.violation(key, "%s: header %s fails '%s': %s" % (cfg, h, kind, core._first_error(e)),
                          run.write_replay(key, {"kind": "header", "header": h, "check": kind, "config": str(cfg), "source": open(src).read()}))
    # ---------------- (c) cross-configuration differential of an API-surface family
    reps = R11
    probes = []
    for rep in reps:
        for name, stmt in SURFACE_STMTS:
            probes.append(core.Probe((name, rep), stmt_body(rep, name, stmt), "accept", {"dedup": None}))
    pre = '#include <sstream>\n' + SURFACE_PRE
    verdicts = {}
    all_cfgs = core.CFG6
    for cfg in all_cfgs:
        pl = [p for p in probes if p.pid[0] != "spaceship" or cfg.std == "c++20"]
        res, _ = core.run_probes(cfg, pl, os.path.join(run.wd, "surf_" + cfg.name), "c20s", pre, batch=24)
        verdicts[cfg.name] = {p.pid: res[p.pid][0] for p in pl}
        evals += len(pl)
    common = []
    n_acc = n_rej = 0
    for p in probes:
        vs = {c.name: verdicts[c.name].get(p.pid) for c in all_cfgs if p.pid in verdicts[c.name]}
        if len(set(vs.values())) > 1:
            key = "C20:accept-differs:%s:%s" % p.pid
            run.violation(key, "statement `%s` with rep %s is accepted/rejected differently: %s" % (p.pid[0], p.pid[1], vs),
                          run.write_replay(key, {"kind": "program", "code": p.code, "verdicts": vs}))
        elif list(vs.values())[0] == "accept":
            n_acc += 1
            if p.pid[0] != "spaceship":
                common.append(p)
        else:
            n_rej += 1
    outs = {}

    def runcfg(cfg):
        wd = os.path.join(run.wd, "surfrun_" + cfg.name)
        os.makedirs(wd, exist_ok=True)
        src = os.path.join(wd, "surface.cc")
        lines = [pre] + ["static void s%d() { %s }" % (i, p.code) for i, p in enumerate(common)] + ["int main() {"] + ["  s%d();" % i for i in range(len(common))] + ["  return 0; }"]
        open(src, "w").write("\n".join(lines) + "\n")
        exe = os.path.join(wd, "surface")
        rc, err = core.build_exe(cfg, src, exe, [])
        if rc != 0:
            return cfg.name, None, err
        rc, o, e = core.sh([exe], timeout=120)
        if rc != 0:
            raise core.InfraError("surface program failed under %s" % cfg)
        return cfg.name, o, ""
    build_fail = {}
    for name, o, err in core.pmap(runcfg, all_cfgs):
        if o is None:
            build_fail[name] = err
        else:
            outs[name] = o
    if build_fail and not outs:
        raise core.InfraError("surface program builds under no configuration although every statement was accepted alone: %s" % list(build_fail.values())[0][-1500:])
    for name, err in build_fail.items():
        # accepted statement by statement (syntax-only) under every configuration, builds and runs under some, but does
        # not build/link under this one: the same program behaves differently across standards/compilers
        und = sorted(set(re.findall(r"undefined reference to `([^']+)'", err)))[:3]
        key = "C20:build-differs:%s:%s" % (name, (und[0][:80] if und else (core._first_error(err) or "?")[:80]))
        run.violation(key, "the API-surface program (every statement accepted alone by all six configurations) builds under %s but not under %s: %s"
                      % (sorted(outs), name, und or core._first_error(err) or err[-300:]),
                      run.write_replay(key, {"kind": "surface-build", "config": name, "diag": err[-2000:]}))
    ref = [c.name for c in all_cfgs if c.name in outs][0]
    ref_lines = outs[ref].split("\n")
    for c in all_cfgs:
        if c.name == ref or c.name not in outs:
            continue
        ls = outs[c.name].split("\n")
        evals += len(ls)
        if ls != ref_lines:
            for i, (x, y) in enumerate(zip(ref_lines, ls)):
                if x != y:
                    key = "C20:output-differs:%s" % x.split(" ")[0]
                    run.violation(key, "API-surface output differs between %s (%r) and %s (%r)" % (ref, x, c.name, y),
                                  run.write_replay(key, {"kind": "surface", "ref": ref, "other": c.name, "ref_line": x, "other_line": y}))
            if len(ls) != len(ref_lines):
                run.violation("C20:output-length:%s" % c.name, "API-surface output has %d lines under %s and %d under %s" % (len(ref_lines), ref, len(ls), c.name))
    run.cov.update({
        "evaluations": evals, "programs": evals, "selections_checked": n_sel, "selections_planned": len(jobs), "headers": len(hdrs), "header_compiles": len(hjobs),
        "surface_statements": len(probes), "surface_accepted_everywhere": n_acc, "surface_rejected_everywhere": n_rej, "surface_output_lines": len(ref_lines),
        "distinct_nontrivial": min(n_acc, n_rej) + n_sel,
        "rule": "(a) single-file header for every selection of <=1 unit/constant header and the full selection x {io,noio} (thorough: all pairs and all-but-one): must compile alone, "
                "twice, from two linked TUs and print the same as the multi-header tree; (b) every non-test header compiled stand-alone twice, each *_fwd.hh followed by its "
                "definition with a use of each declared name; (c) 43 API statements x 11 reps: accept/reject vector and run-time output identical across g++/clang++ x C++14/17/20. "
                "distinct_nontrivial = min(#statements accepted everywhere, #rejected everywhere) + #selections checked.",
        "configs": [str(c) for c in all_cfgs], "exhaustive": n_sel == len(jobs),
        "exhaustive_note": "header selections at Hamming distance <=1 from empty (thorough: <=2, and <=1 from full) enumerated; 2^66 selections are not enumerable",
        "samples": [{"selection": j[1]} for j in jobs[:: max(1, len(jobs) // 5)]][:5] + [{"statement": p.pid[0], "rep": p.pid[1]} for p in probes[::97]][:4],
    })
    run.assumptions += ["differential oracle only: no hand-written expected values; identical behaviour across packaging / standard / compiler is what is demanded"]


def replay(path):
    import json
    r = json.load(open(path))
    print(json.dumps(r, indent=1)[:3000])
    if r.get("kind") == "header":
        cfg = [c for c in core.CFG6 if str(c) == r.get("config")][0]
        wd = os.path.join(core.BUILD, "C20", "replay")
        os.makedirs(wd, exist_ok=True)
        src = os.path.join(wd, "h.cc")
        open(src, "w").write(r["source"])
        rc, e = cc(cfg, ["-fsyntax-only", "-I" + core.AU_INC, src])
        if rc != 0:
            print("VIOLATION property=C20 replay=%s" % path)
            return 1
        return 0
    if r.get("kind") == "selection":
        run = core.Run("C20", "quick", LEVEL)
        run.wd = os.path.join(core.BUILD, "C20", "replay")
        cfg = [c for c in core.CFG6 if str(c) == r.get("config")][0]
        probs = check_selection(run, cfg, "replay", r["units"], r["constants"], r["io"], True)
        print(probs)
        if probs:
            print("VIOLATION property=C20 replay=%s" % path)
            return 1
        return 0
    print("re-run: bin/check C20 --tier quick")
    return 0
