"""C20 — behaviour is independent of packaging, language standard and compiler (differential).

 (a) single-file packaging: generated header for enumerated selections (<=1 header, full set, --all-* flags, arithmetic-progression
     subsets in three insertion orders) x {io,noio}: self-contained, includable twice, linkable from two TUs, output equal to the same
     two-TU program built against the multi-header tree; the full selection under all six configurations; the whole API-surface
     program of (c) built against the generated full header as well.
 (b) every public header compiled alone (twice), unit/constant headers with one instantiating use; every forward declaration in a
     *fwd.hh (templates included) followed by its definition and a completeness check.
 (c) API-surface family x 11 reps: accept/reject vector, run-time output over a value menu, constexpr twins, -O2 build, link of
     odr-uses of static data members, C++20-only operator<=> statements: identical across g++/clang++ x C++14/17/20.
"""
import itertools
import os
import re

from .. import core, model
from ..core import R11

LEVEL = "exploration"


def msf(args, out):
    """Run tools/bin/make-single-file (cwd = repo root, it only reads and prints)."""
    rc, o, e = core.sh(["python3", os.path.join(core.REPO, "tools", "bin", "make-single-file")] + args + ["--version-id", "verif"],
                       cwd=core.REPO, timeout=120)
    if rc != 0:
        return False, e[-800:]
    os.makedirs(os.path.dirname(out), exist_ok=True)
    with open(out, "w") as f:
        f.write(o)
    return True, ""


def cc(cfg, args, timeout=900):
    rc, o, e = core.sh([cfg.cxx, "-std=" + cfg.std, "-w"] + args, timeout=timeout)
    return rc, (e or o)


UNIT_SNIPPET = '  { auto q = au::%s(3); std::printf("%s %%s %%d\\n", au::unit_label(q.unit), static_cast<int>(q.in(q.unit))); }'


def maker_of(stem):
    return model.LIB_BY_STEM[stem].maker.replace("au::", "")


def surface_program(header, units, consts, io):
    """A program that only uses what the selection contains; prints plain text.  Second TU: other_tu.cc."""
    L = ['#include <cstdio>', '#include <cstdint>', '#include "%s"' % header if header else "",
         'const char *other_tu_label(); int other_tu();', 'int main() {',
         '  std::printf("%s\\n", au::unit_label(au::UnitProductT<>{}));',
         '  std::printf("%d\\n", (int)au::get_value<int>(au::mag<12>() * au::mag<5>()));',
         '  { au::Quantity<au::UnitProductT<>, int> q = au::ZERO; std::printf("%d\\n", q.in(au::UnitProductT<>{})); }',
         '  std::printf("%d %d\\n", (int)au::detail::is_prime(2147483647u), (int)au::detail::find_prime_factor(1000001u));',
         '  { std::chrono::milliseconds d{1500}; std::printf("%lld\\n", (long long)au::as_quantity(d).in(au::Milli<au::Seconds>{})); }',
         '  std::printf("other TU: %s %d\\n", other_tu_label(), other_tu());']
    for u in units:
        mu = model.LIB_BY_STEM[u]
        L.append(UNIT_SNIPPET % (maker_of(u), u))
        L.append('  std::printf("%%s %%d\\n", au::unit_label(au::kilo(au::%s)), (int)sizeof(au::QuantityD<%s>));' % (maker_of(u), mu.cpp))
    for c in consts:
        L.append('  std::printf("%s %%s\\n", au::unit_label(au::%s));' % (c, c.upper()))
    if io:
        L.insert(2, '#include <sstream>')
        L.append('  { std::ostringstream o; o << au::make_quantity<au::UnitProductT<>>(int8_t{65}) << "|" << au::ZERO << "|" << (au::mag<3>() / au::mag<7>()); std::printf("%s\\n", o.str().c_str()); }')
        for u in units[:2]:
            mu = model.LIB_BY_STEM[u]
            L.append('  { std::ostringstream o; o << au::%s(2.5) << "|" << au::make_quantity_point<%s>(7); std::printf("%%s\\n", o.str().c_str()); }' % (maker_of(u), mu.cpp))
    L.append('  return 0; }')
    return "\n".join(L) + "\n"


def other_tu(header, units, consts):
    """Second translation unit: odr-uses the first selected unit's / constant's label too (same entities as in main's TU)."""
    lab = "au::unit_label(au::%s(1).unit)" % maker_of(units[0]) if units else ("au::unit_label(au::%s)" % consts[0].upper() if consts else "au::unit_label(au::UnitProductT<>{})")
    return ('%s\nconst char *other_tu_label() { return %s; }\n'
            'int other_tu() { return (int)au::get_value<int>(au::mag<6>()) + (int)sizeof(au::unit_label(au::UnitProductT<>{})) + (int)sizeof(%s); }\n'
            % (('#include "%s"' % header) if header else "", lab, lab))


def multi_includes(units, consts, io):
    inc = ['#include "au/au.hh"'] + ['#include "au/units/%s.hh"' % u for u in units] + ['#include "au/constants/%s.hh"' % c for c in consts]
    if io:
        inc.append('#include "au/io.hh"')
    return "\n".join(inc) + "\n"


def check_selection(run, cfg, sel_id, units, consts, io, deep, raw_args=None):
    """Returns list of (kind, detail) problems for one header selection."""
    wd = os.path.join(run.wd, "sf", sel_id)
    hdr = os.path.join(wd, "inc", "au.hh")
    args = raw_args if raw_args is not None else ((["--units"] + units if units else []) + (["--constants"] + consts if consts else []))
    args = list(args) + ([] if io else ["--noio"])
    ok, err = msf(args, hdr)
    if not ok:
        return [("generator-failed", err)]
    probs = []
    inc = os.path.join(wd, "inc")
    # 1. self-contained + double inclusion (no other Au file on the include path)
    t1 = os.path.join(wd, "twice.cc")
    open(t1, "w").write('#include "au.hh"\n#include "au.hh"\nint main() { return 0; }\n')
    rc, e = cc(cfg, ["-fsyntax-only", "-I" + inc, t1])
    if rc != 0:
        return [("not-self-contained", core._first_error(e))]
    if not deep:
        return probs
    # 2. behaviour equal to the multi-header tree, both linked from two TUs that odr-use the same labels
    a, b = os.path.join(wd, "a.cc"), os.path.join(wd, "b.cc")
    open(a, "w").write(surface_program("au.hh", units, consts, io))
    open(b, "w").write(other_tu("au.hh", units, consts))
    exe1 = os.path.join(wd, "single")
    rc, e = cc(cfg, ["-I" + inc, a, b, "-o", exe1])
    if rc != 0:
        return [("single-file-program-rejected", core._first_error(e) or e[-300:])]
    m, mb = os.path.join(wd, "m.cc"), os.path.join(wd, "mb.cc")
    open(m, "w").write(multi_includes(units, consts, io) + surface_program("", units, consts, io))
    open(mb, "w").write(multi_includes(units, consts, io) + other_tu("", units, consts))
    exe2 = os.path.join(wd, "multi")
    rc, e = cc(cfg, ["-I" + core.AU_INC, m, mb, "-o", exe2])
    if rc != 0:
        return [("multi-header-program-rejected", core._first_error(e) or e[-300:])]
    o1 = core.sh([exe1], timeout=60)
    o2 = core.sh([exe2], timeout=60)
    if o1[0] != 0 or o2[0] != 0 or o1[1] != o2[1]:
        probs.append(("output-differs", "single: %r multi: %r" % (o1[1][:300], o2[1][:300])))
    for f in (exe1, exe2):
        try:
            os.remove(f)
        except OSError:
            pass
    return probs


def structured_subsets(units_h, consts_h, quick):
    """Enumerated stand-in for 'random subsets': arithmetic progressions (stride, offset) over the combined header list, sizes 4..33,
    each handed to the generator in sorted, reversed and rotated order (its topological sort starts from the insertion order)."""
    pool = ["U:" + u for u in units_h] + ["C:" + c for c in consts_h]
    out = []
    for stride in ((3, 7, 13) if quick else (2, 3, 5, 7, 11, 13, 17)):
        for off in range(1 if quick else min(stride, 3)):
            sub = pool[off::stride]
            for oname, o in (("fwd", sub), ("rev", sub[::-1]), ("rot", sub[len(sub) // 2:] + sub[:len(sub) // 2])):
                if quick and oname == "rot":
                    continue
                out.append(("ap%d+%d-%s" % (stride, off, oname), [x[2:] for x in o if x[0] == "U"], [x[2:] for x in o if x[0] == "C"]))
    return out


# ------------------------------------------------------------------------------------------ API surface
SURFACE_STMTS = [
    ("add", "P(a + b);"), ("sub", "P(a - b);"), ("neg", "P(-a);"), ("pos", "P(+a);"), ("mul-s", "P(a * R(2));"), ("s-mul", "P(R(2) * a);"),
    ("div-s", "P(a / R(2));"), ("mul-q", "P(a * t);"), ("div-q-same", "PR(a / b);"), ("mod", "P(a % b);"), ("mod-mixed", "P(a % f);"),
    ("eq", "PB(a == b);"), ("lt", "PB(a < b);"), ("ge", "PB(a >= b);"), ("lt-mixed", "PB(a < f);"), ("add-mixed", "P(a + f);"),
    ("as-cm", "P(a.as(au::centi(au::meters)));"), ("as-km", "P(a.as(au::kilo(au::meters)));"), ("coerce-km", "P(a.coerce_as(au::kilo(au::meters)));"),
    ("as-ft", "P(a.as(au::feet));"), ("as-double-ft", "P(a.template as<double>(au::feet));"), ("rep_cast", "P(au::rep_cast<int>(a));"),
    ("implicit-cm", "au::Quantity<au::Centi<au::Meters>, R> x = a; P(x);"), ("implicit-f64", "au::QuantityD<au::Meters> x = a; P(x);"),
    ("zero-cmp", "PB(a > au::ZERO);"), ("round_as", "P(au::round_as(au::feet, a));"), ("round_in-int", "PR(au::round_in<int>(au::feet, a));"),
    ("int_pow", "P(au::int_pow<2>(a));"), ("sqrt", "P(au::sqrt(a * b));"), ("min", "P(min(a, b));"), ("max-mixed", "P(max(a, f));"),
    ("lossy", "PB(au::is_conversion_lossy(a, au::kilo(au::meters)));"), ("trunc", "PB(au::will_conversion_truncate(a, au::feet));"),
    ("ovf", "PB(au::will_conversion_overflow(a, au::nano(au::meters)));"), ("inverse", "P(au::inverse_as(au::micro(au::seconds), au::hertz(R(4))));"),
    ("pt-sub", "P(au::celsius_pt(R(20)) - au::celsius_pt(R(5)));"), ("pt-cmp", "PB(au::celsius_pt(R(20)) < au::kelvins_pt(R(300)));"),
    ("pt-as", "P(au::celsius_pt(R(20)).coerce_as(au::kelvins_pt) - au::kelvins_pt(R(0)));"), ("hypot", "P(au::hypot(a, b));"),
    ("stream", "{ std::ostringstream o; o << a; std::printf(\"%s %s\\n\", TAG, o.str().c_str()); }"),
    ("chrono", "{ std::chrono::duration<R> d = au::seconds(R(5)); PR(d.count()); }"), ("const", "P(au::SPEED_OF_LIGHT.template as<R>(au::meters / au::second));"),
    # mixed std::chrono / Quantity operators, foreign type on either side (C++20 rewrites == / != candidates, earlier standards do not)
    ("chrono-ne-left", "PB(std::chrono::milliseconds(1500) != au::seconds(R(1)));"), ("chrono-ne-right", "PB(au::seconds(R(1)) != std::chrono::milliseconds(1500));"),
    ("chrono-eq-left", "PB(std::chrono::milliseconds(1000) == au::seconds(R(1)));"), ("chrono-eq-right", "PB(au::seconds(R(1)) == std::chrono::milliseconds(1000));"),
    ("chrono-lt-left", "PB(std::chrono::milliseconds(1500) < au::seconds(R(1)));"), ("chrono-lt-right", "PB(au::seconds(R(1)) < std::chrono::milliseconds(1500));"),
    ("chrono-le-left", "PB(std::chrono::milliseconds(1000) <= au::seconds(R(1)));"), ("chrono-ge-right", "PB(au::seconds(R(1)) >= std::chrono::milliseconds(1000));"),
    ("chrono-gt-left", "PB(std::chrono::duration<double>(1.5) > au::seconds(R(1)));"), ("chrono-add-left", "P(std::chrono::milliseconds(1500) + au::seconds(R(1)));"),
    ("chrono-sub-right", "P(au::seconds(R(1)) - std::chrono::milliseconds(1500));"),
    # every label shape, odr-used and linked (C++14 needs the out-of-class definitions of the constexpr label members)
    ("label-inv-product", "PL(au::pow<-1>(au::Meters{} * au::Seconds{}));"), ("label-quotient", "PL(au::Meters{} / au::Seconds{});"),
    ("label-product", "PL(au::Meters{} * au::Seconds{});"), ("label-pow", "PL(au::pow<3>(au::Meters{}));"), ("label-negpow", "PL(au::pow<-2>(au::Seconds{}));"),
    ("label-root", "PL(au::root<2>(au::Meters{}));"), ("label-compound-quotient", "PL((au::Meters{} * au::Grams{}) / (au::Seconds{} * au::Kelvins{}));"),
    ("label-scaled", "PL(au::Meters{} * au::mag<3>());"), ("label-rational-scaled", "PL(au::Feet{} * au::mag<5>() / au::mag<7>());"),
    ("label-irrational-scaled", "PL(au::Meters{} * au::Magnitude<au::Pi>{});"), ("label-prefixed", "PL(au::Kilo<au::Meters>{});"),
    ("label-prefixed-compound", "PL(au::Milli<decltype(au::Meters{} / au::Seconds{})>{});"), ("label-common", "PL(au::CommonUnitT<au::Feet, au::Meters>{});"),
    ("label-common-point", "PL(au::CommonPointUnitT<au::Celsius, au::Fahrenheit>{});"), ("label-unitless", "PL(au::UnitProductT<>{});"),
    ("label-unlabeled", "PL(c20::Nameless{});"), ("label-maglabel", "std::printf(\"%s %s %d\\n\", TAG, au::mag_label(au::mag<22>() / au::mag<7>()), (int)sizeof(au::mag_label(au::mag<22>() / au::mag<7>())));"),
    ("label-stream-inverse", "{ std::ostringstream o; o << (R(6) / (a * t)); std::printf(\"%s %s\\n\", TAG, o.str().c_str()); }"),
    # further API areas: unit symbols, constants, points across units / reversed operands, ZERO on the left, NTTP, common_type,
    # integer division, rounding family, cmath family, data_in, raw numbers, containers (C++20 compares them through operator<=>)
    ("sym-mul", "P(R(3) * au::symbols::m);"), ("sym-div", "P(R(6) / au::symbols::s);"), ("const-mul", "P(au::SPEED_OF_LIGHT * a);"),
    ("const-div", "P(a / au::SPEED_OF_LIGHT);"), ("make_constant", "constexpr auto k = au::make_constant(au::meters / au::second); P(k * t);"),
    ("const-coerce", "P(au::SPEED_OF_LIGHT.template coerce_as<R>(au::meters / au::second));"),
    ("pt-eq-mixed", "PB(au::celsius_pt(R(20)) == au::kelvins_pt(R(293)));"), ("pt-ne-mixed-rev", "PB(au::kelvins_pt(R(293)) != au::celsius_pt(R(20)));"),
    ("pt-ge-mixed-rev", "PB(au::kelvins_pt(R(293)) >= au::celsius_pt(R(20)));"), ("pt-add", "P((au::celsius_pt(R(20)) + au::kelvins(R(5))) - au::celsius_pt(R(0)));"),
    ("zero-eq-rev", "PB(au::ZERO == a);"), ("zero-lt-rev", "PB(au::ZERO < a);"), ("zero-ne-rev", "PB(au::ZERO != a);"),
    ("nttp", "constexpr typename decltype(a)::NTTP n = au::meters(R(5)); P(from_nttp(n));"),
    ("common_type", "typename std::common_type<decltype(a), decltype(f)>::type c = a; P(c);"),
    ("unblock_int_div", "P(a / au::unblock_int_div(t));"), ("int-div-raw", "PR((a * t) / (b * t));"),
    ("floor_as", "P(au::floor_as(au::feet, a));"), ("ceil_in", "PR(au::ceil_in(au::feet, a));"), ("round_in", "PR(au::round_in(au::feet, a));"),
    ("abs", "P(au::abs(a - b - b - b));"), ("fmod", "P(au::fmod(a, b));"), ("remainder", "P(au::remainder(a, b));"), ("clamp", "P(au::clamp(a, b, f));"),
    ("copysign", "P(au::copysign(a, b - a));"), ("isnan", "PB(au::isnan(a));"),
    ("data_in", "auto c = a; c.data_in(au::meters) += R(1); P(c);"), ("as_raw_number", "PR(au::as_raw_number(a / b));"),
    ("numlim-max", "P(std::numeric_limits<decltype(a)>::max());"), ("numlim-lowest", "P(std::numeric_limits<decltype(a)>::lowest());"),
    ("map-order", "{ std::map<decltype(a), int> mm; mm[a] = 1; mm[b] = 2; mm[a + b] = 3; PR(mm.begin()->second); }"),
    ("pair-lt", "PB(std::make_pair(a, 1) < std::make_pair(b, 2));"), ("pair-ge", "PB(std::make_pair(a, 1) >= std::make_pair(a, 1));"),
    ("tuple-lt", "PB(std::make_tuple(b, a) < std::make_tuple(b, b));"), ("vector-lt", "PB(std::vector<decltype(a)>{b, a} < std::vector<decltype(a)>{b, b});"),
    ("vector-eq", "PB(std::vector<decltype(a)>{b, a} == std::vector<decltype(a)>{b, a});"),
    ("pt-pair-lt", "PB(std::make_pair(au::meters_pt(R(3)), 1) < std::make_pair(au::meters_pt(R(3)), 2));"),
    # heavy constant evaluation (compilers have different default budgets: a budget diagnostic is a counted don't-care)
    ("heavy-mag", "constexpr auto m = au::mag<18446744073709551557ULL>(); (void)m; PB(true);"),
    ("heavy-unit", "constexpr auto u = au::Meters{} * au::mag<1000000007>() / au::mag<998244353>(); PL(u);"),
    # C++20 only: operator<=> against the relational operators (printed as lt eq gt of each)
    ("spaceship", "PS(a, b);"), ("spaceship-rev", "PS(b, a);"), ("spaceship-eq", "PS(a, au::meters(R(7)));"), ("spaceship-mixed-unit", "PS(a, f);"),
    ("spaceship-mixed-rep", "PS(a, au::meters(7.5));"), ("spaceship-mixed-both", "PS(au::feet(23.5), a);"),
    ("spaceship-pt", "PS(au::celsius_pt(R(20)), au::celsius_pt(R(5)));"), ("spaceship-pt-mixed", "PS(au::celsius_pt(R(20)), au::kelvins_pt(R(300)));"),
    # the same comparisons written the way portable user code writes them: operator<=> where the language has it, the relational
    # operators otherwise -- such a program must be accepted/rejected alike and print the same under all six configurations
    # values of irrational magnitudes (computed by the library's own constexpr root / pi code: must be usable, and equal, everywhere)
    ("mag-sqrt2-value", "PR(au::get_value<double>(au::root<2>(au::mag<2>())));"), ("mag-cbrt2-value", "PR(au::get_value<double>(au::root<3>(au::mag<2>())));"),
    ("mag-pi-value", "PR(au::get_value<long double>(au::Magnitude<au::Pi>{} / au::mag<180>()));"), ("mag-rt-ratio-value", "PR(au::get_value<float>(au::root<2>(au::mag<1000>() / au::mag<7>())));"),
    ("sqrt-unit-conv", "P(au::sqrt(au::kilo(au::meters) * au::meters)(R(3)).coerce_as(au::meters));"),
    ("ssfb", "PSF(a, b);"), ("ssfb-mixed-unit", "PSF(a, f);"), ("ssfb-mixed-both", "PSF(au::feet(23.5), a);"),
    ("ssfb-pt", "PSF(au::celsius_pt(R(20)), au::celsius_pt(R(5)));"), ("ssfb-pt-mixed", "PSF(au::celsius_pt(R(20)), au::kelvins_pt(R(100)));"),
    ("ssfb-pt-mixed-rev", "PSF(au::kelvins_pt(R(100)), au::celsius_pt(R(20)));"), ("ssfb-pt-mixed-F", "PSF(au::fahrenheit_pt(R(50)), au::celsius_pt(R(20)));"),
    ("ssfb-pt-mixed-dbl", "PSF(au::celsius_pt(20.25), au::kelvins_pt(R(100)));"), ("ssfb-pt-milli", "PSF(au::milli(au::kelvins_pt)(R(5)), au::celsius_pt(R(-100)));"),
]
ONLY20 = lambda name: name.startswith("spaceship")
# statements whose value does not depend on <cmath> / streams and that Au declares constexpr: evaluated in a constant expression too
CONSTEXPR_OK = {"add", "sub", "neg", "pos", "mul-s", "s-mul", "div-s", "mul-q", "div-q-same", "mod", "mod-mixed", "eq", "lt", "ge", "lt-mixed", "add-mixed",
                "as-cm", "as-km", "coerce-km", "as-ft", "as-double-ft", "rep_cast", "zero-cmp", "int_pow", "min", "max-mixed", "lossy", "trunc", "ovf",
                "inverse", "pt-sub", "pt-cmp", "pt-as", "const", "chrono-ne-left", "chrono-ne-right", "chrono-eq-left", "chrono-eq-right", "chrono-lt-left",
                "chrono-lt-right", "chrono-le-left", "chrono-ge-right", "chrono-add-left", "chrono-sub-right", "sym-mul", "sym-div", "const-mul", "const-div",
                "const-coerce", "pt-eq-mixed", "pt-ne-mixed-rev", "pt-ge-mixed-rev", "pt-add", "zero-eq-rev", "zero-lt-rev", "zero-ne-rev",
                "unblock_int_div", "int-div-raw", "clamp", "as_raw_number", "numlim-max", "numlim-lowest"}
# odr-uses of static data members of the public types: must link alike under every standard (C++14: needs an out-of-class definition)
ODR_STMTS = [
    ("odr-unit", "const auto &u = a.unit; PL(u);"), ("odr-maker-unit", "const auto &u = au::meters.unit; PL(u);"),
    ("odr-pt-unit", "const auto p = au::meters_pt(R(1)); const auto &u = p.unit; PL(u);"), ("odr-ptmaker-unit", "const auto &u = au::meters_pt.unit; PL(u);"),
    ("odr-numlim-digits", "const int &d = std::numeric_limits<decltype(a)>::digits; PR(d);"),
    ("odr-numlim-bools", "const bool *p[] = {&std::numeric_limits<decltype(a)>::is_specialized, &std::numeric_limits<decltype(a)>::is_integer, &std::numeric_limits<decltype(a)>::is_signed, "
     "&std::numeric_limits<decltype(a)>::is_exact, &std::numeric_limits<decltype(a)>::has_infinity, &std::numeric_limits<decltype(a)>::has_quiet_NaN, "
     "&std::numeric_limits<decltype(a)>::has_signaling_NaN, &std::numeric_limits<decltype(a)>::has_denorm_loss, &std::numeric_limits<decltype(a)>::is_iec559, "
     "&std::numeric_limits<decltype(a)>::is_bounded, &std::numeric_limits<decltype(a)>::is_modulo, &std::numeric_limits<decltype(a)>::traps, "
     "&std::numeric_limits<decltype(a)>::tinyness_before}; int s = 0; for (const bool *x : p) s = 2 * s + *x; PR(s);"),
    ("odr-numlim-ints", "const int *p[] = {&std::numeric_limits<decltype(a)>::digits10, &std::numeric_limits<decltype(a)>::max_digits10, &std::numeric_limits<decltype(a)>::radix, "
     "&std::numeric_limits<decltype(a)>::min_exponent, &std::numeric_limits<decltype(a)>::min_exponent10, &std::numeric_limits<decltype(a)>::max_exponent, "
     "&std::numeric_limits<decltype(a)>::max_exponent10}; long s = 0; for (const int *x : p) s = 31 * s + *x; PR(s);"),
    ("odr-numlim-enums", "const auto &d = std::numeric_limits<decltype(a)>::has_denorm; const std::float_round_style &r = std::numeric_limits<decltype(a)>::round_style; PR((int)d * 10 + (int)r);"),
    ("odr-unit-label-member", "const auto &l = au::Meters::label; std::printf(\"%s %s\\n\", TAG, l);"),
    ("odr-prefix-label-member", "const auto &l = au::Kilo<au::Meters>::label; std::printf(\"%s %s %d\\n\", TAG, l.c_str(), (int)l.size());"),
    ("odr-zero", "const au::Zero &z = au::ZERO; P(a + z);"), ("odr-mag-one", "const auto &o = au::ONE; PL(au::Meters{} * o);"),
    ("odr-base-dim", "const std::int64_t &i = au::base_dim::Length::base_dim_index; PR(i);"),
    ("odr-constant", "const auto &c = au::SPEED_OF_LIGHT; P(c.template as<double>(au::meters / au::second));"),
    ("odr-symbol", "const auto &s = au::symbols::m; P(R(3) * s);"),
]
ODR_REPS = ["int32_t", "double"]
CX_REPS = ["int8_t", "uint16_t", "int64_t", "double"]

SURFACE_PRE = r'''
#include <map>
#include <tuple>
#include <utility>
#include <vector>
using au::min; using au::max;
namespace c20 {
struct Nameless : au::UnitImpl<au::Length, decltype(au::mag<13>())> {};
template <typename T> void pr(const char *tag, T v, std::true_type) { std::printf("%s int %lld sz=%d sg=%d\n", tag, (long long)v, (int)sizeof(T), (int)std::is_signed<T>::value); }
template <typename T> void pr(const char *tag, T v, std::false_type) { std::printf("%s flt %La sz=%d\n", tag, (long double)v, (int)sizeof(T)); }
template <typename T> void praw(const char *tag, T v) { pr(tag, v, std::is_integral<T>{}); }
template <typename U, typename R> void pq(const char *tag, au::Quantity<U, R> q) {
    std::string t = std::string(tag) + " [" + au::unit_label(U{}) + "]";
    praw(t.c_str(), q.in(U{}));
}
}
#define PL(u) std::printf("%s label '%s' %d\n", TAG, au::unit_label(u), (int)sizeof(au::unit_label(u)))
#define P(x) c20::pq(TAG, (x))
#define PR(x) c20::praw(TAG, (x))
#define PB(x) std::printf("%s bool %d\n", TAG, (int)(x))
#if defined(__cpp_impl_three_way_comparison) && __cpp_impl_three_way_comparison >= 201907L
#define PSF(x, y) { const auto s_ = ((x) <=> (y)); std::printf("%s order %d%d%d\n", TAG, (int)(s_ < 0), (int)(s_ == 0), (int)(s_ > 0)); }
#else
#define PSF(x, y) { std::printf("%s order %d%d%d\n", TAG, (int)((x) < (y)), (int)((x) == (y)), (int)((x) > (y))); }
#endif
#if defined(__cpp_impl_three_way_comparison)
#define PS(x, y) { const auto s_ = ((x) <=> (y)); std::printf("%s spaceship %d%d%d relational %d%d%d\n", TAG, (int)(s_ < 0), (int)(s_ == 0), (int)(s_ > 0), (int)((x) < (y)), (int)((x) == (y)), (int)((x) > (y))); }
#endif
'''

# value menu (a, b, f, t): benign, negative (signed / floating reps only), zero, larger, and fractional / signed zero (floating reps only).
# No value makes the *raw* C++ arithmetic of a statement undefined (that would be the program's fault, not packaging/standard/compiler).
VALUES = [("V0", ("7", "3", "2", "2"), "all"), ("V1", ("-7", "3", "-2", "2"), "signed"), ("V2", ("0", "3", "2", "2"), "all"),
          ("V3", ("100", "11", "50", "1"), "all"), ("V4", ("-0.0", "0.5", "1e-3", "0.25"), "float")]


def vals_apply(vname, rep):
    kind = [k for n, v, k in VALUES if n == vname][0]
    if kind == "signed":
        return core.is_signed(rep) or rep in core.F3
    if kind == "float":
        return rep in core.F3
    return True


STREAM_EXTRA_REPS = ["char", "char16_t", "char32_t", "wchar_t"]


def stmt_body(rep, name, stmt, vname="V0", cx=False):
    a, b, f, t = [v for n, v, k in VALUES if n == vname][0]
    tag = "%s/%s/%s%s" % (name, rep, vname, "/cx" if cx else "")
    head = ('using R = %s; const char *TAG = "%s"; %s auto a = au::meters(R(%s)); %s auto b = au::meters(R(%s)); %s auto f = au::feet(R(%s)); '
            '%s auto t = au::seconds(R(%s)); (void)a; (void)b; (void)f; (void)t; (void)TAG; ' % (
                rep, tag, *[x for v in (a, b, f, t) for x in ("constexpr" if cx else "", v)]))
    if cx:
        m = re.match(r"^(P|PB|PR)\((.*)\);$", stmt)
        return head + "constexpr auto r_ = (%s); %s(r_);" % (m.group(2), m.group(1))
    return head + stmt


_LD_FN = re.compile(r"in function `(\w+)\(\)'")
_LD_UND = re.compile(r"undefined reference to `([^']+)'")


def build_funcs(cfg, wd, stem, pre, funcs, flags=(), cc_args=None):
    """Build `funcs` (list of (fname, body)) as one program and run it.  Returns (output | None, {fname: [undefined symbols]}, diag).
    When the link fails with undefined references attributed to some functions, the program is rebuilt without them."""
    os.makedirs(wd, exist_ok=True)
    src, exe = os.path.join(wd, stem + ".cc"), os.path.join(wd, stem)
    bad = {}
    for attempt in range(2):
        use = [(n, b) for n, b in funcs if n not in bad]
        lines = [pre] + ["static void %s() { %s }" % (n, b) for n, b in use] + ["int main() {"] + ["  %s();" % n for n, _ in use] + ["  return 0; }"]
        open(src, "w").write("\n".join(lines) + "\n")
        if cc_args is None:
            rc, err = core.build_exe(cfg, src, exe, list(flags))
        else:
            rc, err = cc(cfg, list(flags) + cc_args + [src, "-o", exe])
        if rc == 0:
            rc, o, e = core.sh([exe], timeout=300)
            try:
                os.remove(exe)
            except OSError:
                pass
            if rc != 0:
                raise core.InfraError("surface program %s failed at run time under %s (rc=%d): %s" % (stem, cfg, rc, e[-500:]))
            return o, bad, ""
        if attempt == 0 and "undefined reference" in err:
            cur = None
            for line in err.split("\n"):
                m = _LD_FN.search(line)
                if m:
                    cur = m.group(1)
                u = _LD_UND.search(line)
                if u and cur:
                    bad.setdefault(cur, [])
                    if u.group(1) not in bad[cur]:
                        bad[cur].append(u.group(1))
            if bad and all(n in dict(funcs) for n in bad):
                continue
            bad = {}
        return None, bad, err
    return None, bad, err


def norm_sym(s):
    return re.sub(r"\s+", " ", s)[:100]


_BUDGET = re.compile(r"constexpr[^\n]*(limit|exceed|maximum|budget)|-fconstexpr-(ops|steps|loop|depth|cache)", re.I)


def check(run):
    tier = run.tier
    quick = tier == "quick"
    units_h, consts_h = core.lib_headers()
    missing = [u for u in units_h if u not in model.LIB_BY_STEM]
    if missing:
        raise core.InfraError("unit headers without model entry: %s" % missing)
    evals = 0
    info = {}
    import resource
    phase = {}

    def mark(name):
        ru = resource.getrusage(resource.RUSAGE_CHILDREN)
        cpu = ru.ru_utime + ru.ru_stime
        phase[name] = {"wall_s": round(run.elapsed() - sum(p["wall_s"] for p in phase.values()), 1),
                       "cpu_s": round(cpu - sum(p["cpu_s"] for p in phase.values()), 1)}
    # ---------------- (c) cross-configuration differential of an API-surface family
    reps = R11
    probes, twins = [], []
    for name, stmt in SURFACE_STMTS:
        # streaming also over the character-typed reps: <ostream> treats them specially (char prints a glyph; the
        # char16_t/char32_t/wchar_t inserters are deleted from C++20 on), so "prints the number under every standard"
        # is a statement about exactly these reps
        for rep in reps + (STREAM_EXTRA_REPS if "stream" in name else []):
            probes.append(core.Probe((name, rep), stmt_body(rep, name, stmt), "accept", {"dedup": None}))
            if name in CONSTEXPR_OK and rep in CX_REPS:
                twins.append(core.Probe((name + "/cx", rep), stmt_body(rep, name, stmt, cx=True), "accept", {"dedup": None}))
    pre = '#include <sstream>\n' + SURFACE_PRE
    verdicts, diags = {}, {}
    all_cfgs = core.CFG6
    core.warm_pch(all_cfgs)

    def guess(cfg, pl, tag):
        """Cheap first guess of each probe's verdict (one batch per statement; lines named in diagnostics are the rejected ones).
        Only used as the *expectation* handed to run_probes, which then decides every verdict soundly."""
        wd = os.path.join(run.wd, "guess_" + cfg.name)
        os.makedirs(wd, exist_ok=True)
        by_stmt = {}
        for p in pl:
            by_stmt.setdefault(p.pid[0], []).append(p)

        def one(item):
            k, (name, lst) = item
            src = os.path.join(wd, "%s_%d.cc" % (tag, k))
            first = core._emit_batch(src, lst, pre)
            rc, err = core.syntax_check(cfg, src)
            fl = core._flagged_lines(err, src) if rc != 0 else set()
            return [(p, "reject" if (first + i) in fl else "accept") for i, p in enumerate(lst)]
        out = {}
        for lst in core.pmap(one, list(enumerate(sorted(by_stmt.items())))):
            for p, v in lst:
                out[p.pid] = v
        return out

    def decide(cfg, pl, expect):
        ps = [core.Probe(p.pid, p.code, expect.get(p.pid, "accept"), {"dedup": None}) for p in pl]
        res, _ = core.run_probes(cfg, ps, os.path.join(run.wd, "surf_" + cfg.name), "c20s", pre, batch=24)
        return res
    every = probes + twins
    pl17 = [p for p in every if not ONLY20(p.pid[0])]
    pl20 = [p for p in every if ONLY20(p.pid[0])]
    # g++/c++14 (and g++/c++20 for the C++20-only statements) first; its verdicts are the expectations (batching hints) elsewhere
    g = guess(core.GXX14, pl17, "g14")
    g.update(guess(core.GXX20, pl20, "g20"))
    first = {core.GXX14.name: decide(core.GXX14, pl17, g)}
    exp = {pid: v[0] for pid, v in first[core.GXX14.name].items()}
    g.update(exp)
    r20 = decide(core.GXX20, every, g)
    exp.update({p.pid: r20[p.pid][0] for p in pl20})
    first[core.GXX20.name] = r20

    def probe_cfg(cfg):
        pl = every if cfg.std == "c++20" else pl17
        return cfg, pl, first.get(cfg.name) or decide(cfg, pl, exp)
    for cfg, pl, res in core.pmap(probe_cfg, all_cfgs, workers=4):
        verdicts[cfg.name] = {p.pid: res[p.pid][0] for p in pl}
        diags[cfg.name] = {p.pid: res[p.pid][1] for p in pl}
        evals += len(pl)
    info["probe_batches"], info["probe_singles"] = core.STATS["batches"], core.STATS["singles"]
    common, common20, common_cx = [], [], []
    n_acc = n_rej = n_budget = n_cx_acc = n_cx_rej = 0
    for p in probes + twins:
        vs = {c.name: verdicts[c.name].get(p.pid) for c in all_cfgs if p.pid in verdicts[c.name]}
        is_cx = p.pid[0].endswith("/cx")
        if len(set(vs.values())) > 1:
            rej = [c for c, v in vs.items() if v != "accept"]
            for c in rej:   # verdicts taken from a reject batch carry no diagnostic: fetch it
                if not diags[c].get(p.pid):
                    cf = [x for x in all_cfgs if x.name == c][0]
                    r1, _ = core.run_probes(cf, [core.Probe(p.pid, p.code, "accept")], os.path.join(run.wd, "surf_" + c), "c20d", pre)
                    diags[c][p.pid] = r1[p.pid][1]
            if all(_BUDGET.search(diags[c].get(p.pid) or "") for c in rej):
                n_budget += 1   # constant-evaluation budget of one compiler: allowed diagnostic, counted
                continue
            key = "C20:accept-differs:%s:%s" % p.pid
            run.violation(key, "statement `%s` with rep %s is accepted/rejected differently: %s (%s)" % (
                p.pid[0], p.pid[1], vs, "; ".join("%s: %s" % (c, (diags[c].get(p.pid) or "")[:160]) for c in rej[:2])),
                run.write_replay(key, {"kind": "program", "code": p.code, "verdicts": vs}))
        elif list(vs.values())[0] == "accept":
            if is_cx:
                n_cx_acc += 1
                common_cx.append(p)
            else:
                n_acc += 1
                (common20 if ONLY20(p.pid[0]) else common).append(p)
        elif is_cx:
            n_cx_rej += 1
        else:
            n_rej += 1
    stmt_of = dict(SURFACE_STMTS)
    mark("c_accept_probes")
    # ---- programs: one per value set (V0 also carries the constexpr twins), built per configuration
    vsets = [v[0] for v in VALUES]

    def funcs_for(vname, with_cx, plist):
        fs = []
        for p in plist:
            name, rep = p.pid
            if vals_apply(vname, rep):
                fs.append(("s%d" % len(fs), stmt_body(rep, name, stmt_of[name], vname), (name, rep, vname)))
        if with_cx:
            for p in common_cx:
                name, rep = p.pid[0][:-3], p.pid[1]
                fs.append(("s%d" % len(fs), stmt_body(rep, name, stmt_of[name], vname, cx=True), (name + "/cx", rep, vname)))
        return fs
    progs = {v: funcs_for(v, v == "V0", common) for v in vsets}
    prog20 = [("s%d" % i, b, m) for i, (n, b, m) in enumerate(f for v in ("V0", "V1") for f in funcs_for(v, False, common20))]
    bjobs = [(cfg, v, ()) for cfg in all_cfgs for v in vsets]
    bjobs += [(cfg, "V0", ("-O2",)) for cfg in (core.CORNERS if quick else all_cfgs)]
    if not quick:
        bjobs += [(cfg, "V3", ("-O2",)) for cfg in core.CORNERS]
    bjobs += [(cfg, "S20", ()) for cfg in all_cfgs if cfg.std == "c++20"]
    # the surface program against the generated single-file header (no other Au file on the include path, no PCH)
    sf_hdr = os.path.join(run.wd, "sf_surface", "inc")
    ok_sf, err_sf = msf(["--units"] + list(units_h) + ["--constants"] + list(consts_h), os.path.join(sf_hdr, "au.hh"))
    if not ok_sf:
        run.violation("C20:single-file:generator-failed:surface", "make-single-file fails for the full selection: %s" % err_sf)
    sf_cfgs = list(core.CORNERS if quick else all_cfgs) if ok_sf else []
    bjobs += [(cfg, "V0", ("single-file",)) for cfg in sf_cfgs]
    core.warm_pch([c for c, v, fl in bjobs if fl == ("-O2",)], ["-O2"])

    def runjob(job):
        cfg, v, fl = job
        if run.time_left() < 200:
            return job, None, {}, "deadline"
        fs = prog20 if v == "S20" else progs[v]
        wd = os.path.join(run.wd, "surfrun_" + cfg.name)
        stem = "surface_%s%s" % (v, "".join(fl).replace("-", "_"))
        if fl == ("single-file",):
            hp = '#include <cstdio>\n#include <cstdint>\n#include <chrono>\n#include <string>\n#include <limits>\n#include "au.hh"\n' + pre
            o, bad, err = build_funcs(cfg, wd, stem, hp, [(n, b) for n, b, _ in fs], (), ["-I" + sf_hdr])
        else:
            o, bad, err = build_funcs(cfg, wd, stem, pre, [(n, b) for n, b, _ in fs], fl)
        return job, o, bad, err
    results = {}
    for job, o, bad, err in core.pmap(runjob, bjobs):
        results[job] = (o, bad, err)
    skipped = [j for j, (o, bad, err) in results.items() if err == "deadline"]
    n_lines = 0

    def lines_of(job):
        o = results[job][0]
        fs = prog20 if job[1] == "S20" else progs[job[1]]
        out = {}
        if o is None:
            return out
        for line in o.split("\n"):
            if line:
                out.setdefault(line.split(" ")[0], []).append(line)
        return out
    groups = {}
    for job in bjobs:
        if job not in skipped:
            groups.setdefault(job[1], []).append(job)
    for v, js in sorted(groups.items()):
        fs = prog20 if v == "S20" else progs[v]
        fmeta = {n: m for n, b, m in fs}
        # build problems: a statement that every configuration accepts alone but that does not link / build under some of them
        ok_jobs = [j for j in js if results[j][0] is not None]
        for j in js:
            o, bad, err = results[j]
            cfgname = j[0].name + "".join(j[2])
            for fn, syms in sorted(bad.items()):
                name, rep, vn = fmeta[fn]
                key = "C20:build-differs:%s:%s/%s:%s" % (cfgname, name, rep, norm_sym(syms[0]))
                run.violation(key, "statement `%s` (rep %s) is accepted alone by all six configurations and links under %s, but under %s the program has "
                              "undefined references: %s" % (name, rep, sorted(x[0].name for x in ok_jobs if not results[x][1].get(fn))[:4] or "no configuration", cfgname, syms[:3]),
                              run.write_replay(key, {"kind": "surface-build", "config": str(j[0]), "flags": list(j[2]), "code": dict((n, b) for n, b, _ in fs)[fn], "diag": syms[:3]}))
            if o is None:
                if not ok_jobs:
                    raise core.InfraError("surface program %s builds under no configuration although every statement was accepted alone: %s" % (v, err[-1500:]))
                key = "C20:build-differs:%s:%s:%s" % (cfgname, v, re.sub(r"^.*?error:\s*", "", core._first_error(err) or "?")[:80])
                run.violation(key, "the API-surface program %s (every statement accepted alone by all six configurations) builds under %s but not under %s: %s"
                              % (v, sorted(x[0].name for x in ok_jobs), cfgname, core._first_error(err) or err[-300:]),
                              run.write_replay(key, {"kind": "surface-build", "config": str(j[0]), "flags": list(j[2]), "diag": err[-2000:]}))
        if not ok_jobs:
            continue
        ref = ok_jobs[0]
        ref_lines = lines_of(ref)
        n_lines += sum(len(x) for x in ref_lines.values())
        for j in ok_jobs[1:]:
            ls = lines_of(j)
            evals += sum(len(x) for x in ls.values())
            for tag in sorted(set(ref_lines) | set(ls)):
                if ref_lines.get(tag) != ls.get(tag):
                    if tag not in ls or tag not in ref_lines:
                        # statement removed from one build because it did not link there: reported above
                        continue
                    key = "C20:output-differs:%s" % tag
                    fl_r, fl_o = "".join(ref[2]), "".join(j[2])
                    run.violation(key, "API-surface output differs between %s%s (%r) and %s%s (%r)" % (ref[0].name, fl_r, ref_lines[tag], j[0].name, fl_o, ls[tag]),
                                  run.write_replay(key, {"kind": "surface", "tag": tag, "ref": str(ref[0]), "ref_flags": list(ref[2]), "other": str(j[0]),
                                                         "other_flags": list(j[2]), "ref_line": ref_lines[tag], "other_line": ls[tag]}))
        # constexpr twins against the run-time line of the same configuration; <=> against the relational operators
        for j in ok_jobs:
            ls = lines_of(j)
            for tag, val in ls.items():
                if tag.endswith("/cx"):
                    rt = ls.get(tag[:-3])
                    if rt is not None and [x.split(" ", 1)[1] for x in rt] != [x.split(" ", 1)[1] for x in val]:
                        if tag.split("/")[1] in core.F3:
                            info["constexpr_vs_runtime_fp_differences"] = info.get("constexpr_vs_runtime_fp_differences", 0) + 1
                            continue
                        key = "C20:constexpr-differs:%s:%s" % (tag, j[0].name)
                        run.violation(key, "%s: statement %s evaluates to %r in a constant expression and to %r at run time" % (j[0], tag, val, rt),
                                      run.write_replay(key, {"kind": "surface", "tag": tag, "ref": str(j[0]), "ref_flags": list(j[2]), "other": str(j[0]),
                                                             "other_flags": list(j[2]), "ref_line": rt, "other_line": val}))
                    info["constexpr_twins_compared"] = info.get("constexpr_twins_compared", 0) + 1
                for line in val:
                    mm = re.search(r" spaceship (\d{3}) relational (\d{3})$", line)
                    if mm:
                        info["spaceship_lines"] = info.get("spaceship_lines", 0) + 1
                        if mm.group(1) != mm.group(2):
                            key = "C20:spaceship-inconsistent:%s:%s" % (tag, j[0].name)
                            run.violation(key, "%s: operator<=> disagrees with < == > (standard containers compare through <=> under C++20 and through < under "
                                          "C++14/17): %s" % (j[0], line))
    mark("c_programs")
    # ---- odr-uses of static data members: link verdict per statement must be alike
    odr_funcs = []
    for rep in ODR_REPS:
        for name, stmt in ODR_STMTS:
            odr_funcs.append(("o%d" % len(odr_funcs), stmt_body(rep, name, stmt), (name, rep)))
    ometa = {n: m for n, b, m in odr_funcs}

    def odrjob(cfg):
        return cfg, build_funcs(cfg, os.path.join(run.wd, "odr_" + cfg.name), "odr", pre, [(n, b) for n, b, _ in odr_funcs])
    odr = dict(core.pmap(odrjob, all_cfgs))
    if all(o is None for o, bad, err in odr.values()):
        raise core.InfraError("the odr-use program builds under no configuration: %s" % list(odr.values())[0][2][-1200:])
    n_odr_alike = 0
    for fn, (name, rep) in sorted(ometa.items(), key=lambda kv: int(kv[0][1:])):
        link = {c.name: (odr[c][0] is not None and fn not in odr[c][1]) for c in all_cfgs}
        evals += len(link)
        if len(set(link.values())) == 1:
            n_odr_alike += 1
            continue
        for c in all_cfgs:
            if not link[c.name]:
                syms = odr[c][1].get(fn) or [core._first_error(odr[c][2]) or "?"]
                key = "C20:odr-link-differs:%s/%s:%s" % (name, rep, c.name)
                run.violation(key, "`%s` (rep %s) compiles under all six configurations and links under %s, but under %s: undefined reference to %s" % (
                    dict(ODR_STMTS)[name], rep, sorted(k for k, v in link.items() if v), c.name, syms[:2]),
                    run.write_replay(key, {"kind": "odr", "config": str(c), "code": dict((n, b) for n, b, _ in odr_funcs)[fn]}))
    oks = [c for c in all_cfgs if odr[c][0] is not None]
    for c in oks[1:]:
        la = {l.split(" ")[0]: l for l in odr[oks[0]][0].split("\n") if l}
        lb = {l.split(" ")[0]: l for l in odr[c][0].split("\n") if l}
        for tag in sorted(set(la) & set(lb)):
            if la[tag] != lb[tag]:
                run.violation("C20:output-differs:%s" % tag, "odr-use output differs between %s (%r) and %s (%r)" % (oks[0].name, la[tag], c.name, lb[tag]))
    n_stmt = len(probes)
    mark("c_odr")
    # ---------------- (b) every header stands alone; every forward declaration matches a definition
    hdrs = []
    root = os.path.join(core.AU_INC, "au")
    for d, dirs, files in os.walk(root):
        dirs[:] = sorted(x for x in dirs if x != "test")
        for f in sorted(files):
            if f.endswith(".hh") and not f.endswith("_test.hh") and "testing" not in f and "fwd_test" not in f and "chrono_policy_validation" not in f:
                hdrs.append(os.path.relpath(os.path.join(d, f), core.AU_INC))
    cfgs = core.CORNERS if quick else core.CFG6
    hwd = os.path.join(run.wd, "hdr")
    os.makedirs(hwd, exist_ok=True)
    hjobs = []
    fwd_args = {"Pow": "<VfU, 2>", "RatioPow": "<VfU, 1, 2>", "Dimension": "<>", "Magnitude": "<>", "QuantityMaker": "<VfU>", "SingularNameFor": "<VfU>",
                "QuantityPointMaker": "<VfU>", "Quantity": "<VfU, int>", "UnitProduct": "<>", "CorrespondingQuantity": "<int>", "QuantityPoint": "<VfU, int>",
                "Constant": "<VfU>", "SymbolFor": "<VfU>", "PrefixApplier": "<au::Kilo>"}
    n_fwd_names = n_fwd_unknown = n_inst = 0
    for h in hdrs:
        tag = re.sub(r"\W", "_", h)
        src = os.path.join(hwd, tag + ".cc")
        stem = os.path.basename(h)[:-3]
        use = ""
        # one instantiating use of what the header defines, with no other Au header included
        if h.startswith("au/units/") and not h.endswith("_fwd.hh") and stem in model.LIB_BY_STEM:
            mk = model.LIB_BY_STEM[stem].maker
            use = "  { auto q = %s(1); (void)au::unit_label(q.unit); (void)(q + q); (void)(q < q); (void)q.in(%s); (void)(q * q); }\n" % (mk, mk)
        elif h.startswith("au/constants/") and not h.endswith("_fwd.hh"):
            use = "  { (void)au::unit_label(au::%s); auto q = au::%s.as<double>(); (void)(q + q); }\n" % (stem.upper(), stem.upper())
        n_inst += bool(use)
        open(src, "w").write('#include "%s"\n#include "%s"\nint main() {\n%s  return 0; }\n' % (h, h, use))
        for cfg in cfgs:
            hjobs.append((cfg, h, src, "standalone"))
        if h.endswith("_fwd.hh") or h == "au/fwd.hh":
            full = h.replace("_fwd.hh", ".hh") if h != "au/fwd.hh" else "au/au.hh"
            names, prev = [], ""   # (name, template-argument list or "")
            for line in open(os.path.join(core.AU_INC, h)).read().split("\n"):
                mm = re.match(r"^(?:struct|class) (\w+);", line)
                if mm:
                    is_t = prev.strip().startswith("template") or prev.strip().endswith(">")
                    nm = mm.group(1)
                    if not is_t:
                        names.append((nm, ""))
                    elif nm in fwd_args:
                        names.append((nm, fwd_args[nm]))
                    else:
                        # argument list synthesised from the template header: type -> VfU, non-type -> 1, pack -> empty, template -> Kilo
                        args = []
                        hdr_m = re.search(r"template\s*<(.*)>\s*$", prev.strip())
                        depth, cur, parts = 0, "", []
                        for ch in (hdr_m.group(1) if hdr_m else ""):
                            if ch == "," and depth == 0:
                                parts.append(cur)
                                cur = ""
                                continue
                            depth += ch == "<"
                            depth -= ch == ">"
                            cur += ch
                        parts.append(cur)
                        for prm in [x.strip() for x in parts if x.strip()]:
                            if "..." in prm:
                                continue
                            args.append("au::Kilo" if prm.startswith("template") else ("VfU" if re.match(r"(typename|class)\b", prm) else "1"))
                        names.append((nm, "<%s>" % ", ".join(args)))
                        n_fwd_unknown += 1
                if line.strip():
                    prev = line
            n_fwd_names += len(names)
            src2 = os.path.join(hwd, tag + "_then_def.cc")
            uses = "struct VfU;\n" + "".join("au::%s%s *p_%s = nullptr;\n" % (n, a, n) for n, a in names)
            vfu = "struct VfU : au::UnitImpl<au::Length> {};\n" if h == "au/fwd.hh" else ""
            open(src2, "w").write('#include "%s"\n%s#include "%s"\n%s%sint main() { return 0; }\n' % (
                h, uses, full, vfu, "".join("static_assert(sizeof(au::%s%s) > 0, \"\");\n" % (n, a) for n, a in names)))
            for cfg in cfgs:
                hjobs.append((cfg, h, src2, "fwd-matches-definition"))

    def hdo(j):
        cfg, h, src, kind = j
        rc, e = cc(cfg, ["-fsyntax-only", "-I" + core.AU_INC, src])
        return j, rc, e
    for (cfg, h, src, kind), rc, e in core.pmap(hdo, hjobs):
        evals += 1
        if rc != 0:
            key = "C20:header:%s:%s:%s" % (kind, h, cfg.name)
            run.violation(key, "%s: header %s fails '%s': %s" % (cfg, h, kind, core._first_error(e)),
                          run.write_replay(key, {"kind": "header", "header": h, "check": kind, "config": str(cfg), "source": open(src).read()}))
    mark("b_headers")
    # ---------------- (a) single-file packaging
    sels = [("empty", [], [])] + [("u-" + u, [u], []) for u in units_h] + [("c-" + c, [], [c]) for c in consts_h] + [("all", list(units_h), list(consts_h))]
    jobs = []   # (cfg, id, units, consts, io, deep, raw_args)
    for sid, us, cs in sels:
        for io in (True, False):
            # every selection is built, linked from two TUs and run with io; without io only empty/all (thorough: all)
            deep = io or sid in ("empty", "all") or not quick
            jobs.append((core.GXX14, "%s-%s" % (sid, "io" if io else "noio"), us, cs, io, deep, None))
    for cfg in core.CFG6:   # the full selection under every configuration
        for io in (True, False):
            if cfg is core.GXX14:
                continue
            jobs.append((cfg, "all-%s-%s" % ("io" if io else "noio", cfg.name), list(units_h), list(consts_h), io, io or not quick, None))
    jobs.append((core.GXX14, "allflags-io", list(units_h), list(consts_h), True, True, ["--all-units", "--all-constants"]))
    jobs.append((core.CLANG20, "allflags-noio", list(units_h), list(consts_h), False, True, ["--all-units", "--all-constants"]))
    jobs.append((core.CLANG14, "empty-noio-clang14", [], [], False, True, None))
    for k, (sid, us, cs) in enumerate(structured_subsets(units_h, consts_h, quick)):
        jobs.append(((core.GXX14, core.CLANG20)[k % 2] if not quick else core.GXX14, "%s-%s" % (sid, "io" if k % 2 == 0 else "noio"), us, cs, k % 2 == 0,
                     k % (3 if quick else 4) == 0, None))
    if not quick:
        for u1, u2 in itertools.combinations(units_h + ["C:" + c for c in consts_h], 2):
            us = [x for x in (u1, u2) if not x.startswith("C:")]
            cs = [x[2:] for x in (u1, u2) if x.startswith("C:")]
            jobs.append((core.GXX14, "p-%s-%s" % (u1.replace(":", ""), u2.replace(":", "")), us, cs, (len(u1) + len(u2)) % 2 == 0, False, None))
        for k, u in enumerate(units_h):
            jobs.append((core.GXX14, "allbut-" + u, [x for x in units_h if x != u], list(consts_h), True, k % 6 == 0, None))
    done = 0

    def do(job):
        if run.time_left() < 90:
            return job, None
        return job, check_selection(run, job[0], job[1], job[2], job[3], job[4], job[5], job[6])
    n_deep = 0
    for job, probs in core.pmap(do, jobs):
        if probs is None:
            continue
        done += 1
        evals += 1
        n_deep += bool(job[5])
        for kind, detail in probs:
            key = "C20:single-file:%s:%s" % (kind, job[1])
            run.violation(key, "%s: selection %s: %s: %s" % (job[0], job[1], kind, detail),
                          run.write_replay(key, {"kind": "selection", "units": job[2], "constants": job[3], "io": job[4], "config": str(job[0]), "raw_args": job[6]}))
    n_sel = done
    mark("a_selections")
    run.cov.update({
        "phase": phase,
        "evaluations": evals, "programs": evals, "selections_checked": n_sel, "selections_planned": len(jobs), "selections_built_linked_run": n_deep,
        "headers": len(hdrs), "header_compiles": len(hjobs), "headers_with_instantiating_use": n_inst, "fwd_names_checked": n_fwd_names,
        "fwd_template_names_with_synthesised_arguments": n_fwd_unknown,
        "surface_statements": n_stmt, "surface_accepted_everywhere": n_acc, "surface_rejected_everywhere": n_rej, "surface_output_lines": n_lines,
        "constexpr_twins": len(twins), "constexpr_twins_accepted_everywhere": n_cx_acc, "constexpr_twins_rejected_everywhere": n_cx_rej,
        "accept_differs_by_constexpr_budget_only": n_budget, "surface_programs_built": len(bjobs) - len(skipped), "surface_programs_skipped_deadline": len(skipped),
        "value_sets": vsets, "odr_statements": len(odr_funcs), "odr_statements_linking_alike": n_odr_alike, "info": info,
        "distinct_nontrivial": min(n_acc, n_rej) + n_sel,
        "rule": "(a) single-file header for every selection of <=1 unit/constant header, the full selection (explicit list and --all-units/--all-constants), "
                "arithmetic-progression subsets (stride, offset) of the 66 headers in sorted/reversed/rotated insertion order (thorough: also all pairs and "
                "all-but-one) x {io,noio}: must compile alone and twice; 'built, linked, run' selections are linked from two TUs that odr-use the same labels and "
                "must print the same as the same two TUs built against the multi-header tree; the full selection under all six configurations; the V0 "
                "API-surface program is also built against the generated full header; (b) every non-test header compiled stand-alone twice (unit and constant "
                "headers with one instantiating use of their maker / constant), each *fwd.hh followed by its definition with a use and a completeness check of "
                "each declared name (template names through an argument table); (c) %d API statements x 11 reps: accept/reject vector identical across "
                "g++/clang++ x C++14/17/20; run-time output identical over the enumerated value sets %s (negative values on signed/floating reps only, "
                "fractional on floating only); constexpr twins of %d pure statements (accepted alike; value equal to the run-time line for integral reps); "
                "V0 at -O2 against -O0; %d odr-uses of static data members x 2 reps must link alike; operator<=> statements run under the two C++20 "
                "configurations and must agree with < == >. distinct_nontrivial = min(#statements accepted everywhere, #rejected everywhere) + #selections checked."
                % (len(SURFACE_STMTS), vsets, len(CONSTEXPR_OK), len(ODR_STMTS)),
        "configs": [str(c) for c in all_cfgs], "exhaustive": n_sel == len(jobs) and not skipped,
        "exhaustive_note": "header selections at Hamming distance <=1 from empty (thorough: <=2, and <=1 from full) and the stated arithmetic-progression subsets "
                           "enumerated; 2^66 selections are not enumerable",
        "samples": [{"selection": j[1]} for j in jobs[:: max(1, len(jobs) // 5)]][:5] + [{"statement": p.pid[0], "rep": p.pid[1]} for p in probes[::97]][:4],
    })
    run.assumptions += ["differential oracle only: no hand-written expected values; identical behaviour across packaging / standard / compiler is what is demanded",
                        "value sets avoid inputs on which the raw C++ arithmetic of a statement would be undefined (signed overflow in 32/64-bit reps, float->int out of "
                        "range, NaN): differences there would be the program's, not the library's",
                        "a rejection whose diagnostic names the constant-evaluation budget of one compiler (-fconstexpr-ops-limit / -fconstexpr-steps) is an allowed "
                        "difference and only counted",
                        "constexpr-vs-run-time differences on floating reps are counted, not judged (both are compared across configurations)"]


def _cfg(s):
    return [c for c in core.CFG6 if str(c) == s][0]


def replay(path):
    import json
    r = json.load(open(path))
    print(json.dumps(r, indent=1)[:3000])
    wd = os.path.join(core.BUILD, "C20", "replay")
    os.makedirs(wd, exist_ok=True)
    pre = '#include <sstream>\n' + SURFACE_PRE
    hit = False
    kind = r.get("kind")
    if kind == "header":
        src = os.path.join(wd, "h.cc")
        open(src, "w").write(r["source"])
        rc, e = cc(_cfg(r["config"]), ["-fsyntax-only", "-I" + core.AU_INC, src])
        hit = rc != 0
    elif kind == "selection":
        run = core.Run.__new__(core.Run)
        run.wd = wd
        probs = check_selection(run, _cfg(r["config"]), "replay", r["units"], r["constants"], r["io"], True, r.get("raw_args"))
        print(probs)
        hit = bool(probs)
    elif kind == "program":
        vs = {}
        for c in core.CFG6:
            if "<=>" in r["code"] or "PS(" in r["code"]:
                if c.std != "c++20":
                    continue
            res, _ = core.run_probes(c, [core.Probe(0, r["code"], "accept")], wd, "rp", pre)
            vs[c.name] = res[0][0]
        print(vs)
        hit = len(set(vs.values())) > 1
    elif kind in ("surface-build", "odr") and r.get("code"):
        o, bad, err = build_funcs(_cfg(r["config"]), wd, "rp", pre, [("s0", r["code"])], tuple(r.get("flags", [])))
        print(bad, err[-500:])
        hit = o is None or bool(bad)
    elif kind == "surface" and r.get("tag"):
        parts = r["tag"].split("/")
        name, rep, vn = parts[0], parts[1], parts[2]
        cx = len(parts) > 3
        outs = []
        for cs, fl in ((r["ref"], r.get("ref_flags", [])), (r["other"], r.get("other_flags", []))):
            body = [stmt_body(rep, name, dict(SURFACE_STMTS)[name], vn)] + ([stmt_body(rep, name, dict(SURFACE_STMTS)[name], vn, cx=True)] if cx else [])
            fl = [f for f in fl if f != "single-file"]
            o, bad, err = build_funcs(_cfg(cs), wd, "rp", pre, [("s%d" % i, b) for i, b in enumerate(body)], tuple(fl))
            outs.append(o)
        print(outs)
        if cx and r["ref"] == r["other"]:
            ls = [l.split(" ", 1)[1] for l in (outs[0] or "").split("\n") if l]
            hit = len(ls) == 2 and ls[0] != ls[1]
        else:
            hit = outs[0] != outs[1]
    else:
        print("re-run: bin/check C20 --tier quick")
    if hit:
        print("VIOLATION property=C20 replay=%s" % path)
        return 1
    return 0
