"""C11 — magnitude evaluation and classification are exact (program-space grid)."""
import os
from decimal import Decimal
from fractions import Fraction as Fr

from .. import core, model, psx
from ..core import BITS, F3, I8, R11, tmax
from ..sweep34 import cflags
from .c06 import mag_expr

LEVEL = "exploration"

PREAMBLE = r'''
namespace c11 {
template <typename T, bool Int = std::is_integral<T>::value> struct Fmt;
template <typename T> struct Fmt<T, true> {
    static std::string get(T v) { return vf::int_str(v); }
};
template <typename T> struct Fmt<T, false> {
    static std::string get(T v) { char b[96]; std::snprintf(b, sizeof b, "%La", static_cast<long double>(v)); return b; }
};
// get_value<T>(M{}) itself, instantiated exactly when the library says "representable" (public API only)
template <typename T, typename M, bool Rep = au::representable_in<T>(M{})> struct Gv {
    static std::string get() { return "-"; }
};
template <typename T, typename M> struct Gv<T, M, true> {
    static std::string get() { constexpr T v = au::get_value<T>(M{}); return Fmt<T>::get(v); }
};
// outcome / value of the internal detail::get_value_result when that entry point exists; a tree that
// has refactored it away is read through the public API alone (outcome -1 = "not observed")
template <typename T, typename M, typename = void> struct Gvr {
    static std::string get() {
        return std::string(au::representable_in<T>(M{}) ? "[0,\"" : "[-1,\"") + Gv<T, M>::get() + "\",";
    }
};
template <typename T, typename M>
struct Gvr<T, M, typename std::enable_if<(sizeof(au::detail::get_value_result<T>(M{}).outcome) > 0)>::type> {
    static std::string get() {
        constexpr auto r = au::detail::get_value_result<T>(M{});
        const int oc = (r.outcome == au::detail::MagRepresentationOutcome::OK) ? 0 : 100 + static_cast<int>(r.outcome);
        return "[" + std::to_string(oc) + ",\"" + Fmt<T>::get(r.value) + "\",";
    }
};
template <typename T, typename M>
std::string vr() {
    return Gvr<T, M>::get() + (au::representable_in<T>(M{}) ? "1" : "0") + ",\"" + Gv<T, M>::get() + "\"]";
}
}
'''
PRE2 = '#include "sweep.hh"\n' + PREAMBLE

DIGITS = {"float": 24, "double": 53, "long double": 64}
MINEXP = {"float": -126, "double": -1022, "long double": -16382}   # exponent of the smallest normal
MAXEXP = {"float": 128, "double": 1024, "long double": 16384}      # max = (1-2^-digits) * 2^MAXEXP


def fmax(t):
    return (1 - Fr(1, 2 ** DIGITS[t])) * Fr(2) ** MAXEXP[t]


def fmin_normal(t):
    return Fr(2) ** MINEXP[t]


def denorm_min(t):
    return Fr(2) ** (MINEXP[t] - (DIGITS[t] - 1))


def parse_hexfloat(s):
    s = s.strip()
    if s in ("inf", "-inf", "nan", "-nan"):
        return None
    neg = s.startswith("-")
    if neg:
        s = s[1:]
    assert s.startswith("0x"), s
    mant, exp = s[2:].split("p")
    if "." in mant:
        ip, fp = mant.split(".")
    else:
        ip, fp = mant, ""
    v = Fr(int(ip + fp, 16), 16 ** len(fp)) * Fr(2) ** int(exp)
    return -v if neg else v


def approx_log2(m):
    """log2 of the exact value as Decimal (for range classification far from the limits)."""
    r = Decimal(0)
    ln2 = Decimal(2).ln()
    for b, e in m.items():
        base = model.PI if b == "pi" else Decimal(b)
        r += (base.ln() / ln2) * Decimal(e.numerator) / Decimal(e.denominator)
    return r


def exact_value(m):
    """Fraction if rational and not astronomically large, else Decimal (90 digits) or None when only log2 is usable."""
    if model.mag_is_rational(m):
        if abs(approx_log2(m)) < 40000:
            return model.mag_fraction(m)
        return None
    if abs(approx_log2(m)) < 40000:
        return model.mag_decimal(m)
    return None


def ulp(t, v):
    """ulp of floating type t at positive value v (Fraction)."""
    import math
    e = v.numerator.bit_length() - v.denominator.bit_length()
    if Fr(2) ** e > v:
        e -= 1
    if Fr(2) ** (e + 1) <= v:
        e += 1
    e = max(e, MINEXP[t])
    return Fr(2) ** (e - (DIGITS[t] - 1))


# extra spellings of the two 64-bit integer types (distinct types from int64_t/uint64_t on LP64)
ALIAS = {"long long": "int64_t", "unsigned long long": "uint64_t"}
TYPES = R11 + sorted(ALIAS)


def base_t(t):
    return ALIAS.get(t, t)


def smooth_near(limit, primes=(3, 5, 7)):
    """largest product of powers of `primes` (each exponent >= 1) that is < limit, and the smallest >= limit."""
    vals = set()

    def rec(i, v):
        if i == len(primes):
            vals.add(v)
            return
        v *= primes[i]
        while v < limit * primes[-1] * 2:
            rec(i + 1, v)
            v *= primes[i]
    rec(0, 1)
    below = [v for v in vals if v < limit]
    above = [v for v in vals if v >= limit]
    return ([max(below)] if below else []) + ([min(above)] if above else [])


def power_straddle(base, lo_bound):
    """exponents k, k+1 with base^-k >= lo_bound > base^-(k+1) (lo_bound a positive Fraction < 1)."""
    k = 0
    v = Fr(1)
    while v / base >= lo_bound:
        v /= base
        k += 1
    return [k, k + 1]


def grid(tier):
    primes = [2, 3, 5, 7, 127, 2 ** 31 - 1, 2 ** 61 - 1, 2 ** 64 - 59]
    exps = [1, -1, 2, -2, 3, 4, -4, 8, 16, -16, 31, 32, -32, 63, 64, -64, 127, 128, -128, 1023, 1024, -1024]
    fr = [Fr(1, 2), Fr(-1, 2), Fr(1, 3), Fr(2, 3), Fr(3, 2), Fr(-3, 2)]
    fr2 = [Fr(1, 4), Fr(3, 4), Fr(-5, 4), Fr(1, 5), Fr(7, 5), Fr(-2, 5), Fr(5, 3), Fr(7, 2)]
    out = [{}]
    for p in primes:
        for e in exps:
            if tier == "quick" and p > 7 and abs(e) > 64:
                continue
            out.append({p: Fr(e)})
        for e in fr:
            if p <= 7 or tier == "thorough":
                out.append({p: e})
        for e in fr2:
            if p == 3 or (tier == "thorough" and p in (2, 5, 127, 2 ** 64 - 59)):
                out.append({p: e})
    for e in (16383, 16384, -16382, -16383, -16445, -16446, 16385, -1074, -1075, -149, -150, -1022, -126):
        out.append({2: Fr(e)})
    for c in (1, -1, 2, Fr(1, 2), -3, Fr(2, 3), Fr(-1, 2), Fr(3, 2), Fr(1, 5)):
        out.append({"pi": Fr(c)})
    # products of 2-3 base powers
    combos = [({2: Fr(16384)}, {3: Fr(-1)}), ({2: Fr(16384)}, {3: Fr(-10000)}), ({2: Fr(1024)}, {5: Fr(-1)}), ({2: Fr(128)}, {3: Fr(-1)}),
              ({2: Fr(3)}, {3: Fr(2)}), ({2: Fr(-3)}, {5: Fr(4)}), ({2: Fr(1, 2)}, {3: Fr(1)}), ({2: Fr(3, 2)}, {3: Fr(-1)}),
              ({2: Fr(1)}, {"pi": Fr(1)}), ({5: Fr(-1)}, {"pi": Fr(1)}), ({3: Fr(1, 2)}, {"pi": Fr(-1)}), ({2: Fr(62)}, {3: Fr(1)}),
              ({2: Fr(63)}, {3: Fr(-1)}), ({3: Fr(40)}, {5: Fr(-27)}), ({2: Fr(10)}, {5: Fr(10)}), ({2: Fr(-50)}, {5: Fr(-50)}),
              ({2: Fr(-400)}, {5: Fr(-400)}), ({2: Fr(38)}, {5: Fr(38)}), ({2: Fr(39)}, {5: Fr(39)}), ({2: Fr(308)}, {5: Fr(308)}),
              ({2: Fr(309)}, {5: Fr(309)}), ({2: Fr(4932)}, {5: Fr(4932)}), ({2: Fr(4933)}, {5: Fr(4933)}), ({2: Fr(-45)}, {5: Fr(-45)}),
              ({2: Fr(-46)}, {5: Fr(-46)}), ({2: Fr(-324)}, {5: Fr(-324)}), ({2: Fr(-323)}, {5: Fr(-323)}), ({7: Fr(2)}, {127: Fr(-1)}, {"pi": Fr(2)}),
              ({2: Fr(2)}, {3: Fr(-1)}, {5: Fr(1, 2)})]
    for c in combos:
        m = {}
        for x in c:
            m = model.vmul(m, x)
        out.append(m)
    # integers around each integral type's limits, by true factorisation
    for t in I8:
        for v in (tmax(t) - 1, tmax(t), tmax(t) + 1, 2 * tmax(t) + 1):
            if v < 2 ** 64 * 4:
                out.append(model.mag_int(v))
    # --- round 3 ---------------------------------------------------------------------------------
    # (a) rational powers of 2 straddling FLT/DBL/LDBL max and min through a root, incl. huge numerators
    for n in (255, 257, 2047, 2049, -251, -253, -2043, -2045, 8191, 16383, 20001, 32767, 32769, -32763, -32765):
        out.append({2: Fr(n, 2)})
    for e in (Fr(383, 3), Fr(385, 3), Fr(3071, 3), Fr(3073, 3), Fr(5116, 5), Fr(5121, 5), Fr(511, 4), Fr(513, 4), Fr(49151, 3), Fr(49153, 3)):
        out.append({2: e})
    # (b) irrational / non-power-of-two values next to each floating maximum and minimum normal
    for k in (126, 127, 1022, 1023, 16382, 16383, -127, -128, -150, -1023, -1024, -16383, -16384):
        out.append({2: Fr(k), "pi": Fr(1)})
    for k in (127, 1023, 16383):
        out.append({2: Fr(k), 3: Fr(1, 2)})      # sqrt3 * 2^k < max
        out.append({2: Fr(k), 5: Fr(1, 2)})      # sqrt5 * 2^k > max
    for top in (128, 1024, 16384):
        out.append({2: Fr(top - 65), 3: Fr(41)})   # 3^41/2^65 = 0.9886 -> just below 2^top
        out.append({2: Fr(top - 19), 3: Fr(12)})   # 3^12/2^19 = 1.0136 -> just above 2^top
    # (c) decimal / ternary straddles of every floating minimum normal and half the smallest denormal
    for e in (-37, -38, -307, -308, -4931, -4932, -4950, -4951, -4952):
        out.append({2: Fr(e), 5: Fr(e)})
    for t in F3:
        for b in (3, 7):
            for k in power_straddle(b, fmin_normal(t) * (1 + Fr(8, 2 ** DIGITS[t]))) + power_straddle(b, denorm_min(t) / 2):
                out.append({b: Fr(-k)})
    out.append({2: Fr(-16384), 3: Fr(10000)})      # mirror image of F8 (2^-534 in all)
    # exactly max(T) = (2^digits - 1) * 2^(MAXEXP - digits): in range by definition, and every partial product is exact
    for t in F3:
        out.append(model.vmul(model.mag_int(2 ** DIGITS[t] - 1), {2: Fr(MAXEXP[t] - DIGITS[t])}))
    # (d) 3-5-7-smooth (and 2-3-5-7-smooth) integers next to every integral limit: the running product
    #     of base powers reaches the limit only with the last factor
    for k in (7, 8, 15, 16, 31, 32, 63, 64):
        for ps in ((3, 5, 7), (2, 3, 5, 7)) if (tier == "thorough" or k >= 31) else ((3, 5, 7),):
            for v in smooth_near(2 ** k, ps):
                out.append(model.mag_int(v))
    if tier == "thorough":
        for k in (7, 8, 15, 16, 31, 32, 63, 64):
            for ps in ((3, 11), (5, 13, 17), (2, 127), (7, 2 ** 31 - 1)):
                for v in smooth_near(2 ** k, ps):
                    out.append(model.mag_int(v))
    seen, res = set(), []
    for m in out:
        m = {b: e for b, e in m.items() if e != 0}
        k = model.mag_key(m)
        if k not in seen:
            seen.add(k)
            res.append(m)
    return res


# differently constructed magnitudes: (expr a, model a, expr b, model b); == / != / type identity must
# all follow the exact values
_PI = "au::Magnitude<au::Pi>{}"
EQ_PAIRS = [
    ("au::mag<6>()", {2: 1, 3: 1}, "au::mag<2>() * au::mag<3>()", {2: 1, 3: 1}),
    ("au::mag<2>() * au::mag<3>()", {2: 1, 3: 1}, "au::mag<3>() * au::mag<2>()", {2: 1, 3: 1}),
    ("au::pow<2>(au::mag<2>())", {2: 2}, "au::mag<4>()", {2: 2}),
    ("au::root<2>(au::mag<4>())", {2: 1}, "au::mag<2>()", {2: 1}),
    ("au::pow<2>(au::root<2>(au::mag<5>()))", {5: 1}, "au::mag<5>()", {5: 1}),
    ("au::pow<3>(au::root<3>(au::mag<2>()))", {2: 1}, "au::mag<2>()", {2: 1}),
    ("au::root<4>(au::mag<4>())", {2: Fr(1, 2)}, "au::root<2>(au::mag<2>())", {2: Fr(1, 2)}),
    ("au::root<2>(au::mag<8>())", {2: Fr(3, 2)}, "au::mag<2>() * au::root<2>(au::mag<2>())", {2: Fr(3, 2)}),
    ("au::mag<7>() / au::mag<7>()", {}, "au::ONE", {}),
    ("au::pow<0>(au::mag<7>())", {}, "au::ONE", {}),
    (_PI + " / " + _PI, {}, "au::ONE", {}),
    ("au::mag<4>() / au::mag<6>()", {2: 1, 3: -1}, "au::mag<2>() / au::mag<3>()", {2: 1, 3: -1}),
    ("au::mag<12>() / au::mag<18>()", {2: 1, 3: -1}, "au::mag<10>() / au::mag<15>()", {2: 1, 3: -1}),
    ("au::pow<-1>(au::mag<2>())", {2: -1}, "au::ONE / au::mag<2>()", {2: -1}),
    ("au::mag<18446744073709551557u>() * au::ONE", {2 ** 64 - 59: 1}, "au::mag<18446744073709551557u>()", {2 ** 64 - 59: 1}),
    ("au::pow<2>(" + _PI + ") / " + _PI, {"pi": 1}, _PI, {"pi": 1}),
    ("au::mag<1000>()", {2: 3, 5: 3}, "au::pow<3>(au::mag<10>())", {2: 3, 5: 3}),
    # distinct, some of them close in value
    ("au::mag<2>()", {2: 1}, "au::mag<3>()", {3: 1}),
    ("au::mag<2>()", {2: 1}, "au::pow<2>(au::mag<2>())", {2: 2}),
    ("au::mag<2>()", {2: 1}, "au::root<2>(au::mag<2>())", {2: Fr(1, 2)}),
    ("au::mag<2>()", {2: 1}, "au::pow<-1>(au::mag<2>())", {2: -1}),
    ("au::mag<6>()", {2: 1, 3: 1}, "au::mag<2>()", {2: 1}),
    ("au::mag<6>()", {2: 1, 3: 1}, "au::mag<3>()", {3: 1}),
    ("au::mag<6>()", {2: 1, 3: 1}, "au::mag<2>() / au::mag<3>()", {2: 1, 3: -1}),
    (_PI, {"pi": 1}, "au::mag<355>() / au::mag<113>()", {5: 1, 71: 1, 113: -1}),
    (_PI, {"pi": 1}, "au::mag<3>()", {3: 1}),
    ("au::pow<2>(" + _PI + ")", {"pi": 2}, "au::mag<10>()", {2: 1, 5: 1}),
    ("au::root<2>(au::mag<2>())", {2: Fr(1, 2)}, "au::mag<99>() / au::mag<70>()", {3: 2, 11: 1, 2: -1, 5: -1, 7: -1}),
    ("au::mag<18446744073709551557u>()", {2 ** 64 - 59: 1}, "au::mag<18446744073709551558u>()", model.mag_int(2 ** 64 - 58)),
    ("au::ONE", {}, "au::mag<2>()", {2: 1}),
    # distinct prime bases that are adjacent as doubles (all four are prime; 2^64-59 and 2^64-83 both round to 2^64,
    # 2^63-25 and 2^63+29 both to 2^63, 2^53+5 and 2^53+17... are exact neighbours): they must stay distinct bases
    ("au::mag<18446744073709551557u>() / au::mag<18446744073709551533u>()", {2 ** 64 - 59: 1, 2 ** 64 - 83: -1}, "au::ONE", {}),
    ("au::mag<18446744073709551557u>() * au::mag<18446744073709551533u>()", {2 ** 64 - 59: 1, 2 ** 64 - 83: 1},
     "au::mag<18446744073709551533u>() * au::mag<18446744073709551557u>()", {2 ** 64 - 59: 1, 2 ** 64 - 83: 1}),
    ("au::mag<18446744073709551557u>() * au::mag<18446744073709551533u>()", {2 ** 64 - 59: 1, 2 ** 64 - 83: 1},
     "au::pow<2>(au::mag<18446744073709551557u>())", {2 ** 64 - 59: 2}),
    ("au::mag<9223372036854775783u>() / au::mag<9223372036854775837u>()", {2 ** 63 - 25: 1, 2 ** 63 + 29: -1}, "au::ONE", {}),
    ("au::root<2>(au::mag<9223372036854775783u>() * au::mag<9223372036854775837u>())", {2 ** 63 - 25: Fr(1, 2), 2 ** 63 + 29: Fr(1, 2)},
     "au::mag<9223372036854775783u>()", {2 ** 63 - 25: 1}),
    ("au::mag<9007199254740997u>() * au::ONE", {2 ** 53 + 5: 1}, "au::mag<9007199254740997u>()", {2 ** 53 + 5: 1}),
]


def expected_rep(t, m):
    """-> (verdict, exact) with verdict in True / False / None (don't care)."""
    t = base_t(t)
    lg = approx_log2(m)
    if t in I8:
        if not model.mag_is_integer(m) and m:
            return False, None
        if lg > 70:
            return False, None
        v = model.mag_fraction(m)
        return (v <= tmax(t)), v
    # floating
    hi, lo_n, lo_d = MAXEXP[t], MINEXP[t], MINEXP[t] - (DIGITS[t] - 1)
    if lg > hi + 1:
        return False, None
    if lg < lo_d - 2:
        return False, None
    ev = exact_value(m)
    if ev is None:
        return None, None
    evf = ev if isinstance(ev, Fr) else Fr(ev)
    mx = fmax(t)
    if evf == mx:
        return True, evf            # exactly max(T) lies within the range (no rounding involved anywhere)
    if evf > mx * (1 + Fr(8, 2 ** DIGITS[t])):
        return False, evf
    if evf > mx * (1 - Fr(8, 2 ** DIGITS[t])):
        return None, evf
    if evf >= fmin_normal(t) * (1 + Fr(8, 2 ** DIGITS[t])):
        return True, evf
    if evf < denorm_min(t) / 2:
        return False, evf
    return None, evf          # denormal range: either answer, but a positive value close to exact if "yes"


def light_literal(m):
    """integer magnitude below 2^64 whose mag<N>() literal needs no Pollard rho at compile time -> N, else None."""
    if not m or not model.mag_is_integer(m) or approx_log2(m) >= 64:
        return None
    if sum(int(e) for b, e in m.items() if b > 2 ** 20) >= 2:
        return None
    v = model.mag_fraction(m)
    return int(v) if 1 < v < 2 ** 64 else None


def check(run):
    tier = run.tier
    mags = grid(tier)
    recs, meta = [], {}
    for rid, m in enumerate(mags):
        M = "std::decay_t<decltype(%s)>" % mag_expr(m)
        stm = ['using M = %s;' % M,
               'vf_kv("self", vf::MagJson<M>::get());',
               'vf_b("is_integer", au::is_integer(M{})); vf_b("is_rational", au::is_rational(M{}));',
               'vf_kv("num", vf::MagJson<decltype(au::numerator(M{}))>::get());',
               'vf_kv("den", vf::MagJson<decltype(au::denominator(M{}))>::get());',
               'vf_kv("ipart", vf::MagJson<decltype(au::integer_part(M{}))>::get());',
               'vf_b("eq_self", M{} == M{}); vf_b("eq_recomposed", (au::numerator(M{}) / au::denominator(M{})) == M{});',
               'vf_b("ne_double", M{} == (M{} * au::mag<2>()));',
               'vf_b("neq_self", M{} != M{}); vf_b("neq_double", M{} != (M{} * au::mag<2>()));',
               'vf_b("eq_sq_rt", au::root<2>(au::pow<2>(M{})) == M{}); vf_b("eq_div_self", (M{} / M{}) == au::ONE);']
        lit = light_literal(m)
        if lit is not None:
            stm.append('vf_b("lit", std::is_same<M, std::decay_t<decltype(au::mag<%du>())>>::value);' % lit)
        vr = ", ".join('c11::vr<%s, M>()' % t for t in TYPES)
        stm.append('{ const std::string r[] = {%s}; std::string s = "["; for (int i = 0; i < %d; ++i) { if (i) s += ","; s += r[i]; } vf_kv("vr", s + "]"); }' % (vr, len(TYPES)))
        recs.append((rid, ["{"] + stm + ["}"]))
        meta[rid] = m
    eq0 = len(recs)
    for i, (ea, ma, eb, mb) in enumerate(EQ_PAIRS):
        stm = ['using A = std::decay_t<decltype(%s)>; using B = std::decay_t<decltype(%s)>;' % (ea, eb),
               'vf_kv("a", vf::MagJson<A>::get()); vf_kv("b", vf::MagJson<B>::get());',
               'vf_b("eq", A{} == B{}); vf_b("ne", A{} != B{}); vf_b("eq_r", B{} == A{}); vf_b("ne_r", B{} != A{});',
               'vf_b("same", std::is_same<A, B>::value);']
        recs.append((eq0 + i, ["{"] + stm + ["}"]))
    cfgs = core.CORNERS if tier == "quick" else core.CFG6
    evals = 0
    dont_care = 0
    both = {}
    counters = {"gv_result_internal_api_absent": 0, "composite_literals": 0, "equality_pairs": len(EQ_PAIRS)}
    gv_probes = []   # (cfg-independent) get_value<T> accept / reject programs decided from the model
    for rid, m in enumerate(mags):
        for t in TYPES:
            verdict, ev = expected_rep(t, m)
            if verdict is None:
                continue
            code = "constexpr auto v = au::get_value<%s>(%s); (void)v;" % (t, mag_expr(m))
            gv_probes.append(core.Probe((rid, t), code, "accept" if verdict else "reject", {"m": m, "t": t}))
    skipped, cost, nprobes = [], 0.0, 0
    cfgs = list(core.CORNERS) + [c for c in cfgs if c not in core.CORNERS]
    for cfg in list(cfgs):
        t_start = run.elapsed()
        if run.time_left() < 1.3 * cost + 30:
            skipped.append(str(cfg))
            cfgs.remove(cfg)
            continue
        res, failed = psx.run_dump(cfg, recs, os.path.join(run.wd, cfg.name), "c11", PRE2, flags=cflags(cfg),
                                   chunk=max(10, len(recs) // (core.NCPU * 2) + 1))
        for r, diag in failed.items():
            mk = str(model.mag_key(meta[r])) if r < eq0 else "pair:%s|%s" % EQ_PAIRS[r - eq0][0:3:2]
            key = "C11:does-not-compile:%s" % mk
            run.violation(key, "%s: classification/representability/equality queries on magnitude %s do not compile: %s" % (cfg, mk, diag),
                          run.write_replay(key, {"kind": "program", "config": str(cfg), "stmts": recs[r][1], "must_compile": True}))
        for r, o in res.items():
            if r >= eq0:
                ea, ma, eb, mb = EQ_PAIRS[r - eq0]
                ma, mb = [{b: Fr(e) for b, e in x.items() if e != 0} for x in (ma, mb)]
                evals += 5
                key = "C11:equality-pair::%s|%s" % (ea, eb)
                want = model.mag_key(ma) == model.mag_key(mb)
                got = {k: o[k] for k in ("eq", "ne", "eq_r", "ne_r", "same")}
                bad = []
                for side, mm in (("a", ma), ("b", mb)):
                    if model.mag_key(model.mag_from_readout(o[side])) != model.mag_key(mm):
                        bad.append("%s reads out as %s, exact %s" % ((ea, eb)[side == "b"], o[side], model.mag_key(mm)))
                if got != {"eq": want, "ne": not want, "eq_r": want, "ne_r": not want, "same": want}:
                    bad.append("==/!=/type identity of `%s` and `%s` are %s; the exact values are %s" % (ea, eb, got, "equal" if want else "different"))
                both.setdefault("equality", set()).add(want)
                if bad:
                    run.violation(key, "%s: %s" % (cfg, "; ".join(bad)),
                                  run.write_replay(key, {"kind": "program", "config": str(cfg), "stmts": recs[r][1], "observed": o}))
                continue
            m = meta[r]
            mk = str(model.mag_key(m))

            def viol(kind, what, t=""):
                key = "C11:%s:%s:%s" % (kind, t, mk)
                run.violation(key, "%s: %s" % (cfg, what),
                              run.write_replay(key, {"kind": "program", "config": str(cfg), "stmts": recs[r][1], "observed": o, "magnitude": mk}))
            evals += 1
            if model.mag_key(model.mag_from_readout(o["self"])) != model.mag_key(m):
                viol("construction", "magnitude expression %s reads out as %s" % (mk, o["self"]))
                continue
            if o["is_integer"] != (model.mag_is_integer(m) or not m):
                viol("is_integer", "is_integer(%s) = %s" % (mk, o["is_integer"]))
            if o["is_rational"] != model.mag_is_rational(m):
                viol("is_rational", "is_rational(%s) = %s" % (mk, o["is_rational"]))
            num = {b: e for b, e in m.items() if e > 0}
            den = {b: -e for b, e in m.items() if e < 0}
            ip = {b: Fr(e.numerator // e.denominator) for b, e in m.items() if b != "pi" and e >= 1}
            for k, want in (("num", num), ("den", den), ("ipart", ip)):
                if model.mag_key(model.mag_from_readout(o[k])) != model.mag_key(want):
                    viol(k, "%s(%s) = %s, expected %s" % (k, mk, o[k], model.mag_key(want)))
            eqs = {k: o[k] for k in ("eq_self", "eq_recomposed", "ne_double", "neq_self", "neq_double", "eq_sq_rt", "eq_div_self")}
            if eqs != {"eq_self": True, "eq_recomposed": True, "ne_double": False, "neq_self": False, "neq_double": True,
                       "eq_sq_rt": True, "eq_div_self": True}:
                viol("equality", "magnitude equality misbehaves for %s: %s" % (mk, eqs))
            if "lit" in o:
                counters["composite_literals"] += 1
                if not o["lit"]:
                    viol("literal", "mag<%d>() is not the same type as the product of its prime powers %s" % (light_literal(m), mk))
            for t, (outcome, val, rep, gv) in zip(TYPES, o["vr"]):
                evals += 1
                verdict, ev = expected_rep(t, m)
                rep = bool(rep)
                if outcome < 0:
                    counters["gv_result_internal_api_absent"] += 1
                    val = gv
                elif rep != (outcome == 0):
                    viol("representable-vs-outcome", "representable_in<%s>(%s)=%s but get_value_result outcome=%d" % (t, mk, rep, outcome), t)
                both.setdefault(t, set()).add(rep)
                if verdict is None:
                    dont_care += 1
                elif rep != verdict:
                    viol("representable_in", "representable_in<%s>(%s) is %s; exact value %s %s within the type's range" % (
                        t, mk, rep, ("~2^%.1f" % approx_log2(m)), "lies" if verdict else "does not lie"), t)
                    continue
                if rep:
                    if gv != val:
                        viol("get_value-vs-result", "get_value<%s>(%s) returns %s but get_value_result<%s> holds %s" % (t, mk, gv, t, val), t)
                    if base_t(t) in I8:
                        if ev is not None and int(gv) != ev:
                            viol("value", "get_value<%s>(%s) = %s, exact %s" % (t, mk, gv, ev), t)
                    else:
                        got = parse_hexfloat(gv)
                        if ev is None:
                            ev = exact_value(m)
                            ev = None if ev is None else Fr(ev)
                        if got is None or got <= 0:
                            viol("value-not-positive", "get_value<%s>(%s) = %s (must be strictly positive and finite)" % (t, mk, gv), t)
                        elif ev is not None:
                            if abs(got - ev) > 4 * ulp(t, ev):
                                nulp = abs(got - ev) / ulp(t, ev)
                                nulp_s = "%.3g" % float(nulp) if nulp < 10 ** 300 else "about 10^%d" % (len(str(int(nulp))) - 1)
                                viol("value-off-by-le64ulp" if nulp <= 64 else "value", "get_value<%s>(%s) = %s differs from the exact value by %s ulp" % (
                                    t, mk, gv, nulp_s), t)
        # get_value<T> as a program: every predicted-reject pair; predicted-accept pairs are already instantiated by the
        # dump above (c11::Gv) whenever the library says "representable", so quick re-probes only a 1/9 slice of them plus
        # every pair on which the dump disagreed with the model (kept in batches of their own)
        odd = set((r, t) for r, o in res.items() if r < eq0 for t, x in zip(TYPES, o["vr"]) if bool(x[2]) != expected_rep(t, meta[r])[0])
        sel = [p for i, p in enumerate(gv_probes) if p.expect == "reject" or tier != "quick" or i % 9 == 0 or p.pid in odd]
        pres = {}
        for part, tag in (([p for p in sel if p.pid not in odd], "gv"), ([p for p in sel if p.pid in odd], "gvo")):
            if part:
                pres.update(core.run_probes(cfg, part, os.path.join(run.wd, tag + "_" + cfg.name), tag, PRE2, flags=cflags(cfg))[0])
        nprobes += len(sel)
        for p in sel:
            v, diag = pres[p.pid]
            evals += 1
            if v != p.expect:
                mk = str(model.mag_key(p.meta["m"]))
                key = "C11:get_value-%s:%s:%s" % (v, p.meta["t"], mk)
                run.violation(key, "%s: get_value<%s>(%s) is %sed by the compiler; the exact value is %s (%s)" % (
                    cfg, p.meta["t"], mk, v, "representable" if p.expect == "accept" else "not representable", diag[:200]),
                    run.write_replay(key, {"kind": "program", "config": str(cfg), "code": p.code, "expected": p.expect, "observed": v}))
        cost = max(cost, run.elapsed() - t_start)
    if skipped:
        counters["configs_skipped_for_deadline"] = skipped
    run.cov.update({
        "evaluations": evals, "programs": len(recs) * len(cfgs) + nprobes, "magnitudes": len(mags), "types": len(TYPES),
        "get_value_probes": nprobes // max(1, len(cfgs)), "dont_care": dont_care,
        "distinct_nontrivial": sum(1 for t, s in both.items() if len(s) == 2),
        "rule": "magnitudes = products of <=3 base powers over primes up to 2^64-59 and pi with integer/fractional exponents (denominators 2..5, numerators up to 49153) "
                "straddling every type's limits (2^7..2^64 incl. 3-5-7-smooth neighbours of each limit, FLT/DBL/LDBL max, min normal, half the smallest denormal, reached by powers "
                "of 2, 3, 7, 10, by square/cube/4th/5th roots and by pi*2^k, sqrt3*2^k, 3^a*2^b) x 13 arithmetic types (R11 + long long, unsigned long long); per (magnitude, type): "
                "representable_in, get_value<T> itself (instantiated exactly when the library says representable; compared bit-for-bit with get_value_result where that internal "
                "entry point exists), classification and split traits read out and compared with exact big-integer / 90-digit arithmetic; get_value<T> is in addition an "
                "accept/reject probe for every decided (magnitude, type); ==, != and type identity on self / doubled / sqrt(square) / m/m and on an enumerated list of "
                "differently constructed equal and close-but-different magnitudes; mag<N>() literals of composite N against the product of prime powers. "
                "distinct_nontrivial = number of types (plus the equality-pair list) for which both outcomes were observed.",
        "configs": [str(c) for c in cfgs], "exhaustive": not skipped,
        "exhaustive_note": "the stated finite grid is enumerated completely" if not skipped else "configurations skipped to respect the deadline: %s" % skipped,
        "samples": [{"magnitude": str(model.mag_key(m))} for m in mags[:: max(1, len(mags) // 6)]][:6],
    })
    run.cov.update(counters)
    run.assumptions += ["floating representability has don't-care bands within 8 ulp of max(T) and across the denormal range [denorm_min/2, min normal]",
                        "floating values must be strictly positive and within 4 ulp of the exact real (ulp of the target type at the exact value)",
                        "integer_part is judged by the library's documented base-wise definition (product of prime^floor(exponent) over bases with exponent >= 1; pi contributes 1), "
                        "not as floor of the real value",
                        "long long / unsigned long long are judged with the int64_t / uint64_t ranges (LP64)"]


def replay(path):
    import json
    r = json.load(open(path))
    cfg = [c for c in core.CFG6 if str(c) == r.get("config")]
    cfg = cfg[0] if cfg else core.GXX14
    wd = os.path.join(core.BUILD, "C11", "replay")
    if "code" in r:
        res, _ = core.run_probes(cfg, [core.Probe(0, r["code"], r["expected"])], wd, "rp", PRE2, flags=cflags(cfg))
        print("observed:", res[0][0], "expected:", r["expected"])
        if res[0][0] != r["expected"]:
            print("VIOLATION property=C11 replay=%s" % path)
            return 1
        return 0
    res, failed = psx.run_dump(cfg, [(0, r["stmts"])], wd, "rp", PRE2, flags=cflags(cfg))
    print("observed now:", res.get(0), failed)
    if failed or (not r.get("must_compile") and res.get(0) == r.get("observed")):
        print("VIOLATION property=C11 replay=%s" % path)
        return 1
    return 0
