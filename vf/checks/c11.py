"""C11 — magnitude evaluation and classification are exact (program-space grid)."""
import os
from decimal import Decimal
from fractions import Fraction as Fr

from .. import core, model, psx
from ..core import BITS, F3, I8, R11, tmax
from ..sweep34 import cflags
from .c06 import mag_expr

LEVEL = "exploration"

PREAMBLE = r'''
namespace c11 {
template <typename T, bool Int = std::is_integral<T>::value> struct Fmt;
template <typename T> struct Fmt<T, true> {
    static std::string get(T v) { return vf::int_str(v); }
};
template <typename T> struct Fmt<T, false> {
    static std::string get(T v) { char b[96]; std::snprintf(b, sizeof b, "%La", static_cast<long double>(v)); return b; }
};
template <typename T, typename M>
std::string vr() {
    constexpr auto r = au::detail::get_value_result<T>(M{});
    return "[" + std::to_string(static_cast<int>(r.outcome)) + ",\"" + Fmt<T>::get(r.value) + "\"," +
           (au::representable_in<T>(M{}) ? "1" : "0") + "]";
}
}
'''
PRE2 = '#include "sweep.hh"\n' + PREAMBLE

DIGITS = {"float": 24, "double": 53, "long double": 64}
MINEXP = {"float": -126, "double": -1022, "long double": -16382}   # exponent of the smallest normal
MAXEXP = {"float": 128, "double": 1024, "long double": 16384}      # max = (1-2^-digits) * 2^MAXEXP


def fmax(t):
    return (1 - Fr(1, 2 ** DIGITS[t])) * Fr(2) ** MAXEXP[t]


def fmin_normal(t):
    return Fr(2) ** MINEXP[t]


def denorm_min(t):
    return Fr(2) ** (MINEXP[t] - (DIGITS[t] - 1))


def parse_hexfloat(s):
    s = s.strip()
    if s in ("inf", "-inf", "nan", "-nan"):
        return None
    neg = s.startswith("-")
    if neg:
        s = s[1:]
    assert s.startswith("0x"), s
    mant, exp = s[2:].split("p")
    if "." in mant:
        ip, fp = mant.split(".")
    else:
        ip, fp = mant, ""
    v = Fr(int(ip + fp, 16), 16 ** len(fp)) * Fr(2) ** int(exp)
    return -v if neg else v


def approx_log2(m):
    """log2 of the exact value as Decimal (for range classification far from the limits)."""
    r = Decimal(0)
    ln2 = Decimal(2).ln()
    for b, e in m.items():
        base = model.PI if b == "pi" else Decimal(b)
        r += (base.ln() / ln2) * Decimal(e.numerator) / Decimal(e.denominator)
    return r


def exact_value(m):
    """Fraction if rational and not astronomically large, else Decimal (90 digits) or None when only log2 is usable."""
    if model.mag_is_rational(m):
        if abs(approx_log2(m)) < 40000:
            return model.mag_fraction(m)
        return None
    if abs(approx_log2(m)) < 40000:
        return model.mag_decimal(m)
    return None


def ulp(t, v):
    """ulp of floating type t at positive value v (Fraction)."""
    import math
    e = v.numerator.bit_length() - v.denominator.bit_length()
    if Fr(2) ** e > v:
        e -= 1
    if Fr(2) ** (e + 1) <= v:
        e += 1
    e = max(e, MINEXP[t])
    return Fr(2) ** (e - (DIGITS[t] - 1))


def grid(tier):
    primes = [2, 3, 5, 7, 127, 2 ** 31 - 1, 2 ** 61 - 1, 2 ** 64 - 59]
    exps = [1, -1, 2, -2, 3, 4, -4, 8, 16, -16, 31, 32, -32, 63, 64, -64, 127, 128, -128, 1023, 1024, -1024]
    fr = [Fr(1, 2), Fr(-1, 2), Fr(1, 3), Fr(2, 3), Fr(3, 2), Fr(-3, 2)]
    out = [{}]
    for p in primes:
        for e in exps:
            if tier == "quick" and p > 7 and abs(e) > 64:
                continue
            out.append({p: Fr(e)})
        for e in fr:
            if p <= 7 or tier == "thorough":
                out.append({p: e})
    for e in (16383, 16384, -16382, -16383, -16445, -16446, 16385, -1074, -1075, -149, -150, -1022, -126):
        out.append({2: Fr(e)})
    for c in (1, -1, 2, Fr(1, 2), -3):
        out.append({"pi": Fr(c)})
    # products of 2-3 base powers
    combos = [({2: Fr(16384)}, {3: Fr(-1)}), ({2: Fr(16384)}, {3: Fr(-10000)}), ({2: Fr(1024)}, {5: Fr(-1)}), ({2: Fr(128)}, {3: Fr(-1)}),
              ({2: Fr(3)}, {3: Fr(2)}), ({2: Fr(-3)}, {5: Fr(4)}), ({2: Fr(1, 2)}, {3: Fr(1)}), ({2: Fr(3, 2)}, {3: Fr(-1)}),
              ({2: Fr(1)}, {"pi": Fr(1)}), ({5: Fr(-1)}, {"pi": Fr(1)}), ({3: Fr(1, 2)}, {"pi": Fr(-1)}), ({2: Fr(62)}, {3: Fr(1)}),
              ({2: Fr(63)}, {3: Fr(-1)}), ({3: Fr(40)}, {5: Fr(-27)}), ({2: Fr(10)}, {5: Fr(10)}), ({2: Fr(-50)}, {5: Fr(-50)}),
              ({2: Fr(-400)}, {5: Fr(-400)}), ({2: Fr(38)}, {5: Fr(38)}), ({2: Fr(39)}, {5: Fr(39)}), ({2: Fr(308)}, {5: Fr(308)}),
              ({2: Fr(309)}, {5: Fr(309)}), ({2: Fr(4932)}, {5: Fr(4932)}), ({2: Fr(4933)}, {5: Fr(4933)}), ({2: Fr(-45)}, {5: Fr(-45)}),
              ({2: Fr(-46)}, {5: Fr(-46)}), ({2: Fr(-324)}, {5: Fr(-324)}), ({2: Fr(-323)}, {5: Fr(-323)}), ({7: Fr(2)}, {127: Fr(-1)}, {"pi": Fr(2)}),
              ({2: Fr(2)}, {3: Fr(-1)}, {5: Fr(1, 2)})]
    for c in combos:
        m = {}
        for x in c:
            m = model.vmul(m, x)
        out.append(m)
    # integers around each integral type's limits, by true factorisation
    for t in I8:
        for v in (tmax(t) - 1, tmax(t), tmax(t) + 1, 2 * tmax(t) + 1):
            if v < 2 ** 64 * 4:
                out.append(model.mag_int(v))
    seen, res = set(), []
    for m in out:
        k = model.mag_key(m)
        if k not in seen:
            seen.add(k)
            res.append(m)
    return res


def expected_rep(t, m):
    """-> (verdict, exact) with verdict in True / False / None (don't care)."""
    lg = approx_log2(m)
    if t in I8:
        if not model.mag_is_integer(m) and m:
            return False, None
        if lg > 70:
            return False, None
        v = model.mag_fraction(m)
        return (v <= tmax(t)), v
    # floating
    hi, lo_n, lo_d = MAXEXP[t], MINEXP[t], MINEXP[t] - (DIGITS[t] - 1)
    if lg > hi + 1:
        return False, None
    if lg < lo_d - 2:
        return False, None
    ev = exact_value(m)
    if ev is None:
        return None, None
    evf = ev if isinstance(ev, Fr) else Fr(ev)
    mx = fmax(t)
    if evf > mx * (1 + Fr(8, 2 ** DIGITS[t])):
        return False, evf
    if evf > mx * (1 - Fr(8, 2 ** DIGITS[t])):
        return None, evf
    if evf >= fmin_normal(t) * (1 + Fr(8, 2 ** DIGITS[t])):
        return True, evf
    if evf < denorm_min(t) / 2:
        return False, evf
    return None, evf          # denormal range: either answer, but a positive value close to exact if "yes"


def check(run):
    tier = run.tier
    mags = grid(tier)
    recs, meta = [], {}
    for rid, m in enumerate(mags):
        M = "std::decay_t<decltype(%s)>" % mag_expr(m)
        stm = ['using M = %s;' % M,
               'vf_kv("self", vf::MagJson<M>::get());',
               'vf_b("is_integer", au::is_integer(M{})); vf_b("is_rational", au::is_rational(M{}));',
               'vf_kv("num", vf::MagJson<decltype(au::numerator(M{}))>::get());',
               'vf_kv("den", vf::MagJson<decltype(au::denominator(M{}))>::get());',
               'vf_kv("ipart", vf::MagJson<decltype(au::integer_part(M{}))>::get());',
               'vf_b("eq_self", M{} == M{}); vf_b("eq_recomposed", (au::numerator(M{}) / au::denominator(M{})) == M{});',
               'vf_b("ne_double", M{} == (M{} * au::mag<2>()));']
        vr = ", ".join('c11::vr<%s, M>()' % t for t in R11)
        stm.append('{ const std::string r[] = {%s}; std::string s = "["; for (int i = 0; i < %d; ++i) { if (i) s += ","; s += r[i]; } vf_kv("vr", s + "]"); }' % (vr, len(R11)))
        recs.append((rid, ["{"] + stm + ["}"]))
        meta[rid] = m
    cfgs = core.CORNERS if tier == "quick" else core.CFG6
    evals = 0
    dont_care = 0
    both = {}
    gv_probes = []   # (cfg-independent) get_value<T> accept / reject programs decided from the model
    for rid, m in enumerate(mags):
        for t in R11:
            verdict, ev = expected_rep(t, m)
            if verdict is None:
                continue
            code = "constexpr auto v = au::get_value<%s>(%s); (void)v;" % (t, mag_expr(m))
            gv_probes.append(core.Probe((rid, t), code, "accept" if verdict else "reject", {"m": m, "t": t}))
    if tier == "quick":
        gv_probes = [p for i, p in enumerate(gv_probes) if p.expect == "reject" and i % 5 == 0 or p.expect == "accept" and i % 9 == 0]
    for cfg in cfgs:
        res, failed = psx.run_dump(cfg, recs, os.path.join(run.wd, cfg.name), "c11", PRE2, flags=cflags(cfg),
                                   chunk=max(10, len(recs) // (core.NCPU * 2) + 1))
        for r, diag in failed.items():
            run.violation("C11:does-not-compile:%s" % str(model.mag_key(meta[r])),
                          "%s: classification/representability queries on magnitude %s do not compile: %s" % (cfg, model.mag_key(meta[r]), diag))
        for r, o in res.items():
            m = meta[r]
            mk = str(model.mag_key(m))

            def viol(kind, what, t=""):
                key = "C11:%s:%s:%s" % (kind, t, mk)
                run.violation(key, "%s: %s" % (cfg, what),
                              run.write_replay(key, {"kind": "program", "config": str(cfg), "stmts": recs[r][1], "observed": o, "magnitude": mk}))
            evals += 1
            if model.mag_key(model.mag_from_readout(o["self"])) != model.mag_key(m):
                viol("construction", "magnitude expression %s reads out as %s" % (mk, o["self"]))
                continue
            if o["is_integer"] != (model.mag_is_integer(m) or not m):
                viol("is_integer", "is_integer(%s) = %s" % (mk, o["is_integer"]))
            if o["is_rational"] != model.mag_is_rational(m):
                viol("is_rational", "is_rational(%s) = %s" % (mk, o["is_rational"]))
            num = {b: e for b, e in m.items() if e > 0}
            den = {b: -e for b, e in m.items() if e < 0}
            ip = {b: Fr(e.numerator // e.denominator) for b, e in m.items() if b != "pi" and e >= 1}
            for k, want in (("num", num), ("den", den), ("ipart", ip)):
                if model.mag_key(model.mag_from_readout(o[k])) != model.mag_key(want):
                    viol(k, "%s(%s) = %s, expected %s" % (k, mk, o[k], model.mag_key(want)))
            if not (o["eq_self"] and o["eq_recomposed"]) or o["ne_double"]:
                viol("equality", "magnitude equality misbehaves for %s: %s" % (mk, {k: o[k] for k in ("eq_self", "eq_recomposed", "ne_double")}))
            for t, (outcome, val, rep) in zip(R11, o["vr"]):
                evals += 1
                verdict, ev = expected_rep(t, m)
                rep = bool(rep)
                if rep != (outcome == 0):
                    viol("representable-vs-outcome", "representable_in<%s>(%s)=%s but get_value_result outcome=%d" % (t, mk, rep, outcome), t)
                both.setdefault(t, set()).add(rep)
                if verdict is None:
                    dont_care += 1
                elif rep != verdict:
                    viol("representable_in", "representable_in<%s>(%s) is %s; exact value %s %s within the type's range" % (
                        t, mk, rep, ("~2^%.1f" % approx_log2(m)), "lies" if verdict else "does not lie"), t)
                    continue
                if rep:
                    if t in I8:
                        if ev is not None and int(val) != ev:
                            viol("value", "get_value<%s>(%s) = %s, exact %s" % (t, mk, val, ev), t)
                    else:
                        got = parse_hexfloat(val)
                        if got is None or got <= 0:
                            viol("value-not-positive", "get_value<%s>(%s) = %s (must be strictly positive and finite)" % (t, mk, val), t)
                        elif ev is not None:
                            if abs(got - ev) > 4 * ulp(t, ev):
                                nulp = abs(got - ev) / ulp(t, ev)
                                viol("value-off-by-le64ulp" if nulp <= 64 else "value", "get_value<%s>(%s) = %s differs from the exact value by %.3g ulp" % (
                                    t, mk, val, float(nulp)), t)
        pres, _ = core.run_probes(cfg, gv_probes, os.path.join(run.wd, "gv_" + cfg.name), "gv", PRE2, flags=cflags(cfg))
        for p in gv_probes:
            v, diag = pres[p.pid]
            evals += 1
            if v != p.expect:
                mk = str(model.mag_key(p.meta["m"]))
                key = "C11:get_value-%s:%s:%s" % (v, p.meta["t"], mk)
                run.violation(key, "%s: get_value<%s>(%s) is %sed by the compiler; the exact value is %s (%s)" % (
                    cfg, p.meta["t"], mk, v, "representable" if p.expect == "accept" else "not representable", diag[:200]),
                    run.write_replay(key, {"kind": "program", "config": str(cfg), "code": p.code, "expected": p.expect, "observed": v}))
    run.cov.update({
        "evaluations": evals, "programs": (len(recs) + len(gv_probes)) * len(cfgs), "magnitudes": len(mags), "types": len(R11),
        "get_value_probes": len(gv_probes), "dont_care": dont_care,
        "distinct_nontrivial": sum(1 for t, s in both.items() if len(s) == 2),
        "rule": "magnitudes = products of <=3 base powers over primes up to 2^64-59 and pi with integer/fractional exponents straddling every type's limits "
                "(2^7..2^64, FLT/DBL/LDBL max, min normal, denormal) x 11 arithmetic types; per (magnitude, type): representable_in, get_value_result outcome/value, "
                "classification and split traits read out and compared with exact big-integer / 90-digit arithmetic; get_value<T> itself is an accept/reject probe. "
                "distinct_nontrivial = number of types for which both representable and non-representable magnitudes were observed.",
        "configs": [str(c) for c in cfgs], "exhaustive": True, "exhaustive_note": "the stated finite grid is enumerated completely",
        "samples": [{"magnitude": str(model.mag_key(m))} for m in mags[:: max(1, len(mags) // 6)]][:6],
    })
    run.assumptions += ["floating representability has don't-care bands within 8 ulp of max(T) and across the denormal range [denorm_min/2, min normal]",
                        "floating values must be strictly positive and within 4 ulp of the exact real (ulp of the target type at the exact value)"]


def replay(path):
    import json
    r = json.load(open(path))
    cfg = [c for c in core.CFG6 if str(c) == r.get("config")]
    cfg = cfg[0] if cfg else core.GXX14
    wd = os.path.join(core.BUILD, "C11", "replay")
    if "code" in r:
        res, _ = core.run_probes(cfg, [core.Probe(0, r["code"], r["expected"])], wd, "rp", PRE2, flags=cflags(cfg))
        print("observed:", res[0][0], "expected:", r["expected"])
        if res[0][0] != r["expected"]:
            print("VIOLATION property=C11 replay=%s" % path)
            return 1
        return 0
    res, failed = psx.run_dump(cfg, [(0, r["stmts"])], wd, "rp", PRE2, flags=cflags(cfg))
    print("observed now:", res.get(0), failed)
    if failed or res.get(0) == r.get("observed"):
        print("VIOLATION property=C11 replay=%s" % path)
        return 1
    return 0
