"""C18 — printed labels denote the actual unit.

Explicit-state: the C02 state graph (same successor function, C02's menus) + scaling/common-unit/named-unit
programs; for every state AND for every distinct transition expression the implementation's label is read
out (string, sizeof, strlen, NUL, usability in a constant expression) and *parsed* with the documented
grammar (vf/labels.py); its denotation (dim, mag) must equal the model value of the target state.
Prefixed units: verbatim prefix symbol + inner label, and additionally the denotation when the result parses.
No two records with different (dim, mag) may print the same marker-free label.
"""
import itertools
import os
from fractions import Fraction as Fr

from .. import core, labels, model, psx
from ..model import LIB_BY_STEM as U
from ..sweep34 import cflags
from . import c02, c07

LEVEL = "model_checking"

PREAMBLE = c07.PREAMBLE + r'''
#include "sweep.hh"
using au::pow;
using au::root;
namespace gen {
// a unit defined the way the how-to says, but with the label forgotten
struct Twelves : decltype(au::Inches{} * au::mag<12>()) {};
}
namespace c18 {
// evaluated in a constant expression: exactly one NUL, at the end
template <std::size_t N>
constexpr bool ct_ok(const char (&a)[N]) {
    for (std::size_t i = 0; i + 1 < N; ++i) if (a[i] == '\0') return false;
    return a[N - 1] == '\0';
}
template <std::size_t N>
void arr_rec(const char (&l)[N], std::size_t sz, bool ct, char c0) {
    vf_s("label", vf::json_escape(l, std::strlen(l)));
    vf_i("sizeof", (long long)sz);
    vf_i("strlen", (long long)std::strlen(l));
    vf_b("nul", l[sz - 1] == '\0');
    vf_b("ct", ct && c0 == l[0] && N == sz);
}
template <typename X>
void label_rec() {
    const auto &l = au::unit_label(X{});
    constexpr std::size_t sz = sizeof(au::unit_label(X{}));
    // "compile-time string": the characters must be readable in constant expressions
    constexpr const auto &cl = au::unit_label(X{});
    constexpr bool ct = c18::ct_ok(cl);
    constexpr char c0 = cl[0];
    static_assert(sizeof(cl) == sz, "");
    arr_rec(l, sz, ct, c0);
}
template <typename M>
void maglabel_rec() {
    const auto &l = au::mag_label(M{});
    constexpr std::size_t sz = sizeof(au::mag_label(M{}));
    constexpr const auto &cl = au::mag_label(M{});
    constexpr bool ct = c18::ct_ok(cl);
    constexpr char c0 = cl[0];
    static_assert(sizeof(cl) == sz, "");
    arr_rec(l, sz, ct, c0);
}
template <typename Q>
std::string stream(Q q) { std::ostringstream o; o << q; return o.str(); }
template <typename T>
std::string num(T x) { std::ostringstream o; o << +x; return o.str(); }
template <typename Un, typename T>
void stream_sweep(long long lo, long long hi) {
    long long n = 0, bad = 0, first = 0;
    const std::string lab = au::unit_label(Un{});
    for (long long v = lo;; ++v) {
        const T x = static_cast<T>(v);
        const std::string got = stream(au::make_quantity<Un>(x));
        const std::string want = vf::int_str(x) + " " + lab;
        ++n;
        if (got != want) { if (!bad) first = v; ++bad; }
        if (v == hi) break;
    }
    vf_i("n", n); vf_i("bad", bad); vf_i("first", first);
}
template <typename Un, typename T>
void stream_float() {
    const T vals[] = {T(0), T(-0.0), T(1), T(-1), T(0.5), T(1e10), T(-2.5e-7), T(3.14159265358979), std::numeric_limits<T>::max(),
                      std::numeric_limits<T>::min(), std::numeric_limits<T>::denorm_min(), std::numeric_limits<T>::infinity(),
                      -std::numeric_limits<T>::infinity(), std::numeric_limits<T>::quiet_NaN(), T(123456789), T(1) / T(3)};
    long long n = 0, bad = 0;
    const std::string lab = au::unit_label(Un{});
    for (T x : vals) { ++n; if (stream(au::make_quantity<Un>(x)) != num(x) + " " + lab) ++bad; }
    vf_i("n", n); vf_i("bad", bad); vf_i("first", 0);
}
}
'''

# documented labels of the library constants (transcribed from the reference docs, not read from the headers)
CONSTANTS = [("au::AVOGADRO_CONSTANT", "N_A"), ("au::BOLTZMANN_CONSTANT", "k_B"), ("au::CESIUM_HYPERFINE_TRANSITION_FREQUENCY", "Delta_nu_Cs"),
             ("au::ELEMENTARY_CHARGE", "e"), ("au::LUMINOUS_EFFICACY_540_TERAHERTZ", "K_cd"), ("au::PLANCK_CONSTANT", "h"),
             ("au::REDUCED_PLANCK_CONSTANT", "h_bar"), ("au::SPEED_OF_LIGHT", "c"), ("au::STANDARD_GRAVITY", "g_0")]


def atom_table(atoms):
    """label -> (dim, mag) for every *named* unit that can occur inside labels of this run."""
    t = {}
    # every prefixed library unit first, then every library unit (so a genuine library label such as "min" or "cd"
    # wins over a coincidental prefix + label spelling such as milli-inch or centi-day, which no alphabet here contains)
    for p in model.ALL_PREFIXES:
        for u in model.LIB:
            t[p[2] + u.label] = (u.dim, model.vmul(u.mag, model.prefix_mag(p)))
    for u in model.LIB:
        t[u.label] = (u.dim, u.mag)
    for u in atoms:
        if u.label is not None:
            t[u.label] = (u.dim, u.mag)
    for stem in ("inches", "feet", "meters", "seconds", "kelvins", "radians", "degrees", "hertz", "grams", "yards", "miles",
                 "nautical_miles", "minutes", "hours", "days", "revolutions", "arcminutes", "arcseconds", "fathoms", "furlongs",
                 "celsius", "fahrenheit", "bits", "bytes"):
        u = U[stem]
        t[u.label] = (u.dim, u.mag)
    kg = model.prefixed(model.SI_PREFIXES[9], U["grams"])
    t["kg"] = (kg.dim, kg.mag)
    t["wug"] = (model.d(L=1), model.mag_ratio(35, 3))
    return t


def menus_for(tier, n_at):
    """C02's menus (statement: 'all generated unit expressions of C02').  If c02 exposes them, take them read-only."""
    f = getattr(c02, "menus_for", None)
    if f is not None:
        try:
            m, depth = f(tier, n_at)
            return m, depth
        except Exception:
            pass
    full = {"binary": range(n_at), "pow": (-2, -1, 0, 1, 2, 3), "root": (2, 3), "scale": True, "prefix": model.ALL_PREFIXES}
    nopfx = dict(full, prefix=())
    if tier == "quick":
        return {0: full, 1: dict(nopfx, prefix=model.ALL_PREFIXES[8:16:3])}, 2
    return {0: full, 1: dict(full, prefix=model.ALL_PREFIXES[::4]), 2: {"binary": (0, 1), "pow": (2,), "scale": True}}, 3


def digit_alphabet():
    """Structured (enumerated, not sampled) 64-bit integers for IToA/UIToA: every digit at every position, repdigits,
    ascending/descending/alternating digit runs of every length, the lattice k*2^j + r, and neighbours of 10^k / 2^k."""
    vals = set(range(0, 1101))
    run_up, run_dn = "12345678901234567890", "98765432109876543210"
    for L in range(1, 21):
        vals.add(int(run_up[:L]))
        vals.add(int(run_dn[:L]))
        vals.add(int(("90" * 10)[:L]))
        vals.add(int(("10" * 10)[:L]))
        vals.add(int(("5" + "0" * 19)[:L]) + 5 if L > 1 else 5)
        for dgt in range(1, 10):
            vals.add(int(str(dgt) * L))                      # repdigit
            vals.add(dgt * 10 ** (L - 1))                    # one non-zero digit at position L
            vals.add(10 ** (L - 1) + dgt if L > 1 else dgt)  # 10...0d
            vals.add(int("9" * L) - dgt * 10 ** (L // 2))    # a single non-9 digit in the middle
    for k in range(3, 20):
        for dlt in (-1, 0, 1):
            vals.add(10 ** k + dlt)
    for k in range(10, 65):
        for dlt in (-1, 0, 1):
            vals.add(2 ** k + dlt)
    for j in range(0, 64, 7):
        for k in (3, 5, 7, 11, 1000003):
            for r in (0, 1, 9):
                vals.add(k * 2 ** j + r)
    return vals


def check(run):
    tier = run.tier
    atoms = c02.atoms_for(tier)
    n_at = len(atoms)
    menus, maxdepth = menus_for(tier, n_at)
    states, order, ntrans = {}, [], 0
    for i, a in enumerate(atoms):
        s = c02.State({i: Fr(1)}, {}, None, a.cpp, 0, a.name)
        s.sid = len(order)
        states[s.key()] = s
        order.append(s)
    frontier = list(order)
    parent = {}
    extra = []           # (path, expr, representative state): transitions whose C++ type is not a state's representative
    seen_expr = {s.expr for s in order}
    for depth in range(maxdepth):
        nxt = []
        for st in frontier:
            if st.leaf or (depth == 2 and not set(st.mono) <= {0, 1, 2, 4}):
                continue
            for succ in c02.successors(atoms, st, menus[depth]):
                lab, mono, scale, wrap, expr = succ[:5]
                ntrans += 1
                if not c02.in_bounds(mono):
                    continue
                t = c02.State(mono, scale, wrap, expr, depth + 1, "%s %s" % (st.path, lab))
                k = t.key()
                if k not in states:
                    t.sid = len(order)
                    states[k] = t
                    order.append(t)
                    nxt.append(t)
                    parent[t.sid] = st.sid
                    seen_expr.add(expr)
                elif expr not in seen_expr and depth < 2:
                    seen_expr.add(expr)
                    extra.append((t.path, expr, states[k]))
        frontier = nxt
    table = atom_table(atoms)
    zork = [a for a in atoms if a.name == "zorks"][0]
    table[labels.UNL_UNIT] = (zork.dim, zork.mag)
    recs, meta = [], {}

    def add(stmts, **m):
        rid = len(recs)
        recs.append((rid, stmts))
        meta[rid] = m
        return rid

    def lrec(cpp):
        return ["c18::label_rec<%s>();" % cpp]

    for s in order:
        dim, mag = c02.dim_mag(atoms, s)
        add(lrec(s.expr), kind="state", s=s, dim=dim, mag=mag, desc=s.path)
    state_rid = {meta[r]["s"].sid: r for r in meta}
    # ---- every other spelling of a state reached by a transition (the label depends on the type, not on the state)
    for path, expr, rep in extra:
        dim, mag = c02.dim_mag(atoms, rep)
        add(lrec(expr), kind="trans", s=rep, dim=dim, mag=mag, desc="%s (= state %s)" % (path, rep.path))
    # ---- integer / rational scale classes on a labelled unit, an unlabelled unit and a product
    ints = sorted({9, 10, 99, 100, 999, 1000, 1001, 65535, 65536, 2 ** 31 - 1, 2 ** 31, 2 ** 32 - 1, 2 ** 32, 2 ** 32 + 1,
                   10 ** 9, 10 ** 10, 2 ** 53, 10 ** 18, 10 ** 19, 2 ** 63 - 1, 2 ** 63, 2 ** 64 - 1, 7, 12345678901234567})
    rats = [(1, 3), (5, 7), (22, 7), (1, 1000), (2 ** 64 - 1, 3), (3, 2 ** 64 - 1), (1250, 381), (10 ** 19, 7)]
    from .c06 import mag_expr
    # numerator / denominator beyond 2^64-1: the part without a digit form may print the marker, the other part must be digits
    bigrats = [("10^30/7", model.vdiv(model.vpow(model.mag_int(10), 30), model.mag_int(7)), ["7"]),
               ("7/10^30", model.vdiv(model.mag_int(7), model.vpow(model.mag_int(10), 30)), ["7"]),
               ("3^41/2", model.vdiv(model.vpow(model.mag_int(3), 41), model.mag_int(2)), ["2"]),
               ("5/2^64", model.vdiv(model.mag_int(5), model.vpow(model.mag_int(2), 64)), ["5"])]
    bases = [U["meters"], zork, model.Unit("m/s", "decltype(au::Meters{} / au::Seconds{})", model.d(L=1, T=-1), {}, 0, None, named=False)]
    for b in bases:
        for n in ints:
            u = model.scaled(b, n)
            add(lrec(u.cpp), kind="scale", dim=u.dim, mag=u.mag, desc="%s * %d" % (b.name, n))
        for (n, dd) in rats:
            u = model.scaled(b, n, dd)
            add(lrec(u.cpp), kind="scale", dim=u.dim, mag=u.mag, desc="%s * %d/%d" % (b.name, n, dd))
        for nm, m, dg in [("pi", dict(model.MAG_PI), []), ("sqrt2", {2: Fr(1, 2)}, []), ("10^30", model.vpow(model.mag_int(10), 30), [])] + bigrats:
            add(lrec("decltype(%s{} * (%s))" % (b.cpp, mag_expr(m))), kind="scale", dim=b.dim, mag=model.vmul(b.mag, m),
                desc="%s * %s" % (b.name, nm), unlabeled_scale=True, digits=dg)
    # ---- two-digit, negative and rational exponents on a scaled anonymous unit and an unlabelled unit
    anon3 = [a for a in atoms if not a.named][0]
    for b in (anon3, zork, U["meters"]):
        for nm, e, tmpl in (("pow<12>", Fr(12), "au::pow<12>(%s{})"), ("pow<-12>", Fr(-12), "au::pow<-12>(%s{})"),
                            ("pow<-3>(root<2>)", Fr(-3, 2), "au::pow<-3>(au::root<2>(%s{}))"), ("root<6>(pow<5>)", Fr(5, 6), "au::root<6>(au::pow<5>(%s{}))"),
                            ("pow<10>(root<3>)", Fr(10, 3), "au::pow<10>(au::root<3>(%s{}))"), ("root<12>", Fr(1, 12), "au::root<12>(%s{})"),
                            # exponents beyond 32 bits (the exponent is a std::intmax_t): digits, sign and parentheses must survive
                            ("pow<2^31-1>", Fr(2 ** 31 - 1), "au::pow<2147483647>(%s{})"), ("pow<2^31>", Fr(2 ** 31), "au::pow<2147483648>(%s{})"),
                            ("pow<2^32+2>", Fr(2 ** 32 + 2), "au::pow<4294967298>(%s{})"), ("pow<-(2^32-1)>", Fr(-(2 ** 32 - 1)), "au::pow<-4294967295>(%s{})"),
                            ("pow<-2^31-1>", Fr(-(2 ** 31) - 1), "au::pow<-2147483649>(%s{})"),
                            ("root<3>(pow<2^32+1>)", Fr(2 ** 32 + 1, 3), "au::root<3>(au::pow<4294967297>(%s{}))")):
            tb = dict(table)
            if b is zork:
                tb[labels.UNL_UNIT] = (zork.dim, zork.mag)
            add(lrec("decltype(%s)" % (tmpl % b.cpp)), kind="exp", dim=model.vpow(b.dim, e), mag=model.vpow(b.mag, e),
                desc="%s(%s)" % (nm, b.name), table=tb)
    # ---- library units: documented label; named units with / without their own label
    for u in model.LIB:
        add(lrec(u.cpp), kind="lib", dim=u.dim, mag=u.mag, desc=u.cpp, want=u.label)
    for p in model.ALL_PREFIXES:
        for b in (U["meters"], U["bytes"]):
            pu = model.prefixed(p, b)
            add(lrec(pu.cpp), kind="lib", dim=pu.dim, mag=pu.mag, desc=pu.cpp, want=pu.label)
    # the same label through every other spelling unit_label accepts (maker, symbol, a quantity's `unit` member), and constants
    for u in (U["meters"], U["hertz"], U["feet"], U["celsius"]):
        for how, cpp in (("maker", "std::remove_const_t<decltype(%s)>" % u.maker), ("symbol", "std::remove_const_t<decltype(%s)>" % u.symbol),
                         ("q.unit", "std::remove_const_t<decltype(%s(1).unit)>" % u.maker),
                         ("prefixed maker", "std::remove_const_t<decltype(au::kilo(%s))>" % u.maker)):
            want = u.label if how != "prefixed maker" else "k" + u.label
            add(lrec(cpp), kind="lib", dim=u.dim, mag=u.mag if how != "prefixed maker" else model.vmul(u.mag, model.mag_int(1000)),
                desc="%s via %s" % (u.cpp, how), want=want)
    for cpp, want in CONSTANTS:
        add(lrec("std::remove_const_t<decltype(%s)>" % cpp), kind="const", desc=cpp, want=want)
    named = [("gen::Wugs", model.d(L=1), model.mag_ratio(35, 3), "wug"), ("gen::Zorks", zork.dim, zork.mag, labels.UNL_UNIT),
             ("gen::Blips", model.d(T=1), model.mag_ratio(77, 2), None),
             ("gen::Twelves", model.d(L=1), model.vmul(U["inches"].mag, model.mag_int(12)), None),
             ("au::Rankines", model.d(TH=1), model.mag_ratio(5, 9), None)]
    for cpp, dim, mag, want in named:
        tb = dict(table)
        tb[labels.UNL_UNIT] = (dim, mag)
        add(lrec(cpp), kind="named", dim=dim, mag=mag, desc=cpp, want=want, table=tb)
    # ---- mag_label: integers and rationals as exact digits, sizeof == strlen + 1, NUL, compile-time
    for n in ints:
        add(["c18::maglabel_rec<decltype(au::mag<%du>())>();" % n], kind="maglabel", desc="mag_label(%d)" % n, want=str(n))
    for (n, dd) in rats:
        fr = Fr(n, dd)   # the magnitude is the reduced fraction
        add(["c18::maglabel_rec<decltype(au::mag<%du>() / au::mag<%du>())>();" % (n, dd)], kind="maglabel",
            desc="mag_label(%d/%d)" % (n, dd), want=("%d / %d" % (fr.numerator, fr.denominator)) if fr.denominator != 1 else str(fr.numerator))
    for nm, m in (("pi", dict(model.MAG_PI)), ("sqrt2", {2: Fr(1, 2)}), ("10^30", model.vpow(model.mag_int(10), 30))):
        add(["c18::maglabel_rec<decltype(%s)>();" % mag_expr(m)], kind="maglabel", desc="mag_label(%s)" % nm, want=labels.UNL_MAG)
    # ---- common units (C07 alphabets), list length <= 3; pairs in both orders (same string demanded)
    bks = c07.buckets("quick")
    for bname, units in bks.items():
        units = units[:9] if tier == "quick" else units
        for size in (2, 3):
            for combo in itertools.combinations(range(len(units)), size):
                us = [units[i] for i in combo]
                if model.ordering_conflict(us) or not c07.all_rational(us):
                    continue
                if size == 3 and tier == "quick" and sum(combo) % 3:
                    continue
                g = model.mag_gcd([u.mag for u in us])
                tb = dict(table)
                for u in us:
                    if u.label is not None:
                        tb[u.label] = (u.dim, u.mag)
                    elif u.named:
                        tb[labels.UNL_UNIT] = (u.dim, u.mag)
                fwd = add(lrec("au::CommonUnitT<%s>" % ", ".join(u.cpp for u in us)), kind="common", dim=us[0].dim, mag=g,
                          desc="common(%s)" % ",".join(u.name for u in us), table=tb)
                orders = [list(reversed(us))] if size == 2 else ([us[1:] + us[:1], list(reversed(us))] if sum(combo) % 2 == 0 else [])
                for o2 in orders:
                    add(lrec("au::CommonUnitT<%s>" % ", ".join(u.cpp for u in o2)), kind="common", dim=us[0].dim, mag=g,
                        desc="common(%s)" % ",".join(u.name for u in o2), table=tb, same_as=fwd)
    for us in ([U["kelvins"], U["celsius"]], [U["celsius"], U["fahrenheit"]], [U["kelvins"], U["fahrenheit"], U["celsius"]]):
        tb = dict(table)
        for u in us:
            tb[u.label] = (u.dim, u.mag)
        fwd = None
        for o2 in (us, list(reversed(us))):
            r = add(["c18::label_rec<au::CommonPointUnitT<%s>>();" % ", ".join(u.cpp for u in o2),
                     'vf_kv("u", "{" + vf::unit_json<au::CommonPointUnitT<%s>>() + "}");' % ", ".join(u.cpp for u in o2)],
                    kind="commonpt", dim=us[0].dim, desc="common_point(%s)" % ",".join(u.name for u in o2), table=tb, same_as=fwd)
            fwd = r if fwd is None else fwd
    # ---- IToA / UIToA: boundary values (incl. INT64_MIN) + the structured digit alphabet, both signs
    da = digit_alphabet()
    iv = sorted(set(v for x in da for v in (x, -x) if -(2 ** 63) <= v < 2 ** 63) | {-(2 ** 63), 2 ** 63 - 1, -(2 ** 63) + 1})
    uv = sorted(set(v for v in da if 0 <= v < 2 ** 64) | {2 ** 63, 2 ** 64 - 1, 2 ** 64 - 2, 10 ** 19, 10 ** 19 + 1, 10 ** 19 - 1})
    if tier == "quick":   # the full alphabet is the thorough tier's; quick keeps every boundary and every third interior value
        keep = lambda v: abs(v) <= 1100 or any(abs(abs(v) - b) <= 1 for b in [10 ** k for k in range(3, 20)] + [2 ** k for k in range(10, 65)])
        iv = [v for i, v in enumerate(iv) if keep(v) or i % 3 == 0]
        uv = [v for i, v in enumerate(uv) if keep(v) or i % 3 == 0]
    for v in iv:
        lit = "%dLL" % v if v > -(2 ** 63) else "(-9223372036854775807LL - 1)"
        add(['vf_s("s", au::detail::IToA<%s>::value.c_str()); vf_i("len", (long long)au::detail::IToA<%s>::value.size()); '
             'vf_i("sz", (long long)sizeof(au::detail::IToA<%s>::value.char_array()));' % (lit, lit, lit)],
            kind="itoa", want=str(v), desc="IToA<%d>" % v)
    for v in uv:
        lit = "%dULL" % v
        add(['vf_s("s", au::detail::UIToA<%s>::value.c_str()); vf_i("len", (long long)au::detail::UIToA<%s>::value.size()); '
             'vf_i("sz", (long long)sizeof(au::detail::UIToA<%s>::value.char_array()));' % (lit, lit, lit)],
            kind="itoa", want=str(v), desc="UIToA<%d>" % v)
    # ---- streaming
    sunits = ["au::Meters", "decltype(au::Meters{} / au::Seconds{})", "au::Kilo<au::Grams>", "decltype(au::Feet{} * au::mag<3>())",
              "gen::Zorks", "au::Percent"]
    chars = {"char": (-128, 127), "signed char": (-128, 127), "unsigned char": (0, 255)}   # x86-64: plain char is signed
    for un in sunits:
        for t in list(core.I8) + list(chars):
            if t in chars:
                ranges = [chars[t]]
            else:
                b = core.BITS[t]
                if b <= 16:
                    ranges = [(core.tmin(t), core.tmax(t))]
                else:
                    ranges = [(max(core.tmin(t), c - 300), min(core.tmax(t), c + 300)) for c in (0, core.tmin(t), core.tmax(t), 10 ** 9, -(10 ** 9))
                              if core.tmin(t) <= c <= core.tmax(t)]
                if b == 64:
                    ranges = [(lo, hi) for lo, hi in ranges if -(2 ** 63) <= lo and hi < 2 ** 63]
                    if t == "uint64_t":
                        ranges = [(0, 600), (2 ** 63 - 300, 2 ** 63 - 1)]
            for lo, hi in ranges:
                add(["c18::stream_sweep<%s, %s>(%dLL%s, %dLL);" % (un, t, lo if lo > -(2 ** 63) else lo + 1, "" if lo > -(2 ** 63) else " - 1", hi)],
                    kind="stream", desc="stream %s %s [%d,%d]" % (un, t, lo, hi))
        for t in core.F3:
            add(["c18::stream_float<%s, %s>();" % (un, t)], kind="stream", desc="stream %s %s" % (un, t))
    cfgs = [(core.GXX14, ["-fsanitize=address"]), (core.CLANG20, [])] if tier == "quick" else \
        [(c, ["-fsanitize=address"] if c is core.GXX14 else []) for c in core.CFG6]
    per_cfg_labels = {}
    checked = 0
    stream_vals = 0
    counters = {"prefixed_labels_checked_verbatim": 0, "prefixed_labels_also_denoted": 0, "prefixed_labels_outside_atom_grammar": 0,
                "partially_unlabeled_rational_scales": 0, "marker_allowed_irrational_scale": 0, "compile_time_reads": 0,
                "reordered_common_units_same_string": 0, "label_collision_groups_checked": 0}
    done_cfgs = []
    for cfg, extra_flags in cfgs:
        if done_cfgs and run.time_left() < 240:
            break
        res, failed = psx.run_dump(cfg, recs, os.path.join(run.wd, cfg.name), "c18", PREAMBLE, flags=cflags(cfg) + extra_flags,
                                   chunk=min(300, max(40, len(recs) // (core.NCPU * 3) + 1)))
        done_cfgs.append(str(cfg))
        for r, diag in failed.items():
            key = "C18:does-not-compile:%s" % meta[r]["desc"]
            run.violation(key, "%s: label of %s does not compile (not a compile-time string, or rejected): %s" % (cfg, meta[r]["desc"], diag),
                          run.write_replay(key, {"kind": "program", "config": str(cfg), "flags": extra_flags, "stmts": recs[r][1], "observed": None}))
        obs = {r: o.get("label") for r, o in res.items()}
        per_cfg_labels[str(cfg)] = obs
        flagged = set()
        for r, o in res.items():
            m = meta[r]
            desc = m["desc"]
            checked += 1

            def viol(kind, what, suffix=""):
                key = "C18:%s:%s%s" % (kind, desc, suffix)
                flagged.add(r)
                run.violation(key, "%s: %s" % (cfg, what),
                              run.write_replay(key, {"kind": "program", "config": str(cfg), "flags": extra_flags, "stmts": recs[r][1], "observed": o}))
            if m["kind"] == "itoa":
                if o["s"] != m["want"] or o["len"] != len(m["want"]) or o["sz"] != len(m["want"]) + 1:
                    viol("itoa", "%s renders as %r (len %d, sizeof %d), expected %r" % (desc, o["s"], o["len"], o["sz"], m["want"]))
                continue
            if m["kind"] == "stream":
                stream_vals += o["n"]
                if o["bad"]:
                    viol("stream", "%s: %d of %d values do not print as '<number> <label>' (first x=%d)" % (desc, o["bad"], o["n"], o["first"]))
                continue
            lab = o["label"]
            if o["sizeof"] != o["strlen"] + 1 or not o["nul"]:
                viol("size", "label %r of %s: sizeof=%d strlen=%d nul=%s" % (lab, desc, o["sizeof"], o["strlen"], o["nul"]))
            counters["compile_time_reads"] += 1
            if not o["ct"]:
                viol("compile-time", "label %r of %s read in a constant expression differs from the run-time string (embedded NUL / first character / size)" % (lab, desc))
            if m["kind"] == "commonpt":
                m["dim"], m["mag"] = model.dim_from_readout(o["u"]["dim"]), model.mag_from_readout(o["u"]["mag"])
            if m.get("same_as") is not None and m["same_as"] in res:
                if res[m["same_as"]]["label"] != lab:
                    viol("order-dependent", "%s prints %r but %s prints %r" % (desc, lab, meta[m["same_as"]]["desc"], res[m["same_as"]]["label"]))
                else:
                    counters["reordered_common_units_same_string"] += 1
            if m.get("want") is not None:
                if lab != m["want"]:
                    viol("documented-label", "%s prints %r, documented label is %r" % (desc, lab, m["want"]))
                continue
            if m["kind"] == "state" and m["s"].wrap is not None:
                src = res.get(state_rid[parent[m["s"].sid]])
                if src is None:
                    continue
                want = m["s"].wrap[0][2] + src["label"]
                counters["prefixed_labels_checked_verbatim"] += 1
                if lab != want:
                    viol("prefix", "%s prints %r, expected prefix symbol + inner label = %r" % (desc, lab, want))
                    continue
                # prepending must not turn the label into that of another unit: where the result parses with the documented
                # grammar, its denotation must still be this unit
                try:
                    den = labels.denote(lab, table)
                except labels.ParseError:
                    counters["prefixed_labels_outside_atom_grammar"] += 1
                    continue
                counters["prefixed_labels_also_denoted"] += 1
                if den.unknown_mag:
                    continue
                if model.dim_key(den.dim) != model.dim_key(m["dim"]) or model.mag_key(den.mag) != model.mag_key(m["mag"]):
                    viol("prefix-denotes-other-unit", "%s prints %r = prefix symbol + %r, which under the label grammar denotes magnitude %s (dimension %s); "
                         "the unit has %s (%s)" % (desc, lab, src["label"], model.mag_key(den.mag), model.dim_key(den.dim), model.mag_key(m["mag"]),
                                                   model.dim_key(m["dim"])), ":inner=" + src["label"])
                continue
            try:
                den = labels.denote(lab, m.get("table", table))
            except labels.ParseError as e:
                viol("grammar", "label %r of %s does not follow the documented grammar: %s" % (lab, desc, e))
                continue
            if model.dim_key(den.dim) != model.dim_key(m["dim"]):
                viol("denotes-other-dimension", "%s prints %r which denotes dimension %s, unit has %s" % (desc, lab, model.dim_key(den.dim), model.dim_key(m["dim"])))
            elif den.unknown_mag:
                if m.get("unlabeled_scale"):
                    counters["marker_allowed_irrational_scale"] += 1
                    if m.get("digits"):
                        counters["partially_unlabeled_rational_scales"] += 1
                        for dg in m["digits"]:
                            if dg not in lab.replace(labels.UNL_MAG, ""):
                                viol("unlabeled-scale", "%s prints %r: the part %s of the scale fits 64 bits but has no digits" % (desc, lab, dg))
                elif m["kind"] in ("state", "trans", "exp") and "pi" in str(model.mag_key(m["s"].scale if "s" in m else {})):
                    counters["marker_allowed_irrational_scale"] += 1   # an irrational (*pi) scaled atom inside the unit
                elif model.mag_is_rational(m["mag"]) or m["kind"] in ("state", "trans", "exp"):
                    # every scale factor the state graph applies is an integer or a ratio of integers below 2^64: digits are demanded
                    viol("unlabeled-scale", "%s has only rational scale factors below 2^64 but prints %r" % (desc, lab))
            elif model.mag_key(den.mag) != model.mag_key(m["mag"]):
                viol("denotes-other-magnitude", "%s prints %r which denotes magnitude %s, unit has %s" % (
                    desc, lab, model.mag_key(den.mag), model.mag_key(m["mag"])))
        # ---- direct form of "never prints the label of a unit with a different magnitude or dimension": marker-free labels are
        #      injective on (dim, mag) over everything this run printed (covers labels the grammar oracle does not judge)
        by_label = {}
        for r, o in res.items():
            m = meta[r]
            if "label" not in o or "dim" not in m or "mag" not in m or m["kind"] == "maglabel":
                continue
            if labels.UNL_MAG in o["label"] or labels.UNL_UNIT in o["label"]:
                continue
            by_label.setdefault(o["label"], {}).setdefault((model.dim_key(m["dim"]), model.mag_key(m["mag"])), []).append(r)
        for lab, groups in sorted(by_label.items()):
            counters["label_collision_groups_checked"] += 1
            if len(groups) > 1 and not any(r in flagged for g in groups.values() for r in g):
                rs = [g[0] for g in groups.values()][:2]
                key = "C18:same-label-different-units:%s" % lab
                run.violation(key, "%s: %s and %s both print %r but are different units (%s vs %s)" % (
                    cfg, meta[rs[0]]["desc"], meta[rs[1]]["desc"], lab, list(groups)[0], list(groups)[1]),
                    run.write_replay(key, {"kind": "program", "config": str(cfg), "flags": extra_flags, "stmts": recs[rs[0]][1],
                                           "other_stmts": recs[rs[1]][1], "observed": res[rs[0]]}))
    # determinism across configurations
    names = list(per_cfg_labels)
    for c in names[1:]:
        for r, lab in per_cfg_labels[c].items():
            if r in per_cfg_labels[names[0]] and per_cfg_labels[names[0]][r] != lab:
                run.violation("C18:nondeterministic:%s" % meta[r]["desc"], "label of %s differs between %s (%r) and %s (%r)" % (
                    meta[r]["desc"], names[0], per_cfg_labels[names[0]][r], c, lab))
    kinds = {}
    for m in meta.values():
        kinds[m["kind"]] = kinds.get(m["kind"], 0) + 1
    complete = len(done_cfgs) == len(cfgs)
    run.cov.update({
        "states": len(order) + sum(kinds.get(k, 0) for k in ("scale", "common", "named", "lib", "exp", "const")),
        "transitions": ntrans + kinds.get("scale", 0) + kinds.get("common", 0),
        "transition_spellings_labelled": kinds.get("trans", 0),
        "traces_validated_against_impl": checked, "programs_by_kind": kinds, "streamed_values": stream_vals,
        "configs": done_cfgs, "exhaustive": complete, "counters": counters,
        "exhaustive_note": ("C02 state graph to depth %d with C02's menus (label of every state's representative type and of every other transition "
                            "spelling up to depth 2), stated scale/exponent/common/named/mag_label/IToA/streaming alphabets enumerated completely%s"
                            % (maxdepth, "" if complete else "; configurations skipped at the deadline: %d" % (len(cfgs) - len(done_cfgs)))),
        "samples": [{"expr": meta[r]["desc"], "label": per_cfg_labels[names[0]].get(r)} for r in list(range(0, len(order), max(1, len(order) // 6)))[:6]],
    })
    run.assumptions += ["label oracle is semantic: the label is parsed with the documented grammar and its denotation (dim, mag) compared with the model; "
                        "library units / constants / mag_label are compared with their documented label; prefixed units are compared verbatim with prefix "
                        "symbol + inner label and, where that string parses, its denotation is compared as well (strings such as 'k[3 in]' that the "
                        "grammar has no production for are only counted)",
                        "irrational scale factors and integer parts above 2^64-1 must print the unlabeled-scale marker; then only the dimension (and the digits "
                        "of the part that fits) is compared; every other scale factor must be printed as digits",
                        "IToA/UIToA arguments are an enumerated digit-pattern alphabet (every digit at every position, repdigits, runs, 10^k/2^k neighbours, "
                        "k*2^j+r lattice, INT64_MIN..UINT64_MAX boundaries), not a random sample",
                        "plain char is a signed 8-bit type on the x86-64 targets used here"]


def replay(path):
    import json
    r = json.load(open(path))
    cfg = [c for c in core.CFG6 if str(c) == r.get("config")]
    cfg = cfg[0] if cfg else core.GXX14
    wd = os.path.join(core.BUILD, "C18", "replay")
    res, failed = psx.run_dump(cfg, [(0, r["stmts"])], wd, "rp", PREAMBLE, flags=cflags(cfg) + r.get("flags", []))
    print("observed now:", res.get(0), failed)
    o = dict(res.get(0) or {})
    if failed or o == r.get("observed"):
        print("VIOLATION property=C18 replay=%s" % path)
        return 1
    return 0
