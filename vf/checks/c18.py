"""C18 — printed labels denote the actual unit.

Explicit-state: the C02 state graph (same BFS) + scaling/common-unit/named-unit programs; for every
state the implementation's label is read out (string, sizeof, strlen, NUL) and *parsed* with the
documented grammar (vf/labels.py); its denotation (dim, mag) must equal the state's model value.
"""
import itertools
import os
from fractions import Fraction as Fr

from .. import core, labels, model, psx
from ..model import LIB_BY_STEM as U
from ..sweep34 import cflags
from . import c02, c07

LEVEL = "model_checking"

PREAMBLE = c07.PREAMBLE + r'''
#include "sweep.hh"
using au::pow;
using au::root;
namespace gen {
// a unit defined the way the how-to says, but with the label forgotten
struct Twelves : decltype(au::Inches{} * au::mag<12>()) {};
}
namespace c18 {
template <typename X>
void label_rec() {
    const auto &l = au::unit_label(X{});
    constexpr std::size_t sz = sizeof(au::unit_label(X{}));
    vf_s("label", vf::json_escape(l, std::strlen(l)));
    vf_i("sizeof", (long long)sz);
    vf_i("strlen", (long long)std::strlen(l));
    vf_b("nul", l[sz - 1] == '\0');
}
template <typename Q>
std::string stream(Q q) { std::ostringstream o; o << q; return o.str(); }
template <typename T>
std::string num(T x) { std::ostringstream o; o << +x; return o.str(); }
template <typename Un, typename T>
void stream_sweep(long long lo, long long hi) {
    long long n = 0, bad = 0, first = 0;
    const std::string lab = au::unit_label(Un{});
    for (long long v = lo;; ++v) {
        const T x = static_cast<T>(v);
        const std::string got = stream(au::make_quantity<Un>(x));
        const std::string want = vf::int_str(x) + " " + lab;
        ++n;
        if (got != want) { if (!bad) first = v; ++bad; }
        if (v == hi) break;
    }
    vf_i("n", n); vf_i("bad", bad); vf_i("first", first);
}
template <typename Un, typename T>
void stream_float() {
    const T vals[] = {T(0), T(-0.0), T(1), T(-1), T(0.5), T(1e10), T(-2.5e-7), T(3.14159265358979), std::numeric_limits<T>::max(),
                      std::numeric_limits<T>::min(), std::numeric_limits<T>::denorm_min(), std::numeric_limits<T>::infinity(),
                      -std::numeric_limits<T>::infinity(), std::numeric_limits<T>::quiet_NaN(), T(123456789), T(1) / T(3)};
    long long n = 0, bad = 0;
    const std::string lab = au::unit_label(Un{});
    for (T x : vals) { ++n; if (stream(au::make_quantity<Un>(x)) != num(x) + " " + lab) ++bad; }
    vf_i("n", n); vf_i("bad", bad); vf_i("first", 0);
}
}
'''


def atom_table(atoms):
    """label -> (dim, mag) for every *named* unit that can occur inside labels of this run."""
    t = {}
    # every prefixed library unit first, then every library unit (so a genuine library label such as "min" or "cd"
    # wins over a coincidental prefix + label spelling such as milli-inch or centi-day, which no alphabet here contains)
    for p in model.ALL_PREFIXES:
        for u in model.LIB:
            t[p[2] + u.label] = (u.dim, model.vmul(u.mag, model.prefix_mag(p)))
    for u in model.LIB:
        t[u.label] = (u.dim, u.mag)
    for u in atoms:
        if u.label is not None:
            t[u.label] = (u.dim, u.mag)
    for stem in ("inches", "feet", "meters", "seconds", "kelvins", "radians", "degrees", "hertz", "grams", "yards", "miles",
                 "nautical_miles", "minutes", "hours", "days", "revolutions", "arcminutes", "arcseconds", "fathoms", "furlongs",
                 "celsius", "fahrenheit", "bits", "bytes"):
        u = U[stem]
        t[u.label] = (u.dim, u.mag)
    kg = model.prefixed(model.SI_PREFIXES[9], U["grams"])
    t["kg"] = (kg.dim, kg.mag)
    t["wug"] = (model.d(L=1), model.mag_ratio(35, 3))
    return t


def check(run):
    tier = run.tier
    atoms = c02.atoms_for(tier)
    # same BFS as C02 (depth 2 quick / restricted depth 3 thorough)
    n_at = len(atoms)
    full = {"binary": range(n_at), "pow": (-2, -1, 2, 3), "root": (2, 3), "scale": True, "prefix": model.ALL_PREFIXES}
    if tier == "quick":
        menus = {0: full, 1: {"binary": range(n_at), "pow": (-2, 2), "root": (2,), "scale": True, "prefix": model.ALL_PREFIXES[9:15:5]}}
        maxdepth = 2
    else:
        menus = {0: full, 1: dict(full, prefix=model.ALL_PREFIXES[::4]), 2: {"binary": (0, 1), "pow": (2,), "scale": True}}
        maxdepth = 3
    states, order, ntrans = {}, [], 0
    for i, a in enumerate(atoms):
        s = c02.State({i: Fr(1)}, {}, None, a.cpp, 0, a.name)
        s.sid = len(order)
        states[s.key()] = s
        order.append(s)
    frontier = list(order)
    parent = {}
    for depth in range(maxdepth):
        nxt = []
        for st in frontier:
            if st.leaf or (depth == 2 and not set(st.mono) <= {0, 1, 2, 4}):
                continue
            for lab, mono, scale, wrap, expr in c02.successors(atoms, st, menus[depth]):
                ntrans += 1
                if not c02.in_bounds(mono):
                    continue
                t = c02.State(mono, scale, wrap, expr, depth + 1, "%s %s" % (st.path, lab))
                k = t.key()
                if k not in states:
                    t.sid = len(order)
                    states[k] = t
                    order.append(t)
                    nxt.append(t)
                    parent[t.sid] = st.sid
        frontier = nxt
    table = atom_table(atoms)
    zork = [a for a in atoms if a.name == "zorks"][0]
    table[labels.UNL_UNIT] = (zork.dim, zork.mag)
    recs, meta = [], {}
    rid = 0
    for s in order:
        recs.append((rid, ["c18::label_rec<%s>();" % s.expr]))
        dim, mag = c02.dim_mag(atoms, s)
        meta[rid] = {"kind": "state", "s": s, "dim": dim, "mag": mag, "desc": s.path}
        rid += 1
    state_rid = {meta[r]["s"].sid: r for r in meta}
    # ---- integer / rational scale classes on a labelled unit, an unlabelled unit and a product
    ints = sorted({9, 10, 99, 100, 999, 1000, 1001, 65535, 65536, 2 ** 31 - 1, 2 ** 31, 2 ** 32 - 1, 2 ** 32, 2 ** 32 + 1,
                   10 ** 9, 10 ** 10, 2 ** 53, 10 ** 18, 10 ** 19, 2 ** 63 - 1, 2 ** 63, 2 ** 64 - 1, 7, 12345678901234567})
    rats = [(1, 3), (5, 7), (22, 7), (1, 1000), (2 ** 64 - 1, 3), (3, 2 ** 64 - 1), (1250, 381), (10 ** 19, 7)]
    bases = [U["meters"], zork, model.Unit("m/s", "decltype(au::Meters{} / au::Seconds{})", model.d(L=1, T=-1), {}, 0, None, named=False)]
    for b in bases:
        for n in ints:
            u = model.scaled(b, n)
            recs.append((rid, ["c18::label_rec<%s>();" % u.cpp]))
            meta[rid] = {"kind": "scale", "dim": u.dim, "mag": u.mag, "desc": "%s * %d" % (b.name, n)}
            rid += 1
        for (n, dd) in rats:
            u = model.scaled(b, n, dd)
            recs.append((rid, ["c18::label_rec<%s>();" % u.cpp]))
            meta[rid] = {"kind": "scale", "dim": u.dim, "mag": u.mag, "desc": "%s * %d/%d" % (b.name, n, dd)}
            rid += 1
        for nm, m in (("pi", dict(model.MAG_PI)), ("sqrt2", {2: Fr(1, 2)}), ("10^30", model.vpow(model.mag_int(10), 30))):
            from .c06 import mag_expr
            recs.append((rid, ["c18::label_rec<decltype(%s{} * (%s))>();" % (b.cpp, mag_expr(m))]))
            meta[rid] = {"kind": "scale", "dim": b.dim, "mag": model.vmul(b.mag, m), "desc": "%s * %s" % (b.name, nm), "unlabeled_scale": True}
            rid += 1
    # ---- library units: documented label; named units with / without their own label
    for u in model.LIB:
        recs.append((rid, ["c18::label_rec<%s>();" % u.cpp]))
        meta[rid] = {"kind": "lib", "dim": u.dim, "mag": u.mag, "desc": u.cpp, "want": u.label}
        rid += 1
    for p in model.ALL_PREFIXES:
        for b in (U["meters"], U["bytes"]):
            pu = model.prefixed(p, b)
            recs.append((rid, ["c18::label_rec<%s>();" % pu.cpp]))
            meta[rid] = {"kind": "lib", "dim": pu.dim, "mag": pu.mag, "desc": pu.cpp, "want": pu.label}
            rid += 1
    named = [("gen::Wugs", model.d(L=1), model.mag_ratio(35, 3), "wug"), ("gen::Zorks", zork.dim, zork.mag, labels.UNL_UNIT),
             ("gen::Blips", model.d(T=1), model.mag_ratio(77, 2), None),
             ("gen::Twelves", model.d(L=1), model.vmul(U["inches"].mag, model.mag_int(12)), None),
             ("au::Rankines", model.d(TH=1), model.mag_ratio(5, 9), None)]
    for cpp, dim, mag, want in named:
        recs.append((rid, ["c18::label_rec<%s>();" % cpp]))
        tb = dict(table)
        tb[labels.UNL_UNIT] = (dim, mag)
        meta[rid] = {"kind": "named", "dim": dim, "mag": mag, "desc": cpp, "want": want, "table": tb}
        rid += 1
    # ---- common units (C07 alphabets), list length <= 3
    bks = c07.buckets("quick")
    for bname, units in bks.items():
        units = units[:9] if tier == "quick" else units
        for size in (2, 3):
            for combo in itertools.combinations(range(len(units)), size):
                us = [units[i] for i in combo]
                if model.ordering_conflict(us) or not c07.all_rational(us):
                    continue
                if size == 3 and tier == "quick" and sum(combo) % 3:
                    continue
                g = model.mag_gcd([u.mag for u in us])
                recs.append((rid, ["c18::label_rec<au::CommonUnitT<%s>>();" % ", ".join(u.cpp for u in us)]))
                tb = dict(table)
                for u in us:
                    if u.label is not None:
                        tb[u.label] = (u.dim, u.mag)
                    elif u.named:
                        tb[labels.UNL_UNIT] = (u.dim, u.mag)
                meta[rid] = {"kind": "common", "dim": us[0].dim, "mag": g, "desc": "common(%s)" % ",".join(u.name for u in us), "table": tb}
                rid += 1
    for us in ([U["kelvins"], U["celsius"]], [U["celsius"], U["fahrenheit"]], [U["kelvins"], U["fahrenheit"], U["celsius"]]):
        recs.append((rid, ["c18::label_rec<au::CommonPointUnitT<%s>>();" % ", ".join(u.cpp for u in us),
                           'vf_kv("u", "{" + vf::unit_json<au::CommonPointUnitT<%s>>() + "}");' % ", ".join(u.cpp for u in us)]))
        tb = dict(table)
        for u in us:
            tb[u.label] = (u.dim, u.mag)
        meta[rid] = {"kind": "commonpt", "dim": us[0].dim, "desc": "common_point(%s)" % ",".join(u.name for u in us), "table": tb}
        rid += 1
    # ---- IToA / UIToA
    iv = list(range(-1100, 1101)) + [s * (10 ** k + dlt) for k in range(3, 19) for dlt in (-1, 0, 1) for s in (1, -1)] + \
        [s * (2 ** k + dlt) for k in range(10, 63) for dlt in (-1, 0, 1) for s in (1, -1)] + [2 ** 63 - 1, -(2 ** 63) + 1]
    iv = sorted(set(v for v in iv if -(2 ** 63) < v < 2 ** 63))
    uv = sorted(set([v for v in iv if v >= 0] + [2 ** 63, 2 ** 64 - 1, 2 ** 64 - 2, 10 ** 19, 10 ** 19 + 1, 10 ** 19 - 1]))
    for v in iv:
        lit = "%dLL" % v
        recs.append((rid, ['vf_s("s", au::detail::IToA<%s>::value.c_str()); vf_i("len", (long long)au::detail::IToA<%s>::value.size()); '
                           'vf_i("sz", (long long)sizeof(au::detail::IToA<%s>::value.char_array()));' % (lit, lit, lit)]))
        meta[rid] = {"kind": "itoa", "want": str(v), "desc": "IToA<%d>" % v}
        rid += 1
    for v in uv:
        lit = "%dULL" % v
        recs.append((rid, ['vf_s("s", au::detail::UIToA<%s>::value.c_str()); vf_i("len", (long long)au::detail::UIToA<%s>::value.size()); '
                           'vf_i("sz", (long long)sizeof(au::detail::UIToA<%s>::value.char_array()));' % (lit, lit, lit)]))
        meta[rid] = {"kind": "itoa", "want": str(v), "desc": "UIToA<%d>" % v}
        rid += 1
    # ---- streaming
    sunits = ["au::Meters", "decltype(au::Meters{} / au::Seconds{})", "au::Kilo<au::Grams>", "decltype(au::Feet{} * au::mag<3>())",
              "gen::Zorks", "au::Percent"]
    for un in sunits:
        for t in core.I8:
            b = core.BITS[t]
            if b <= 16:
                ranges = [(core.tmin(t), core.tmax(t))]
            else:
                ranges = [(max(core.tmin(t), c - 300), min(core.tmax(t), c + 300)) for c in (0, core.tmin(t), core.tmax(t), 10 ** 9, -(10 ** 9))
                          if core.tmin(t) <= c <= core.tmax(t)]
            if b == 64:
                ranges = [(lo, hi) for lo, hi in ranges if -(2 ** 63) <= lo and hi < 2 ** 63]
                if t == "uint64_t":
                    ranges = [(0, 600), (2 ** 63 - 300, 2 ** 63 - 1)]
            for lo, hi in ranges:
                recs.append((rid, ["c18::stream_sweep<%s, %s>(%dLL%s, %dLL);" % (un, t, lo if lo > -(2 ** 63) else lo + 1, "" if lo > -(2 ** 63) else " - 1", hi)]))
                meta[rid] = {"kind": "stream", "desc": "stream %s %s [%d,%d]" % (un, t, lo, hi)}
                rid += 1
        for t in core.F3:
            recs.append((rid, ["c18::stream_float<%s, %s>();" % (un, t)]))
            meta[rid] = {"kind": "stream", "desc": "stream %s %s" % (un, t)}
            rid += 1
    cfgs = [(core.GXX14, ["-fsanitize=address"]), (core.CLANG20, [])] if tier == "quick" else \
        [(c, ["-fsanitize=address"] if c is core.GXX14 else []) for c in core.CFG6]
    per_cfg_labels = {}
    checked = 0
    stream_vals = 0
    for cfg, extra in cfgs:
        res, failed = psx.run_dump(cfg, recs, os.path.join(run.wd, cfg.name), "c18", PREAMBLE, flags=cflags(cfg) + extra,
                                   chunk=max(40, len(recs) // (core.NCPU * 3) + 1))
        for r, diag in failed.items():
            run.violation("C18:does-not-compile:%s" % meta[r]["desc"], "%s: label of %s does not compile: %s" % (cfg, meta[r]["desc"], diag))
        obs = {r: o.get("label") for r, o in res.items()}
        per_cfg_labels[str(cfg)] = obs
        for r, o in res.items():
            m = meta[r]
            desc = m["desc"]
            checked += 1

            def viol(kind, what):
                key = "C18:%s:%s" % (kind, desc)
                run.violation(key, "%s: %s" % (cfg, what),
                              run.write_replay(key, {"kind": "program", "config": str(cfg), "flags": extra, "stmts": recs[r][1], "observed": o}))
            if m["kind"] == "itoa":
                if o["s"] != m["want"] or o["len"] != len(m["want"]) or o["sz"] != len(m["want"]) + 1:
                    viol("itoa", "%s renders as %r (len %d, sizeof %d), expected %r" % (desc, o["s"], o["len"], o["sz"], m["want"]))
                continue
            if m["kind"] == "stream":
                stream_vals += o["n"]
                if o["bad"]:
                    viol("stream", "%s: %d of %d values do not print as '<number> <label>' (first x=%d)" % (desc, o["bad"], o["n"], o["first"]))
                continue
            lab = o["label"]
            if o["sizeof"] != o["strlen"] + 1 or not o["nul"]:
                viol("size", "label %r of %s: sizeof=%d strlen=%d nul=%s" % (lab, desc, o["sizeof"], o["strlen"], o["nul"]))
            if m["kind"] == "commonpt":
                m["dim"], m["mag"] = model.dim_from_readout(o["u"]["dim"]), model.mag_from_readout(o["u"]["mag"])
            if m.get("want") is not None:
                if lab != m["want"]:
                    viol("documented-label", "%s prints %r, documented label is %r" % (desc, lab, m["want"]))
                continue
            if m["kind"] == "state" and m["s"].wrap is not None:
                src = res.get(state_rid[parent[m["s"].sid]])
                want = m["s"].wrap[0][2] + (src["label"] if src else "?")
                if src is not None and lab != want:
                    viol("prefix", "%s prints %r, expected prefix symbol + inner label = %r" % (desc, lab, want))
                continue
            try:
                den = labels.denote(lab, m.get("table", table))
            except labels.ParseError as e:
                viol("grammar", "label %r of %s does not follow the documented grammar: %s" % (lab, desc, e))
                continue
            if model.dim_key(den.dim) != model.dim_key(m["dim"]):
                viol("denotes-other-dimension", "%s prints %r which denotes dimension %s, unit has %s" % (desc, lab, model.dim_key(den.dim), model.dim_key(m["dim"])))
            elif den.unknown_mag:
                if model.mag_is_rational(m["mag"]) and not m.get("unlabeled_scale"):
                    ratio_ok = False
                    # a rational unit may still contain an irrational scaled atom (state graph *pi); accept the marker then
                    if m["kind"] == "state" and "pi" in str(model.mag_key(m["s"].scale)):
                        ratio_ok = True
                    if not ratio_ok and m["kind"] != "state":
                        viol("unlabeled-scale", "%s has a rational scale but prints %r" % (desc, lab))
            elif model.mag_key(den.mag) != model.mag_key(m["mag"]):
                viol("denotes-other-magnitude", "%s prints %r which denotes magnitude %s, unit has %s" % (
                    desc, lab, model.mag_key(den.mag), model.mag_key(m["mag"])))
    # determinism across configurations
    names = list(per_cfg_labels)
    for c in names[1:]:
        for r, lab in per_cfg_labels[c].items():
            if r in per_cfg_labels[names[0]] and per_cfg_labels[names[0]][r] != lab:
                run.violation("C18:nondeterministic:%s" % meta[r]["desc"], "label of %s differs between %s (%r) and %s (%r)" % (
                    meta[r]["desc"], names[0], per_cfg_labels[names[0]][r], c, lab))
    kinds = {}
    for m in meta.values():
        kinds[m["kind"]] = kinds.get(m["kind"], 0) + 1
    run.cov.update({
        "states": len(order) + kinds.get("scale", 0) + kinds.get("common", 0) + kinds.get("named", 0) + kinds.get("lib", 0),
        "transitions": ntrans + kinds.get("scale", 0) + kinds.get("common", 0),
        "traces_validated_against_impl": checked, "programs_by_kind": kinds, "streamed_values": stream_vals,
        "configs": [str(c) for c, _ in cfgs], "exhaustive": True,
        "exhaustive_note": "C02 state graph to depth %d (label of every state's representative type), stated scale/common/named/IToA/streaming alphabets enumerated completely" % maxdepth,
        "samples": [{"expr": meta[r]["desc"], "label": per_cfg_labels[names[0]].get(r)} for r in list(range(0, len(order), max(1, len(order) // 6)))[:6]],
    })
    run.assumptions += ["label oracle is semantic: the label is parsed with the documented grammar and its denotation (dim, mag) compared with the model; "
                        "prefixed units are compared verbatim with prefix symbol + inner label, library units with their documented label",
                        "irrational scale factors must print the unlabeled-scale marker; then only the dimension is compared"]


def replay(path):
    import json
    r = json.load(open(path))
    cfg = [c for c in core.CFG6 if str(c) == r.get("config")]
    cfg = cfg[0] if cfg else core.GXX14
    wd = os.path.join(core.BUILD, "C18", "replay")
    res, failed = psx.run_dump(cfg, [(0, r["stmts"])], wd, "rp", PREAMBLE, flags=cflags(cfg) + r.get("flags", []))
    print("observed now:", res.get(0), failed)
    o = dict(res.get(0) or {})
    if failed or o == r.get("observed"):
        print("VIOLATION property=C18 replay=%s" % path)
        return 1
    return 0
