"""C08 — mixed-unit comparison, addition, subtraction, modulo are exact (bounded exhaustive sweeps)."""
import json
import os
from fractions import Fraction as Fr

from .. import c08_sweep as S
from .. import core, model
from ..sweep34 import cflags

LEVEL = "exploration"

EXACT_KINDS = {"cmp-exact", "spaceship-exact", "sum", "diff", "mod"}


GROUP_TEXT = {"cmp": "the six comparisons", "add": "+ and -", "mod": "%", "ss": "<=>",
              "cx": "the operators in a constant expression (with the exact values for integral reps)"}


def _probe(run, insts, cfgs):
    """Which operator groups compile.  The only refusal the statement allows is the implicit-conversion policy (integral common
    rep, factor K with 2147*K > max): an instance the policy admits must compile -> violation otherwise.  The converse
    (admitted although the policy model says no) is C06's subject: logged as a mismatch only."""
    mism, nacc, nrej, nviol = [], 0, 0, 0
    for cfg in cfgs:
        ps = S.probes_for(insts, cfg)
        res, _ = core.run_probes(cfg, ps, os.path.join(run.wd, "probes_" + cfg.name), "c08p", flags=cflags(cfg))
        for it in insts:
            it.ops[cfg.name] = {}
        for p in ps:
            v, diag = res[p.pid]
            it = insts[p.meta["inst"]]
            g = p.meta["group"]
            it.ops[cfg.name][g] = (v == "accept")
            nacc += v == "accept"
            nrej += v == "reject"
            if v == p.expect:
                continue
            if p.expect == "accept":
                key = "C08:does-not-compile:%s:%s:%s" % (g, it.desc(), cfg.name)
                what = ("%s: %s of %s(%s) and %s(%s) do not compile although the common rep %s admits both factors (%s, %s) under "
                        "the implicit-conversion policy: %s" % (cfg, GROUP_TEXT[g], it.u1.name, it.r1, it.u2.name, it.r2, it.c,
                                                                  it.k1 or "irrational", it.k2 or "irrational", diag[:200]))
                rp = None
                if run.match_known(key) is None and nviol < 60:
                    rp = run.write_replay(key, {"kind": "probe", "config": str(cfg), "code": p.code, "expected": "accept",
                                                "observed": v, "what": what})
                run.violation(key, what, rp)
                nviol += 1
            else:
                mism.append({"config": str(cfg), "instance": it.desc(), "group": g,
                             "predicted": p.expect, "observed": v, "diag": diag[:160]})
    return mism, nacc, nrej, nviol


def _prepare(insts, radius, lat_step, dense, dense2_labels=()):
    for it in insts:
        if it.flt:
            continue
        it.iv1 = S.window_alphabet(it.r1, it.k1, it.c, it.p, radius)
        it.iv2 = S.window_alphabet(it.r2, it.k2, it.c, it.p, radius)
        it.lat1 = S.lattice_alphabet(it.r1, it.k1, lat_step)
        it.lat2 = S.lattice_alphabet(it.r2, it.k2, lat_step)
        it.square8 = True
        it.dense = 0
        if 16 in (core.BITS[it.r1], core.BITS[it.r2]):
            it.dense = 2 if it.label in dense2_labels else dense


def _report(run, cfg, build, insts_by_id, viols, flags):
    n = 0
    for v in viols:
        if v["kind"] == "transitivity":
            key = "C08:transitivity:%s:x=%s:y=%s:%s" % (v["op"], v["x1"], v["x2"], v["got"].split(":")[0])
            what = "%s [%s]: chain %s, x=%s y=%s %s" % (v["kind"], build, v["op"], v["x1"], v["x2"], v["got"])
            rp = None
            if run.match_known(key) is None:
                rp = run.write_replay(key, {"kind": "transitivity", "config": str(cfg), "chain": v["op"],
                                            "observed": v, "what": what})
            run.violation(key, what, rp)
            n += 1
            continue
        it = insts_by_id[v["inst"]]
        if v["kind"] in EXACT_KINDS and not it.flt:
            ok, exp = S.py_expect(it, v["kind"], v["op"], v["order"], int(v["x1"]), int(v["x2"]))
            if not ok or (exp is not None and exp != v["want"]):
                raise core.InfraError("C08 oracle routes disagree (C++ __int128 vs Python Fractions) on %s %s: "
                                      "harness wants %s, Python says in_statement=%s expected=%s"
                                      % (it.desc(), v, v["want"], ok, exp))
        key = "C08:%s:%s:%s:order=%d:x1=%s:x2=%s" % (v["kind"], v["op"], it.desc(), v["order"], v["x1"], v["x2"])
        lhs, rhs = ("%s(%s{%s})" % (it.u1.name, it.r1, v["x1"]), "%s(%s{%s})" % (it.u2.name, it.r2, v["x2"]))
        if v["order"] == 1:
            lhs, rhs = rhs, lhs
        what = ("%s: %s %s %s gives %s, exact/required %s (common unit = U1/%s resp. U2/%s, common rep %s) [%s]"
                % (v["kind"], lhs, v["op"], rhs, v["got"], v["want"], it.k1 or it.kf[0][0], it.k2 or it.kf[1][0], it.c, build))
        rp = None
        if run.match_known(key) is None:
            rp = run.write_replay(key, {
                "kind": "value", "config": str(cfg), "flags": list(flags), "what": what, "observed": v,
                "instance": {"label": it.label, "u1": it.u1.rec(), "u2": it.u2.rec(), "r1": it.r1, "r2": it.r2,
                             "ops": it.ops[cfg.name]},
                "x1": v["x1"], "x2": v["x2"]})
        run.violation(key, what, rp)
        n += 1
    return n


def _check_units(run, cfg, build, insts_by_id, stats, counters):
    for s in stats:
        it = insts_by_id[s["inst"]]
        for fld, okf in (("sum_unit", "rep_ok"), ("mod_unit", "mod_rep_ok")):
            if not s[okf]:
                # the statement fixes the value and the unit of the result, not its rep: recorded only.  (A result rep too
                # narrow for an in-statement result shows up as a wrong value in the sweep.)
                counters["result_rep_is_not_the_promoted_common_rep"] += 1
            if s[fld] is None:
                continue
            got = model.mag_from_readout(s[fld]["mag"])
            if model.mag_key(got) != model.mag_key(it.gmag):
                key = "C08:result-unit:%s:%s" % (fld.split("_")[0], it.desc())
                run.violation(key, "%s: result of %s is expressed in a unit of magnitude %s, the common unit "
                              "has %s [%s]" % (it.desc(), fld.split("_")[0], s[fld]["mag"], sorted(model.mag_key(it.gmag)), build))


def _selftest(run):
    """Perturb the ORACLE (not Au): with a wrong scale factor the comparison must fail."""
    it = S.Inst(0, "12", S.lib("feet"), S.lib("inches"), "int32_t", "int32_t")
    it.k1 += 1
    it.ops[core.GXX14.name] = {"cmp": True, "add": True, "mod": True}
    it.iv1 = it.iv2 = [(-3, 3)]
    it.lat1 = it.lat2 = []
    it.square8 = False
    it.dense = 0
    stats, viols = S.build_and_run(run.wd, core.GXX14, "selftest", [it], [], 0, (0, 0, 1), nsplit=1)
    kinds = {v["kind"] for v in viols}
    if not {"cmp-exact", "sum", "diff", "mod"} <= kinds:
        raise core.InfraError("C08 selftest: a perturbed oracle was not noticed (kinds seen: %s)" % sorted(kinds))
    return len(viols)


def check(run):
    tier = run.tier
    quick = tier == "quick"
    if getattr(run, "selftest", False):
        run.cov["selftest_perturbed_oracle_mismatches"] = _selftest(run)
    insts = S.instances(tier)
    probe_cfgs = [core.GXX14, core.GXX20, core.CLANG20] if quick else core.CFG6
    mism, nacc, nrej, n_nocompile = _probe(run, insts, probe_cfgs)
    radius = 12 if quick else 64
    fexp = (-12, 40, 4) if quick else (-20, 60, 2)
    # (config, flags, build name, full) — full = the tier's own radius / lattice / dense alphabets; the remaining
    # configurations of the thorough tier repeat the quick alphabets (the statement quantifies over C++14/17/20 on both compilers)
    sweeps = [(core.GXX14, [], "g++-14", True), (core.CLANG20, S.UBSAN, "clang-20-ubsan", True), (core.GXX20, [], "g++-20", True)]
    if not quick:
        sweeps += [(core.CLANG14, [], "clang-14", False), (core.CFG6[1], [], "g++-17", False), (core.CFG6[4], [], "clang-17", False)]
    by_id = {it.id: it for it in insts}
    allstats, nviol, triples, trs = [], 0, 0, []
    done, cut = [], []
    counters = {"result_rep_is_not_the_promoted_common_rep": 0}
    disagree = [it.desc() for it in insts
                if len({tuple(sorted((k, v) for k, v in it.ops[c.name].items() if k != "ss")) for c in probe_cfgs}) > 1]
    prepared = None
    for n_build, (cfg, flags, build, full) in enumerate(sweeps):
        if run.time_left() < 300:
            cut.append(build)
            continue
        mode = (tier, full, n_build == 0)
        if mode != prepared:
            if quick or not full:
                _prepare(insts, 12, 3, 1)
            else:     # thorough: the dense 16-bit x whole-alphabet product once (first build), for four integer/rational ratios
                _prepare(insts, radius, 1, 1, ("12", "3", "1000", "5/9") if n_build == 0 else ())
            prepared = mode
        acc = [it for it in insts if it.ops[cfg.name].get("cmp")]
        if quick and n_build == 2:
            acc = [it for it in acc if it.in_mix]      # quick: the third build (g++ C++20, for <=> under g++) sweeps the rep-pair mix only
        if len(acc) < 0.6 * len(insts) and not n_nocompile:
            raise core.InfraError("vacuity guard: only %d of %d instances accepted under %s (mismatches: %s)"
                                  % (len(acc), len(insts), cfg, mism[:3]))
        for lab in {it.label for it in insts if it.rational and it.predicted() and not it.flt and it.r1 != it.r2}:
            if not any(it.label == lab and it.r1 != it.r2 and not it.flt for it in acc) and not n_nocompile:
                raise core.InfraError("vacuity guard: no mixed-width integral instance accepted for ratio %s" % lab)
        if not acc:
            continue
        stats, viols = S.build_and_run(run.wd, cfg, build, acc, flags, radius, fexp if full else (-12, 40, 4), nsplit=core.NCPU * 2,
                                       timeout=max(300, min(3000, run.time_left())))
        trapped = any(v["kind"] == "trap" for v in viols)
        if len(stats) != len(acc) and not trapped:
            raise core.InfraError("C08: %d instances swept but %d reported" % (len(acc), len(stats)))
        vac = [by_id[s["inst"]].desc() for s in stats if s["in_pre"] == 0 or s["ops"] == 0]
        if vac:
            raise core.InfraError("vacuous instances (no pair inside the precondition): %s" % vac[:3])
        for grp, fld in (("mod", "mod_unit"), ("add", "sum_unit")):
            if not any(s[fld] is not None for s in stats) and not n_nocompile:
                raise core.InfraError("vacuity guard: no instance evaluated the %s group under %s" % (grp, cfg))
        if cfg.std == "c++20" and not any(by_id[s["inst"]].ops[cfg.name].get("ss") for s in stats) and not n_nocompile:
            raise core.InfraError("vacuity guard: <=> was evaluated on no instance under %s" % cfg)
        nviol += _report(run, cfg, build, by_id, viols, flags)
        _check_units(run, cfg, build, by_id, stats, counters)
        allstats += [dict(s, build=build) for s in stats]
        ch, ts, tv, err = S.run_transitivity(run.wd, cfg, tier if full else "quick")
        if err:
            if not n_nocompile:
                raise core.InfraError("C08 transitivity TU failed to build:\n%s" % err[-3000:])
        else:
            nviol += _report(run, cfg, build, by_id, tv, flags)
            triples += sum(t["triples"] for t in ts)
            trs += [dict(t, build=build) for t in ts]
        done.append(build)
    if not done:
        raise core.InfraError("deadline reached before any sweep configuration ran")
    first = [s for s in allstats if s["build"] == done[0]]
    nontriv = sum(1 for s in first if s["lt"] and s["eq"] and s["gt"])
    prem = sum(t["premises"] for t in trs)
    if prem == 0 and not n_nocompile:
        raise core.InfraError("transitivity cube: no premise ever held")
    tot = lambda k: sum(s[k] for s in allstats)
    run.cov.update({
        "evaluations": tot("in_pre") + triples + nacc + nrej,
        "operator_evaluations": tot("ops"),
        "pairs_generated": tot("pairs"),
        "pairs_skipped_scaling_overflows_common_rep": tot("skip_pre"),
        "results_skipped_not_representable_in_result_rep": tot("skip_res"),
        "mod_skipped_zero_divisor_or_min_by_minus_one": tot("skip_mod"),
        "float_comparisons_inside_4ulp_band_not_judged": tot("band"),
        "float_pairs_with_exact_scaled_operands_judged_exactly": tot("tight"),
        "float_pairs_with_nan_or_infinite_operand_judged_for_mutual_consistency_mirror_symmetry_and_spaceship": tot("nonfinite"),
        "float_pairs_with_nan_or_infinite_operand_where_six_operators_differ_from_ieee_not_judged": tot("nonfinite_not_ieee"),
        "ubsan_reports": tot("ubsan"),
        "instances_candidates": len(insts),
        "instances_admitted_by_policy_model": sum(1 for it in insts if it.predicted()),
        "instances_swept_per_build": {b: sum(1 for s in allstats if s["build"] == b) for b in done},
        "unit_pairs": [l for (l, _, _, _) in S.unit_pairs(tier)],
        "probes_accept": nacc, "probes_reject": nrej,
        "operator_groups_not_compiling_although_policy_admits_them": n_nocompile,
        "constant_expression_probes": sum(1 for it in insts if it.predicted()) * len(probe_cfgs),
        "domain_mismatch_count": len(mism), "domain_mismatch": mism[:12],
        "probe_config_disagreement": disagree[:10],
        "transitivity_triples": triples, "transitivity_premises_true": prem,
        "transitivity_chains": sorted({t["chain"] for t in trs}),
        "window_radius": radius, "float_alphabet_exponents": list(fexp),
        "sweep_builds": done, "sweep_builds_cut_by_deadline": cut,
        "sweep_builds_with_quick_alphabets": [b for (_, _, b, full) in sweeps if not full and b in done],
        "probe_configs": [str(c) for c in probe_cfgs],
        "distinct_nontrivial": nontriv,
        "raw_violation_records": nviol,
        "rule": "instance = (unit pair from the generated ratio x shape grid: integer / rational / 1 / irrational ratios x plain, "
                "prefixed, scaled, power, quotient, dimensionless, origin-carrying units) x (ordered rep pair of equal signedness from "
                "{int8,int16,int32,int64}, {uint8,uint16,uint32,uint64}, {float,double,long double}; shape pairs use a 14-pair mix "
                "in the quick tier). An instance the implicit-conversion policy admits (factor 1 or 2147*K <= max of the common rep; "
                "floating reps always) MUST compile for every operator group, also inside constant expressions. Value pairs per "
                "integral instance: the complete 8-bit square (65536), window x window over breakpoint windows (0, +-1, min, max, "
                "2^7/8/15/16/31/32/63, exact overflow thresholds of the scaling in the common rep and in each narrower rep, half the "
                "result range), lattice x lattice over the enumerated mid-range lattice {2^j, 3*2^(j-1), 5*2^(j-2), 2^j/K, "
                "3*2^(j-1)/K} +-1, the near-diagonal of both (other operand within +-2 of the equal quantity), and every value of a "
                "16-bit operand against the other operand's extremes, 0, 1 and nearest values (thorough, four ratios: against the "
                "other operand's whole window alphabet). Floating instances: the 8-bit square, 0/-0/+-1/denorm_min/NaN/+-inf, eight "
                "mantissas x sign x exponents (incl. smallest normal, subnormals, and just below max(C)/4/K), near-diagonal both "
                "ways. On every pair inside the precondition all six comparisons, <=> (C++20 builds), +, -, % are evaluated in BOTH "
                "argument orders and compared with exact __int128 / __float128 arithmetic in the model's common unit. An instance "
                "is non-trivial when <, == and > were each observed true on it.",
        "exhaustive": not cut,
        "exhaustive_note": "exhaustive over the 8-bit square of every admitted instance and over the stated enumerated alphabets; "
                           "16/32/64-bit values outside them are not covered; transitivity: full 8-bit cube (2^24 triples) per chain",
        "samples": [{"instance": by_id[s["inst"]].desc(), "K1": by_id[s["inst"]].k1, "K2": by_id[s["inst"]].k2,
                     "common_rep": by_id[s["inst"]].c, "pairs_in_precondition": s["in_pre"],
                     "skipped": s["skip_pre"], "lt_eq_gt": [s["lt"], s["eq"], s["gt"]]}
                    for s in first[:: max(1, len(first) // 6)]][:8],
    })
    run.cov.update(counters)
    run.assumptions += [
        "remainder means the truncated-division remainder of the exact scaled values (the built-in % / std::fmod "
        "convention); x % 0 and min % -1 in the promoted rep are undefined in C++ and are not executed",
        "a sum/difference is judged when the exact result is representable in the promoted common rep or in the rep the library "
        "actually returns; otherwise it is counted in results_skipped_* and not executed. Which rep the result has is recorded, not demanded",
        "floating reps: when both factors are integers representable in the common rep C and both scaled operands are values of C, "
        "comparisons are judged exactly and sums/differences to 1 ulp of C at the result; otherwise |result - exact| <= 4 ulp of C at "
        "max(|a|,|b|) (a, b = exactly scaled operands) and comparisons only when |a-b| exceeds that. NaN / infinite operands have "
        "no exact value: the mutual consistency of the six operators (<= is < or ==, >= is > or ==, != is not ==), their mirror symmetry under swapping the operands, and the agreement of <=> with them are judged there (raw IEEE operators satisfy all three); whether the individual answers are the IEEE ones is only counted",
        "an instance admitted by the policy model must compile (violation otherwise); an instance the model excludes is swept "
        "when it compiles anyway and is logged as domain_mismatch",
        "undefined behaviour reported by UBSan on a pair inside the precondition is reported as a violation (the result of an "
        "evaluation with UB is not 'exactly' anything)",
        "not covered: compound assignment with a differently-united argument, the Quantity-equivalent (QLike) overloads and comparisons "
        "with ZERO (outside the statement's operator list)",
        "x86-64 LP64, g++ 12 / clang 14; UBSan (-fsanitize=undefined) observes the clang c++20 build",
    ]


def replay(path):
    r = json.load(open(path))
    cfg = [c for c in core.CFG6 if str(c) == r.get("config")]
    cfg = cfg[0] if cfg else core.GXX14
    wd = os.path.join(core.BUILD, "C08", "replay")
    os.makedirs(wd, exist_ok=True)
    if r.get("kind") == "probe":
        p = core.Probe(0, r["code"], "accept")
        res, _ = core.run_probes(cfg, [p], wd, "rp", flags=cflags(cfg))
        print("observed:", res[0][0], res[0][1][:200])
        if res[0][0] != "accept":
            print("VIOLATION property=C08 replay=%s" % path)
            return 1
        return 0
    if r.get("kind") == "transitivity":
        ch, ts, vs, err = S.run_transitivity(wd, cfg, "thorough")
        hit = [v for v in vs if v["op"] == r["chain"]]
        for h in hit[:3]:
            print("reproduced:", json.dumps(h))
        if hit:
            print("VIOLATION property=C08 replay=%s" % path)
            return 1
        print("not reproduced on the current tree")
        return 0
    i = r["instance"]
    it = S.Inst(0, i["label"], S.Un.from_rec(i["u1"]), S.Un.from_rec(i["u2"]), i["r1"], i["r2"])
    it.ops[cfg.name] = i["ops"]
    o = r["observed"]
    if not it.flt:
        x1, x2 = int(r["x1"]), int(r["x2"])
        it.iv1, it.iv2, it.lat1, it.lat2, it.square8, it.dense = [(x1, x1)], [(x2, x2)], [], [], False, 0
    stats, viols = S.build_and_run(wd, cfg, "rp", [it], r.get("flags", []), 0, (-20, 60, 2), nsplit=1)
    hit = [v for v in viols if (v["kind"], v["op"], v["order"], v["x1"], v["x2"]) ==
           (o["kind"], o["op"], o["order"], o["x1"], o["x2"])]
    for h in hit:
        print("reproduced:", json.dumps(h))
    if hit:
        print("VIOLATION property=C08 replay=%s" % path)
        return 1
    print("not reproduced on the current tree: %s x1=%s x2=%s" % (it.desc(), r["x1"], r["x2"]))
    return 0
