"""C08 — mixed-unit comparison, addition, subtraction, modulo are exact (bounded exhaustive sweeps)."""
import json
import os
from fractions import Fraction as Fr

from .. import c08_sweep as S
from .. import core, model
from ..sweep34 import cflags

LEVEL = "exploration"

EXACT_KINDS = {"cmp-exact", "spaceship-exact", "sum", "diff", "mod"}


def _probe(run, insts, cfgs):
    mism, nacc, nrej = [], 0, 0
    for cfg in cfgs:
        ps = S.probes_for(insts, cfg)
        res, _ = core.run_probes(cfg, ps, os.path.join(run.wd, "probes_" + cfg.name), "c08p", flags=cflags(cfg))
        for it in insts:
            it.ops[cfg.name] = {}
        for p in ps:
            v, diag = res[p.pid]
            it = insts[p.meta["inst"]]
            it.ops[cfg.name][p.meta["group"]] = (v == "accept")
            nacc += v == "accept"
            nrej += v == "reject"
            if v != p.expect:
                mism.append({"config": str(cfg), "instance": it.desc(), "group": p.meta["group"],
                             "predicted": p.expect, "observed": v, "diag": diag[:160]})
    return mism, nacc, nrej


def _prepare(insts, radius):
    for it in insts:
        if it.flt:
            continue
        it.iv1 = S.window_alphabet(it.r1, it.k1, it.c, it.p, radius)
        it.iv2 = S.window_alphabet(it.r2, it.k2, it.c, it.p, radius)
        it.square8 = True


def _report(run, cfg, build, insts_by_id, viols, flags):
    n = 0
    for v in viols:
        if v["kind"] == "transitivity":
            key = "C08:transitivity:%s:x=%s:y=%s:%s" % (v["op"], v["x1"], v["x2"], v["got"].split(":")[0])
            what = "%s [%s]: chain %s, x=%s y=%s %s" % (v["kind"], build, v["op"], v["x1"], v["x2"], v["got"])
            rp = None
            if run.match_known(key) is None:
                rp = run.write_replay(key, {"kind": "transitivity", "config": str(cfg), "chain": v["op"],
                                            "observed": v, "what": what})
            run.violation(key, what, rp)
            n += 1
            continue
        it = insts_by_id[v["inst"]]
        if v["kind"] in EXACT_KINDS and not it.flt:
            ok, exp = S.py_expect(it, v["kind"], v["op"], v["order"], int(v["x1"]), int(v["x2"]))
            if not ok or (exp is not None and exp != v["want"]):
                raise core.InfraError("C08 oracle routes disagree (C++ __int128 vs Python Fractions) on %s %s: "
                                      "harness wants %s, Python says in_statement=%s expected=%s"
                                      % (it.desc(), v, v["want"], ok, exp))
        key = "C08:%s:%s:%s:order=%d:x1=%s:x2=%s" % (v["kind"], v["op"], it.desc(), v["order"], v["x1"], v["x2"])
        lhs, rhs = ("%s(%s{%s})" % (it.u1.name, it.r1, v["x1"]), "%s(%s{%s})" % (it.u2.name, it.r2, v["x2"]))
        if v["order"] == 1:
            lhs, rhs = rhs, lhs
        what = ("%s: %s %s %s gives %s, exact/required %s (common unit = U/%s resp. U/%s, common rep %s) [%s]"
                % (v["kind"], lhs, v["op"], rhs, v["got"], v["want"], it.k1, it.k2, it.c, build))
        rp = None
        if run.match_known(key) is None:
            rp = run.write_replay(key, {
                "kind": "value", "config": str(cfg), "flags": list(flags), "what": what, "observed": v,
                "instance": {"label": it.label, "u1": [it.u1.name, it.u1.cpp, str(it.u1.frac)],
                             "u2": [it.u2.name, it.u2.cpp, str(it.u2.frac)], "r1": it.r1, "r2": it.r2,
                             "ops": it.ops[cfg.name]},
                "x1": v["x1"], "x2": v["x2"]})
        run.violation(key, what, rp)
        n += 1
    return n


def _check_units(run, cfg, build, insts_by_id, stats):
    for s in stats:
        it = insts_by_id[s["inst"]]
        want = model.mag_of_fraction(it.g)
        for fld, okf in (("sum_unit", "rep_ok"), ("mod_unit", "mod_rep_ok")):
            if not s[okf]:
                key = "C08:result-rep:%s:%s" % (fld.split("_")[0], it.desc())
                run.violation(key, "%s: the result rep of %s is not the promoted common rep %s [%s]"
                              % (it.desc(), fld.split("_")[0], it.p, build))
            if s[fld] is None:
                continue
            got = model.mag_from_readout(s[fld]["mag"])
            if model.mag_key(got) != model.mag_key(want):
                key = "C08:result-unit:%s:%s" % (fld.split("_")[0], it.desc())
                run.violation(key, "%s: result of %s is expressed in a unit of magnitude %s, the common (gcd) unit "
                              "has %s [%s]" % (it.desc(), fld.split("_")[0], s[fld]["mag"], it.g, build))


def _selftest(run):
    """Perturb the ORACLE (not Au): with a wrong scale factor the comparison must fail."""
    it = S.Inst(0, "12", S.lib("feet"), S.lib("inches"), "int32_t", "int32_t")
    it.k1 += 1
    it.ops[core.GXX14.name] = {"cmp": True, "add": True, "mod": True}
    it.iv1 = it.iv2 = [(-3, 3)]
    it.square8 = False
    stats, viols = S.build_and_run(run.wd, core.GXX14, "selftest", [it], [], 0, (0, 0, 1), nsplit=1)
    kinds = {v["kind"] for v in viols}
    if not {"cmp-exact", "sum", "diff", "mod"} <= kinds:
        raise core.InfraError("C08 selftest: a perturbed oracle was not noticed (kinds seen: %s)" % sorted(kinds))
    return len(viols)


def check(run):
    tier = run.tier
    quick = tier == "quick"
    if getattr(run, "selftest", False):
        run.cov["selftest_perturbed_oracle_mismatches"] = _selftest(run)
    insts = S.instances(tier)
    probe_cfgs = core.CORNERS if quick else core.CFG6
    mism, nacc, nrej = _probe(run, insts, probe_cfgs)
    radius = 12 if quick else 64
    fexp = (-12, 40, 4) if quick else (-20, 60, 2)
    _prepare(insts, radius)
    sweeps = [(core.GXX14, [], "g++-14"), (core.CLANG20, S.UBSAN, "clang-20-ubsan")]
    if not quick:
        sweeps.insert(1, (core.GXX20, [], "g++-20"))
    by_id = {it.id: it for it in insts}
    allstats, nviol, triples, trs = [], 0, 0, []
    done, cut = [], []
    disagree = [it.desc() for it in insts
                if len({tuple(sorted((k, v) for k, v in it.ops[c.name].items() if k != "ss")) for c in probe_cfgs}) > 1]
    for cfg, flags, build in sweeps:
        if run.time_left() < 300:
            cut.append(build)
            continue
        acc = [it for it in insts if it.ops[cfg.name].get("cmp") and it.ops[cfg.name].get("add")]
        if len(acc) < 0.6 * len(insts):
            raise core.InfraError("vacuity guard: only %d of %d instances accepted under %s (mismatches: %s)"
                                  % (len(acc), len(insts), cfg, mism[:3]))
        for lab in {it.label for it in insts}:
            if not any(it.label == lab and it.r1 != it.r2 and not it.flt for it in acc):
                raise core.InfraError("vacuity guard: no mixed-width integral instance accepted for ratio %s" % lab)
        stats, viols = S.build_and_run(run.wd, cfg, build, acc, flags, radius, fexp, nsplit=core.NCPU * 2,
                                       timeout=max(300, min(3000, run.time_left())))
        trapped = any(v["kind"] == "trap" for v in viols)
        if len(stats) != len(acc) and not trapped:
            raise core.InfraError("C08: %d instances swept but %d reported" % (len(acc), len(stats)))
        vac = [by_id[s["inst"]].desc() for s in stats if s["in_pre"] == 0 or s["ops"] == 0]
        if vac:
            raise core.InfraError("vacuous instances (no pair inside the precondition): %s" % vac[:3])
        nviol += _report(run, cfg, build, by_id, viols, flags)
        _check_units(run, cfg, build, by_id, stats)
        allstats += [dict(s, build=build) for s in stats]
        ch, ts, tv = S.run_transitivity(run.wd, cfg, tier)
        nviol += _report(run, cfg, build, by_id, tv, flags)
        triples += sum(t["triples"] for t in ts)
        trs += [dict(t, build=build) for t in ts]
        done.append(build)
    if not done:
        raise core.InfraError("deadline reached before any sweep configuration ran")
    first = [s for s in allstats if s["build"] == done[0]]
    nontriv = sum(1 for s in first if s["lt"] and s["eq"] and s["gt"])
    prem = sum(t["premises"] for t in trs)
    if prem == 0:
        raise core.InfraError("transitivity cube: no premise ever held")
    run.cov.update({
        "evaluations": sum(s["in_pre"] for s in allstats) + triples,
        "operator_evaluations": sum(s["ops"] for s in allstats),
        "pairs_generated": sum(s["pairs"] for s in allstats),
        "pairs_skipped_scaling_overflows_common_rep": sum(s["skip_pre"] for s in allstats),
        "results_skipped_not_representable_in_result_rep": sum(s["skip_res"] for s in allstats),
        "mod_skipped_zero_divisor_or_min_by_minus_one": sum(s["skip_mod"] for s in allstats),
        "float_comparisons_inside_4ulp_band_not_judged": sum(s["band"] for s in allstats),
        "ubsan_reports": sum(s["ubsan"] for s in allstats),
        "instances_candidates": len(insts),
        "instances_swept_per_build": {b: sum(1 for s in allstats if s["build"] == b) for b in done},
        "unit_pairs": [l for (l, _, _) in S.unit_pairs(tier)],
        "probes_accept": nacc, "probes_reject": nrej,
        "domain_mismatch_count": len(mism), "domain_mismatch": mism[:12],
        "probe_config_disagreement": disagree[:10],
        "transitivity_triples": triples, "transitivity_premises_true": prem,
        "transitivity_chains": sorted({t["chain"] for t in trs}),
        "window_radius": radius, "float_alphabet_exponents": list(fexp),
        "sweep_builds": done, "sweep_builds_cut_by_deadline": cut,
        "probe_configs": [str(c) for c in probe_cfgs],
        "distinct_nontrivial": nontriv,
        "raw_violation_records": nviol,
        "rule": "instance = (unit pair from the ratio grid) x (ordered rep pair of equal signedness from "
                "{int16,int32,int64}, {uint16,uint32,uint64}, {float,double}) whose operators compile (observed by "
                "accept/reject probes per configuration; predicted by the 2147-threshold policy). Value pairs per "
                "instance: the complete 8-bit square (65536), window x window over breakpoint windows (0, +-1, "
                "min, max, 2^15/16/31/32/63, exact overflow thresholds of the scaling in the common rep and in each "
                "narrower rep, half the result range) and the near-diagonal (other operand within +-2 of the equal "
                "quantity). On every pair inside the precondition all six comparisons, <=> (C++20 builds), +, -, % are "
                "evaluated in BOTH argument orders and compared with exact __int128 / __float128 arithmetic in the "
                "model's gcd unit. An instance is non-trivial when <, == and > were each observed true on it.",
        "exhaustive": not cut,
        "exhaustive_note": "exhaustive over the 8-bit square of every accepted instance and over the stated window "
                           "alphabets; 16/32/64-bit values outside the windows are not covered; transitivity: full "
                           "8-bit cube (2^24 triples) per chain permutation",
        "samples": [{"instance": by_id[s["inst"]].desc(), "K1": by_id[s["inst"]].k1, "K2": by_id[s["inst"]].k2,
                     "common_rep": by_id[s["inst"]].c, "pairs_in_precondition": s["in_pre"],
                     "skipped": s["skip_pre"], "lt_eq_gt": [s["lt"], s["eq"], s["gt"]]}
                    for s in first[:: max(1, len(first) // 6)]][:8],
    })
    run.assumptions += [
        "remainder means the truncated-division remainder of the exact scaled values (the built-in % / std::fmod "
        "convention); x % 0 and min % -1 in the promoted rep are undefined in C++ and are not executed",
        "a sum/difference/remainder is judged only when the exact result is representable in the result rep "
        "(promoted common rep); otherwise it is counted in results_skipped_* and not executed",
        "floating reps: |result - exact| <= 4 ulp of the common rep at max(|a|,|b|) (a, b = exactly scaled operands); "
        "comparisons judged only when |a-b| exceeds that; non-finite values are not generated",
        "which instances compile is observed, not demanded; the policy prediction is logged as domain_mismatch only",
        "x86-64 LP64, g++ 12 / clang 14; UBSan (-fsanitize=undefined) observes the clang build",
    ]


def replay(path):
    r = json.load(open(path))
    cfg = [c for c in core.CFG6 if str(c) == r.get("config")]
    cfg = cfg[0] if cfg else core.GXX14
    wd = os.path.join(core.BUILD, "C08", "replay")
    os.makedirs(wd, exist_ok=True)
    if r.get("kind") == "transitivity":
        ch, ts, vs = S.run_transitivity(wd, cfg, "thorough")
        hit = [v for v in vs if v["op"] == r["chain"]]
        for h in hit[:3]:
            print("reproduced:", json.dumps(h))
        if hit:
            print("VIOLATION property=C08 replay=%s" % path)
            return 1
        print("not reproduced on the current tree")
        return 0
    i = r["instance"]
    it = S.Inst(0, i["label"], S.Un(i["u1"][0], i["u1"][1], Fr(i["u1"][2])), S.Un(i["u2"][0], i["u2"][1], Fr(i["u2"][2])),
                i["r1"], i["r2"])
    it.ops[cfg.name] = i["ops"]
    if not it.flt:
        x1, x2 = int(r["x1"]), int(r["x2"])
        it.iv1, it.iv2, it.square8 = [(x1, x1)], [(x2, x2)], False
    stats, viols = S.build_and_run(wd, cfg, "rp", [it], r.get("flags", []), 0, (-20, 60, 2), nsplit=1)
    o = r["observed"]
    hit = [v for v in viols if (v["kind"], v["op"], v["order"], v["x1"], v["x2"]) ==
           (o["kind"], o["op"], o["order"], o["x1"], o["x2"])]
    for h in hit:
        print("reproduced:", json.dumps(h))
    if hit:
        print("VIOLATION property=C08 replay=%s" % path)
        return 1
    print("not reproduced on the current tree: %s x1=%s x2=%s" % (it.desc(), r["x1"], r["x2"]))
    return 0
