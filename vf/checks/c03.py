"""C03 — checker-cleared integer conversions are exact and UB-free (bounded exhaustive value sweeps)."""
from .. import core, sweep34

LEVEL = "exploration"


def check(run):
    cov = sweep34.explore(run, sweep34.C03_KINDS)
    cov["rule"] = ("instances = (integral rep T) x (factor N/D from the structured grid FG(T)): T = the 8 fixed-width aliases "
                   "(full grid: 1..12 x 1..12, library ratios, values straddling the limits of T and of its promoted type, "
                   "the branch boundaries den > p_lim/t_lim of Max/MinNonOverflowingValue with both neighbours, large-N-large-D "
                   "corners, large primes, and coprime pairs of 3-prime / smooth numbers next to the limits) and the distinct "
                   "integral types long long, unsigned long long, char, wchar_t, char16_t, char32_t (reduced branch-covering "
                   "grid); source Meters -> anonymous Meters*D/N, plus 16 shaped instances per rep (QuantityMaker and symbol "
                   "slots, prefixed / compound / powered library units, the identity and an equivalent-unit target). "
                   "Compile domain: coerce_in/coerce_as and the three checkers are probed separately, each instance alone "
                   "where it matters; a conversion that stops compiling inside the predicted domain, a checker that does not "
                   "compile where the conversion does, or a sweep that does not compile is a violation. "
                   "Values = all values of 8/16-bit reps; for 32/64-bit reps breakpoint-complete windows (incl. thresholds "
                   "of alternative plausible computations), residue sweeps over every class mod D (D <= "
                   "residue_sweep_max_denominator) at mid-range offsets, a fixed lattice (k*2^j+r, half-word patterns, "
                   "k*10^j+r, runs of ones) over the whole range, and +-2 around the library's own thresholds (thorough: all "
                   "2^32 values for a branch-covering factor subset). Each value: if is_conversion_lossy is false, coerce_in / "
                   "coerce_as (and .in/.as where the policy permits) are executed under clang UBSan (signed overflow, unsigned "
                   "wrap, value-changing implicit narrowing) and compared with the exact 128-bit result. Conversions of cleared "
                   "values are also evaluated inside static_assert under all six compiler/standard configurations (UB met by "
                   "the constant evaluator is an error). An instance is non-trivial when both lossy and non-lossy values were "
                   "observed on it.")
    cov["exhaustive"] = True
    cov["exhaustive_note"] = ("exhaustive for every 8/16-bit instance (and 2^32 instances in thorough); "
                              "32/64-bit instances are covered on the stated windows, residue sweeps and lattice only")
    run.cov.update(cov)
    run.assumptions += ["g++ 12 / clang 14 on x86-64 LP64 execute the compiled harness faithfully",
                        "harness/sweep.hh exact_scale (unsigned __int128) is the reference semantics",
                        "values strictly between Tmax and Tmax+1 (or Tmin-1 and Tmin) are a don't-care band "
                        "for will_conversion_overflow; is_conversion_lossy must still be true there",
                        "64-bit reps: no proof for all 2^64 values. The argument is bounded: the library's threshold constants "
                        "equal the big-integer model (or lie in the don't-care band), the checker is evaluated on both sides of "
                        "the model's and of the library's thresholds, on every residue class mod D and on a range-wide lattice; "
                        "the same template code is swept over all 2^32 values for 32-bit reps in the thorough tier",
                        "sanitizer events inside the checkers (e.g. libstdc++'s numeric_limits<char16_t>::max() converting -1) "
                        "are recorded, not judged: C04 constrains the verdicts, C03 the conversion's own steps",
                        "bool is not swept (every factor other than 1 is outside its domain)"]


def replay(path):
    return sweep34.replay(path, "C03")
