"""C14 — products, quotients and powers combine values raw-wise and units algebraically."""
import itertools
import os
from fractions import Fraction as Fr

from .. import core, model, psx
from ..core import F3, I8, R11, tmax
from ..model import LIB_BY_STEM as U
from ..sweep34 import cflags
from . import c06, c07

LEVEL = "exploration"

PREAMBLE = c07.PREAMBLE + r'''
namespace c14 {
// value identity (long double has padding bytes, so memcmp over sizeof is not meaningful for it)
template <typename T> bool same_val(T a, T b) { return std::memcmp(&a, &b, sizeof(T) == 16 ? 10 : sizeof(T)) == 0; }
template <typename T, bool IsQ> struct Out;
template <typename U, typename R> struct IsQuantity : std::false_type {};
template <typename T> struct QInfo {
    static constexpr bool is_quantity = false;
    static std::string unit() { return "null"; }
    template <typename Want> static bool rep_is() { return std::is_same<T, Want>::value; }
    static long double value(T v) { return static_cast<long double>(v); }
};
template <typename U, typename R> struct QInfo<au::Quantity<U, R>> {
    static constexpr bool is_quantity = true;
    static std::string unit() { return "{" + vf::unit_json<U>() + "}"; }
    template <typename Want> static bool rep_is() { return std::is_same<R, Want>::value; }
    static long double value(au::Quantity<U, R> q) { return static_cast<long double>(q.in(U{})); }
};
template <typename A, typename B, typename RA, typename RB>
void pair_rec() {
    const RA a = static_cast<RA>(6);
    const RB b = static_cast<RB>(4);
    auto p = au::make_quantity<A>(a) * au::make_quantity<B>(b);
    using P = decltype(p);
    vf_b("p_q", QInfo<P>::is_quantity);
    vf_kv("p_u", QInfo<P>::unit());
    vf_b("p_rep", QInfo<P>::template rep_is<decltype(a * b)>());
    vf_b("p_val", QInfo<P>::value(p) == static_cast<long double>(a * b));
}
template <typename A, typename B, typename RA, typename RB>
void quot_rec() {
    const RA a = static_cast<RA>(6);
    const RB b = static_cast<RB>(4);
    auto p = au::make_quantity<A>(a) / au::make_quantity<B>(b);
    using P = decltype(p);
    vf_b("d_q", QInfo<P>::is_quantity);
    vf_kv("d_u", QInfo<P>::unit());
    vf_b("d_rep", QInfo<P>::template rep_is<decltype(a / b)>());
    vf_b("d_val", QInfo<P>::value(p) == static_cast<long double>(a / b));
}
}
'''


def gen_units():
    m = U["meters"]
    return [model.Unit("wugs", "gen::Wugs", m.dim, model.mag_ratio(35, 3), 0, "wug"),
            model.Unit("zorks", "gen::Zorks", m.dim, model.mag_int(11), 0, None),
            model.Unit("blips", "gen::Blips", model.d(T=1), model.mag_ratio(77, 2), 0, None),
            model.scaled(U["feet"], 3), model.scaled(U["seconds"], 1, 1000),
            model.prefixed(model.SI_PREFIXES[9], U["grams"]), model.prefixed(model.SI_PREFIXES[14], U["seconds"]),
            model.Unit("m/s", "decltype(au::Meters{} / au::Seconds{})", model.d(L=1, T=-1), {}, 0, None, named=False),
            model.Unit("m^2", "decltype(au::pow<2>(au::Meters{}))", model.d(L=2), {}, 0, None, named=False),
            model.Unit("1/s", "decltype(au::pow<-1>(au::Seconds{}))", model.d(T=-1), {}, 0, None, named=False),
            model.Unit("rt-s", "decltype(au::root<2>(au::Seconds{}))", model.d(T=Fr(1, 2)), {}, 0, None, named=False),
            model.scaled(U["radians"], 1, 1, pi_pow=1)]


def check(run):
    tier = run.tier
    units = list(model.LIB) + gen_units()
    if tier == "quick":
        pairs = [(a, b) for i, a in enumerate(units) for j, b in enumerate(units) if (i * 7 + j) % 5 == 0 or a.name in ("hertz", "seconds", "meters", "feet") or b.name in ("hertz", "seconds", "Milli<seconds>")]
    else:
        pairs = list(itertools.product(units, repeat=2))
    pairs = [(a, b) for a, b in pairs if not model.ordering_conflict([a, b])]
    recs, meta = [], {}
    rid = 0
    for a, b in pairs:
        recs.append((rid, ["c14::pair_rec<%s, %s, double, float>();" % (a.cpp, b.cpp), "c14::quot_rec<%s, %s, double, float>();" % (a.cpp, b.cpp)]))
        meta[rid] = {"kind": "pair", "a": a, "b": b}
        rid += 1
    # all rep pairs for 12 unit pairs
    upairs = [(U["hertz"], U["seconds"]), (U["hertz"], model.prefixed(model.SI_PREFIXES[14], U["seconds"])), (U["meters"], U["feet"]),
              (U["meters"], U["meters"]), (U["feet"], model.scaled(U["inches"], 12)), (U["newtons"], U["meters"]), (U["percent"], U["unos"]),
              (U["radians"], U["degrees"]), (U["bytes"], U["bits"]), (U["joules"], U["watts"]), (U["volts"], U["amperes"]), (U["miles"], U["hours"])]
    probes = []
    for a, b in upairs:
        equiv = model.same_quantity(a, b)
        for ra in R11:
            for rb in R11:
                recs.append((rid, ["c14::pair_rec<%s, %s, %s, %s>();" % (a.cpp, b.cpp, ra, rb)]))
                meta[rid] = {"kind": "prod-rep", "a": a, "b": b, "ra": ra, "rb": rb}
                rid += 1
                blocked = (ra in I8 and rb in I8 and not equiv)
                if not blocked:
                    recs.append((rid, ["c14::quot_rec<%s, %s, %s, %s>();" % (a.cpp, b.cpp, ra, rb)]))
                    meta[rid] = {"kind": "quot-rep", "a": a, "b": b, "ra": ra, "rb": rb}
                    rid += 1
                code = "auto x = au::make_quantity<%s>(static_cast<%s>(6)) / au::make_quantity<%s>(static_cast<%s>(4)); (void)x;" % (a.cpp, ra, b.cpp, rb)
                probes.append(core.Probe(("qq", a.name, b.name, ra, rb), code, "reject" if blocked else "accept"))
                if blocked:
                    probes.append(core.Probe(("qq-unblock", a.name, b.name, ra, rb),
                                             "auto x = au::make_quantity<%s>(static_cast<%s>(6)) / au::unblock_int_div(au::make_quantity<%s>(static_cast<%s>(4))); (void)x;" % (a.cpp, ra, b.cpp, rb), "accept"))
    # scalar / quantity
    # (int / Quantity<Unos,int> is left out: Unos is quantity-equivalent to the unitless unit, i.e. the "equivalent units" case)
    for u in (U["seconds"], U["meters"], U["percent"], U["hertz"]):
        for rs in R11:
            for rq in R11:
                blocked = rs in I8 and rq in I8
                code = "auto x = static_cast<%s>(6) / au::make_quantity<%s>(static_cast<%s>(4)); (void)x;" % (rs, u.cpp, rq)
                probes.append(core.Probe(("sq", u.name, rs, rq), code, "reject" if blocked else "accept"))
                if blocked and rs in ("int32_t", "uint8_t", "int64_t"):
                    probes.append(core.Probe(("sq-unblock", u.name, rs, rq),
                                             "auto x = static_cast<%s>(6) / au::unblock_int_div(au::make_quantity<%s>(static_cast<%s>(4))); (void)x;" % (rs, u.cpp, rq), "accept"))
    # as_raw_number
    kilo_unos = model.prefixed(model.SI_PREFIXES[9], U["unos"])
    mega_unos = model.prefixed(model.SI_PREFIXES[8], U["unos"])
    raws = [(U["percent"], None), (U["unos"], None), (kilo_unos, None), (mega_unos, None), (U["meters"], None), (U["radians"], None),
            (model.Unit("m/ft", "decltype(au::Meters{} / au::Feet{})", {}, model.vdiv(U["meters"].mag, U["feet"].mag), 0, None, named=False), None),
            (model.Unit("Hz*s", "decltype(au::Hertz{} * au::Seconds{})", {}, {}, 0, None, named=False), None),
            (model.Unit("deg/rad", "decltype(au::Degrees{} / au::Radians{})", {}, model.DEG, 0, None, named=False), None)]
    for u, _ in raws:
        for r in R11:
            ok = (not u.dim) and c06.policy(r, r, u.mag)
            code = "auto x = au::as_raw_number(au::make_quantity<%s>(static_cast<%s>(5))); static_assert(std::is_same<decltype(x), %s>::value, \"\"); (void)x;" % (u.cpp, r, r)
            probes.append(core.Probe(("raw", u.name, r), code, "accept" if ok else "reject"))
    # powers and roots
    for u in (U["meters"], U["seconds"], model.scaled(U["feet"], 3), gen_units()[7], U["hertz"], U["percent"]):
        for r in R11:
            for k in range(-4, 5):
                if r in I8 and k < 0:
                    probes.append(core.Probe(("ipow-neg", u.name, r, k), "auto x = au::int_pow<%d>(au::make_quantity<%s>(static_cast<%s>(3))); (void)x;" % (k, u.cpp, r), "reject"))
                    continue
                stm = ['{ auto q = au::make_quantity<%s>(static_cast<%s>(3)); auto p = au::int_pow<%d>(q); using P = decltype(p);' % (u.cpp, r, k),
                       'vf_b("q", c14::QInfo<P>::is_quantity); vf_kv("u", c14::QInfo<P>::unit());',
                       'vf_s("v", c11fmt(c14::QInfo<P>::value(p))); vf_b("rep", c14::QInfo<P>::template rep_is<decltype(static_cast<%s>(3) * static_cast<%s>(3))>() || c14::QInfo<P>::template rep_is<%s>()); }' % (r, r, r)]
                recs.append((rid, stm))
                meta[rid] = {"kind": "ipow", "u": u, "r": r, "k": k}
                rid += 1
        for r in F3:
            for fn, kk in (("sqrt", 2), ("cbrt", 3)):
                stm = ['{ auto q = au::make_quantity<%s>(static_cast<%s>(7.25)); auto p = au::%s(q); using P = decltype(p);' % (u.cpp, r, fn),
                       'vf_kv("u", c14::QInfo<P>::unit()); vf_b("bits", c14::same_val(p.in(P::unit), std::%s(static_cast<%s>(7.25))));' % (fn, r),
                       'vf_b("rep", c14::QInfo<P>::template rep_is<decltype(std::%s(static_cast<%s>(7.25)))>()); }' % (fn, r)]
                recs.append((rid, stm))
                meta[rid] = {"kind": "root", "u": u, "r": r, "k": kk}
                rid += 1
            stm = ['{ auto q = au::make_quantity<%s>(static_cast<%s>(7.25)); auto p = static_cast<%s>(1) / q; using P = decltype(p);' % (u.cpp, r, r),
                   'vf_kv("u", c14::QInfo<P>::unit()); vf_b("bits", c14::same_val(p.in(P::unit), static_cast<%s>(1) / static_cast<%s>(7.25))); vf_b("rep", c14::QInfo<P>::template rep_is<%s>()); }' % (r, r, r)]
            recs.append((rid, stm))
            meta[rid] = {"kind": "root", "u": u, "r": r, "k": -1}
            rid += 1
    # value sweeps: all int8 x int8 pairs through * and / on unit pairs with and without cancellation
    vs = [("au::Hertz", "au::Seconds"), ("au::Hertz", "au::Milli<au::Seconds>"), ("au::Meters", "au::Feet"), ("au::Meters", "au::Meters"),
          ("au::Feet", "decltype(au::Inches{} * au::mag<12>())"), ("au::Newtons", "au::Meters")]
    for ua, ub in vs:
        for t in ("int8_t", "uint8_t"):
            stm = ['{ long long n = 0, bad = 0, fa = 0, fb = 0; for (int a = %d; a <= %d; ++a) for (int b = %d; b <= %d; ++b) {' % (core.tmin(t), core.tmax(t), core.tmin(t), core.tmax(t)),
                   'const %s x = static_cast<%s>(a), y = static_cast<%s>(b); ++n;' % (t, t, t),
                   'auto p = au::make_quantity<%s>(x) * au::make_quantity<%s>(y); if (c14::QInfo<decltype(p)>::value(p) != static_cast<long double>(x * y)) { if (!bad) { fa = a; fb = b; } ++bad; }' % (ua, ub),
                   'if (y != 0) { auto d = au::make_quantity<%s>(x) / au::unblock_int_div(au::make_quantity<%s>(y)); if (c14::QInfo<decltype(d)>::value(d) != static_cast<long double>(x / y)) { if (!bad) { fa = a; fb = b; } ++bad; } }' % (ua, ub),
                   '} vf_i("n", n); vf_i("bad", bad); vf_i("fa", fa); vf_i("fb", fb); }']
            recs.append((rid, stm))
            meta[rid] = {"kind": "sweep", "ua": ua, "ub": ub, "t": t}
            rid += 1
    pre = '#include "sweep.hh"\n' + PREAMBLE + '\nstatic std::string c11fmt(long double v) { char b[96]; std::snprintf(b, sizeof b, "%La", v); return b; }\n'
    if tier == "quick":
        probes = [p for i, p in enumerate(probes) if p.pid[0] in ("raw", "qq-unblock", "sq-unblock") or i % 3 == 0]
    cfgs = core.CORNERS if tier == "quick" else core.CFG6
    evals = 0
    nraw = nq = 0
    from . import c11
    for cfg in cfgs:
        res, failed = psx.run_dump(cfg, recs, os.path.join(run.wd, cfg.name), "c14", pre, flags=cflags(cfg), chunk=max(20, len(recs) // (core.NCPU * 3) + 1))
        for r, diag in failed.items():
            m = meta[r]
            desc = "%s:%s" % (m["kind"], ",".join(str(getattr(v, "name", v)) for k, v in m.items() if k != "kind"))
            run.violation("C14:does-not-compile:" + desc, "%s: %s does not compile: %s" % (cfg, desc, diag),
                          run.write_replay("C14:does-not-compile:" + desc, {"kind": "program", "config": str(cfg), "stmts": recs[r][1]}))
        for r, o in res.items():
            m = meta[r]
            evals += 1
            desc = "%s:%s" % (m["kind"], ",".join(str(getattr(v, "name", v)) for k, v in m.items() if k != "kind"))

            def viol(kind, what):
                key = "C14:%s:%s" % (kind, desc)
                run.violation(key, "%s: %s" % (cfg, what), run.write_replay(key, {"kind": "program", "config": str(cfg), "stmts": recs[r][1], "observed": o}))

            def unit_ok(tag, uj, dim, mag):
                unitless = (not dim) and (not mag)
                if unitless:
                    if o[tag + "_q"]:
                        viol(tag + "-not-raw", "units cancel exactly but the result is a Quantity")
                    return
                if not o[tag + "_q"]:
                    viol(tag + "-raw", "units do not cancel to the unitless unit (dim %s mag %s) but the result is a raw number" % (model.dim_key(dim), model.mag_key(mag)))
                    return
                gd, gm = model.dim_key(model.dim_from_readout(uj["dim"])), model.mag_key(model.mag_from_readout(uj["mag"]))
                if gd != model.dim_key(dim) or gm != model.mag_key(mag):
                    viol(tag + "-unit", "result unit has dim=%s mag=%s, algebra gives dim=%s mag=%s" % (gd, gm, model.dim_key(dim), model.mag_key(mag)))
            if m["kind"] in ("pair", "prod-rep", "quot-rep"):
                a, b = m["a"], m["b"]
                if "p_q" in o:
                    unit_ok("p", o["p_u"], model.vmul(a.dim, b.dim), model.vmul(a.mag, b.mag))
                    nraw += not o["p_q"]
                    nq += o["p_q"]
                    if not (o["p_rep"] and o["p_val"]):
                        viol("product-value", "product value/rep differs from the raw operator: %s" % o)
                if "d_q" in o:
                    unit_ok("d", o["d_u"], model.vdiv(a.dim, b.dim), model.vdiv(a.mag, b.mag))
                    nraw += not o["d_q"]
                    nq += o["d_q"]
                    if not (o["d_rep"] and o["d_val"]):
                        viol("quotient-value", "quotient value/rep differs from the raw operator: %s" % o)
            elif m["kind"] == "ipow":
                u, k = m["u"], m["k"]
                dim, mag = model.vpow(u.dim, k), model.vpow(u.mag, k)
                if k == 0:
                    pass      # degenerate power: unit is the unitless unit; raw number vs unitless Quantity is not judged
                elif (not dim) and (not mag):
                    if o["q"]:
                        viol("ipow-not-raw", "int_pow<%d> cancels the unit but returns a Quantity" % k)
                elif not o["q"]:
                    viol("ipow-raw", "int_pow<%d> returns a raw number" % k)
                else:
                    gd, gm = model.dim_key(model.dim_from_readout(o["u"]["dim"])), model.mag_key(model.mag_from_readout(o["u"]["mag"]))
                    if gd != model.dim_key(dim) or gm != model.mag_key(mag):
                        viol("ipow-unit", "int_pow<%d> unit dim=%s mag=%s expected dim=%s mag=%s" % (k, gd, gm, model.dim_key(dim), model.mag_key(mag)))
                got = c11.parse_hexfloat(o["v"])
                want = Fr(3) ** k
                tol = 0 if k >= 0 else Fr(1, 2 ** 20)
                if got is None or abs(got - want) > want * tol:
                    viol("ipow-value", "int_pow<%d>(3) = %s, exact %s" % (k, o["v"], want))
                if not o["rep"]:
                    viol("ipow-rep", "int_pow<%d> changes the rep for %s" % (k, m["r"]))
            elif m["kind"] == "root":
                u, k = m["u"], m["k"]
                e = Fr(1, k) if k > 0 else Fr(-1)
                dim, mag = model.vpow(u.dim, e), model.vpow(u.mag, e)
                gd, gm = model.dim_key(model.dim_from_readout(o["u"]["dim"])), model.mag_key(model.mag_from_readout(o["u"]["mag"]))
                if gd != model.dim_key(dim) or gm != model.mag_key(mag):
                    viol("root-unit", "unit dim=%s mag=%s expected dim=%s mag=%s" % (gd, gm, model.dim_key(dim), model.mag_key(mag)))
                if not (o["bits"] and o["rep"]):
                    viol("root-value", "value/rep differs from the std function: %s" % o)
            elif m["kind"] == "sweep":
                evals += o["n"]
                if o["bad"]:
                    viol("sweep", "%d of %d operand pairs differ from the raw operator (first a=%d b=%d)" % (o["bad"], o["n"], o["fa"], o["fb"]))
        pres, _ = core.run_probes(cfg, probes, os.path.join(run.wd, "pr_" + cfg.name), "c14p", pre, flags=cflags(cfg))
        for p in probes:
            v, diag = pres[p.pid]
            evals += 1
            if v != p.expect:
                key = "C14:%s-%s:%s" % (p.pid[0], v, ",".join(str(x) for x in p.pid[1:]))
                run.violation(key, "%s: `%s` is %sed, expected %s (%s)" % (cfg, p.code, v, p.expect, diag[:200]),
                              run.write_replay(key, {"kind": "program", "config": str(cfg), "code": p.code, "expected": p.expect, "observed": v}))
    nacc = sum(1 for p in probes if p.expect == "accept")
    run.cov.update({
        "evaluations": evals, "programs": (len(recs) + len(probes)) * len(cfgs), "unit_pairs": len(pairs), "probes": len(probes),
        "results_raw_number": nraw, "results_quantity": nq, "probes_expected_accept": nacc, "probes_expected_reject": len(probes) - nacc,
        "distinct_nontrivial": min(nraw, nq) + min(nacc, len(probes) - nacc),
        "rule": "ordered unit pairs over the library's 57 units + 12 generated units (product and quotient: raw number iff the model says dim=0 and mag=1, else Quantity of the exact "
                "product/quotient unit, rep = decltype of the raw operator), 11x11 rep pairs on 12 unit pairs, int_pow<-4..4>/sqrt/cbrt/1/q, all 65536 int8/uint8 operand pairs on 6 unit "
                "pairs; integer-division, unblock_int_div and as_raw_number accept/reject probes. distinct_nontrivial = min(#raw-number results, #Quantity results) + min(#accept, #reject probes).",
        "configs": [str(c) for c in cfgs], "exhaustive": True, "exhaustive_note": "stated grids enumerated completely (quick: a fixed 1/5 subset of unit pairs plus all pairs involving hertz/seconds/meters/feet)",
        "samples": [{"pair": [a.name, b.name]} for a, b in pairs[:: max(1, len(pairs) // 6)]][:6],
    })


def replay(path):
    import json
    r = json.load(open(path))
    cfg = [c for c in core.CFG6 if str(c) == r.get("config")]
    cfg = cfg[0] if cfg else core.GXX14
    wd = os.path.join(core.BUILD, "C14", "replay")
    pre = '#include "sweep.hh"\n' + PREAMBLE + '\nstatic std::string c11fmt(long double v) { char b[96]; std::snprintf(b, sizeof b, "%La", v); return b; }\n'
    if "code" in r:
        res, _ = core.run_probes(cfg, [core.Probe(0, r["code"], r["expected"])], wd, "rp", pre, flags=cflags(cfg))
        print("observed:", res[0][0], "expected:", r["expected"])
        if res[0][0] != r["expected"]:
            print("VIOLATION property=C14 replay=%s" % path)
            return 1
        return 0
    res, failed = psx.run_dump(cfg, [(0, r["stmts"])], wd, "rp", pre, flags=cflags(cfg))
    print("observed now:", res.get(0), failed)
    if failed or res.get(0) == r.get("observed"):
        print("VIOLATION property=C14 replay=%s" % path)
        return 1
    return 0
