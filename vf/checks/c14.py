"""C14 — products, quotients and powers combine values raw-wise and units algebraically.

Program space: ordered unit pairs (library + generated) for one rep pair; all 11x11 rep pairs on 12 unit
pairs (product, direct quotient, quotient through unblock_int_div); scalar/quantity quotients (plain,
unblocked, quantity / unblock_int_div(raw)); int_pow<-4..4>, sqrt, cbrt, 1/q on units that do and do not
cancel; as_raw_number values; accept/reject probes for the integer-division and as_raw_number guards.
Value space (inside the dump records): every pair of a boundary-derived alphabet per rep pair, all
65536 pairs of {int8_t,uint8_t}^2 on 6 unit pairs.  Oracle: the raw C++ operator / std function on the
same operands (definedness decided with __int128), Python Fractions for the powers, the unit model.
"""
import itertools
import os
from decimal import Decimal
from fractions import Fraction as Fr

from .. import core, model, psx
from ..core import BITS, F3, I8, R11
from ..model import LIB_BY_STEM as U
from ..sweep34 import cflags
from . import c06, c07, c11

LEVEL = "exploration"

PREAMBLE = c07.PREAMBLE + r'''
#include <vector>
#include <algorithm>
#include <cmath>
#include <limits>
#include <initializer_list>
#include <csetjmp>
#include <csignal>
namespace c14 {
typedef __int128 i128;
// a trap inside the library (SIGFPE) on operands whose raw operation is defined is a mismatch for those operands, not a crash
static sigjmp_buf trap_env;
static volatile std::sig_atomic_t trap_armed = 0;
extern "C" inline void c14_on_trap(int) { if (trap_armed) { trap_armed = 0; siglongjmp(trap_env, 1); } std::_Exit(86); }
inline void arm_traps() { static bool done = false; if (!done) { std::signal(SIGFPE, c14_on_trap); done = true; } }
#define C14_TRY if (sigsetjmp(c14::trap_env, 1) == 0) { c14::trap_armed = 1;
#define C14_TRAPPED c14::trap_armed = 0; } else {
#define C14_END }
// value identity (long double has padding bytes, so memcmp over sizeof is not meaningful for it)
template <typename T> bool same_val(T a, T b) { return std::memcmp(&a, &b, sizeof(T) == 16 ? 10 : sizeof(T)) == 0; }
// value and sign identity through long double (exact for all 11 reps); any NaN equals any NaN
inline bool same_ld(long double a, long double b) { return (a != a && b != b) || (a == b && std::signbit(a) == std::signbit(b)); }
template <typename T> std::string vstr(T v) { char b[64]; std::snprintf(b, sizeof b, "%.21Lg", static_cast<long double>(v)); return b; }
inline std::string hexld(long double v) { char b[96]; std::snprintf(b, sizeof b, "%La", v); return b; }
template <typename T> struct QInfo {
    static constexpr bool is_quantity = false;
    typedef T rep;
    static std::string unit() { return "null"; }
    template <typename Want> static bool rep_is() { return std::is_same<T, Want>::value; }
    static long double value(T v) { return static_cast<long double>(v); }
    static T raw(T v) { return v; }
};
template <typename U, typename R> struct QInfo<au::Quantity<U, R>> {
    static constexpr bool is_quantity = true;
    typedef R rep;
    static std::string unit() { return "{" + vf::unit_json<U>() + "}"; }
    template <typename Want> static bool rep_is() { return std::is_same<R, Want>::value; }
    static long double value(au::Quantity<U, R> q) { return static_cast<long double>(q.in(U{})); }
    static R raw(au::Quantity<U, R> q) { return q.in(U{}); }
};
// bit identity of two values of the same type (any NaN == any NaN); different types never match
template <typename G, typename W> struct BitsEq { static bool eq(G, W) { return false; } };
template <typename W> struct BitsEq<W, W> { static bool eq(W a, W b) { return same_val(a, b) || (a != a && b != b); } };

// ---- boundary-derived value alphabets (enumeration only) ---------------------------------------------
template <typename R, bool I = std::is_integral<R>::value> struct Alpha {
    static std::vector<R> make() {
        const i128 lo = (i128)std::numeric_limits<R>::min(), hi = (i128)std::numeric_limits<R>::max(), one = 1;
        const i128 c[] = {0, 1, -1, 2, -2, 3, -3, 4, 6, 7, 100, -100, 127, 128, -128, -129, 200, -200, 255, 256, 32767, 32768, -32768,
                          40000, -40000, 65535, 65536, 3000000000LL, (one << 31) - 1, one << 31, -(one << 31), (one << 32) - 1, one << 32,
                          (one << 32) + 2, -((one << 32) + 2), (one << 63) - 1, one << 63, lo, lo + 1, hi, hi - 1, lo / 2, hi / 2};
        std::vector<i128> xs;
        for (i128 x : c) if (x >= lo && x <= hi) xs.push_back(x);
        std::sort(xs.begin(), xs.end());
        xs.erase(std::unique(xs.begin(), xs.end()), xs.end());
        std::vector<R> v;
        for (i128 x : xs) v.push_back(static_cast<R>(x));
        return v;
    }
    static const std::vector<R> &get() { static const std::vector<R> v = make(); return v; }
};
template <typename R> struct Alpha<R, false> {
    static std::vector<R> make() {
        typedef std::numeric_limits<R> L;
        const R c[] = {R(0), -R(0), R(1), R(-1), R(6), R(4), R(0.5), R(1.1L), R(1) / R(3), R(7.25), R(-2.5), R(40000.5), R(3e9),
                       R(16777217.0L), R(9007199254740993.0L), R(1e-310L), L::max(), L::lowest(), L::min(), L::denorm_min(),
                       L::infinity(), -L::infinity(), L::quiet_NaN()};
        return std::vector<R>(c, c + sizeof c / sizeof c[0]);
    }
    static const std::vector<R> &get() { static const std::vector<R> v = make(); return v; }
};
// is the raw operation defined?  (independent 128-bit oracle; floating: everything but a zero divisor)
template <typename RA, typename RB, bool FP = std::is_floating_point<RA>::value || std::is_floating_point<RB>::value>
struct Def { static bool mul(RA, RB) { return true; } static bool div(RA, RB b) { return b != 0; } };
template <typename RA, typename RB> struct Def<RA, RB, false> {
    typedef typename std::common_type<decltype(+std::declval<RA>()), decltype(+std::declval<RB>())>::type C;
    static bool mul(RA a, RB b) {
        if (!std::is_signed<C>::value) return true;
        const i128 r = (i128)(C)a * (i128)(C)b;
        return r >= (i128)std::numeric_limits<C>::min() && r <= (i128)std::numeric_limits<C>::max();
    }
    static bool div(RA a, RB b) {
        const i128 A = (i128)(C)a, B = (i128)(C)b;
        return B != 0 && !(std::is_signed<C>::value && A == (i128)std::numeric_limits<C>::min() && B == -1);
    }
};
struct Tally {
    long long n = 0, bad = 0, skip = 0; std::string first;
    Tally() { arm_traps(); }
    template <typename X, typename Y> void miss(X a, Y b) { if (!bad) first = vstr(a) + "," + vstr(b); ++bad; }
    template <typename X, typename Y> void trap(X a, Y b) { if (!bad) first = "SIGFPE at " + vstr(a) + "," + vstr(b); ++bad; }
    void out(const std::string &t) { vf_i((t + "_n").c_str(), n); vf_i((t + "_bad").c_str(), bad); vf_i((t + "_skip").c_str(), skip); vf_s((t + "_first").c_str(), first); }
};
template <typename P, typename W> void head(const std::string &t) {
    vf_b((t + "_q").c_str(), QInfo<P>::is_quantity);
    vf_kv((t + "_u").c_str(), QInfo<P>::unit());
    vf_b((t + "_rep").c_str(), QInfo<P>::template rep_is<W>());
}
// ---- quantity x quantity ---------------------------------------------------------------------------------
template <typename A, typename B, typename RA, typename RB>
void pair_rec() {
    using P = decltype(au::make_quantity<A>(RA{}) * au::make_quantity<B>(RB{}));
    head<P, decltype(std::declval<RA>() * std::declval<RB>())>("p");
    static Tally t; t = Tally();
    for (RA a : Alpha<RA>::get()) for (RB b : Alpha<RB>::get()) {
        if (!Def<RA, RB>::mul(a, b)) { ++t.skip; continue; }
        ++t.n;
        C14_TRY const auto p = au::make_quantity<A>(a) * au::make_quantity<B>(b);
                if (!same_ld(QInfo<P>::value(p), static_cast<long double>(a * b))) t.miss(a, b); C14_TRAPPED t.trap(a, b); C14_END
    }
    t.out("p");
    vf_b("p_val", t.bad == 0);
}
template <typename A, typename B, typename RA, typename RB, bool Unblock> struct Quot {
    static auto go(RA a, RB b) { return au::make_quantity<A>(a) / au::make_quantity<B>(b); } };
template <typename A, typename B, typename RA, typename RB> struct Quot<A, B, RA, RB, true> {
    static auto go(RA a, RB b) { return au::make_quantity<A>(a) / au::unblock_int_div(au::make_quantity<B>(b)); } };
template <typename A, typename B, typename RA, typename RB, bool Unblock>
void quot_any(const char *tag) {
    using P = decltype(Quot<A, B, RA, RB, Unblock>::go(RA{}, RB{}));
    head<P, decltype(std::declval<RA>() / std::declval<RB>())>(tag);
    static Tally t; t = Tally();
    for (RA a : Alpha<RA>::get()) for (RB b : Alpha<RB>::get()) {
        if (!Def<RA, RB>::div(a, b)) { ++t.skip; continue; }
        ++t.n;
        C14_TRY const auto p = Quot<A, B, RA, RB, Unblock>::go(a, b);
                if (!same_ld(QInfo<P>::value(p), static_cast<long double>(a / b))) t.miss(a, b); C14_TRAPPED t.trap(a, b); C14_END
    }
    t.out(tag);
    vf_b((std::string(tag) + "_val").c_str(), t.bad == 0);
}
template <typename A, typename B, typename RA, typename RB> void quot_rec() { quot_any<A, B, RA, RB, false>("d"); }
// one operand pair only (used for the all-unit-pairs grid, where the unit algebra is the subject)
template <typename A, typename B, typename RA, typename RB>
void pair_lite() {
    const RA a = static_cast<RA>(6); const RB b = static_cast<RB>(4);
    auto p = au::make_quantity<A>(a) * au::make_quantity<B>(b);
    using P = decltype(p);
    vf_b("p_q", QInfo<P>::is_quantity); vf_kv("p_u", QInfo<P>::unit());
    vf_b("p_rep", QInfo<P>::template rep_is<decltype(a * b)>()); vf_b("p_val", QInfo<P>::value(p) == static_cast<long double>(a * b));
}
template <typename A, typename B, typename RA, typename RB>
void quot_lite() {
    const RA a = static_cast<RA>(6); const RB b = static_cast<RB>(4);
    auto p = au::make_quantity<A>(a) / au::make_quantity<B>(b);
    using P = decltype(p);
    vf_b("d_q", QInfo<P>::is_quantity); vf_kv("d_u", QInfo<P>::unit());
    vf_b("d_rep", QInfo<P>::template rep_is<decltype(a / b)>()); vf_b("d_val", QInfo<P>::value(p) == static_cast<long double>(a / b));
}
template <typename A, typename B, typename RA, typename RB> void quot_unblock_rec() { quot_any<A, B, RA, RB, true>("du"); }
// every operand pair of two 8-bit reps: product and unblocked quotient (no raw operation is undefined but x / 0)
template <typename A, typename B, typename T1, typename T2>
void sweep8() {
    static long long n, bad, fa, fb; static bool ok;
    n = bad = fa = fb = 0;
    arm_traps();
    for (int a = std::numeric_limits<T1>::min(); a <= std::numeric_limits<T1>::max(); ++a)
        for (int b = std::numeric_limits<T2>::min(); b <= std::numeric_limits<T2>::max(); ++b) {
            const T1 x = static_cast<T1>(a); const T2 y = static_cast<T2>(b); ++n;
            ok = false;
            C14_TRY auto p = au::make_quantity<A>(x) * au::make_quantity<B>(y);
                    bool k = QInfo<decltype(p)>::template rep_is<decltype(x * y)>() && QInfo<decltype(p)>::value(p) == static_cast<long double>(x * y);
                    if (y != 0) {
                        auto d = au::make_quantity<A>(x) / au::unblock_int_div(au::make_quantity<B>(y));
                        k = k && QInfo<decltype(d)>::template rep_is<decltype(x / y)>() && QInfo<decltype(d)>::value(d) == static_cast<long double>(x / y);
                    }
                    ok = k; C14_TRAPPED ok = false; C14_END
            if (!ok) { if (!bad) { fa = a; fb = b; } ++bad; }
        }
    vf_i("n", n); vf_i("bad", bad); vf_i("fa", fa); vf_i("fb", fb);
}
// ---- scalar / quantity (Mode 0), scalar / unblock_int_div(quantity) (1), quantity / unblock_int_div(scalar) (2) ----
template <typename Un, typename RS, typename RQ, int Mode> struct SQ {
    static auto go(RS s, RQ x) { return s / au::make_quantity<Un>(x); }
    static auto raw(RS s, RQ x) { return s / x; }
    static bool ok(RS s, RQ x) { return Def<RS, RQ>::div(s, x); } };
template <typename Un, typename RS, typename RQ> struct SQ<Un, RS, RQ, 1> {
    static auto go(RS s, RQ x) { return s / au::unblock_int_div(au::make_quantity<Un>(x)); }
    static auto raw(RS s, RQ x) { return s / x; }
    static bool ok(RS s, RQ x) { return Def<RS, RQ>::div(s, x); } };
template <typename Un, typename RS, typename RQ> struct SQ<Un, RS, RQ, 2> {
    static auto go(RS s, RQ x) { return au::make_quantity<Un>(x) / au::unblock_int_div(s); }
    static auto raw(RS s, RQ x) { return x / s; }
    static bool ok(RS s, RQ x) { return Def<RQ, RS>::div(x, s); } };
template <typename Un, typename RS, typename RQ, int Mode>
void sq_rec(const char *tag) {
    typedef SQ<Un, RS, RQ, Mode> F;
    using P = decltype(F::go(RS{}, RQ{}));
    head<P, decltype(F::raw(std::declval<RS>(), std::declval<RQ>()))>(tag);
    static Tally t; t = Tally();
    for (RS s : Alpha<RS>::get()) for (RQ x : Alpha<RQ>::get()) {
        if (!F::ok(s, x)) { ++t.skip; continue; }
        ++t.n;
        C14_TRY const auto p = F::go(s, x);
                if (!same_ld(QInfo<P>::value(p), static_cast<long double>(F::raw(s, x)))) t.miss(s, x); C14_TRAPPED t.trap(s, x); C14_END
    }
    t.out(tag);
}
// ---- powers and roots ----------------------------------------------------------------------------------------
template <int K, typename Un, typename R>
void ipow_rec(const char *tag, std::initializer_list<R> bases) {
    using P = decltype(au::int_pow<K>(au::make_quantity<Un>(R{})));
    head<P, R>(tag);
    vf_b((std::string(tag) + "_repP").c_str(), QInfo<P>::template rep_is<decltype(std::declval<R>() * std::declval<R>())>());
    std::string v = "[";
    for (R b : bases) { const auto p = au::int_pow<K>(au::make_quantity<Un>(b)); v += (v.size() > 1 ? ",\"" : "\"") + hexld(QInfo<P>::value(p)) + "\""; }
    vf_kv((std::string(tag) + "_v").c_str(), v + "]");
}
template <typename R, bool I = std::is_integral<R>::value> struct RootAlpha {
    static std::vector<R> get() { typedef std::numeric_limits<R> L; return {R(0), R(1), R(2), R(7), R(9), R(100), static_cast<R>(-8), L::max(), L::min()}; } };
template <typename R> struct RootAlpha<R, false> {
    static std::vector<R> get() { typedef std::numeric_limits<R> L;
        return {R(0), -R(0), R(1), R(2), R(7.25), R(9), R(-8), R(-1), R(0.001L), R(1e-310L), L::max(), L::min(), L::denorm_min(), L::infinity(), -L::infinity(), L::quiet_NaN()}; } };
struct FnSqrt { template <typename T> static auto raw(T x) { return std::sqrt(x); } template <typename Q> static auto lib(Q q) { return au::sqrt(q); }
                template <typename T> static bool ok(T) { return true; } };
struct FnCbrt { template <typename T> static auto raw(T x) { return std::cbrt(x); } template <typename Q> static auto lib(Q q) { return au::cbrt(q); }
                template <typename T> static bool ok(T) { return true; } };
// 1/q with the scalar 1 of the rep's own type (floating reps) or double (integral reps: an integral 1 would be integer division)
template <typename T> using InvS = typename std::conditional<std::is_floating_point<T>::value, T, double>::type;
struct FnInv { template <typename T> static auto raw(T x) { return InvS<T>(1) / x; }
               template <typename Un, typename R> static auto lib(au::Quantity<Un, R> q) { return InvS<R>(1) / q; }
               template <typename T> static bool ok(T x) { return x != 0; } };
template <typename Fn, typename Un, typename R>
void root_rec(const char *tag) {
    using P = decltype(Fn::lib(au::make_quantity<Un>(R{})));
    using W = decltype(Fn::raw(std::declval<R>()));
    head<P, W>(tag);
    static Tally t; t = Tally();
    for (R x : RootAlpha<R>::get()) {
        if (!Fn::ok(x)) { ++t.skip; continue; }
        ++t.n;
        C14_TRY const auto p = Fn::lib(au::make_quantity<Un>(x));
                if (!BitsEq<typename QInfo<P>::rep, W>::eq(QInfo<P>::raw(p), Fn::raw(x))) t.miss(x, 0); C14_TRAPPED t.trap(x, 0); C14_END
    }
    t.out(tag);
}
// ---- as_raw_number values -----------------------------------------------------------------------------------
template <typename Un, typename R> void raw_rec() {
    const auto a = au::as_raw_number(au::make_quantity<Un>(static_cast<R>(5)));
    const auto b = au::as_raw_number(au::make_quantity<Un>(static_cast<R>(3)));
    vf_b("t", std::is_same<decltype(a), const R>::value);
    vf_s("v5", hexld(static_cast<long double>(a))); vf_s("v3", hexld(static_cast<long double>(b)));
}
template <typename R> void raw_id_rec() {
    const auto a = au::as_raw_number(static_cast<R>(5));
    const auto b = au::as_raw_number(au::hertz(static_cast<R>(2)) * au::seconds(static_cast<R>(3)));
    vf_b("t", std::is_same<decltype(a), const R>::value && std::is_same<decltype(b), const decltype(std::declval<R>() * std::declval<R>())>::value);
    vf_b("v", a == static_cast<R>(5) && b == static_cast<R>(2) * static_cast<R>(3));
}
}
'''
PRE = '#include "sweep.hh"\n' + PREAMBLE
PROBE_PRE = '#include "sweep.hh"\n' + c07.PREAMBLE     # probe TUs have no vf_* printers: they must not see namespace c14
MANT = {"float": 24, "double": 53, "long double": 64}


def gen_units():
    m = U["meters"]
    return [model.Unit("wugs", "gen::Wugs", m.dim, model.mag_ratio(35, 3), 0, "wug"),
            model.Unit("zorks", "gen::Zorks", m.dim, model.mag_int(11), 0, None),
            model.Unit("blips", "gen::Blips", model.d(T=1), model.mag_ratio(77, 2), 0, None),
            model.scaled(U["feet"], 3), model.scaled(U["seconds"], 1, 1000),
            model.prefixed(model.SI_PREFIXES[9], U["grams"]), model.prefixed(model.SI_PREFIXES[14], U["seconds"]),
            model.Unit("m/s", "decltype(au::Meters{} / au::Seconds{})", model.d(L=1, T=-1), {}, 0, None, named=False),
            model.Unit("m^2", "decltype(au::pow<2>(au::Meters{}))", model.d(L=2), {}, 0, None, named=False),
            model.Unit("1/s", "decltype(au::pow<-1>(au::Seconds{}))", model.d(T=-1), {}, 0, None, named=False),
            model.Unit("rt-s", "decltype(au::root<2>(au::Seconds{}))", model.d(T=Fr(1, 2)), {}, 0, None, named=False),
            model.scaled(U["radians"], 1, 1, pi_pow=1)]


HZS = model.Unit("Hz*s", "decltype(au::Hertz{} * au::Seconds{})", {}, {}, 0, None, named=False)
M3 = model.Unit("m^3", "decltype(au::pow<3>(au::Meters{}))", model.d(L=3), {}, 0, None, named=False)
KM_M = model.Unit("km/m", "decltype(au::Kilo<au::Meters>{} / au::Meters{})", {}, model.mag_int(1000), 0, None, named=False)


def round_fp(x, mant):
    """x (Fraction, in the normal range) rounded to `mant` significant bits, ties to even."""
    if x == 0:
        return x
    sgn, a = (1, x) if x > 0 else (-1, -x)
    e = a.numerator.bit_length() - a.denominator.bit_length()
    if Fr(2) ** e > a:
        e -= 1                      # 2^e <= a < 2^(e+1)
    ulp = Fr(2) ** (e - mant + 1)
    q = a / ulp
    n = q.numerator // q.denominator
    rem = q - n
    if rem > Fr(1, 2) or (rem == Fr(1, 2) and n % 2 == 1):
        n += 1
    return sgn * n * ulp


def ipow_bases(r):
    """(C++ initializer list, python values) of the int_pow bases for rep r: every power -4..4 of every base is
    exactly representable in r (unsigned 32/64-bit: the raw arithmetic is modular)."""
    if r in F3:
        vals = [Fr(3), Fr(-3), Fr(2), Fr(3, 2), Fr(-1, 2)]
        txt = ["3", "-3", "2", "1.5", "-0.5"]
    elif r.startswith("u"):
        vals = [Fr(3), Fr(2)] + ([Fr(2 ** BITS[r] - 3)] if BITS[r] >= 32 else [])
        txt = ["3", "2"] + (["-3"] if BITS[r] >= 32 else [])
    else:
        vals = [Fr(3), Fr(-3), Fr(2)]
        txt = ["3", "-3", "2"]
    return "{%s}" % ", ".join("static_cast<%s>(%s)" % (r, t) for t in txt), vals


def build(tier):
    """-> (recs, meta, probes, pairs)."""
    units = list(model.LIB) + gen_units()
    if tier == "quick":
        pairs = [(a, b) for i, a in enumerate(units) for j, b in enumerate(units) if (i * 7 + j) % 5 == 0 or a.name in ("hertz", "seconds", "meters", "feet") or b.name in ("hertz", "seconds", "Milli<seconds>")
                 # every pair that must collapse (same dimension and magnitude -- including pairs that differ only in
                 # their origin, which is a QuantityPoint notion and must play no role here), and every same-dimension
                 # pair in which a unit carries an origin
                 or model.same_quantity(a, b)
                 or (model.dim_key(a.dim) == model.dim_key(b.dim) and (a.origin != 0 or b.origin != 0))]
    else:
        pairs = list(itertools.product(units, repeat=2))
    pairs = [(a, b) for a, b in pairs if not model.ordering_conflict([a, b])]
    recs, meta = [], {}

    def add(stmts, **m):
        rid = len(recs)
        recs.append((rid, stmts))
        meta[rid] = m

    for a, b in pairs:
        st = ["c14::pair_lite<%s, %s, double, float>();" % (a.cpp, b.cpp), "c14::quot_lite<%s, %s, double, float>();" % (a.cpp, b.cpp)]
        if tier != "quick":
            st.append("c14::quot_unblock_rec<%s, %s, double, float>();" % (a.cpp, b.cpp))
        add(st, kind="pair", a=a, b=b)
    # all rep pairs for 12 unit pairs: product, direct quotient (where the guard allows it), quotient through unblock_int_div
    upairs = [(U["hertz"], U["seconds"]), (U["hertz"], model.prefixed(model.SI_PREFIXES[14], U["seconds"])), (U["meters"], U["feet"]),
              (U["meters"], U["meters"]), (U["feet"], model.scaled(U["inches"], 12)), (U["newtons"], U["meters"]), (U["percent"], U["unos"]),
              (U["radians"], U["degrees"]), (U["bytes"], U["bits"]), (U["joules"], U["watts"]), (U["volts"], U["amperes"]), (U["miles"], U["hours"])]
    probes = []
    for a, b in upairs:
        equiv = model.same_quantity(a, b)
        for ra in R11:
            for rb in R11:
                blocked = (ra in I8 and rb in I8 and not equiv)
                t = "<%s, %s, %s, %s>();" % (a.cpp, b.cpp, ra, rb)
                add(["c14::pair_rec" + t], kind="prod-rep", a=a, b=b, ra=ra, rb=rb)
                add((["c14::quot_rec" + t] if not blocked else []) + ["c14::quot_unblock_rec" + t], kind="quot-rep", a=a, b=b, ra=ra, rb=rb)
                code = "auto x = au::make_quantity<%s>(static_cast<%s>(6)) / au::make_quantity<%s>(static_cast<%s>(4)); (void)x;" % (a.cpp, ra, b.cpp, rb)
                probes.append(core.Probe(("qq", a.name, b.name, ra, rb), code, "reject" if blocked else "accept"))
                if blocked:
                    probes.append(core.Probe(("qq-unblock", a.name, b.name, ra, rb),
                                             "auto x = au::make_quantity<%s>(static_cast<%s>(6)) / au::unblock_int_div(au::make_quantity<%s>(static_cast<%s>(4))); (void)x;" % (a.cpp, ra, b.cpp, rb), "accept"))
    # scalar / quantity.  int / Quantity<Unos,int> compiles (Unos is quantity-equivalent to the unitless unit, the "equivalent
    # units" case): its acceptance is not probed, its value and unit are judged in the records below.
    SQ6 = ["int8_t", "uint16_t", "int32_t", "uint64_t", "float", "double"]
    for u in (U["seconds"], U["meters"], U["percent"], U["hertz"], U["unos"]):
        for rs in R11:
            for rq in R11:
                blocked = rs in I8 and rq in I8 and u.name != "unos"
                if u.name != "unos":
                    code = "auto x = static_cast<%s>(6) / au::make_quantity<%s>(static_cast<%s>(4)); (void)x;" % (rs, u.cpp, rq)
                    probes.append(core.Probe(("sq", u.name, rs, rq), code, "reject" if blocked else "accept"))
                    if blocked and rs in ("int32_t", "uint8_t", "int64_t"):
                        probes.append(core.Probe(("sq-unblock", u.name, rs, rq),
                                                 "auto x = static_cast<%s>(6) / au::unblock_int_div(au::make_quantity<%s>(static_cast<%s>(4))); (void)x;" % (rs, u.cpp, rq), "accept"))
                if tier == "quick" and not (rs in SQ6 and rq in SQ6):
                    continue
                t = "<%s, %s, %s, %%d>(\"%%s\");" % (u.cpp, rs, rq)
                add((["c14::sq_rec" + t % (0, "sq")] if not blocked else []) + ["c14::sq_rec" + t % (1, "squ"), "c14::sq_rec" + t % (2, "qsu")],
                    kind="sq", u=u, rs=rs, rq=rq)
    # as_raw_number
    kilo_unos = model.prefixed(model.SI_PREFIXES[9], U["unos"])
    mega_unos = model.prefixed(model.SI_PREFIXES[8], U["unos"])
    raws = [U["percent"], U["unos"], kilo_unos, mega_unos, U["meters"], U["radians"],
            model.Unit("m/ft", "decltype(au::Meters{} / au::Feet{})", {}, model.vdiv(U["meters"].mag, U["feet"].mag), 0, None, named=False),
            HZS, model.Unit("deg/rad", "decltype(au::Degrees{} / au::Radians{})", {}, model.DEG, 0, None, named=False)]
    for u in raws:
        for r in R11:
            ok = (not u.dim) and c06.policy(r, r, u.mag)
            code = "auto x = au::as_raw_number(au::make_quantity<%s>(static_cast<%s>(5))); static_assert(std::is_same<decltype(x), %s>::value, \"\"); (void)x;" % (u.cpp, r, r)
            probes.append(core.Probe(("raw", u.name, r), code, "accept" if ok else "reject"))
            if ok:
                add(["c14::raw_rec<%s, %s>();" % (u.cpp, r)], kind="raw-value", u=u, r=r)
    for r in R11:
        add(["c14::raw_id_rec<%s>();" % r], kind="raw-identity", r=r)
    # powers and roots: units that stay dimensioned, units that are the unitless unit (Unos, Hz*s), units whose power/root
    # collapses an exponent (sqrt(m^2), cbrt(m^3), int_pow<2>(rt-s), int_pow<-1..>(1/s)), pi-scaled and scaled-dimensionless
    g = gen_units()
    pow_units = [U["meters"], U["seconds"], model.scaled(U["feet"], 3), g[7], U["hertz"], U["percent"], U["unos"], HZS, g[8], g[10]]
    pow_wide = [g[9], M3, g[11], KM_M]
    for u in pow_units + pow_wide:
        wide = u in pow_wide
        for r in R11:
            if tier == "quick" and wide and r not in ("int8_t", "uint32_t", "int64_t", "float", "long double"):
                continue
            ks = []
            init, _ = ipow_bases(r)
            st = []
            for k in range(-4, 5):
                if r in I8 and k < 0:
                    probes.append(core.Probe(("ipow-neg", u.name, r, k), "auto x = au::int_pow<%d>(au::make_quantity<%s>(static_cast<%s>(3))); (void)x;" % (k, u.cpp, r), "reject"))
                    continue
                ks.append(k)
                st.append('c14::ipow_rec<%d, %s, %s>("k%d", %s);' % (k, u.cpp, r, k, init))
            add(st, kind="ipow", u=u, r=r, ks=ks)
            add(['c14::root_rec<c14::FnSqrt, %s, %s>("sqrt");' % (u.cpp, r), 'c14::root_rec<c14::FnCbrt, %s, %s>("cbrt");' % (u.cpp, r),
                 'c14::root_rec<c14::FnInv, %s, %s>("inv");' % (u.cpp, r)], kind="root", u=u, r=r)
    # value sweeps: all pairs of {int8_t, uint8_t}^2 through * and / on unit pairs with and without cancellation
    vs = [("au::Hertz", "au::Seconds"), ("au::Hertz", "au::Milli<au::Seconds>"), ("au::Meters", "au::Feet"), ("au::Meters", "au::Meters"),
          ("au::Feet", "decltype(au::Inches{} * au::mag<12>())"), ("au::Newtons", "au::Meters")]
    for ua, ub in vs:
        for t1 in ("int8_t", "uint8_t"):
            for t2 in ("int8_t", "uint8_t"):
                add(["c14::sweep8<%s, %s, %s, %s>();" % (ua, ub, t1, t2)], kind="sweep", ua=ua, ub=ub, t1=t1, t2=t2)
    return recs, meta, probes, pairs


def desc_of(m):
    return "%s:%s" % (m["kind"], ",".join(str(getattr(v, "name", v)) for k, v in m.items() if k not in ("kind", "ks")))


def judge(m, o, viol, cnt):
    """All expectations about one dump record.  viol(kind, what, desc=None); cnt: evidence counters."""
    def unit_ok(tag, dim, mag, desc=None, raw_kind=None):
        """raw number iff the model's unit is the unitless unit, else a Quantity of exactly that unit."""
        unitless = (not dim) and (not mag)
        isq = o[tag + "_q"]
        cnt["results_quantity" if isq else "results_raw_number"] += 1
        if unitless:
            if isq:
                viol(raw_kind or (tag + "-not-raw"), "units cancel exactly to the unitless unit but the result is a Quantity (of %s)" % (o[tag + "_u"],), desc)
            return
        if not isq:
            viol(tag + "-raw", "units do not cancel to the unitless unit (dim %s mag %s) but the result is a raw number" % (model.dim_key(dim), model.mag_key(mag)), desc)
            return
        uj = o[tag + "_u"]
        gd, gm = model.dim_key(model.dim_from_readout(uj["dim"])), model.mag_key(model.mag_from_readout(uj["mag"]))
        if gd != model.dim_key(dim) or gm != model.mag_key(mag):
            viol(tag + "-unit", "result unit has dim=%s mag=%s, algebra gives dim=%s mag=%s" % (gd, gm, model.dim_key(dim), model.mag_key(mag)), desc)

    def values_ok(tag, kind, what):
        if tag + "_n" not in o:      # single operand pair (6, 4)
            cnt["value_pairs"] += 1
            if not (o[tag + "_rep"] and o[tag + "_val"]):
                viol(kind, "%s value/rep differs from the raw operator: %s" % (what, o))
            return
        cnt["value_pairs"] += o[tag + "_n"]
        cnt["value_pairs_skipped_undefined_raw"] += o[tag + "_skip"]
        if o[tag + "_n"] == 0:
            raise core.InfraError("vacuous value loop in %s (%s)" % (desc_of(m), tag))
        if not o[tag + "_rep"] or o[tag + "_bad"]:
            viol(kind, "%s: rep %s the raw operator's; %d of %d operand pairs differ from the raw operator (first: %s)"
                 % (what, "is" if o[tag + "_rep"] else "is NOT", o[tag + "_bad"], o[tag + "_n"], o[tag + "_first"]))

    k = m["kind"]
    if k in ("pair", "prod-rep", "quot-rep"):
        a, b = m["a"], m["b"]
        if "p_q" in o:
            unit_ok("p", model.vmul(a.dim, b.dim), model.vmul(a.mag, b.mag))
            values_ok("p", "product-value", "product")
        if "d_q" in o:
            unit_ok("d", model.vdiv(a.dim, b.dim), model.vdiv(a.mag, b.mag))
            values_ok("d", "quotient-value", "quotient")
        if "du_q" in o:
            unit_ok("du", model.vdiv(a.dim, b.dim), model.vdiv(a.mag, b.mag))
            values_ok("du", "unblock-quotient-value", "quotient through unblock_int_div")
    elif k == "sq":
        u = m["u"]
        for tag, dim, mag, what in (("sq", model.vinv(u.dim), model.vinv(u.mag), "scalar / quantity"),
                                    ("squ", model.vinv(u.dim), model.vinv(u.mag), "scalar / unblock_int_div(quantity)"),
                                    ("qsu", u.dim, u.mag, "quantity / unblock_int_div(scalar)")):
            if tag + "_q" in o:
                unit_ok(tag, dim, mag)
                values_ok(tag, tag + "-value", what)
    elif k == "ipow":
        u, r = m["u"], m["r"]
        _, bases = ipow_bases(r)
        for kk in m["ks"]:
            tag = "k%d" % kk
            desc = "ipow:%s,%s,%d" % (u.name, r, kk)
            unit_ok(tag, model.vpow(u.dim, kk), model.vpow(u.mag, kk), desc,
                    raw_kind="ipow-not-raw" if (kk != 0 or ((not u.dim) and (not u.mag))) else "ipow0-not-raw")
            if not (o[tag + "_rep"] or o[tag + "_repP"]):
                viol("ipow-rep", "int_pow<%d> changes the rep for %s" % (kk, r), desc)
            elif not o[tag + "_repP"]:
                cnt["ipow_rep_is_R_not_promoted"] += 1
            for base, s in zip(bases, o[tag + "_v"]):
                cnt["power_values"] += 1
                got = c11.parse_hexfloat(s)
                want = base ** kk
                if r in I8:
                    if r.startswith("u"):
                        want %= 2 ** BITS[r]
                    tol = 0
                else:
                    # every |k|-th power of every base is exact in r, so the raw computation T{1} / (b * ... * b) rounds once:
                    # the result must be the correctly rounded quotient (a power of the rounded reciprocal is not)
                    tol = 0
                    if kk < 0:
                        want = round_fp(want, MANT[r])
                if got is None or abs(got - want) > tol:
                    viol("ipow-value", "int_pow<%d>(%s) = %s, exact %s (allowed deviation %s)" % (kk, base, s, want, core.ffloat(tol)), desc)
    elif k == "root":
        u, r = m["u"], m["r"]
        for tag, e in (("sqrt", Fr(1, 2)), ("cbrt", Fr(1, 3)), ("inv", Fr(-1))):
            desc = "root:%s,%s,%s" % (u.name, r, tag)
            unit_ok(tag, model.vpow(u.dim, e), model.vpow(u.mag, e), desc, raw_kind="root-not-raw")
            cnt["root_values"] += o[tag + "_n"]
            if o[tag + "_n"] == 0:
                raise core.InfraError("vacuous root loop in %s" % desc)
            if not o[tag + "_rep"] or o[tag + "_bad"]:
                viol("root-value", "%s: rep %s the std function's; %d of %d values differ bitwise from the std function / raw operator (first: %s)"
                     % (tag, "is" if o[tag + "_rep"] else "is NOT", o[tag + "_bad"], o[tag + "_n"], o[tag + "_first"]), desc)
    elif k == "raw-value":
        u, r = m["u"], m["r"]
        cnt["as_raw_number_values"] += 2
        if not o["t"]:
            viol("raw-type", "as_raw_number does not return the rep")
        for x, key in ((5, "v5"), (3, "v3")):
            got = c11.parse_hexfloat(o[key])
            if model.mag_is_rational(u.mag):
                want = Fr(x) * model.mag_fraction(u.mag)
                bad = got is None or (got != want if r in I8 else abs(got - want) > abs(want) * Fr(4, 2 ** (MANT[r] - 1)))
            else:
                want = Decimal(x) * model.mag_decimal(u.mag)
                bad = got is None or abs(Decimal(got.numerator) / Decimal(got.denominator) - want) > abs(want) * Decimal(4) / Decimal(2 ** (MANT[r] - 1))
            if bad:
                viol("raw-value", "as_raw_number(%s(%d)) = %s, the value in the unitless unit is %s" % (u.name, x, o[key], want))
    elif k == "raw-identity":
        cnt["as_raw_number_values"] += 2
        if not (o["t"] and o["v"]):
            viol("raw-identity", "as_raw_number of a raw number / of a product that collapsed is not the identity: %s" % o)
    elif k == "sweep":
        cnt["value_pairs"] += o["n"]
        if o["bad"]:
            viol("sweep", "%d of %d operand pairs differ from the raw operator in value or type (first a=%d b=%d)" % (o["bad"], o["n"], o["fa"], o["fb"]))


def check(run):
    tier = run.tier
    recs, meta, probes, pairs = build(tier)
    cfgs = list(core.CORNERS) if tier == "quick" else list(core.CORNERS) + [c for c in core.CFG6 if c not in core.CORNERS]
    evals = 0
    cnt = {k: 0 for k in ("results_raw_number", "results_quantity", "value_pairs", "value_pairs_skipped_undefined_raw", "power_values",
                          "root_values", "as_raw_number_values", "ipow_rep_is_R_not_promoted")}
    done = []
    dur = 0.0
    for cfg in cfgs:
        if done and run.time_left() < 1.15 * dur + 60:     # deadline guard: a configuration costs about what the slowest one did
            break
        t_cfg = run.elapsed()
        res, failed = psx.run_dump(cfg, recs, os.path.join(run.wd, cfg.name), "c14", PRE, flags=cflags(cfg), chunk=max(20, min(120, len(recs) // (core.NCPU * 3) + 1)))
        for r, diag in failed.items():
            desc = desc_of(meta[r])
            run.violation("C14:does-not-compile:" + desc, "%s: %s does not compile: %s" % (cfg, desc, diag),
                          run.write_replay("C14:does-not-compile:" + desc, {"kind": "program", "config": str(cfg), "stmts": recs[r][1]}))
        for r, o in res.items():
            evals += 1

            def viol(kind, what, desc=None, r=r, o=o):
                key = "C14:%s:%s" % (kind, desc or desc_of(meta[r]))
                if run.match_known(key) is not None:
                    run.violation(key, "%s: %s" % (cfg, what))
                else:
                    run.violation(key, "%s: %s" % (cfg, what), run.write_replay(key, {"kind": "program", "config": str(cfg), "stmts": recs[r][1], "observed": o}))
            judge(meta[r], o, viol, cnt)
        pres, _ = core.run_probes(cfg, probes, os.path.join(run.wd, "pr_" + cfg.name), "c14p", PROBE_PRE, flags=cflags(cfg))
        for p in probes:
            v, diag = pres[p.pid]
            evals += 1
            if v != p.expect:
                key = "C14:%s-%s:%s" % (p.pid[0], v, ",".join(str(x) for x in p.pid[1:]))
                run.violation(key, "%s: `%s` is %sed, expected %s (%s)" % (cfg, p.code, v, p.expect, diag[:200]),
                              run.write_replay(key, {"kind": "program", "config": str(cfg), "code": p.code, "expected": p.expect, "observed": v}))
        done.append(str(cfg))
        dur = max(dur, run.elapsed() - t_cfg)
    nacc = sum(1 for p in probes if p.expect == "accept")
    nraw, nq = cnt["results_raw_number"], cnt["results_quantity"]
    evals += cnt["value_pairs"] + cnt["power_values"] + cnt["root_values"] + cnt["as_raw_number_values"]
    run.cov.update(cnt)
    run.cov.update({
        "evaluations": evals, "programs": (len(recs) + len(probes)) * len(done), "unit_pairs": len(pairs), "probes": len(probes),
        "probes_expected_accept": nacc, "probes_expected_reject": len(probes) - nacc,
        "distinct_nontrivial": min(nraw, nq) + min(nacc, len(probes) - nacc),
        "rule": "ordered unit pairs over the library's 57 units + 12 generated units (product and quotient: raw number iff the model says dim=0 and mag=1, else Quantity of the exact "
                "product/quotient unit, rep = decltype of the raw operator); 11x11 rep pairs on 12 unit pairs for product, direct quotient and the quotient through unblock_int_div "
                "(unit, collapse, rep, and the value on every pair of a boundary-derived alphabet per rep: 0, +-1..7, 100, 127/128, 200, 255/256, 2^15, 40000, 2^16, 3e9, 2^31, 2^32(+2), "
                "2^63, min, max, min/2, max/2 and their neighbours for integral reps; signed zeros, 1.1, 1/3, 2^24+1, 2^53+1, denormals, max, lowest, infinities, NaN for floating reps; "
                "pairs whose raw operation is undefined -- zero divisor, MIN/-1, signed overflow in the common type, decided with __int128 -- are skipped and counted); "
                "scalar/quantity, scalar/unblock_int_div(quantity) and quantity/unblock_int_div(scalar) on 5 units x rep pairs with the same alphabets; int_pow<-4..4> on bases "
                "{3,-3,2,1.5,-0.5} (exact powers; negative exponents: the correctly rounded quotient 1 / b^|k|, b^|k| being exact), sqrt/cbrt/1/q on all 11 reps with special values (bitwise equal to the std "
                "function / raw operator), each on units that stay dimensioned, on units that are the unitless unit (Unos, Hz*s) and on units whose exponents collapse (m^2, m^3, rt-s, 1/s); "
                "as_raw_number values against the model magnitude; all 65536 operand pairs of {int8_t,uint8_t}^2 on 6 unit pairs; integer-division, unblock_int_div and as_raw_number "
                "accept/reject probes. distinct_nontrivial = min(#raw-number results, #Quantity results) + min(#accept, #reject probes).",
        "configs": done, "exhaustive": len(done) == len(cfgs),
        "exhaustive_note": "stated grids (finite alphabets) enumerated completely (quick: a fixed 1/5 subset of unit pairs plus all pairs involving hertz/seconds/meters/feet, 6x6 rep pairs for "
                           "scalar/quantity, 5 reps on the 4 extra power units)" + ("" if len(done) == len(cfgs) else "; deadline guard stopped after configurations %s" % done),
        "samples": [{"pair": [a.name, b.name]} for a, b in pairs[:: max(1, len(pairs) // 6)]][:6],
    })
    run.assumptions += [
        "the raw built-in operator / std function on the same operands is the reference; whether it is defined is decided with 128-bit integers",
        "int_pow may keep the rep R or use decltype(R*R) (the statement does not fix the type of a power); the count of results that keep a sub-int R is in ipow_rep_is_R_not_promoted",
        "int / Quantity<Unos,int> is the 'equivalent units' case: its acceptance is not judged, its value and unit are",
        "raw / unblock_int_div(raw) (no quantity involved) is not exercised",
    ]


def replay(path):
    import json
    r = json.load(open(path))
    cfg = [c for c in core.CFG6 if str(c) == r.get("config")]
    cfg = cfg[0] if cfg else core.GXX14
    wd = os.path.join(core.BUILD, "C14", "replay")
    if "code" in r:
        res, _ = core.run_probes(cfg, [core.Probe(0, r["code"], r["expected"])], wd, "rp", PROBE_PRE, flags=cflags(cfg))
        print("observed:", res[0][0], "expected:", r["expected"])
        if res[0][0] != r["expected"]:
            print("VIOLATION property=C14 replay=%s" % path)
            return 1
        return 0
    res, failed = psx.run_dump(cfg, [(0, r["stmts"])], wd, "rp", PRE, flags=cflags(cfg))
    print("observed now:", res.get(0), failed)
    strip = lambda d: {k: v for k, v in (d or {}).items() if k != "id"}
    if failed or strip(res.get(0)) == strip(r.get("observed")):
        print("VIOLATION property=C14 replay=%s" % path)
        return 1
    return 0
