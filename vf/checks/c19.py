"""C19 — ZERO is the exact zero of every unit and rep; never accepted where a point is required.

Program space: (every library unit + generated units) x R11: Zero->Quantity traits, 18 construction /
conversion / assignment forms, 6 comparisons x both argument orders, + and - in both orders, += -= on a few
values per rep; per unit x R11 also the same comparisons/additions *in constant expressions* and the zero
quantity seen from scaled sibling units (u*3, u/3, u*5/7, u*pi); every conversion context (copy/direct/list
init, casts, reference binding, return, argument, assignment, cv targets) for every arithmetic type and a
grid of chrono durations; traits is_constructible / is_convertible / is_assignable <QuantityPoint, Zero>
must be false without a hard error.
Negative probes (with accepted Quantity twins): ZERO in every context that requires a QuantityPoint.
Value space: compiled sweep of all 8/16-bit values, +-W windows for 32/64-bit, every-exponent floating
alphabets (NaN, inf, -0.0, denormals) on 6 (thorough: 10) units x 11 reps; oracle = the raw operator on (x, 0).
Recorded, never judged (outside the statement): `rep_cast<R>(ZERO)`, ZERO as a displacement next to a
point (p + ZERO, p - ZERO, ...), __int128 targets, min/max/clamp(q, ZERO) twins.
"""
import json
import os
import re

from .. import core, psx
from .. import c19_lib as L
from ..core import R11

LEVEL = "exploration"

_INFRA = re.compile(r"fatal error|No such file|cannot open|\.pch|\.gch|internal compiler error|Killed|"
                    r"out of memory|Bus error|Segmentation", re.I)
DUMP_PREAMBLE = L.UNITS_PREAMBLE + L.HARNESS


def _guard(diag):
    if _INFRA.search(diag or ""):
        raise core.InfraError("compile failed for environmental reasons: %s" % diag[:400])


def judge_unit(o):
    bad = []
    if not o["q_traits"]:
        bad.append(("traits", "Zero is not convertible/constructible/assignable to the Quantity type"))
    for t in ("constructible", "convertible", "assignable"):
        if o["p_" + t]:
            bad.append(("point-" + t, "std::is_%s<QuantityPoint, Zero> is true" % t))
    for f in L.bits(o["forms"], L.FORMS):
        bad.append(("form=" + f[0], "`%s` does not yield 0" % f[1]))
    for it in L.bits(o["items"], L.ITEMS):
        bad.append(("item=" + it, "`%s` disagrees with the raw operator on (x, 0) for one of 0, 1, max, lowest, -1 (NaN/inf/-0.0)" % it))
    return bad


AUX_TAG = {"cx": "constexpr-cmp", "xu": "cross-unit"}
AUX_WHAT = {"cx": "comparison with / addition of ZERO evaluated in a constant expression",
            "xu": "the zero quantity converted to a scaled sibling unit"}
NARROW_CAP = 12     # failed aux records are re-run rep by rep only when there are few of them
NARROW_CAP_SC = 48  # failed scalar records are re-run form by form only when there are few of them


def aux_rep_groups(i, tier):
    """Rep groups (one record each) of the per-unit constexpr / cross-unit / rep_cast records.  thorough: all 11 reps in four
    records.  quick: one record of 3 reps per unit, rotating with the unit's index, so that every unit and every rep is
    covered (each rep on ~20 units) at 3/11 of the cost."""
    if tier != "quick":
        return [list(R11[0:3]), list(R11[3:6]), list(R11[6:9]), list(R11[9:11])]
    return [[R11[(i + 4 * k) % len(R11)] for k in range(3)]]


def build_plan(units, std, tier):
    """Records of section 1 for one language standard: (records, meta rid -> tuple)."""
    recs, meta = [], {}

    def add(rec_fn, m):
        rid = len(recs)
        recs.append(rec_fn(rid))
        meta[rid] = m

    for u in units:
        for rep in R11:
            add(lambda rid: L.unit_record(rid, u, rep), ("unit", u, rep))
    for kind in ("cx", "xu", "rc"):
        for i, u in enumerate(units):
            for reps in aux_rep_groups(i, tier):
                add(lambda rid: L.aux_record(rid, u, kind, reps), ("aux", u, kind, reps))
    for t in L.scalar_targets(R11, std):
        add(lambda rid: L.scalar_record(rid, t), ("scalar", t))
    add(L.info_record, ("info",))
    return recs, meta


def check(run):
    tier = run.tier
    units = L.all_units()
    by_name = {u.name: u for u in units}
    cfgs = core.CORNERS if tier == "quick" else core.CFG6
    core.warm_pch(cfgs)
    n_eval = 0
    phase = {}
    info = {"rep_cast_ZERO_forms_failing_info": 0, "rep_cast_ZERO_records_not_compiling_info": 0, "rep_cast_ZERO_facts_info": 0,
            "int128_is_arithmetic_info": 0, "int128_convertible_info": 0, "quantity_twin_rejected_not_demanded_info": 0}

    def mark(name):
        phase[name] = round(run.elapsed() - sum(phase.values()), 1)

    written = [0]
    sec1_bad = set()      # units for which section 1 already reported that a use of ZERO does not compile / misbehaves

    def report(key, what, art):
        if art.get("kind") == "unit":
            sec1_bad.add(art["unit"])
        if run.match_known(key) is None and written[0] < 60:   # finish() prints at most 50
            written[0] += 1
            run.violation(key, what, run.write_replay(key, dict(art, what=what)))
        else:
            run.violation(key, what)

    # ---- 1. compile side: all units x R11 (+ constexpr / cross-unit / rep_cast records per unit, scalar / chrono targets)
    plans = {c.name: build_plan(units, c.std, tier) for c in cfgs}

    def dump(c):
        recs, meta = plans[c.name]
        aux = [r for r in recs if meta[r[0]][0] == "aux"]      # up to 3 reps each: small TUs (<= 72 unit x rep instantiation sets)
        main = [r for r in recs if meta[r[0]][0] != "aux"]
        wd = os.path.join(run.wd, "dump")
        r1, f1 = psx.run_dump(c, main, wd, "z", DUMP_PREAMBLE, chunk=max(8, -(-len(main) // 12)))
        r2, f2 = psx.run_dump(c, aux, wd, "x", DUMP_PREAMBLE, chunk=24)
        r1.update(r2)
        f1.update(f2)
        return r1, f1

    # thorough: the two corner configurations first, then the other pairs while the time budget lasts (a pair is started only
    # if the time the previous one took, plus a reserve for the probes and the sweep, is still available)
    waves = [cfgs] if tier == "quick" else [list(core.CORNERS), [core.GXX20, core.CLANG14],
                                            [c for c in cfgs if c.std == "c++17"]]
    outs, pouts = {}, {}
    last = 0.0
    for wv in waves:
        if outs and run.time_left() < 1.3 * last + 700:
            break
        t0 = run.elapsed()
        outs.update(zip([c.name for c in wv], core.pmap(dump, wv, workers=3)))
        last = run.elapsed() - t0
    skipped_cfgs = [str(c) for c in cfgs if c.name not in outs]
    cfgs = [c for c in cfgs if c.name in outs]
    n_unit_facts = n_scalar = n_scalar_facts = n_cx = n_xu = 0
    for cfg in cfgs:
        allrecs, meta = plans[cfg.name]
        res, failed = outs[cfg.name]
        if len(res) + len(failed) != len(allrecs):
            raise core.InfraError("dump lost records under %s" % cfg)
        art0 = {"cfg": [cfg.cxx, cfg.std]}
        narrow_aux, narrow_sc = [], []
        for rid, diag in sorted(failed.items()):
            _guard(diag)
            m = meta[rid]
            if m[0] == "unit":
                u, rep = m[1], m[2]
                key = "C19:no-compile:rep=%s:unit=%s:cfg=%s" % (rep, u.name, cfg.name)
                report(key, "%s rejects a use of ZERO with Quantity<%s, %s> (construction/comparison/+/- or the "
                       "QuantityPoint traits hard-error): %s" % (cfg, u.cpp, rep, diag),
                       dict(art0, kind="unit", unit=u.name, rep=rep))
            elif m[0] == "aux":
                if m[2] == "rc":
                    info["rep_cast_ZERO_records_not_compiling_info"] += 1      # not in the statement: counted only
                else:
                    narrow_aux.append((rid, m[1], m[2], diag, m[3]))
            elif m[0] == "scalar":
                narrow_sc.append((rid, m[1], diag))
            else:
                raise core.InfraError("the traits-only info record does not compile under %s: %s" % (cfg, diag))
        # a failed per-unit record names 11 reps x many items: re-run rep by rep so that the key is as narrow as the failure
        if 0 < len(narrow_aux) <= NARROW_CAP:
            sub, smeta = [], {}
            for rid, u, kind, diag, reps in narrow_aux:
                for rep in reps:
                    smeta[len(sub)] = (u, kind, rep, rid)
                    sub.append(L.aux_record(len(sub), u, kind, [rep]))
            _, f2 = psx.run_dump(cfg, sub, os.path.join(run.wd, "narrow"), "ax", DUMP_PREAMBLE, chunk=11)
            hit = set()
            for i, diag in sorted(f2.items()):
                _guard(diag)
                u, kind, rep, rid = smeta[i]
                hit.add(rid)
                key = "C19:%s:no-compile:rep=%s:unit=%s:cfg=%s" % (AUX_TAG[kind], rep, u.name, cfg.name)
                report(key, "%s rejects %s for Quantity<%s, %s>: %s" % (cfg, AUX_WHAT[kind], u.cpp, rep, diag),
                       dict(art0, kind="aux", aux=kind, unit=u.name, rep=rep))
            narrow_aux = [x for x in narrow_aux if x[0] not in hit]
        for rid, u, kind, diag, reps in narrow_aux:
            key = "C19:%s:no-compile:rep=some-of-%s:unit=%s:cfg=%s" % (AUX_TAG[kind], "+".join(reps), u.name, cfg.name)
            report(key, "%s rejects %s for Quantity<%s, R> for some R in %s: %s" % (cfg, AUX_WHAT[kind], u.cpp, reps, diag),
                   dict(art0, kind="aux", aux=kind, unit=u.name, reps=reps))
        if 0 < len(narrow_sc) <= NARROW_CAP_SC:
            sub, smeta = [], {}
            # form-major order: a form that stopped compiling fills whole chunks (cheap bisection), the others pass in one go
            for fid, t in sorted((fid, t) for rid, t, diag in narrow_sc for fid in L.sc_form_ids(t)):
                smeta[len(sub)] = (t, fid)
                sub.append(L.scalar_record(len(sub), t, only=fid))
            _, f2 = psx.run_dump(cfg, sub, os.path.join(run.wd, "narrow"), "sc", DUMP_PREAMBLE, chunk=20)
            hit = set()
            for i, diag in sorted(f2.items()):
                _guard(diag)
                t, fid = smeta[i]
                hit.add(t)
                key = "C19:no-compile:scalar:form=%s:T=%s:cfg=%s" % (fid, t, cfg.name)
                report(key, "%s rejects the conversion of ZERO to %s in the context `%s`: %s" % (cfg, t, fid, diag),
                       dict(art0, kind="scalar", T=t, form=fid))
            narrow_sc = [x for x in narrow_sc if x[1] not in hit]
        for rid, t, diag in narrow_sc:
            key = "C19:no-compile:scalar:form=any:T=%s:cfg=%s" % (t, cfg.name)
            report(key, "%s rejects a conversion of ZERO to %s (one of: %s): %s" % (cfg, t, ", ".join(L.sc_form_ids(t)), diag),
                   dict(art0, kind="scalar", T=t))
        for rid, o in sorted(res.items()):
            m = meta[rid]
            if m[0] == "unit":
                u, rep = m[1], m[2]
                n_unit_facts += 4 + len(L.FORMS) + len(L.ITEMS)
                for tag, msg in judge_unit(o):
                    key = "C19:%s:rep=%s:unit=%s:cfg=%s" % (tag, rep, u.name, cfg.name)
                    report(key, "%s: Quantity<%s, %s>: %s" % (cfg, u.cpp, rep, msg),
                           dict(art0, kind="unit", unit=u.name, rep=rep, tag=tag))
            elif m[0] == "aux":
                u, kind = m[1], m[2]
                names = L.AUX_KINDS[kind]
                for rep in m[3]:
                    mask = o["m_" + rep.replace(" ", "_")]
                    if kind == "rc":
                        info["rep_cast_ZERO_facts_info"] += len(names)
                        info["rep_cast_ZERO_forms_failing_info"] += len(L.bits(mask, names))
                        continue
                    if kind == "cx":
                        n_cx += len(names)
                    else:
                        n_xu += len(names) if rep in core.F3 else len([x for x in names if not x.startswith("fp:")])
                    for it in L.bits(mask, names):
                        key = "C19:%s:item=%s:rep=%s:unit=%s:cfg=%s" % (AUX_TAG[kind], it, rep, u.name, cfg.name)
                        report(key, "%s: Quantity<%s, %s>: %s: `%s` is not what the raw value 0 gives" % (
                            cfg, u.cpp, rep, AUX_WHAT[kind], it), dict(art0, kind="aux", aux=kind, unit=u.name, rep=rep, item=it))
            elif m[0] == "scalar":
                t = m[1]
                n_scalar += 1
                ids = L.sc_form_ids(t)
                n_scalar_facts += len(ids)
                for fid in L.bits(o["mask"], ids):
                    key = "C19:scalar-not-zero:form=%s:T=%s:cfg=%s" % (fid, t, cfg.name)
                    report(key, "%s: ZERO converted to %s in the context `%s` is not exactly zero (or the trait is false)" % (cfg, t, fid),
                           dict(art0, kind="scalar", T=t, form=fid))
            else:
                for i, t in enumerate(L.NON_ARITH_INFO):
                    info["int128_is_arithmetic_info"] += bool(o["arith%d" % i])
                    info["int128_convertible_info"] += bool(o["conv%d" % i])
                    if o["arith%d" % i] and not o["conv%d" % i]:
                        key = "C19:scalar-not-convertible:T=%s:cfg=%s" % (t, cfg.name)
                        report(key, "%s: std::is_arithmetic<%s> is true but Zero does not convert to it" % (cfg, t),
                               dict(art0, kind="info"))
    n_eval += n_unit_facts + n_scalar_facts + n_cx + n_xu
    mark("dump")

    # ---- 2. negative side: a point is required -> ZERO must be rejected; Quantity twin must be accepted
    pt_units = [by_name[n] for n in L.POINT_UNITS]
    probes, pmeta = [], {}
    for u in pt_units:
        for rep in R11:
            for name, rej, acc in L.point_probes(u, rep):
                i = len(probes)
                probes.append(core.Probe(i, rej, "reject"))
                probes.append(core.Probe(i + 1, acc, "accept"))
                pmeta[i] = pmeta[i + 1] = (u, rep, name)
    n_pairs = len(probes)
    iprobes = []
    for u in pt_units:
        for rep in R11:
            for name, code, usual in L.point_info_probes(u, rep):
                iprobes.append((len(probes), name))
                probes.append(core.Probe(len(probes), code, usual))
    last = 0.0
    for wv in waves:
        wv = [c for c in wv if c in cfgs]
        if not wv or (pouts and run.time_left() < 1.3 * last + 500):
            break
        t0 = run.elapsed()
        pouts.update(zip([c.name for c in wv], core.pmap(
            lambda c: core.run_probes(c, probes, os.path.join(run.wd, "probes"), "pt", L.PROBE_PREAMBLE, batch=64)[0], wv, workers=3)))
        last = run.elapsed() - t0
    probe_cfgs = [c for c in cfgs if c.name in pouts]
    opposite = 0
    displacement = {name: {"accept": 0, "reject": 0} for name, _, _ in L.PT_INFO_FORMS}
    for cfg in probe_cfgs:
        res = pouts[cfg.name]
        art0 = {"cfg": [cfg.cxx, cfg.std]}
        for i in range(0, n_pairs, 2):
            u, rep, name = pmeta[i]
            (vr, dr), (va, da) = res[i], res[i + 1]
            if va != "accept":
                _guard(da)
                if L.PT_DEMANDED_TWIN[name]:       # ZERO stopped initialising / converting to / comparing with a *Quantity*
                    key = "C19:quantity-twin-rejected:%s:rep=%s:unit=%s:cfg=%s" % (name, rep, u.name, cfg.name)
                    report(key, "%s rejects ZERO where a Quantity is required: `%s`: %s" % (cfg, probes[i + 1].code, da),
                           dict(art0, kind="probe", unit=u.name, rep=rep, form=name, which="twin"))
                else:
                    info["quantity_twin_rejected_not_demanded_info"] += 1
            if vr != "reject":
                key = "C19:point-accepts-ZERO:%s:rep=%s:unit=%s:cfg=%s" % (name, rep, u.name, cfg.name)
                report(key, "%s accepts ZERO where a QuantityPoint is required: `%s`" % (cfg, probes[i].code),
                       dict(art0, kind="probe", unit=u.name, rep=rep, form=name))
            elif va == "accept":
                opposite += 1
        for i, name in iprobes:
            displacement[name][res[i][0]] += 1
    n_eval += len(probes) * len(probe_cfgs)
    mark("probes")

    # ---- 3. value sweep
    sw_units = [by_name[n] for n in L.SWEEP_UNITS + (L.SWEEP_UNITS_THOROUGH if tier == "thorough" else [])]
    w = 2 ** 12 if tier == "quick" else 2 ** 16
    sweep_cfgs = [(core.GXX14, []), (core.CLANG20, ["-O2"])]
    if tier == "thorough":
        sweep_cfgs += [(core.GXX20, ["-O2"]), (core.CLANG14, [])]
    nontrivial = set()
    sweep_skipped = 0
    n_sweep = 0
    done_cfgs = []
    samples = []
    wd = os.path.join(run.wd, "sweep")
    os.makedirs(wd, exist_ok=True)
    for cfg, flags in sweep_cfgs:
        if run.time_left() < 300:
            break
        core.pch_dir(cfg, flags)

        def build(u, cfg=cfg, flags=flags):
            stem = os.path.join(wd, "sw_%s_%s" % (cfg.name, re.sub(r"\W", "_", u.name)))
            L.sweep_tu(stem + ".cc", [u], R11, w)
            rc, err = core.build_exe(cfg, stem + ".cc", stem, flags)
            if rc != 0:
                if u.name in sec1_bad:      # already a VIOLATION from section 1 (same operations): nothing to sweep, not an infra error
                    return None
                _guard(err)
                raise core.InfraError("C19 sweep TU does not build although section 1 accepted the same operations "
                                      "(%s):\n%s" % (stem, err[-2500:]))
            return stem

        exes = core.pmap(build, sw_units)
        sweep_skipped += sum(1 for e in exes if e is None)
        n_built = sum(1 for e in exes if e is not None)
        exes = [e for e in exes if e is not None]

        def runexe(job):
            rc, out, err = core.sh([job[0], str(job[1]), "4"], timeout=3000)
            if rc != 0:
                raise core.InfraError("C19 sweep binary %s failed rc=%d: %s" % (job[0], rc, err[-1500:]))
            return L.parse_sv(out)

        stats, viols = [], []
        for s, v in core.pmap(runexe, [(e, p) for e in exes for p in range(4)]):
            stats += s
            viols += v
        if len(stats) != n_built * len(R11):
            raise core.InfraError("sweep under %s produced %d summaries" % (cfg, len(stats)))
        for s in stats:
            if s["evals"] == 0:
                raise core.InfraError("vacuous sweep instance %s" % s)
            n_sweep += s["evals"] * len(L.ITEMS)
            for it in L.bits(s["both"], L.ITEMS):
                nontrivial.add((s["unit"], s["rep"], it))
        for v in viols:
            for it in L.bits(v["mask"], L.ITEMS):
                key = "C19:value:item=%s:rep=%s:unit=%s:x=%s:cfg=%s" % (it, v["rep"], v["unit"], v["x"], cfg.name)
                report(key, "%s %s: `%s` with q = %s(%s{%s}) disagrees with the raw operator on (x, 0)" % (
                    cfg, " ".join(flags) or "-O0", it, by_name[v["unit"]].maker, v["rep"], v["xh"]),
                       {"kind": "value", "cfg": [cfg.cxx, cfg.std], "flags": flags, "unit": v["unit"], "rep": v["rep"],
                        "x": v["x"], "item": it})
        done_cfgs.append(cfg.name + "".join(flags))
        if not samples:
            samples = [{"sweep": s} for s in stats[:3]]
        for e in exes:
            try:
                os.remove(e)
            except OSError:
                pass
    n_eval += n_sweep
    mark("sweep")

    dn = len(nontrivial) + opposite
    if dn < 2 and not run.violations:
        raise core.InfraError("vacuity: no comparison saw both outcomes and no probe pair had opposite verdicts")
    recs0 = plans[cfgs[0].name][0]
    samples += [{"probe_rejected": probes[0].code, "twin_accepted": probes[1].code},
                {"record": " ".join(recs0[len(units) * len(R11) // 2][1])[:400]},
                {"scalar_record": " ".join(recs0[-2][1])[:300]}]
    nforms = len(L.point_probes(pt_units[0], "int32_t"))
    run.cov.update({
        "evaluations": n_eval, "distinct_nontrivial": dn,
        "rule": ("Enumerated: (a) every library unit and %d generated units x 11 reps x %s configurations: 4 traits, %d "
                 "construction/conversion/assignment forms, %d comparison/additive items (6 comparisons x both "
                 "argument orders, q+ZERO, q-ZERO, ZERO+q, ZERO-q, (q+-ZERO)==q, += -=) on the values 0, 1, max, lowest, -1 "
                 "(+ -0.0, denorm_min, +-inf, quiet and signalling NaN for floating reps); (a2) per unit x rep, in records of "
                 "their own (thorough: all 11 reps per unit; quick: 3 reps per unit, rotating with the unit index so that every "
                 "unit and every rep occurs): the 12 comparisons and 5 additive items evaluated in *constant expressions* on "
                 "the stored values 0, 1, R(-1), -0 and lowest (integers) / quiet NaN (floating), expected = the raw operator "
                 "at run time; and "
                 "%d conversions of Quantity(ZERO) to the scaled siblings u*3, u/3, u*5/7 (forcing and explicit-rep forms for "
                 "every rep; policy-checked .in/.as/implicit construction and u*pi for floating reps), expected exactly 0; "
                 "(b) %d conversion contexts (copy/direct/list init, constexpr, static/functional/C cast, const-ref binding, "
                 "argument, return, assignment, array, member initialiser, new, const/volatile target) + 4 traits for %d "
                 "arithmetic types (+ char8_t under c++20), the chrono typedefs (+ days..years under c++20), %d further "
                 "durations and duration<R, P> for 11 reps x %d periods; (c) %d point-context forms (initialisations, casts, "
                 "assignment, argument, return, member/array/vector elements, ?:, reference binding, new, std::min<P>, ADL "
                 "min/max/clamp, 6 comparisons x both orders) x %d point units x 11 reps, each with a Quantity twin that must "
                 "be accepted; (d) compiled sweeps of the %d items over all 8/16-bit values, +-%d windows around "
                 "0/min/max/2^k for 32/64-bit and every exponent x mantissa patterns x sign for floating reps on %d units x 11 "
                 "reps; expected = raw operator on (x, 0) (ZERO-q skipped where 0-x overflows). All alphabets are fixed "
                 "enumerations. distinct_nontrivial = (unit, rep, comparison item) sweep instances on which both true and "
                 "false were observed + rejected point probes whose Quantity twin was accepted. Keys ending in _info are "
                 "recorded facts outside the statement, never judged." % (
                     len(L.GEN), len(cfgs), len(L.FORMS), len(L.ITEMS), len(L.XU_ITEMS), len(L.SC_FORMS) + 1, len(L.ARITH),
                     len(L.CHRONO_EXTRA), len(L.PERIODS), nforms, len(pt_units), len(L.ITEMS), w, len(sw_units))),
        "samples": samples,
        "exhaustive": not skipped_cfgs and len(probe_cfgs) == len(cfgs) and len(done_cfgs) == len(sweep_cfgs),
        "exhaustive_note": ("complete over the stated finite alphabets (all units x reps x forms x configurations; all 8/16-bit "
                            "values) unless `configs_skipped_for_time` / `probe_configs` / `sweep_configs` show that the time budget cut "
                            "configurations; 32/64-bit and floating values are covered on the stated windows / structured "
                            "alphabets only"),
        "units": len(units), "configs": [str(c) for c in cfgs], "unit_rep_facts_checked": n_unit_facts,
        "constexpr_comparison_addition_facts": n_cx, "cross_unit_zero_facts": n_xu,
        "scalar_and_chrono_targets": n_scalar, "scalar_and_chrono_conversion_facts": n_scalar_facts,
        "point_probe_pairs_opposite_verdict": opposite,
        "point_probes": len(probes) * len(probe_cfgs), "probe_configs": [str(c) for c in probe_cfgs],
        "configs_skipped_for_time": skipped_cfgs, "sweep_item_evaluations": n_sweep, "sweep_configs": done_cfgs,
        "comparison_instances_with_both_outcomes": len(nontrivial), "phase_wall_s": phase,
        "point_displacement_verdicts_info": displacement,
        "sweep_unit_builds_skipped_after_section1_violation": sweep_skipped,
    })
    run.cov.update(info)
    run.assumptions += [
        "g++ 12 / clang 14 on x86-64 LP64 execute the compiled harness faithfully",
        "the raw built-in operator applied to (x, 0) is the reference; NaN results compare as 'both NaN'",
        "'converts to' is read as every implicit or explicit conversion context of the language (copy/direct/list "
        "initialisation, casts, reference binding, argument, return, assignment)",
        "loss of constexpr on ZERO initialisation / comparison / addition is reported (own keys C19:form=constexpr, "
        "C19:constexpr-cmp:...), although the statement does not literally mention constant expressions",
        "ZERO as a displacement next to a point (p + ZERO, ZERO + p, p - ZERO, ZERO - p, p += ZERO, p -= ZERO), "
        "`rep_cast<R>(ZERO)`, __int128 targets (not std::is_arithmetic under -std=c++NN) and min/max/clamp(q, ZERO) are "
        "outside the statement: their verdicts are recorded in *_info evidence keys and never judged",
        "conversions of Quantity(ZERO) to a sibling unit are only demanded where Au's conversion itself is available for "
        "every rep (forcing / explicit-rep forms; policy-checked forms for floating reps only)",
    ]


def replay(path):
    r = json.load(open(path))
    cfg = core.Cfg(r["cfg"][0], r["cfg"][1])
    wd = os.path.join(core.BUILD, "C19", "replay")
    os.makedirs(wd, exist_ok=True)
    by_name = {u.name: u for u in L.all_units()}
    hit = None
    if r["kind"] == "unit":
        res, failed = psx.run_dump(cfg, [L.unit_record(0, by_name[r["unit"]], r["rep"])], wd, "rp", DUMP_PREAMBLE)
        if 0 in failed:
            hit = failed[0]
        else:
            tags = [t for t, _ in judge_unit(res[0])]
            hit = ("still fails: %s" % tags) if (r.get("tag") in tags or (not r.get("tag") and tags)) else None
    elif r["kind"] == "aux":
        u, kind = by_name[r["unit"]], r["aux"]
        reps = [r["rep"]] if r.get("rep") else r.get("reps", list(R11))
        res, failed = psx.run_dump(cfg, [L.aux_record(0, u, kind, reps)], wd, "rp", DUMP_PREAMBLE)
        if 0 in failed:
            hit = failed[0]
        else:
            names = L.AUX_KINDS[kind]
            bad = sorted(set(it for rep in reps for it in L.bits(res[0]["m_" + rep.replace(" ", "_")], names)))
            hit = ("still wrong: %s" % bad) if (bad and (not r.get("item") or r["item"] in bad)) else None
    elif r["kind"] == "scalar":
        t, fid = r["T"], r.get("form")
        res, failed = psx.run_dump(cfg, [L.scalar_record(0, t, only=fid)], wd, "rp", DUMP_PREAMBLE)
        if 0 in failed:
            hit = failed[0]
        else:
            bad = L.bits(res[0]["mask"], L.sc_form_ids(t))
            hit = ("not exactly zero in: %s" % bad) if bad else None
    elif r["kind"] == "info":
        res, failed = psx.run_dump(cfg, [L.info_record(0)], wd, "rp", DUMP_PREAMBLE)
        hit = failed.get(0) or ("arithmetic but not convertible" if any(
            res[0]["arith%d" % i] and not res[0]["conv%d" % i] for i in range(len(L.NON_ARITH_INFO))) else None)
    elif r["kind"] == "probe":
        u = by_name[r["unit"]]
        rej, acc = [(rej, acc) for name, rej, acc in L.point_probes(u, r["rep"]) if name == r["form"]][0]
        if r.get("which") == "twin":
            res, _ = core.run_probes(cfg, [core.Probe(0, acc, "accept")], wd, "rp", L.PROBE_PREAMBLE)
            hit = "rejected: %s :: %s" % (acc, res[0][1]) if res[0][0] == "reject" else None
        else:
            res, _ = core.run_probes(cfg, [core.Probe(0, rej, "reject")], wd, "rp", L.PROBE_PREAMBLE)
            hit = "accepted: " + rej if res[0][0] == "accept" else None
    elif r["kind"] == "value":
        u = by_name[r["unit"]]
        from ..c13_lib import lit
        rec = (0, ['vf_i("mask", (long long)c19::one<%s>(%s, %s));' % (r["rep"], u.maker, lit(r["rep"], r["x"]))])
        res, failed = psx.run_dump(cfg, [rec], wd, "rp", DUMP_PREAMBLE, flags=r.get("flags", []))
        hit = failed.get(0) or (("items " + str(L.bits(res[0]["mask"], L.ITEMS))) if r["item"] in L.bits(res[0]["mask"], L.ITEMS) else None)
    if hit:
        print("reproduced: %s :: %s" % (r["key"], hit))
        print("VIOLATION property=C19 replay=%s" % path)
        return 1
    print("not reproduced on the current tree: %s" % r["key"])
    return 0
