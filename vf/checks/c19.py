"""C19 — ZERO is the exact zero of every unit and rep; never accepted where a point is required.

Program space: (every library unit + generated units) x R11: Zero->Quantity traits, 18 construction /
conversion / assignment / rep_cast forms, 6 comparisons x both argument orders, + and - in both orders,
+= -= on a few values per rep; `T x = ZERO` for every arithmetic type and chrono durations; traits
is_constructible / is_convertible / is_assignable <QuantityPoint, Zero> must be false without a hard error.
Negative probes (with accepted Quantity twins): ZERO in every context that requires a QuantityPoint.
Value space: compiled sweep of all 8/16-bit values, +-W windows for 32/64-bit, every-exponent floating
alphabets (NaN, inf, -0.0, denormals) on 6 units x 11 reps; oracle = the raw operator on (x, 0).
"""
import json
import os
import re

from .. import core, psx
from .. import c19_lib as L
from ..core import R11

LEVEL = "exploration"

_INFRA = re.compile(r"fatal error|No such file|cannot open|\.pch|\.gch|internal compiler error|Killed|"
                    r"out of memory|Bus error|Segmentation", re.I)
DUMP_PREAMBLE = L.UNITS_PREAMBLE + L.HARNESS


def _guard(diag):
    if _INFRA.search(diag or ""):
        raise core.InfraError("compile failed for environmental reasons: %s" % diag[:400])


def judge_unit(o):
    bad = []
    if not o["q_traits"]:
        bad.append(("traits", "Zero is not convertible/constructible/assignable to the Quantity type"))
    for t in ("constructible", "convertible", "assignable"):
        if o["p_" + t]:
            bad.append(("point-" + t, "std::is_%s<QuantityPoint, Zero> is true" % t))
    for f in L.bits(o["forms"], L.FORMS):
        bad.append(("form=" + f[0], "`%s` does not yield 0" % f[1]))
    for it in L.bits(o["items"], L.ITEMS):
        bad.append(("item=" + it, "`%s` disagrees with the raw operator on (x, 0) for one of 0, 1, max, lowest, -1 (NaN/inf/-0.0)" % it))
    return bad


def check(run):
    tier = run.tier
    units = L.all_units()
    by_name = {u.name: u for u in units}
    cfgs = core.CORNERS if tier == "quick" else core.CFG6
    core.warm_pch(cfgs)
    n_eval = 0
    phase = {}

    def mark(name):
        phase[name] = round(run.elapsed() - sum(phase.values()), 1)

    written = [0]

    def report(key, what, art):
        if run.match_known(key) is None and written[0] < 60:   # finish() prints at most 50
            written[0] += 1
            run.violation(key, what, run.write_replay(key, dict(art, what=what)))
        else:
            run.violation(key, what)

    # ---- 1. compile side: all units x R11 (+ scalar / chrono targets)
    recs, meta = [], {}
    for u in units:
        for rep in R11:
            rid = len(recs)
            recs.append(L.unit_record(rid, u, rep))
            meta[rid] = (u, rep)
    srecs, smeta = L.scalar_records(len(recs), R11)
    allrecs = recs + srecs
    chunk = max(8, -(-len(allrecs) // 12))   # ~12 TUs per configuration
    outs = dict(zip([c.name for c in cfgs], core.pmap(
        lambda c: psx.run_dump(c, allrecs, os.path.join(run.wd, "dump"), "z", DUMP_PREAMBLE, chunk=chunk), cfgs, workers=3)))
    n_unit_facts = n_scalar = 0
    for cfg in cfgs:
        res, failed = outs[cfg.name]
        if len(res) + len(failed) != len(allrecs):
            raise core.InfraError("dump lost records under %s" % cfg)
        for rid, diag in sorted(failed.items()):
            _guard(diag)
            if rid in meta:
                u, rep = meta[rid]
                key = "C19:no-compile:rep=%s:unit=%s:cfg=%s" % (rep, u.name, cfg.name)
                report(key, "%s rejects a use of ZERO with Quantity<%s, %s> (construction/comparison/+/-/rep_cast or the "
                       "QuantityPoint traits hard-error): %s" % (cfg, u.cpp, rep, diag),
                       {"kind": "unit", "cfg": [cfg.cxx, cfg.std], "unit": u.name, "rep": rep})
            else:
                key = "C19:no-compile:scalar:%s:cfg=%s" % (smeta[rid], cfg.name)
                report(key, "%s rejects `T x = ZERO` for %s: %s" % (cfg, smeta[rid], diag),
                       {"kind": "scalar", "cfg": [cfg.cxx, cfg.std], "T": smeta[rid][2:]})
        for rid, o in sorted(res.items()):
            if rid in meta:
                u, rep = meta[rid]
                n_unit_facts += 4 + len(L.FORMS) + len(L.ITEMS)
                for tag, msg in judge_unit(o):
                    key = "C19:%s:rep=%s:unit=%s:cfg=%s" % (tag, rep, u.name, cfg.name)
                    report(key, "%s: Quantity<%s, %s>: %s" % (cfg, u.cpp, rep, msg),
                           {"kind": "unit", "cfg": [cfg.cxx, cfg.std], "unit": u.name, "rep": rep, "tag": tag})
            else:
                n_scalar += 1
                if not o["zero"]:
                    key = "C19:scalar-not-zero:%s:cfg=%s" % (smeta[rid], cfg.name)
                    report(key, "%s: `T x = ZERO` is not 0 for %s" % (cfg, smeta[rid]),
                           {"kind": "scalar", "cfg": [cfg.cxx, cfg.std], "T": smeta[rid][2:]})
    n_eval += n_unit_facts + n_scalar
    mark("dump")

    # ---- 2. negative side: a point is required -> ZERO must be rejected; Quantity twin must be accepted
    pt_units = [by_name[n] for n in L.POINT_UNITS]
    probes, pmeta = [], {}
    for u in pt_units:
        for rep in R11:
            for name, rej, acc in L.point_probes(u, rep):
                i = len(probes)
                probes.append(core.Probe(i, rej, "reject"))
                probes.append(core.Probe(i + 1, acc, "accept"))
                pmeta[i] = pmeta[i + 1] = (u, rep, name)
    pouts = dict(zip([c.name for c in cfgs], core.pmap(
        lambda c: core.run_probes(c, probes, os.path.join(run.wd, "probes"), "pt", L.UNITS_PREAMBLE, batch=64)[0], cfgs, workers=3)))
    opposite = 0
    for cfg in cfgs:
        res = pouts[cfg.name]
        for i in range(0, len(probes), 2):
            u, rep, name = pmeta[i]
            (vr, dr), (va, da) = res[i], res[i + 1]
            if va != "accept":
                _guard(da)
                raise core.InfraError("twin probe rejected (probe generator is wrong or ZERO does not work with a "
                                      "Quantity, which section 1 reports): %s :: %s" % (probes[i + 1].code, da))
            if vr != "reject":
                key = "C19:point-accepts-ZERO:%s:rep=%s:unit=%s:cfg=%s" % (name, rep, u.name, cfg.name)
                report(key, "%s accepts ZERO where a QuantityPoint is required: `%s`" % (cfg, probes[i].code),
                       {"kind": "probe", "cfg": [cfg.cxx, cfg.std], "unit": u.name, "rep": rep, "form": name})
            else:
                opposite += 1
    n_eval += len(probes) * len(cfgs)
    mark("probes")

    # ---- 3. value sweep
    sw_units = [by_name[n] for n in L.SWEEP_UNITS]
    w = 2 ** 12 if tier == "quick" else 2 ** 16
    sweep_cfgs = [(core.GXX14, []), (core.CLANG20, ["-O2"])]
    if tier == "thorough":
        sweep_cfgs += [(core.GXX20, ["-O2"]), (core.CLANG14, [])]
    nontrivial = set()
    n_sweep = 0
    done_cfgs = []
    samples = []
    wd = os.path.join(run.wd, "sweep")
    os.makedirs(wd, exist_ok=True)
    for cfg, flags in sweep_cfgs:
        if run.time_left() < 300:
            break
        core.pch_dir(cfg, flags)

        def build(u, cfg=cfg, flags=flags):
            stem = os.path.join(wd, "sw_%s_%s" % (cfg.name, re.sub(r"\W", "_", u.name)))
            L.sweep_tu(stem + ".cc", [u], R11, w)
            rc, err = core.build_exe(cfg, stem + ".cc", stem, flags)
            if rc != 0:
                _guard(err)
                raise core.InfraError("C19 sweep TU does not build although section 1 accepted the same operations "
                                      "(%s):\n%s" % (stem, err[-2500:]))
            return stem

        exes = core.pmap(build, sw_units)

        def runexe(job):
            rc, out, err = core.sh([job[0], str(job[1]), "4"], timeout=3000)
            if rc != 0:
                raise core.InfraError("C19 sweep binary %s failed rc=%d: %s" % (job[0], rc, err[-1500:]))
            return L.parse_sv(out)

        stats, viols = [], []
        for s, v in core.pmap(runexe, [(e, p) for e in exes for p in range(4)]):
            stats += s
            viols += v
        if len(stats) != len(sw_units) * len(R11):
            raise core.InfraError("sweep under %s produced %d summaries" % (cfg, len(stats)))
        for s in stats:
            if s["evals"] == 0:
                raise core.InfraError("vacuous sweep instance %s" % s)
            n_sweep += s["evals"] * len(L.ITEMS)
            for it in L.bits(s["both"], L.ITEMS):
                nontrivial.add((s["unit"], s["rep"], it))
        for v in viols:
            for it in L.bits(v["mask"], L.ITEMS):
                key = "C19:value:item=%s:rep=%s:unit=%s:x=%s:cfg=%s" % (it, v["rep"], v["unit"], v["x"], cfg.name)
                report(key, "%s %s: `%s` with q = %s(%s{%s}) disagrees with the raw operator on (x, 0)" % (
                    cfg, " ".join(flags) or "-O0", it, by_name[v["unit"]].maker, v["rep"], v["xh"]),
                       {"kind": "value", "cfg": [cfg.cxx, cfg.std], "flags": flags, "unit": v["unit"], "rep": v["rep"],
                        "x": v["x"], "item": it})
        done_cfgs.append(cfg.name + "".join(flags))
        if not samples:
            samples = [{"sweep": s} for s in stats[:3]]
        for e in exes:
            try:
                os.remove(e)
            except OSError:
                pass
    n_eval += n_sweep
    mark("sweep")

    dn = len(nontrivial) + opposite
    if dn < 2:
        raise core.InfraError("vacuity: no comparison saw both outcomes and no probe pair had opposite verdicts")
    samples += [{"probe_rejected": probes[0].code, "twin_accepted": probes[1].code},
                {"record": " ".join(recs[len(recs) // 2][1])[:400]}]
    run.cov.update({
        "evaluations": n_eval, "distinct_nontrivial": dn,
        "rule": ("Enumerated: (a) every library unit and %d generated units x 11 reps x %s configurations: 4 traits, %d "
                 "construction/conversion/assignment/rep_cast forms, %d comparison/additive items (6 comparisons x both "
                 "argument orders, q+ZERO, q-ZERO, ZERO+q, ZERO-q, (q+-ZERO)==q, += -=) on the values 0, 1, max, lowest, -1 "
                 "(+ -0.0, denorm_min, +-inf, quiet and signalling NaN for floating reps); (b) `T x = ZERO`, constexpr, "
                 "argument passing and assignment for %d arithmetic types, the 6 chrono typedefs and duration<R, P> for 11 "
                 "reps x %d periods; (c) %d point-context forms (init, assign, argument, return, 6 comparisons x both "
                 "orders) x %d point units x 11 reps, each with an accepted Quantity twin; (d) compiled sweeps of the %d "
                 "items over all 8/16-bit values, +-%d windows around 0/min/max/2^k for 32/64-bit and every exponent x "
                 "mantissa patterns x sign for floating reps on %d units x 11 reps; expected = raw operator on (x, 0) "
                 "(ZERO-q skipped where 0-x overflows). distinct_nontrivial = (unit, rep, comparison item) sweep "
                 "instances on which both true and false were observed + rejected point probes whose Quantity twin was "
                 "accepted." % (len(L.GEN), len(cfgs), len(L.FORMS), len(L.ITEMS), len(L.ARITH), len(L.PERIODS),
                                len(L.point_probes(pt_units[0], "int32_t")), len(pt_units), len(L.ITEMS), w, len(sw_units))),
        "samples": samples,
        "exhaustive": True,
        "exhaustive_note": ("complete over the stated finite alphabets (all units x reps x forms x configurations; all 8/16-bit "
                            "values); 32/64-bit and floating values are covered on the stated windows / structured alphabets only"),
        "units": len(units), "configs": [str(c) for c in cfgs], "unit_rep_facts_checked": n_unit_facts,
        "scalar_and_chrono_targets": n_scalar, "point_probe_pairs_opposite_verdict": opposite,
        "point_probes": len(probes) * len(cfgs), "sweep_item_evaluations": n_sweep, "sweep_configs": done_cfgs,
        "comparison_instances_with_both_outcomes": len(nontrivial), "phase_wall_s": phase,
    })
    run.assumptions += [
        "g++ 12 / clang 14 on x86-64 LP64 execute the compiled harness faithfully",
        "the raw built-in operator applied to (x, 0) is the reference; NaN results compare as 'both NaN'",
        "`p + ZERO` (ZERO as a displacement) is outside the statement and not probed",
    ]


def replay(path):
    r = json.load(open(path))
    cfg = core.Cfg(r["cfg"][0], r["cfg"][1])
    wd = os.path.join(core.BUILD, "C19", "replay")
    os.makedirs(wd, exist_ok=True)
    by_name = {u.name: u for u in L.all_units()}
    hit = None
    if r["kind"] == "unit":
        res, failed = psx.run_dump(cfg, [L.unit_record(0, by_name[r["unit"]], r["rep"])], wd, "rp", DUMP_PREAMBLE)
        if 0 in failed:
            hit = failed[0]
        else:
            tags = [t for t, _ in judge_unit(res[0])]
            hit = ("still fails: %s" % tags) if (r.get("tag") in tags or (not r.get("tag") and tags)) else None
    elif r["kind"] == "scalar":
        recs, meta = L.scalar_records(0, R11)
        rid = [k for k, v in meta.items() if v == "T=" + r["T"]][0]
        res, failed = psx.run_dump(cfg, [x for x in recs if x[0] == rid], wd, "rp", DUMP_PREAMBLE)
        hit = failed.get(rid) or (None if res[rid]["zero"] else "not zero")
    elif r["kind"] == "probe":
        u = by_name[r["unit"]]
        code = [rej for name, rej, acc in L.point_probes(u, r["rep"]) if name == r["form"]][0]
        res, _ = core.run_probes(cfg, [core.Probe(0, code, "reject")], wd, "rp", L.UNITS_PREAMBLE)
        hit = "accepted: " + code if res[0][0] == "accept" else None
    elif r["kind"] == "value":
        u = by_name[r["unit"]]
        from ..c13_lib import lit
        rec = (0, ['vf_i("mask", (long long)c19::one<%s>(%s, %s));' % (r["rep"], u.maker, lit(r["rep"], r["x"]))])
        res, failed = psx.run_dump(cfg, [rec], wd, "rp", DUMP_PREAMBLE, flags=r.get("flags", []))
        hit = failed.get(0) or (("items " + str(L.bits(res[0]["mask"], L.ITEMS))) if r["item"] in L.bits(res[0]["mask"], L.ITEMS) else None)
    if hit:
        print("reproduced: %s :: %s" % (r["key"], hit))
        print("VIOLATION property=C19 replay=%s" % path)
        return 1
    print("not reproduced on the current tree: %s" % r["key"])
    return 0
