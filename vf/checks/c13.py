"""C13 — Quantity / QuantityPoint are zero-overhead transparent wrappers of the rep.

Program space (all six compiler configurations, both tiers):
  layout facts   (every library unit + generated units) x R11, Quantity and QuantityPoint
  result types   decltype of every operator result vs decltype of the raw operator   (ops units x R11)
  acceptance     every operator use must compile, on const operands, and be usable inside a constant
                 expression with the raw operator's value (ops units x R11; includes every (rep, operator,
                 scalar type) triple and every round-trip spelling that the value sweeps instantiate)
  points         ptmaker(x).in(ptmaker) and the same-unit QuantityPoint operators: value only (see assumptions)
Value space (compiled harness, oracle = the raw built-in operator on R; definedness by 128-bit ints):
  all 65536 operand pairs of int8_t / uint8_t, edge-window pairs for wider reps, structured
  floating pairs (NaN payloads, inf, signed zeros, denormals); unary ops and unit(x).in(unit) on all
  8/16-bit values and on every-exponent floating alphabets; thorough: all 2^32 float bit patterns.
"""
import json
import os
import re

from .. import core, psx
from .. import c13_lib as L
from ..c13_units import PREAMBLE, QUICK_OPS, QUICK_PT, THOROUGH_OPS_LIB, all_units
from ..core import R11

LEVEL = "exploration"
TRAPPED = []

_INFRA = re.compile(r"fatal error|No such file|cannot open|\.pch|\.gch|internal compiler error|Killed|"
                    r"out of memory|Bus error|Segmentation", re.I)


def _guard(diag):
    """A compile failure caused by the environment (PCH wiped by a concurrent run, OOM) is never a verdict."""
    if _INFRA.search(diag or ""):
        raise core.InfraError("compile failed for environmental reasons: %s" % diag[:400])


def _cfg(desc):
    return core.Cfg(desc[0], desc[1])


# ------------------------------------------------------------------------------------------------ judges
def judge_layout(o):
    bad = []
    for k in ("q", "p"):
        if o[k + "_size"] != o["r_size"]:
            bad.append((k + "_size", "sizeof is %d, sizeof(R) is %d" % (o[k + "_size"], o["r_size"])))
        if o[k + "_align"] != o["r_align"]:
            bad.append((k + "_align", "alignof is %d, alignof(R) is %d" % (o[k + "_align"], o["r_align"])))
    for f in L.LAYOUT_TRUE:
        if not o[f]:
            bad.append((f, "%s is false" % f))
    return bad


def judge_type(o, oid):
    """-> (kind, message) or None; kind: result-type | result-unit"""
    if not o[oid + "|ti"]:
        return "result-type", "Au result type is %s, the raw operator yields %s" % (o[oid + "|au"], o[oid + "|raw"])
    if not o[oid + "|rf"]:
        return "result-type", "value category differs from the raw operator (lvalue-ness)"
    if not o.get(oid + "|un", True):
        return "result-unit", ("the result is not Quantity<U, %s> of the operands' unit U (compound assignment: not the "
                               "assigned-to object)" % o[oid + "|raw"])
    return None


def _multi(cfgs, fn, workers=3):
    return dict(zip([c.name for c in cfgs], core.pmap(fn, cfgs, workers=workers)))


def _chunk(n):
    # ~10 TUs per configuration (three configurations run concurrently): loading the PCH costs more than a record
    return max(8, -(-n // 10))


# ------------------------------------------------------------------------------------------------ sweeps
def build_sweeps(wd, cfg, flags, units, accepted, nparts):
    """One TU per unit; returns (stats, viols, n_instances). accepted: unit name -> [(rep, Op)], all of them probed."""
    os.makedirs(wd, exist_ok=True)
    core.pch_dir(cfg, flags)
    counts = {}

    def build(u):
        stem = os.path.join(wd, "sw_%s_%s" % (cfg.name, re.sub(r"\W", "_", u.name)))
        counts[u.name] = L.sweep_tu(stem + ".cc", u, accepted[u.name])
        rc, err = core.build_exe(cfg, stem + ".cc", stem, flags)
        if rc != 0:
            _guard(err)
            raise core.InfraError("C13 sweep TU does not build although every operator use in it was accepted "
                                  "alone (%s):\n%s" % (stem, err[-2500:]))
        return stem

    exes = core.pmap(build, units)

    def runexe(job):
        exe, part = job
        rc, out, err = core.sh([exe, str(part), str(nparts)], timeout=3000)
        if rc == 86 and "trap-signal" in out:
            TRAPPED.append(exe)     # a trap inside the library, reported by the harness as a V line; the rest of this part did not run
        elif rc != 0:
            raise core.InfraError("C13 sweep binary %s failed rc=%d: %s" % (exe, rc, err[-1500:]))
        return L.parse_sv(out)

    stats, viols = [], []
    for s, v in core.pmap(runexe, [(e, p) for e in exes for p in range(nparts)]):
        stats += s
        viols += v
    for e in exes:
        try:
            os.remove(e)
        except OSError:
            pass
    return stats, viols, sum(counts.values())


def check(run):
    tier = run.tier
    units = all_units()
    by_name = {u.name: u for u in units}
    ops_units = [by_name[n] for n in QUICK_OPS]
    groups = [list(ops_units)]
    if tier == "thorough":   # + every generated unit + a spread of further library units, in deadline-guarded groups
        more = [u for u in units if (not u.lib or u.name in THOROUGH_OPS_LIB) and u not in ops_units]
        groups += [more[i:i + 9] for i in range(0, len(more), 9)]
        ops_units = ops_units + more
    cfgs = core.CFG6
    core.warm_pch(cfgs)
    n_eval = 0
    samples = []
    phase = {}

    def mark(name):
        phase[name] = round(phase.get(name, 0) + run.elapsed() - sum(phase.values()), 1)

    written = [0]

    def report(key, what, art):
        if run.match_known(key) is None and written[0] < 60:   # finish() prints at most 50
            written[0] += 1
            run.violation(key, what, run.write_replay(key, dict(art, what=what)))
        else:
            run.violation(key, what)

    # ---- 1. layout facts: all units x R11 x CFG6
    lay, lmeta = [], {}
    for u in units:
        for rep in R11:
            rid = len(lay)
            lay.append(L.layout_record(rid, u, rep))
            lmeta[rid] = (u, rep)
    out = _multi(cfgs, lambda c: psx.run_dump(c, lay, os.path.join(run.wd, "layout"), "lay", L.DUMP_PREAMBLE,
                                              chunk=_chunk(len(lay))))
    n_layout = 0
    for cfg in cfgs:
        res, failed = out[cfg.name]
        for rid, diag in sorted(failed.items()):
            _guard(diag)
            u, rep = lmeta[rid]
            key = "C13:no-compile:layout:rep=%s:unit=%s:cfg=%s" % (rep, u.name, cfg.name)
            report(key, "%s: Quantity/QuantityPoint<%s, %s> layout and default-construction program is rejected: %s"
                   % (cfg, u.cpp, rep, diag), {"kind": "layout", "cfg": [cfg.cxx, cfg.std], "unit": u.name, "rep": rep})
        for rid, o in sorted(res.items()):
            u, rep = lmeta[rid]
            if not o["mk"]:
                raise core.InfraError("unit table: maker/point maker of %s is not QuantityMaker<%s>" % (u.name, u.cpp))
            n_layout += 4 + len(L.LAYOUT_TRUE)
            for fact, msg in judge_layout(o):
                key = "C13:layout:%s:rep=%s:unit=%s:cfg=%s" % (fact, rep, u.name, cfg.name)
                report(key, "%s: %s<%s, %s>: %s" % (cfg, "Quantity" if fact[0] == "q" else "QuantityPoint", u.cpp, rep, msg),
                       {"kind": "layout", "cfg": [cfg.cxx, cfg.std], "unit": u.name, "rep": rep, "fact": fact})
        if len(res) + len(failed) != len(lay):
            raise core.InfraError("layout dump lost records under %s" % cfg)
    n_eval += n_layout
    mark("layout")
    samples.append({"layout": "sizeof/alignof/traits/default-construction of Quantity and QuantityPoint<%s, %s>"
                    % (units[-1].cpp, "long double")})

    # ---- 2. acceptance.  One probe per operator use (and per round-trip spelling set): first inside a constant
    #         expression (constexpr operands are const; the compile-time value is compared with the raw operator's);
    #         what is rejected there is re-probed at run time on const operands to tell "does not compile" from
    #         "not a constant expression".  Every (rep, operator, scalar type) triple and every round trip that the
    #         value sweeps instantiate is probed here, in both tiers; only accepted ones reach the sweep TUs.
    #         Sub-int reps (where integral promotion makes the raw result type differ from R) are batched per
    #         operator so that one rejected family cannot push unrelated probes into one-by-one recompilation.
    SUB = ("int8_t", "uint8_t", "int16_t", "uint16_t")
    pt_units = ops_units if tier == "thorough" else [by_name[n] for n in QUICK_PT]
    accepted = {c.name: {} for c in cfgs}   # cfg name -> unit name -> [(rep, Op)]
    K = dict.fromkeys(["rejected", "notconst", "pt_rej_sub", "pt_notconst", "probes", "const_probes", "types",
                       "type_mismatch", "pt_type_differs", "pt_unit_kind"], 0)

    def probe_phase(grp):
        plist = []
        for u in grp:
            for rep in R11:
                ops = L.sweep_ops(rep, tier) + [L.RT_OP, L.RTP_OP] + (L.pt_ops(rep) if u in pt_units else [])
                plist += [(rep not in SUB, op.oid, rep, u.name, op) for op in ops]
        plist.sort(key=lambda x: x[:4])
        pmeta = {i: (by_name[un], rep, op) for i, (_, _, rep, un, op) in enumerate(plist)}
        probes = [core.Probe(i, L.probe_code(u, rep, op, constant=True), "accept") for i, (u, rep, op) in sorted(pmeta.items())]
        n_sub = sum(1 for x in plist if not x[0])

        def probe_cfg(c):
            wd = os.path.join(run.wd, "probes")
            r1, _ = core.run_probes(c, probes[:n_sub], wd, "accS", L.PROBE_PREAMBLE, batch=len(SUB) * len(grp))
            r2, _ = core.run_probes(c, probes[n_sub:], wd, "accW", L.PROBE_PREAMBLE, batch=64)
            r1.update(r2)
            again = [core.Probe(i, L.probe_code(*pmeta[i]), "accept") for i in sorted(r1) if r1[i][0] != "accept"]
            r3, _ = core.run_probes(c, again, wd, "accP", L.PROBE_PREAMBLE, batch=16)
            return r1, r3

        out = _multi(cfgs, probe_cfg)
        for cfg in cfgs:
            acc = accepted[cfg.name]
            for u in grp:
                acc[u.name] = []
            r_const, r_plain = out[cfg.name]
            K["probes"] += len(r_const) + len(r_plain)
            K["const_probes"] += len(r_const)
            for i in sorted(pmeta):
                u, rep, op = pmeta[i]
                v, diag = r_const[i]
                if v == "accept":
                    acc[u.name].append((rep, op))
                    continue
                _guard(diag)
                v2, diag2 = r_plain[i]
                art = {"kind": "probe", "cfg": [cfg.cxx, cfg.std], "unit": u.name, "rep": rep, "op": op.oid}
                use = op.au.format(**L._EVAL)
                judged = op.cls not in ("pcmp", "pdiff", "parith", "pasg")    # the point operators: see assumptions
                if v2 == "accept":
                    acc[u.name].append((rep, op))
                    if not judged:
                        K["pt_notconst"] += 1
                        continue
                    K["notconst"] += 1
                    key = "C13:constexpr:op=%s:rep=%s:unit=%s:cfg=%s" % (op.oid, rep, u.name, cfg.name)
                    report(key, "%s: `%s` for %s of rep %s compiles, but is not usable in a constant expression or its "
                           "compile-time value differs from the raw operator's (the raw operator on %s is a constant "
                           "expression): %s" % (cfg, use, u.maker, rep, rep, diag), dict(art, mode="constant"))
                    continue
                _guard(diag2)
                if not judged and rep in SUB:
                    K["pt_rej_sub"] += 1
                    continue
                K["rejected"] += 1
                key = "C13:no-compile:op=%s:rep=%s:unit=%s:cfg=%s" % (op.oid, rep, u.name, cfg.name)
                report(key, "%s rejects `%s` (const operands) for %s of rep %s%s (the raw operator on %s compiles): %s"
                       % (cfg, use, u.maker, rep, "" if op.S == "R" else " and a scalar of type %s" % op.S, rep, diag2),
                       dict(art, mode="plain"))
        if not any("probe" in x for x in samples):
            samples.append({"probe": probes[len(probes) // 2].code})

    # ---- 3. result types: ops units x R11 x operators x CFG6 (decltype only: independent of acceptance for the
    #         Quantity operators; the point operators are named only where they were accepted)
    def types_phase(grp):
        tmeta = {}
        for u in grp:
            for rep in R11:
                tmeta[len(tmeta)] = (u, rep)

        def types_cfg(c):
            pacc = {}
            for u in grp:
                for rep, op in accepted[c.name][u.name]:
                    if op.point and op.cls != "rtp":
                        pacc.setdefault((u.name, rep), []).append(op)
            typ = [L.type_record(rid, u, rep, pacc.get((u.name, rep), ())) for rid, (u, rep) in sorted(tmeta.items())]
            return psx.run_dump(c, typ, os.path.join(run.wd, "types"), "typ", L.DUMP_PREAMBLE, chunk=_chunk(len(typ))), pacc

        out = _multi(cfgs, types_cfg)
        for cfg in cfgs:
            (res, failed), pacc = out[cfg.name]
            for rid, diag in sorted(failed.items()):
                _guard(diag)
                u, rep = tmeta[rid]
                key = "C13:no-compile:types:rep=%s:unit=%s:cfg=%s" % (rep, u.name, cfg.name)
                report(key, "%s: naming the operator result types of Quantity<%s, %s> in decltype is rejected: %s"
                       % (cfg, u.cpp, rep, diag), {"kind": "type", "cfg": [cfg.cxx, cfg.std], "unit": u.name, "rep": rep})
            for rid, o in sorted(res.items()):
                u, rep = tmeta[rid]
                K["types"] += 1
                if not o["def_in"]:
                    key = "C13:layout:def_in:rep=%s:unit=%s:cfg=%s" % (rep, u.name, cfg.name)
                    report(key, "%s: default-constructed Quantity/QuantityPoint<%s, %s> does not read back as %s{} through .in(unit)"
                           % (cfg, u.cpp, rep, rep), {"kind": "type", "cfg": [cfg.cxx, cfg.std], "unit": u.name, "rep": rep, "op": "def_in"})
                for op in L.ops_for(rep):
                    K["types"] += 2
                    j = judge_type(o, op.oid)
                    if j:
                        K["type_mismatch"] += 1
                        key = "C13:%s:op=%s:rep=%s:unit=%s:cfg=%s" % (j[0], op.oid, rep, u.name, cfg.name)
                        report(key, "%s: `%s` on Quantity<%s, %s>: %s" % (cfg, op.au.format(**L._EVAL), u.cpp, rep, j[1]),
                               {"kind": "type", "cfg": [cfg.cxx, cfg.std], "unit": u.name, "rep": rep, "op": op.oid})
                for op in pacc.get((u.name, rep), ()):      # recorded, not judged
                    K["types"] += 1
                    K["pt_type_differs"] += 0 if o[op.oid + "|ti"] else 1
                    K["pt_unit_kind"] += 0 if (o[op.oid + "|un"] and o[op.oid + "|rf"]) else 1

    # ---- 4. value sweeps against the raw operators
    main_cfgs = [(core.GXX14, []), (core.CLANG20, ["-O2"])]
    extra_cfgs = [] if tier == "quick" else [(core.GXX20, ["-O2"]), (core.CLANG14, [])]
    nontrivial = set()
    n_sweep = n_skipped = 0
    per_rep = {}
    per_kind = {}
    done_cfgs = {}      # configuration -> number of units swept
    notjudged = [0]

    def do_sweep(cfg, flags, grp):
        nonlocal n_sweep, n_skipped
        stats, viols, want = build_sweeps(os.path.join(run.wd, "sweep"), cfg, flags, grp, accepted[cfg.name], 3)
        if len(stats) != want and not TRAPPED:
            raise core.InfraError("sweep under %s produced %d instance summaries, expected %d" % (cfg, len(stats), want))
        for need, txt in (("@", "mixed-scalar-type"), ("pt_", "point operator"), ("roundtrip_pt", "point round-trip")):
            if not any(need in x["op"] for x in stats) and not K["rejected"] and not TRAPPED and any(u in pt_units for u in grp):
                raise core.InfraError("no %s sweeps were run under %s" % (txt, cfg))
        for s in stats:
            if s["evals"] == 0:
                raise core.InfraError("vacuous sweep instance: %s" % s)
            n_sweep += s["evals"]
            n_skipped += s["skipped"]
            notjudged[0] += s.get("notjudged", 0)
            per_rep[s["rep"]] = per_rep.get(s["rep"], 0) + s["evals"]
            per_kind[s["k"]] = per_kind.get(s["k"], 0) + s["evals"]
            if s["varied"]:
                nontrivial.add((s["unit"], s["rep"], s["op"]))
        cname = "%s%s" % (cfg.name, "".join(flags))
        done_cfgs[cname] = done_cfgs.get(cname, 0) + len(grp)
        for v in viols:
            u = by_name[v["unit"]]
            key = "C13:value:op=%s:rep=%s:unit=%s:a=%s:b=%s:cfg=%s" % (v["op"], v["rep"], v["unit"], v["a"], v["b"], cfg.name)
            what = ("%s %s: %s on %s(%s{%s})%s gives %s (%s) but the raw operator on %s gives %s (%s)" % (
                cfg, " ".join(flags) or "-O0", v["op"], u.ptmaker if v["op"] == "roundtrip_pt" else u.maker, v["rep"], v["ah"],
                (" and {%s}" % v["bh"]) if v["b"] else "", v["got"], v["got_t"], v["rep"], v["want"], v["want_t"]))
            report(key, what, {"kind": "value", "cfg": [cfg.cxx, cfg.std], "flags": flags, "unit": v["unit"],
                               "rep": v["rep"], "op": v["op"], "a": v["a"], "b": v["b"]})
        if not any("sweep" in x for x in samples):
            samples.append({"sweep": [s for s in stats if s["rep"] in ("int8_t", "float")][:4]})

    # ---- 5. thorough: every one of the 2^32 float bit patterns through unit(x).in(unit) (and the point round trip)
    f32 = {"float_patterns_roundtripped": 0, "float_patterns_point_roundtripped": 0, "float_2pow32_complete": False}

    def do_f32():
        f_units = [by_name["meters"], by_name["gen.MPS"]]
        wd = os.path.join(run.wd, "f32")
        os.makedirs(wd, exist_ok=True)
        exes = []
        for cfg, flags in main_cfgs:
            for u in f_units:       # both round trips of these units were probed and accepted?
                ok = set(op.oid for rep, op in accepted[cfg.name][u.name] if rep == "float")
                if not {"roundtrip", "roundtrip_pt"} <= ok:
                    return          # already reported as a violation by the probes
            stem = os.path.join(wd, "f32_%s" % cfg.name)
            L.f32_tu(stem + ".cc", f_units)
            rc, err = core.build_exe(cfg, stem + ".cc", stem, flags)
            if rc != 0:
                _guard(err)
                raise core.InfraError("f32 round-trip TU failed to build: %s" % err[-2000:])
            exes.append((cfg, flags, stem))
        NP = 64
        step = 2 ** 32 // NP
        complete = True
        for cfg, flags, exe in exes:
            def part(i, exe=exe):
                if run.time_left() < 60:
                    return None
                rc, o, e = core.sh([exe, str(i * step), str((i + 1) * step)], timeout=3000)
                if rc != 0:
                    raise core.InfraError("f32 binary failed: %s" % e[-800:])
                return L.parse_sv(o)
            for r in core.pmap(part, range(NP)):
                if r is None:
                    complete = False
                    continue
                for s in r[0]:
                    f32["float_patterns_roundtripped" if s["op"] == "roundtrip" else "float_patterns_point_roundtripped"] += s["evals"]
                    notjudged[0] += s.get("notjudged", 0)
                for v in r[1]:
                    key = "C13:value:op=%s:rep=float:unit=%s:a=%s:b=:cfg=%s" % (v["op"], v["unit"], v["a"], cfg.name)
                    report(key, "%s: %s: %s(x).in(%s) for float bits %s returns bits %s" % (cfg, v["op"], v["unit"], v["unit"], v["a"], v["got"]),
                           {"kind": "value", "cfg": [cfg.cxx, cfg.std], "flags": flags, "unit": v["unit"], "rep": "float",
                            "op": v["op"], "a": v["a"], "b": ""})
        f32["float_2pow32_complete"] = complete
        mark("f32")

    # order: group 0 (the quick tier's units): probes, types, main sweep configurations; thorough: then all 2^32 float
    # patterns, then the further unit groups and the extra sweep configurations while the deadline allows
    explored = []
    t_group0 = None
    for gi, grp in enumerate(groups):
        t0 = run.elapsed()
        if gi > 0 and run.time_left() < t_group0 * len(grp) / len(groups[0]) * 1.3 + 120:
            break
        probe_phase(grp)
        mark("probes")
        types_phase(grp)
        mark("types")
        for cfg, flags in main_cfgs:
            do_sweep(cfg, flags, grp)
        mark("sweeps")
        explored += grp
        if gi == 0:
            t_group0 = run.elapsed() - t0
            if tier == "thorough":
                do_f32()
    for cfg, flags in extra_cfgs:
        if run.time_left() < 420:
            break
        do_sweep(cfg, flags, explored)
        mark("sweeps_extra")
    n_eval += K["probes"] + K["types"] + n_sweep + f32["float_patterns_roundtripped"] + f32["float_patterns_point_roundtripped"]
    n_cfg_full = sum(1 for n in done_cfgs.values() if n == len(ops_units))
    complete = len(explored) == len(ops_units) and n_cfg_full == len(main_cfgs) + len(extra_cfgs)

    if len(nontrivial) < 2:
        raise core.InfraError("vacuity: fewer than 2 sweep instances saw more than one distinct result")
    run.cov.update({
        "evaluations": n_eval,
        "distinct_nontrivial": len(nontrivial),
        "rule": ("Enumerated: (a) layout: every library unit and %d generated units x 11 reps x {Quantity, QuantityPoint} x 6 "
                 "compiler configurations, 16 facts each; (b) result types: ops-units x 11 reps x every operator "
                 "(same-unit + - %% unary+- += -=, six comparisons, scalar * / *= /= with scalar in {R, int32_t, double}) "
                 "x 6 configurations: decltype vs the raw operator's decltype, and the result is Quantity<U, raw type> of "
                 "the operands' own unit U (Q& for compound assignment); (c) one acceptance probe per operator use x 6 "
                 "configurations, first inside a constant expression (constexpr = const operands; static_assert of the "
                 "compile-time value against the raw operator on 5, 3, scalar 2; compound assignment through a constexpr "
                 "helper function), rejected ones again at run time on const operands: scalar types R + the "
                 "mixed-scalar table %s (thorough: + int32_t, double for every rep), the round-trip spelling sets, the "
                 "point operators; only accepted uses are instantiated by the sweeps; (d) compiled value sweeps per "
                 "(unit, rep, operator): all 65536 operand pairs for 8-bit reps, edge-window pairs for 16/32/64-bit, "
                 "structured floating pairs; mixed-scalar-type sweeps: the pair alphabet of R x a boundary alphabet of S "
                 "with values that do not survive conversion to R; unary ops (on a const lvalue) and the round trip "
                 "on all 8/16-bit values, +-512/+-4096 windows for 32/64-bit, every exponent x mantissa patterns x "
                 "sign for floating reps; round-trip spellings: maker(x) as prvalue and const lvalue, "
                 "make_quantity<U>(x), x * symbol (units with a library symbol) read by .in(maker), .in(U{}), "
                 ".in<R>(maker), .data_in(maker), .in(symbol); expected value = raw operator on R, cases where the raw "
                 "operation is undefined (division by zero, MIN/-1, signed overflow in the promoted type) are skipped "
                 "and counted; (e) QuantityPoint (units %s): ptmaker(x).in(ptmaker) over the round-trip alphabets of "
                 "every ops unit, and six comparisons, p-p, p+d, d+p, p-d, p+=d, p-=d over the pair alphabets, value only. "
                 "distinct_nontrivial = number of distinct (unit, rep, operator) sweep instances on which "
                 "the raw operator produced at least two different results (so agreement is not constant-vs-constant)."
                 % (sum(1 for u in units if not u.lib), json.dumps(L.WIDER, sort_keys=True).replace('"', ""),
                    [u.name for u in pt_units])),
        "samples": samples,
        "exhaustive": complete and (tier != "thorough" or f32["float_2pow32_complete"]),
        "exhaustive_note": ("complete over the stated finite alphabets (all 8-bit operand pairs, all 8/16-bit values, "
                            "all units x reps x configurations); 32/64-bit and double/long double values are covered on the "
                            "stated windows/structured alphabets only" +
                            ("; float round trip over all 2^32 patterns" if f32["float_2pow32_complete"] else "") +
                            ("" if complete else "; the deadline guard stopped after %d of %d ops units; units swept per "
                             "configuration: %s" % (len(explored), len(ops_units), done_cfgs))),
        "units_layout": len(units), "units_ops": len(explored), "units_ops_planned": len(ops_units), "configs": [str(c) for c in cfgs],
        "layout_facts_checked": n_layout, "result_types_checked": K["types"], "result_type_mismatches": K["type_mismatch"],
        "acceptance_probes": K["probes"], "acceptance_rejected": K["rejected"], "constant_expression_probes": K["const_probes"],
        "constant_expression_rejected": K["notconst"],
        "sweep_evaluations": n_sweep, "sweep_skipped_undefined_raw": n_skipped, "sweep_configs": sorted(done_cfgs), "sweep_units_per_config": done_cfgs,
        "sweep_evaluations_per_rep": per_rep, "sweep_evaluations_per_kind": per_kind, "phase_wall_s": phase,
        "units_point_ops": sum(1 for u in explored if u in pt_units),
        # recorded, not judged (outside the statement as read; see assumptions)
        "point_roundtrip_bitdiff_not_judged": notjudged[0],
        "point_result_type_differs_from_raw": K["pt_type_differs"],
        "point_result_unit_or_kind_unexpected": K["pt_unit_kind"],
        "point_ops_rejected_subint_not_judged": K["pt_rej_sub"],
        "point_ops_not_constant_expression_not_judged": K["pt_notconst"],
    })
    run.cov.update(f32)
    run.assumptions += [
        "g++ 12 / clang 14 on x86-64 LP64 execute the compiled harness faithfully",
        "the raw built-in operator on R is the reference; whether it is defined is decided by 128-bit integer arithmetic",
        "floating results that are NaN are compared as 'both NaN' (payload propagation depends on operand order in the "
        "instruction chosen by the compiler); every other floating result is compared bit-for-bit",
        "x87 long double: only valid encodings (integer bit = exponent != 0) are enumerated; padding bytes are ignored",
        "compound *= /= of an integral rep by a floating scalar is documented as unsupported and not probed",
        "reading of 'unit(x).in(unit) returns x bit-for-bit': the clause is spelled with the unit's quantity maker "
        "(mechanism: QuantityMaker::operator()); QuantityPoint is named only in the layout/default-construction clause. "
        "ptmaker(x).in(ptmaker) is swept over the same alphabets anyway: QuantityPoint::in(u) adds the origin displacement "
        "(Zero -> R{0} for the same unit), so on the unchanged tree -0.0 comes back as +0.0 and a signalling NaN comes back "
        "as the same NaN quieted (witness audit/witness/R3-C13-obs1.cc); exactly these two input families with exactly "
        "that output are counted in point_roundtrip_bitdiff_not_judged, any other bit difference (every integral value, "
        "every other floating pattern) is a violation",
        "reading of the operator sentence: its operator list (% unary+- * /) has no QuantityPoint subject, so it is about "
        "Quantity. The same-unit point operators that exist (six comparisons, p-p, p+d, d+p, p-d, p+=d, p-=d; d = "
        "Quantity of the same unit and rep) are judged on VALUE only (numerically: sign of zero ignored, NaN==NaN) on "
        "operand pairs whose raw result is defined and is a value of R; they must compile for reps of rank >= int "
        "(a rejection for a sub-int rep is counted, not judged); their result type/unit and their usability in constant "
        "expressions are recorded in counters, not judged",
        "constant-expression probes: the raw operators on R are constant expressions for constant operands; the wrapper "
        "is required to be one too on all six configurations (operands 5, 3, scalar 2); data_in is not declared "
        "constexpr by the library and is exercised at run time only",
        "same-unit mixed-rep pairs (meters(int8) + meters(int32)) go through the common-type machinery and belong to C08",
    ]


# ------------------------------------------------------------------------------------------------ replay
def replay(path):
    r = json.load(open(path))
    cfg = _cfg(r["cfg"])
    u = {x.name: x for x in all_units()}[r["unit"]]
    rep = r["rep"]
    wd = os.path.join(core.BUILD, "C13", "replay")
    os.makedirs(wd, exist_ok=True)
    hit = None
    if r["kind"] == "layout":
        res, failed = psx.run_dump(cfg, [L.layout_record(0, u, rep)], wd, "rp", L.DUMP_PREAMBLE)
        hit = failed.get(0) or (judge_layout(res[0]) or None)
    elif r["kind"] == "type":
        res, failed = psx.run_dump(cfg, [L.type_record(0, u, rep)], wd, "rp", L.DUMP_PREAMBLE)
        if 0 in failed:
            hit = failed[0]
        elif r.get("op") == "def_in":
            hit = None if res[0]["def_in"] else "def_in is false"
        elif "op" in r:
            j = judge_type(res[0], r["op"])
            hit = j[1] if j else None
    elif r["kind"] == "probe":
        op = L.find_op(rep, r["op"])
        plain, _ = core.run_probes(cfg, [core.Probe(0, L.probe_code(u, rep, op), "accept")], wd, "rp", L.PROBE_PREAMBLE)
        if r.get("mode", "plain") == "plain":
            hit = (plain[0][1] or "rejected") if plain[0][0] == "reject" else None
        elif plain[0][0] == "accept":
            const, _ = core.run_probes(cfg, [core.Probe(0, L.probe_code(u, rep, op, constant=True), "accept")], wd, "rpc",
                                       L.PROBE_PREAMBLE)
            hit = (const[0][1] or "rejected in a constant expression") if const[0][0] == "reject" else None
    elif r["kind"] == "value":
        res, failed = psx.run_dump(cfg, [L.single_value_record(u, rep, r["op"], r["a"], r["b"])], wd, "rp",
                                   L.DUMP_PREAMBLE, flags=r.get("flags", []))
        if 0 in failed:
            hit = "no longer compiles: " + failed[0]
        elif res[0]["defined"] and not res[0]["same"]:
            hit = "got %s, raw operator gives %s" % (res[0]["got"], res[0]["want"])
    if hit:
        print("reproduced: %s :: %s" % (r["key"], hit))
        print("VIOLATION property=C13 replay=%s" % path)
        return 1
    print("not reproduced on the current tree: %s" % r["key"])
    return 0
