"""C13 — Quantity / QuantityPoint are zero-overhead transparent wrappers of the rep.

Program space (all six compiler configurations, both tiers):
  layout facts   (every library unit + generated units) x R11, Quantity and QuantityPoint
  result types   decltype of every operator result vs decltype of the raw operator   (ops units x R11)
  acceptance     every operator use must compile                                     (ops units x R11)
Value space (compiled harness, oracle = the raw built-in operator on R; definedness by 128-bit ints):
  all 65536 operand pairs of int8_t / uint8_t, edge-window pairs for wider reps, structured
  floating pairs (NaN payloads, inf, signed zeros, denormals); unary ops and unit(x).in(unit) on all
  8/16-bit values and on every-exponent floating alphabets; thorough: all 2^32 float bit patterns.
"""
import json
import os
import re

from .. import core, psx
from .. import c13_lib as L
from ..c13_units import PREAMBLE, QUICK_OPS, THOROUGH_OPS_LIB, all_units
from ..core import R11

LEVEL = "exploration"
TRAPPED = []

_INFRA = re.compile(r"fatal error|No such file|cannot open|\.pch|\.gch|internal compiler error|Killed|"
                    r"out of memory|Bus error|Segmentation", re.I)


def _guard(diag):
    """A compile failure caused by the environment (PCH wiped by a concurrent run, OOM) is never a verdict."""
    if _INFRA.search(diag or ""):
        raise core.InfraError("compile failed for environmental reasons: %s" % diag[:400])


def _cfg(desc):
    return core.Cfg(desc[0], desc[1])


# ------------------------------------------------------------------------------------------------ judges
def judge_layout(o):
    bad = []
    for k in ("q", "p"):
        if o[k + "_size"] != o["r_size"]:
            bad.append((k + "_size", "sizeof is %d, sizeof(R) is %d" % (o[k + "_size"], o["r_size"])))
        if o[k + "_align"] != o["r_align"]:
            bad.append((k + "_align", "alignof is %d, alignof(R) is %d" % (o[k + "_align"], o["r_align"])))
    for f in L.LAYOUT_TRUE:
        if not o[f]:
            bad.append((f, "%s is false" % f))
    return bad


def judge_type(o, oid):
    if o[oid + "|ti"] and o[oid + "|rf"]:
        return None
    if not o[oid + "|ti"]:
        return "Au result type is %s, the raw operator yields %s" % (o[oid + "|au"], o[oid + "|raw"])
    return "value category differs from the raw operator (lvalue-ness)"


def _multi(cfgs, fn, workers=3):
    return dict(zip([c.name for c in cfgs], core.pmap(fn, cfgs, workers=workers)))


def _chunk(n):
    # ~10 TUs per configuration (three configurations run concurrently): loading the PCH costs more than a record
    return max(8, -(-n // 10))


# ------------------------------------------------------------------------------------------------ sweeps
def build_sweeps(wd, cfg, flags, units, accepted, nparts):
    """One TU per unit; returns (stats, viols). accepted: unit name -> [(rep, opname)]."""
    os.makedirs(wd, exist_ok=True)
    core.pch_dir(cfg, flags)

    def build(u):
        stem = os.path.join(wd, "sw_%s_%s" % (cfg.name, re.sub(r"\W", "_", u.name)))
        L.sweep_tu(stem + ".cc", u, accepted[u.name], R11)
        rc, err = core.build_exe(cfg, stem + ".cc", stem, flags)
        if rc != 0:
            _guard(err)
            raise core.InfraError("C13 sweep TU does not build although every operator in it was accepted "
                                  "alone (%s):\n%s" % (stem, err[-2500:]))
        return stem

    exes = core.pmap(build, units)

    def runexe(job):
        exe, part = job
        rc, out, err = core.sh([exe, str(part), str(nparts)], timeout=3000)
        if rc == 86 and "trap-signal" in out:
            TRAPPED.append(exe)     # a trap inside the library, reported by the harness as a V line; the rest of this part did not run
        elif rc != 0:
            raise core.InfraError("C13 sweep binary %s failed rc=%d: %s" % (exe, rc, err[-1500:]))
        return L.parse_sv(out)

    stats, viols = [], []
    for s, v in core.pmap(runexe, [(e, p) for e in exes for p in range(nparts)]):
        stats += s
        viols += v
    for e in exes:
        try:
            os.remove(e)
        except OSError:
            pass
    return stats, viols


def check(run):
    tier = run.tier
    units = all_units()
    by_name = {u.name: u for u in units}
    ops_units = [by_name[n] for n in QUICK_OPS]
    if tier == "thorough":   # + every generated unit + a spread of further library units
        ops_units += [u for u in units if (not u.lib or u.name in THOROUGH_OPS_LIB) and u not in ops_units]
    cfgs = core.CFG6
    core.warm_pch(cfgs)
    n_eval = 0
    samples = []
    phase = {}

    def mark(name):
        phase[name] = round(run.elapsed() - sum(phase.values()), 1)

    written = [0]

    def report(key, what, art):
        if run.match_known(key) is None and written[0] < 60:   # finish() prints at most 50
            written[0] += 1
            run.violation(key, what, run.write_replay(key, dict(art, what=what)))
        else:
            run.violation(key, what)

    # ---- 1. layout facts: all units x R11 x CFG6
    lay, lmeta = [], {}
    for u in units:
        for rep in R11:
            rid = len(lay)
            lay.append(L.layout_record(rid, u, rep))
            lmeta[rid] = (u, rep)
    out = _multi(cfgs, lambda c: psx.run_dump(c, lay, os.path.join(run.wd, "layout"), "lay", L.DUMP_PREAMBLE,
                                              chunk=_chunk(len(lay))))
    n_layout = 0
    for cfg in cfgs:
        res, failed = out[cfg.name]
        for rid, diag in sorted(failed.items()):
            _guard(diag)
            u, rep = lmeta[rid]
            key = "C13:no-compile:layout:rep=%s:unit=%s:cfg=%s" % (rep, u.name, cfg.name)
            report(key, "%s: Quantity/QuantityPoint<%s, %s> layout and default-construction program is rejected: %s"
                   % (cfg, u.cpp, rep, diag), {"kind": "layout", "cfg": [cfg.cxx, cfg.std], "unit": u.name, "rep": rep})
        for rid, o in sorted(res.items()):
            u, rep = lmeta[rid]
            if not o["mk"]:
                raise core.InfraError("unit table: maker/point maker of %s is not QuantityMaker<%s>" % (u.name, u.cpp))
            n_layout += 4 + len(L.LAYOUT_TRUE)
            for fact, msg in judge_layout(o):
                key = "C13:layout:%s:rep=%s:unit=%s:cfg=%s" % (fact, rep, u.name, cfg.name)
                report(key, "%s: %s<%s, %s>: %s" % (cfg, "Quantity" if fact[0] == "q" else "QuantityPoint", u.cpp, rep, msg),
                       {"kind": "layout", "cfg": [cfg.cxx, cfg.std], "unit": u.name, "rep": rep, "fact": fact})
        if len(res) + len(failed) != len(lay):
            raise core.InfraError("layout dump lost records under %s" % cfg)
    n_eval += n_layout
    mark("layout")
    samples.append({"layout": "sizeof/alignof/traits/default-construction of Quantity and QuantityPoint<%s, %s>"
                    % (units[-1].cpp, "long double")})

    # ---- 2. result types: ops units x R11 x operators x CFG6 (decltype only: independent of acceptance)
    typ, tmeta = [], {}
    for u in ops_units:
        for rep in R11:
            rid = len(typ)
            typ.append(L.type_record(rid, u, rep))
            tmeta[rid] = (u, rep)
    out = _multi(cfgs, lambda c: psx.run_dump(c, typ, os.path.join(run.wd, "types"), "typ", L.DUMP_PREAMBLE,
                                              chunk=_chunk(len(typ))))
    n_types = type_mismatch = 0
    for cfg in cfgs:
        res, failed = out[cfg.name]
        for rid, diag in sorted(failed.items()):
            _guard(diag)
            u, rep = tmeta[rid]
            key = "C13:no-compile:types:rep=%s:unit=%s:cfg=%s" % (rep, u.name, cfg.name)
            report(key, "%s: naming the operator result types of Quantity<%s, %s> in decltype is rejected: %s"
                   % (cfg, u.cpp, rep, diag), {"kind": "type", "cfg": [cfg.cxx, cfg.std], "unit": u.name, "rep": rep})
        for rid, o in sorted(res.items()):
            u, rep = tmeta[rid]
            n_types += 1
            if not o["def_in"]:
                key = "C13:layout:def_in:rep=%s:unit=%s:cfg=%s" % (rep, u.name, cfg.name)
                report(key, "%s: default-constructed Quantity/QuantityPoint<%s, %s> does not read back as %s{} through .in(unit)"
                       % (cfg, u.cpp, rep, rep), {"kind": "type", "cfg": [cfg.cxx, cfg.std], "unit": u.name, "rep": rep, "op": "def_in"})
            for op in L.ops_for(rep):
                n_types += 1
                msg = judge_type(o, op.oid)
                if msg:
                    type_mismatch += 1
                    key = "C13:result-type:op=%s:rep=%s:unit=%s:cfg=%s" % (op.oid, rep, u.name, cfg.name)
                    report(key, "%s: `%s` on Quantity<%s, %s>: %s" % (cfg, op.au.format(**L._EVAL), u.cpp, rep, msg),
                           {"kind": "type", "cfg": [cfg.cxx, cfg.std], "unit": u.name, "rep": rep, "op": op.oid})
    n_eval += n_types
    mark("types")

    # ---- 3. acceptance: every operator use must compile.  Sub-int reps (where integral promotion makes the raw
    #         result type differ from R) are batched per operator so that one rejected family cannot push
    #         unrelated probes into one-by-one recompilation.
    SUB = ("int8_t", "uint8_t", "int16_t", "uint16_t")
    plist = []
    for u in ops_units:
        for rep in R11:
            for op in L.ops_for(rep):
                if tier == "thorough" or op.S == "R":
                    plist.append((rep not in SUB, op.oid, rep, u.name))
    plist.sort()
    pmeta = {}
    probes = []
    for i, (_, oid, rep, un) in enumerate(plist):
        op = [o for o in L.ops_for(rep) if o.oid == oid][0]
        probes.append(core.Probe(i, L.probe_code(by_name[un], rep, op), "accept"))
        pmeta[i] = (by_name[un], rep, op)
    n_sub = sum(1 for x in plist if not x[0])

    def probe_cfg(c):
        wd = os.path.join(run.wd, "probes")
        r1, _ = core.run_probes(c, probes[:n_sub], wd, "accS", PREAMBLE, batch=len(SUB) * len(ops_units))
        r2, _ = core.run_probes(c, probes[n_sub:], wd, "accW", PREAMBLE, batch=64)
        r1.update(r2)
        return r1

    out = _multi(cfgs, probe_cfg)
    accepted = {}   # cfg name -> unit name -> [(rep, opname)]
    n_rejected = 0
    for cfg in cfgs:
        acc = accepted.setdefault(cfg.name, {u.name: [] for u in ops_units})
        for i in sorted(pmeta):
            u, rep, op = pmeta[i]
            v, diag = out[cfg.name][i]
            if v == "accept":
                if op.S == "R":
                    acc[u.name].append((rep, op.name))
                continue
            _guard(diag)
            n_rejected += 1
            key = "C13:no-compile:op=%s:rep=%s:unit=%s:cfg=%s" % (op.oid, rep, u.name, cfg.name)
            report(key, "%s rejects `%s` for %s of rep %s (the raw operator on %s compiles): %s"
                   % (cfg, op.au.format(**L._EVAL), u.maker, rep, rep, diag),
                   {"kind": "probe", "cfg": [cfg.cxx, cfg.std], "unit": u.name, "rep": rep, "op": op.oid})
    n_eval += len(probes) * len(cfgs)
    mark("probes")
    samples.append({"probe": probes[len(probes) // 2].code})

    # ---- 4. value sweeps against the raw operators
    if tier == "quick":
        sweep_cfgs = [(core.GXX14, []), (core.CLANG20, ["-O2"])]
    else:
        sweep_cfgs = [(core.GXX14, []), (core.CLANG20, ["-O2"]), (core.GXX20, ["-O2"]), (core.CLANG14, [])]
    nontrivial = set()
    n_sweep = n_skipped = 0
    per_rep = {}
    done_cfgs = []

    def do_sweep(cfg, flags):
        nonlocal n_sweep, n_skipped
        stats, viols = build_sweeps(os.path.join(run.wd, "sweep"), cfg, flags, ops_units, accepted[cfg.name], 3)
        want = sum(len(accepted[cfg.name][u.name]) + len(R11) for u in ops_units)
        base = [x for x in stats if "@" not in x["op"]]          # "op@S" = extra mixed-scalar-type sweeps
        if len(base) != want and not TRAPPED:
            raise core.InfraError("sweep under %s produced %d instance summaries, expected %d" % (cfg, len(base), want))
        if len(stats) == len(base):
            raise core.InfraError("no mixed-scalar-type sweeps were run under %s" % cfg)
        for s in stats:
            if s["evals"] == 0:
                raise core.InfraError("vacuous sweep instance: %s" % s)
            n_sweep += s["evals"]
            n_skipped += s["skipped"]
            per_rep[s["rep"]] = per_rep.get(s["rep"], 0) + s["evals"]
            if s["varied"]:
                nontrivial.add((s["unit"], s["rep"], s["op"]))
        cname = "%s%s" % (cfg.name, "".join(flags))
        done_cfgs.append(cname)
        for v in viols:
            u = by_name[v["unit"]]
            key = "C13:value:op=%s:rep=%s:unit=%s:a=%s:b=%s:cfg=%s" % (v["op"], v["rep"], v["unit"], v["a"], v["b"], cfg.name)
            what = ("%s %s: %s on %s(%s{%s})%s gives %s (%s) but the raw operator on %s gives %s (%s)" % (
                cfg, " ".join(flags) or "-O0", v["op"], u.maker, v["rep"], v["ah"],
                (" and %s{%s}" % (v["rep"], v["bh"])) if v["b"] else "", v["got"], v["got_t"], v["rep"], v["want"], v["want_t"]))
            report(key, what, {"kind": "value", "cfg": [cfg.cxx, cfg.std], "flags": flags, "unit": v["unit"],
                               "rep": v["rep"], "op": v["op"], "a": v["a"], "b": v["b"]})
        if not samples or "sweep" not in samples[-1]:
            samples.append({"sweep": [s for s in stats if s["rep"] in ("int8_t", "float")][:4]})

    # ---- 5. thorough: every one of the 2^32 float bit patterns through unit(x).in(unit)
    f32 = {"float_patterns_roundtripped": 0, "float_2pow32_complete": False}

    def do_f32():
        f_units = [by_name["meters"], by_name["gen.MPS"]]
        wd = os.path.join(run.wd, "f32")
        os.makedirs(wd, exist_ok=True)
        exes = []
        for cfg, flags in ((core.GXX14, []), (core.CLANG20, ["-O2"])):
            stem = os.path.join(wd, "f32_%s" % cfg.name)
            L.f32_tu(stem + ".cc", f_units)
            rc, err = core.build_exe(cfg, stem + ".cc", stem, flags)
            if rc != 0:
                _guard(err)
                raise core.InfraError("f32 round-trip TU failed to build: %s" % err[-2000:])
            exes.append((cfg, flags, stem))
        NP = 64
        step = 2 ** 32 // NP
        complete = True
        for cfg, flags, exe in exes:
            def part(i, exe=exe):
                if run.time_left() < 60:
                    return None
                rc, o, e = core.sh([exe, str(i * step), str((i + 1) * step)], timeout=3000)
                if rc != 0:
                    raise core.InfraError("f32 binary failed: %s" % e[-800:])
                return L.parse_sv(o)
            for r in core.pmap(part, range(NP)):
                if r is None:
                    complete = False
                    continue
                for s in r[0]:
                    f32["float_patterns_roundtripped"] += s["evals"]
                for v in r[1]:
                    key = "C13:value:op=roundtrip:rep=float:unit=%s:a=%s:b=:cfg=%s" % (v["unit"], v["a"], cfg.name)
                    report(key, "%s: %s(x).in(%s) for float bits %s returns bits %s" % (cfg, v["unit"], v["unit"], v["a"], v["got"]),
                           {"kind": "value", "cfg": [cfg.cxx, cfg.std], "flags": flags, "unit": v["unit"], "rep": "float",
                            "op": "roundtrip", "a": v["a"], "b": ""})
        f32["float_2pow32_complete"] = complete
        mark("f32")

    # order: the two main sweep configurations, then (thorough) all 2^32 float patterns, then the extra sweep
    # configurations while the deadline allows
    for i, (cfg, flags) in enumerate(sweep_cfgs):
        if i == 2:
            mark("sweeps_main")
            do_f32()
        if i >= 2 and run.time_left() < 420:
            break
        do_sweep(cfg, flags)
    n_eval += n_sweep + f32["float_patterns_roundtripped"]
    mark("sweeps" if tier == "quick" else "sweeps_extra")

    if len(nontrivial) < 2:
        raise core.InfraError("vacuity: fewer than 2 sweep instances saw more than one distinct result")
    run.cov.update({
        "evaluations": n_eval,
        "distinct_nontrivial": len(nontrivial),
        "rule": ("Enumerated: (a) layout: every library unit and %d generated units x 11 reps x {Quantity, QuantityPoint} x 6 "
                 "compiler configurations, 16 facts each; (b) result types: ops-units x 11 reps x every operator "
                 "(same-unit + - %% unary+- += -=, six comparisons, scalar * / *= /= with scalar in {R, int32_t, double}) "
                 "x 6 configurations, decltype vs the raw operator's decltype; (c) acceptance probe of each such "
                 "operator use x 6 configurations (quick: scalar type R only); (d) compiled value sweeps per (unit, rep, operator): all 65536 operand "
                 "pairs for 8-bit reps, edge-window pairs for 16/32/64-bit, structured floating pairs; unary ops and "
                 "unit(x).in(unit) on all 8/16-bit values, +-512/+-4096 windows for 32/64-bit, every exponent x "
                 "mantissa patterns x sign for floating reps; expected value = raw operator on R, cases where the raw "
                 "operation is undefined (division by zero, MIN/-1, signed overflow in the promoted type) are skipped "
                 "and counted. distinct_nontrivial = number of distinct (unit, rep, operator) sweep instances on which "
                 "the raw operator produced at least two different results (so agreement is not constant-vs-constant)."
                 % sum(1 for u in units if not u.lib)),
        "samples": samples,
        "exhaustive": len(done_cfgs) == len(sweep_cfgs) and (tier != "thorough" or f32["float_2pow32_complete"]),
        "exhaustive_note": ("complete over the stated finite alphabets (all 8-bit operand pairs, all 8/16-bit values, "
                            "all units x reps x configurations); 32/64-bit and double/long double values are covered on the "
                            "stated windows/structured alphabets only" +
                            ("; float round trip over all 2^32 patterns" if f32["float_2pow32_complete"] else "") +
                            ("" if len(done_cfgs) == len(sweep_cfgs) else "; deadline guard stopped the value sweeps after %s" % done_cfgs)),
        "units_layout": len(units), "units_ops": len(ops_units), "configs": [str(c) for c in cfgs],
        "layout_facts_checked": n_layout, "result_types_checked": n_types, "result_type_mismatches": type_mismatch,
        "acceptance_probes": len(probes) * len(cfgs), "acceptance_rejected": n_rejected,
        "sweep_evaluations": n_sweep, "sweep_skipped_undefined_raw": n_skipped, "sweep_configs": done_cfgs,
        "sweep_evaluations_per_rep": per_rep, "phase_wall_s": phase,
    })
    run.cov.update(f32)
    run.assumptions += [
        "g++ 12 / clang 14 on x86-64 LP64 execute the compiled harness faithfully",
        "the raw built-in operator on R is the reference; whether it is defined is decided by 128-bit integer arithmetic",
        "floating results that are NaN are compared as 'both NaN' (payload propagation depends on operand order in the "
        "instruction chosen by the compiler); every other floating result is compared bit-for-bit",
        "x87 long double: only valid encodings (integer bit = exponent != 0) are enumerated; padding bytes are ignored",
        "compound *= /= of an integral rep by a floating scalar is documented as unsupported and not probed",
    ]


# ------------------------------------------------------------------------------------------------ replay
def replay(path):
    r = json.load(open(path))
    cfg = _cfg(r["cfg"])
    u = {x.name: x for x in all_units()}[r["unit"]]
    rep = r["rep"]
    wd = os.path.join(core.BUILD, "C13", "replay")
    os.makedirs(wd, exist_ok=True)
    hit = None
    if r["kind"] == "layout":
        res, failed = psx.run_dump(cfg, [L.layout_record(0, u, rep)], wd, "rp", L.DUMP_PREAMBLE)
        hit = failed.get(0) or (judge_layout(res[0]) or None)
    elif r["kind"] == "type":
        res, failed = psx.run_dump(cfg, [L.type_record(0, u, rep)], wd, "rp", L.DUMP_PREAMBLE)
        hit = failed.get(0) or (None if "op" not in r else ("def_in is false" if not res[0]["def_in"] else None)
                                if r["op"] == "def_in" else judge_type(res[0], r["op"]))
    elif r["kind"] == "probe":
        op = [o for o in L.ops_for(rep) if o.oid == r["op"]][0]
        res, _ = core.run_probes(cfg, [core.Probe(0, L.probe_code(u, rep, op), "accept")], wd, "rp", PREAMBLE)
        hit = res[0][1] or "rejected" if res[0][0] == "reject" else None
    elif r["kind"] == "value":
        res, failed = psx.run_dump(cfg, [L.single_value_record(u, rep, r["op"], r["a"], r["b"])], wd, "rp",
                                   L.DUMP_PREAMBLE, flags=r.get("flags", []))
        if 0 in failed:
            hit = "no longer compiles: " + failed[0]
        elif res[0]["defined"] and not res[0]["same"]:
            hit = "got %s, raw operator gives %s" % (res[0]["got"], res[0]["want"])
    if hit:
        print("reproduced: %s :: %s" % (r["key"], hit))
        print("VIOLATION property=C13 replay=%s" % path)
        return 1
    print("not reproduced on the current tree: %s" % r["key"])
    return 0
